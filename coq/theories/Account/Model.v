(** C20 — ACME account: registered once, persisted, reused.  Executable model only.

    What is modelled (read from acmeclient.go, account.go, acmeissuer.go as they are now):

    * [doIssue] for one (CA, contact): [newACMEClientWithAccount] = load (reg file, then key
      file) -> if either is absent: Lock -> reload -> (still absent) newAccount at the CA ->
      saveAccount = storeTx [reg; key] with rollback (Delete reg, error ignored) -> Unlock;
      then the order; when the CA answers accountDoesNotExist on the first attempt:
      deleteAccountLocallyIfCurrent = Lock (the registration lock) -> load the stored account
      (reg file, key file) -> only if it is complete and its Location is the rejected account's:
      deleteAccountLocally (Delete reg, Delete key, of the directory in use) -> Unlock; then a
      second [newACMEClientWithAccount], and one retry with the recreated account.
    * any number of such threads (instances / goroutines / restarts), on any number of CAs
      ([ca] = index: 0 production, 1 test, ...) sharing one storage and one registration lock
      (the lock name depends on the contact only, not on the CA);
    * storage faults on every operation, crashes (thread stops; a held lock is released by the
      staleness rule), CA re-installation ([Reset]: every account so far is forgotten).
    * the CA double: accounts of CA [c] are numbered 1,2,.. in creation order; account [a] is
      live iff [forgotten c < a <= created c]; an order with an unknown kid is answered
      accountDoesNotExist, with a known kid but another account's key "unauthorized".
    * the URL rule of [secureCAURL]/[newBasicACMEClient]/[newACMEClient] ([client_dir]).

    Ghost counters (never read by the transitions): failed saves, crashes inside the
    register..save window, deletions by the recreate path, resets — the theorems are stated
    with them. *)
From CM Require Import Lib.Str Gen.Consts.
From Coq Require Import Arith.
Open Scope nat_scope.

Definition ca := nat.
Definition acct := nat.
Definition tid := nat.

(** the two files of one (CA, contact): which account's registration / private key they hold *)
Record slot := Slot { s_reg : option acct; s_key : option acct }.
Definition empty_slot := Slot None None.
Definition full (sl : slot) : bool :=
  match s_reg sl, s_key sl with Some _, Some _ => true | _, _ => false end.
Definition has_reg (sl : slot) : bool := match s_reg sl with Some _ => true | None => false end.
Definition has_key (sl : slot) : bool := match s_key sl with Some _ => true | None => false end.

(** an account in memory: Location (from the reg file) and private key (from the key file) *)
Record macct := MA { m_loc : acct; m_key : acct }.

Inductive pc :=
| Idle
| LoadReg (locked : bool)            (* about to Load the reg file (locked: the reload under the lock) *)
| LoadKey (locked : bool) (r : acct) (* reg file held account r; about to Load the key file *)
| WantLock                           (* account absent: in Storage.Lock *)
| Register                           (* lock held, still absent: about to POST newAccount *)
| StoreReg (a : acct)                (* registered a; storeTx: about to Store the reg file *)
| StoreKey (a : acct)
| Rollback (a : acct)                (* Store key failed: about to Delete the reg file (error ignored) *)
| Unlock (res : option macct)        (* deferred releaseLock; then continue with res *)
| Order (m : macct) (attempt : nat)  (* ObtainCertificate with account m *)
| DWantLock (m : macct)              (* CA said m does not exist: deleteAccountLocallyIfCurrent, in Storage.Lock *)
| DLoadReg (m : macct)               (* lock held: about to Load the reg file *)
| DLoadKey (m : macct) (r : acct)    (* reg file held account r; about to Load the key file *)
| DelReg (m : macct)                 (* the stored account is m: deleteAccountLocally, reg file *)
| DelKey (m : macct)
| DUnlock (ok : bool)                (* deferred releaseLock; ok: go on to recreate the account, else: error *)
| Done (res : option macct).         (* Some m: certificate issued with account m; None: error *)

Record thread := Thread { t_ca : ca; t_pc : pc; t_att : nat }.

Record state := State {
  slots : ca -> slot;
  created : ca -> nat;          (* number of accounts CA c has created *)
  forgotten : ca -> nat;        (* accounts 1..forgotten c no longer exist at CA c *)
  lock : option tid;
  thr : tid -> thread;
  (* ghost *)
  fsaves : ca -> nat;           (* failed Store operations of saveAccount; a newAccount whose response
                                   is lost after the CA created the account is the sequence "registered;
                                   the first Store fails" (same effect on every component), see Check.v *)
  crashes : ca -> nat;          (* crashes between a successful newAccount and the end of its save *)
  deletes : ca -> nat;          (* successful Deletes of deleteAccountLocally *)
  resets : ca -> nat
}.

Definition upd {A} (f : nat -> A) (k : nat) (v : A) : nat -> A :=
  fun x => if Nat.eqb x k then v else f x.

Definition init : state :=
  State (fun _ => empty_slot) (fun _ => 0) (fun _ => 0) None (fun _ => Thread 0 Idle 0)
        (fun _ => 0) (fun _ => 0) (fun _ => 0) (fun _ => 0).

Inductive label :=
| Start (t : tid) (c : ca)        (* a doIssue / newACMEClientWithAccount for CA c begins *)
| Op (t : tid) (fault : bool)     (* thread t performs its next visible operation *)
| Crash (t : tid)
| Reset (c : ca).

Definition live (s : state) (c : ca) (a : acct) : bool :=
  (forgotten s c <? a) && (a <=? created s c).

(* setters *)
Definition set_pc (s : state) (t : tid) (p : pc) : state :=
  State (slots s) (created s) (forgotten s) (lock s)
        (upd (thr s) t (Thread (t_ca (thr s t)) p (t_att (thr s t))))
        (fsaves s) (crashes s) (deletes s) (resets s).
Definition set_lock (s : state) (l : option tid) : state :=
  State (slots s) (created s) (forgotten s) l (thr s) (fsaves s) (crashes s) (deletes s) (resets s).
Definition set_slot (s : state) (c : ca) (sl : slot) : state :=
  State (upd (slots s) c sl) (created s) (forgotten s) (lock s) (thr s)
        (fsaves s) (crashes s) (deletes s) (resets s).
Definition inc_created (s : state) (c : ca) : state :=
  State (slots s) (upd (created s) c (S (created s c))) (forgotten s) (lock s) (thr s)
        (fsaves s) (crashes s) (deletes s) (resets s).
Definition inc_fsaves (s : state) (c : ca) : state :=
  State (slots s) (created s) (forgotten s) (lock s) (thr s)
        (upd (fsaves s) c (S (fsaves s c))) (crashes s) (deletes s) (resets s).
Definition inc_crashes (s : state) (c : ca) : state :=
  State (slots s) (created s) (forgotten s) (lock s) (thr s)
        (fsaves s) (upd (crashes s) c (S (crashes s c))) (deletes s) (resets s).
Definition inc_deletes (s : state) (c : ca) : state :=
  State (slots s) (created s) (forgotten s) (lock s) (thr s)
        (fsaves s) (crashes s) (upd (deletes s) c (S (deletes s c))) (resets s).
Definition set_att (s : state) (t : tid) (n : nat) : state :=
  State (slots s) (created s) (forgotten s) (lock s)
        (upd (thr s) t (Thread (t_ca (thr s t)) (t_pc (thr s t)) n))
        (fsaves s) (crashes s) (deletes s) (resets s).

Definition fail_path (locked : bool) : pc := if locked then Unlock None else Done None.
Definition absent_path (locked : bool) : pc := if locked then Register else WantLock.
Definition loaded_path (locked : bool) (att : nat) (m : macct) : pc :=
  if locked then Unlock (Some m) else Order m att.

Definition in_save_window (p : pc) : bool :=
  match p with StoreReg _ | StoreKey _ => true | _ => false end.
Definition is_idle (p : pc) : bool := match p with Idle => true | _ => false end.
Definition finished (p : pc) : bool := match p with Idle | Done _ => true | _ => false end.

(** one visible operation of thread t (fault: the operation returns an injected error and has
    no effect) *)
Definition op_step (s : state) (t : tid) (fault : bool) : option state :=
  let th := thr s t in
  let c := t_ca th in
  let sl := slots s c in
  match t_pc th with
  | Idle | Done _ => None
  | LoadReg lk =>
      if fault then Some (set_pc s t (fail_path lk))
      else match s_reg sl with
           | None => Some (set_pc s t (absent_path lk))
           | Some r => Some (set_pc s t (LoadKey lk r))
           end
  | LoadKey lk r =>
      if fault then Some (set_pc s t (fail_path lk))
      else match s_key sl with
           | None => Some (set_pc s t (absent_path lk))
           | Some k => Some (set_pc s t (loaded_path lk (t_att th) (MA r k)))
           end
  | WantLock =>
      if fault then Some (set_pc s t (Done None))
      else match lock s with
           | None => Some (set_pc (set_lock s (Some t)) t (LoadReg true))
           | Some _ => None
           end
  | Register =>
      if fault then Some (set_pc s t (Unlock None))
      else Some (set_pc (inc_created s c) t (StoreReg (S (created s c))))
  | StoreReg a =>
      if fault then Some (set_pc (inc_fsaves s c) t (Unlock None))
      else Some (set_pc (set_slot s c (Slot (Some a) (s_key sl))) t (StoreKey a))
  | StoreKey a =>
      if fault then Some (set_pc (inc_fsaves s c) t (Rollback a))
      else Some (set_pc (set_slot s c (Slot (s_reg sl) (Some a))) t (Unlock (Some (MA a a))))
  | Rollback a =>
      if fault then Some (set_pc s t (Unlock None))
      else Some (set_pc (set_slot s c (Slot None (s_key sl))) t (Unlock None))
  | Unlock res =>
      (* a failed Unlock is logged and otherwise ignored: the thread goes on, the lock stays
         (until the Locker's staleness rule hands it on, which is not modelled) *)
      if fault
      then Some (set_pc s t (match res with Some m => Order m (t_att th) | None => Done None end))
      else Some (set_pc (set_lock s None) t
                        (match res with Some m => Order m (t_att th) | None => Done None end))
  | Order m i =>
      if fault then Some (set_pc s t (Done None))
      else if live s c (m_loc m) then
             (if Nat.eqb (m_loc m) (m_key m) then Some (set_pc s t (Done (Some m)))
              else Some (set_pc s t (Done None)))
           else (if Nat.eqb i 0 then Some (set_pc s t (DWantLock m)) else Some (set_pc s t (Done None)))
  | DWantLock m =>
      if fault then Some (set_pc s t (Done None))
      else match lock s with
           | None => Some (set_pc (set_lock s (Some t)) t (DLoadReg m))
           | Some _ => None
           end
  | DLoadReg m =>
      if fault then Some (set_pc s t (DUnlock false))
      else match s_reg sl with
           | None => Some (set_pc s t (DUnlock true))          (* fs.ErrNotExist: already deleted *)
           | Some r => Some (set_pc s t (DLoadKey m r))
           end
  | DLoadKey m r =>
      if fault then Some (set_pc s t (DUnlock false))
      else match s_key sl with
           | None => Some (set_pc s t (DUnlock true))
           | Some _ =>
               if Nat.eqb r (m_loc m) then Some (set_pc s t (DelReg m))
               else Some (set_pc s t (DUnlock true))           (* already replaced by a newer account *)
           end
  | DelReg m =>
      if fault then Some (set_pc s t (DUnlock false))
      else Some (set_pc (inc_deletes (set_slot s c (Slot None (s_key sl))) c) t (DelKey m))
  | DelKey m =>
      if fault then Some (set_pc s t (DUnlock false))
      else Some (set_pc (inc_deletes (set_slot s c (Slot (s_reg sl) None)) c) t (DUnlock true))
  | DUnlock ok =>
      if fault
      then (if ok then Some (set_pc (set_att s t 1) t (LoadReg false)) else Some (set_pc s t (Done None)))
      else (if ok then Some (set_pc (set_att (set_lock s None) t 1) t (LoadReg false))
            else Some (set_pc (set_lock s None) t (Done None)))
  end.

(** a crash inside the register..save window is counted; a lock held by the crashed thread is
    released (the storage's staleness rule) *)
Definition count_crash (s : state) (th : thread) : state :=
  if in_save_window (t_pc th) then inc_crashes s (t_ca th) else s.
Definition release (s : state) (t : tid) : state :=
  match lock s with
  | Some h => if Nat.eqb h t then set_lock s None else s
  | None => s
  end.

Definition step (s : state) (l : label) : option state :=
  match l with
  | Start t c =>
      if is_idle (t_pc (thr s t))
      then Some (State (slots s) (created s) (forgotten s) (lock s)
                       (upd (thr s) t (Thread c (LoadReg false) 0))
                       (fsaves s) (crashes s) (deletes s) (resets s))
      else None
  | Op t f => op_step s t f
  | Crash t =>
      let th := thr s t in
      if finished (t_pc th) then None
      else Some (set_pc (release (count_crash s th) t) t (Done None))
  | Reset c =>
      Some (State (slots s) (created s) (upd (forgotten s) c (created s c)) (lock s) (thr s)
                  (fsaves s) (crashes s) (deletes s) (upd (resets s) c (S (resets s c))))
  end.

Fixpoint run (s : state) (ls : list label) : option state :=
  match ls with
  | [] => Some s
  | l :: r => match step s l with Some s' => run s' r | None => None end
  end.

Definition reachable (s : state) : Prop := exists ls, run init ls = Some s.

(** an Unlock that fails (the lock stays held although its holder has left the locked region) *)
Definition unlock_fault (s : state) (l : label) : bool :=
  match l with
  | Op t true => match t_pc (thr s t) with Unlock _ | DUnlock _ => true | _ => false end
  | _ => false
  end.
Fixpoint unlock_faults (s : state) (ls : list label) : nat :=
  match ls with
  | [] => 0
  | l :: r => (if unlock_fault s l then 1 else 0) +
              match step s l with Some s' => unlock_faults s' r | None => 0 end
  end.

(** sequential schedules: a thread takes steps only while every other thread is idle or
    finished (one doIssue at a time; restarts, faults, crashes and resets allowed) *)
Definition label_tid (l : label) : option tid :=
  match l with Start t _ | Op t _ | Crash t => Some t | Reset _ => None end.

(* ------------------------------------------------------------------ the URL rule *)

Section Url.
  (** url.Parse as an oracle: scheme (lower-cased by Parse) and host, or an error;
      SubjectIsInternal(host) as an oracle *)
  Variable parse : str -> option (str * str).
  Variable internal : str -> bool.

  Fixpoint contains (pat s : str) : bool :=
    match s with
    | [] => match pat with [] => true | _ => false end
    | _ :: r => has_prefix pat s || contains pat r
    end.

  (** the URL the rule reads: HTTPS is assumed when there is no "://" *)
  Definition effective (u : str) : str :=
    if contains url_scheme_sep u then u else url_https_prefix ++ u.

  (** secureCAURL *)
  Definition secure_ca_url (u : str) : option str :=
    let e := effective u in
    match parse e with
    | None => None
    | Some (scheme, host) =>
        if str_eqb scheme url_https_scheme || internal host then Some e else None
    end.

  (** newACMEClient: the directory the client will contact ([ca_url] after defaulting) *)
  Definition client_dir (ca_url test_url : str) (use_test : bool) : option str :=
    match secure_ca_url ca_url with
    | None => None
    | Some d =>
        if use_test && negb (str_eqb test_url [])
        then match secure_ca_url test_url with Some _ => Some test_url | None => None end
        else Some d
    end.

  (** what the property demands of a directory URL: read by the rule, it is HTTPS or internal *)
  Definition secure (u : str) : bool :=
    match parse (effective u) with
    | Some (scheme, host) => str_eqb scheme url_https_scheme || internal host
    | None => false
    end.
End Url.
