(** C20 — proofs about the configured-account-key mode ([Account.KeyPem]) and its monitor. *)
From CM Require Import Lib.Str Lib.Wire Gen.Consts Account.Model Account.KeyPem Account.Check.
From Coq Require Import Arith Lia Bool List.
Import ListNotations.
Open Scope nat_scope.

Lemma kupd_eq f t p : kupd f t p t = p.
Proof. unfold kupd. rewrite Nat.eqb_refl. reflexivity. Qed.
Lemma kupd_neq f t p x : x <> t -> kupd f t p x = f x.
Proof. unfold kupd. intros H. destruct (Nat.eqb_spec x t); congruence. Qed.

(** case analysis of one step *)
Ltac kstep_cases H :=
  unfold kstep, kop in H;
  repeat match type of H with
         | (match ?x with _ => _ end) = Some _ => destruct x eqn:?; try discriminate H
         | (if ?x then _ else _) = Some _ => destruct x eqn:?; try discriminate H
         end;
  injection H as H; subst.

Ltac kupd_all :=
  repeat match goal with
         | |- context [kupd _ ?k _ ?x] =>
             destruct (Nat.eq_dec x k) as [?E|?E];
             [ subst; rewrite ?kupd_eq in * | rewrite ?(kupd_neq _ k _ x) in * by assumption ]
         | H : context [kupd _ ?k _ ?x] |- _ =>
             destruct (Nat.eq_dec x k) as [?E|?E];
             [ subst; rewrite ?kupd_eq in * | rewrite ?(kupd_neq _ k _ x) in * by assumption ]
         end.

(* ------------------------------------------------------------------ invariants *)

(** the CA's knowledge is not changed by any call *)
Lemma kstep_known s l s' : kstep s l = Some s' -> k_known s' = k_known s.
Proof. intros H. kstep_cases H; cbn; congruence. Qed.

(** the key file, once it holds the configured key, holds it for ever (nothing deletes it and
    nothing else is ever written) *)
Lemma kstep_key_mine s l s' : kstep s l = Some s' -> k_key s = FMine -> k_key s' = FMine.
Proof. intros H K. kstep_cases H; cbn; auto; congruence. Qed.

(** no foreign registration is ever written *)
Lemma kstep_clean s l s' : kstep s l = Some s' -> k_reg s <> FOther -> k_reg s' <> FOther.
Proof. intros H K. kstep_cases H; cbn; auto; congruence. Qed.

Definition kthr_ok (s : kstate) (p : kpc) : Prop :=
  match p with
  | KLoadReg => k_key s = FMine
  | KLoadKey r => r = FMine /\ k_key s = FMine
  | KDone (Some (r, k)) => r = FMine /\ k = FMine
  | _ => True
  end.

Definition KInv (s : kstate) : Prop :=
  k_reg s <> FOther /\ forall t, kthr_ok s (k_thr s t).

Lemma kinit_inv r k known : r <> FOther -> KInv (kinit r k known).
Proof. intros H. split; [exact H|]. intros t. exact I. Qed.

Lemma kthr_ok_mono s s' p :
  (k_key s = FMine -> k_key s' = FMine) -> kthr_ok s p -> kthr_ok s' p.
Proof. destruct p as [| | | |r| | | | |[[r k]|]]; cbn; intuition. Qed.

Lemma kstep_inv s l s' : kstep s l = Some s' -> KInv s -> KInv s'.
Proof.
  intros H [C T]. split; [exact (kstep_clean _ _ _ H C)|].
  intros x.
  kstep_cases H; cbn [k_thr kset kset_reg kset_key k_reg k_key] in *;
    match goal with
    | |- context [kupd _ ?t _ x] =>
        destruct (Nat.eq_dec x t) as [E|E];
        [ subst x; rewrite kupd_eq
        | rewrite kupd_neq by exact E;
          apply (kthr_ok_mono s); [cbn; intros; congruence | exact (T x)] ]
    end;
    repeat match goal with
           | Hq : k_thr s ?t = _ |- _ => pose proof (T t) as ?HT; rewrite Hq in HT; clear Hq
           end; cbn in *; try tauto; try (intuition congruence).
  destruct email; exact I.
Qed.

Lemma krun_inv ls : forall s s', krun s ls = Some s' -> KInv s -> KInv s'.
Proof.
  induction ls as [|l ls IH]; cbn; intros s s' H I.
  - injection H as <-. exact I.
  - destruct (kstep s l) as [s1|] eqn:E; [|discriminate]. eapply IH; eauto using kstep_inv.
Qed.

Lemma krun_key_mine ls : forall s s', krun s ls = Some s' -> k_key s = FMine -> k_key s' = FMine.
Proof.
  induction ls as [|l ls IH]; cbn; intros s s' H K.
  - injection H as <-. exact K.
  - destruct (kstep s l) as [s1|] eqn:E; [|discriminate]. eapply IH; eauto using kstep_key_mine.
Qed.

Lemma krun_known ls : forall s s', krun s ls = Some s' -> k_known s' = k_known s.
Proof.
  induction ls as [|l ls IH]; cbn; intros s s' H.
  - injection H as <-. reflexivity.
  - destruct (kstep s l) as [s1|] eqn:E; [|discriminate]. rewrite (IH _ _ H). eauto using kstep_known.
Qed.

Lemma krun_app l1 : forall l2 s s', krun s (l1 ++ l2) = Some s' ->
  exists s1, krun s l1 = Some s1 /\ krun s1 l2 = Some s'.
Proof.
  induction l1 as [|l l1 IH]; cbn; intros l2 s s' H.
  - eauto.
  - destruct (kstep s l) as [s1|]; [|discriminate]. eauto.
Qed.

(* ------------------------------------------------------------------ theorems *)

(** every call that succeeds, in any history of any number of calls (with and without e-mail),
    faults and crashes, returns the account of the configured key *)
Theorem kp_success_is_configured_account : forall r0 k0 known ls s t r k,
  r0 <> FOther -> krun (kinit r0 k0 known) ls = Some s ->
  k_thr s t = KDone (Some (r, k)) -> r = FMine /\ k = FMine.
Proof.
  intros r0 k0 known ls s t r k H0 Hr Hd.
  destruct (krun_inv _ _ _ Hr (kinit_inv _ _ _ H0)) as [_ T].
  specialize (T t). rewrite Hd in T. exact T.
Qed.

(** an account that is stored is never replaced by a different one: from any state (no
    reachability needed) *)
Theorem kp_stored_account_never_replaced : forall s ls s',
  k_key s = FMine -> k_reg s <> FOther -> krun s ls = Some s' ->
  k_key s' = FMine /\ k_reg s' <> FOther.
Proof.
  intros s ls. revert s. induction ls as [|l ls IH]; cbn; intros s s' K R H.
  - injection H as <-. auto.
  - destruct (kstep s l) as [s1|] eqn:E; [|discriminate].
    eapply IH; [eapply kstep_key_mine|eapply kstep_clean|]; eauto.
Qed.

(** ... but its registration can go missing: storeTx's rollback deletes the registration file
    although it was there before the save (one call, a Load fault and a Store fault; or two
    concurrent first calls and one fault: [kp_ex_concurrent_rollback]) *)
Definition kp_run_rollback : list klabel :=
  [KStart 0 true; KOp 0 true; KOp 0 false; KOp 0 false; KOp 0 true; KOp 0 false].
Theorem kp_persisted_together_refuted :
  exists ls s, krun (kinit FMine FMine true) ls = Some s /\
               k_key s = FMine /\ k_reg s = FNone /\ k_thr s 0 = KDone None.
Proof. exists kp_run_rollback. eexists. split; [vm_compute; reflexivity|]. repeat split. Qed.

Definition kp_run_concurrent_rollback : list klabel :=
  [KStart 0 true; KStart 1 false; KOp 0 false; KOp 1 false; KOp 0 false; KOp 0 false; KOp 0 false;
   KOp 1 false; KOp 1 false; KOp 1 true; KOp 1 false].
Example kp_ex_concurrent_rollback :
  exists s, krun (kinit FNone FNone true) kp_run_concurrent_rollback = Some s /\
            k_key s = FMine /\ k_reg s = FNone /\
            k_thr s 0 = KDone (Some (FMine, FMine)) /\ k_thr s 1 = KDone None.
Proof. eexists. split; [vm_compute; reflexivity|]. repeat split. Qed.

(** Recovery (what 55396a9 repaired): whatever came before — any state without a foreign
    registration, other calls in flight at any point — if the CA knows the configured key, the
    next call that runs alone and without faults succeeds with that account and leaves it
    completely stored. *)
Definition kstart_pc (e : bool) : kpc := if e then KFirstKey else KList.

(** symbolic execution of one call: the acting thread's pc is read through [kupd _ t _ t] *)
Ltac ksolo_compute :=
  cbn [ksolo kstart_pc kinit];
  repeat (unfold kop at 1; cbn [k_thr kset kset_reg kset_key k_reg k_key k_known];
          unfold kupd at 1; rewrite Nat.eqb_refl;
          cbn [k_thr kset kset_reg kset_key k_reg k_key k_known]);
  cbn [k_thr kset kset_reg kset_key k_reg k_key k_known]; rewrite ?kupd_eq.

Lemma ksolo_recovers : forall s t e,
  k_reg s <> FOther -> k_known s = true ->
  let s' := ksolo (kset s t (kstart_pc e)) t 7 in
  k_thr s' t = KDone (Some (FMine, FMine)) /\ k_reg s' = FMine /\ k_key s' = FMine.
Proof.
  intros [r k kn th] t e R K. cbn in R, K. subst kn.
  destruct e, r, k; try congruence; ksolo_compute; repeat split; reflexivity.
Qed.

Lemma ksolo_run : forall fuel s t,
  exists n, n <= fuel /\ krun s (repeat (KOp t false) n) = Some (ksolo s t fuel).
Proof.
  induction fuel as [|f IH]; intros s t.
  - exists 0. split; [lia|reflexivity].
  - cbn [ksolo]. destruct (kop s t false) as [s1|] eqn:E.
    + destruct (IH s1 t) as (n & Hn & Hr). exists (S n). split; [lia|]. cbn. rewrite E. exact Hr.
    + exists 0. split; [lia|reflexivity].
Qed.

Theorem kp_next_call_recovers : forall s t e,
  k_thr s t = KIdle -> k_reg s <> FOther -> k_known s = true ->
  exists n s', krun s (KStart t e :: repeat (KOp t false) n) = Some s' /\
               k_thr s' t = KDone (Some (FMine, FMine)) /\ k_reg s' = FMine /\ k_key s' = FMine.
Proof.
  intros s t e Hi R K.
  destruct (ksolo_run 7 (kset s t (kstart_pc e)) t) as (n & _ & Hr).
  exists n, (ksolo (kset s t (kstart_pc e)) t 7). split.
  - cbn [krun kstep]. rewrite Hi. exact Hr.
  - apply ksolo_recovers; assumption.
Qed.

(** the single-call summary used by the kind-3 cases is the LTS run of one call on a quiet
    storage: success, and whether the account is completely stored afterwards *)
Theorem keypem_outcome_is_solo_run : forall r k known e t,
  let s' := ksolo (kset (kinit r k known) t (kstart_pc e)) t 7 in
  let '(ok, _, saved) := keypem_outcome (fval_eqb k FMine) (negb (fval_eqb r FNone)) known in
  (exists res, k_thr s' t = KDone res /\ ok = match res with Some _ => true | None => false end) /\
  saved = fval_eqb (k_key s') FMine && negb (fval_eqb (k_reg s') FNone).
Proof.
  intros r k known e t.
  unfold kinit; destruct r, k, known, e; ksolo_compute; (split; [eexists; split; reflexivity|reflexivity]).
Qed.

(* ------------------------------------------------------------------ the monitor is sound *)

Lemma kreplay_run evs : forall s s' b, kreplay s evs = Some (s', b) ->
  exists ls, krun s ls = Some s'.
Proof.
  induction evs as [|e evs IH]; cbn; intros s s' b H.
  - injection H as <- _. exists []. reflexivity.
  - destruct (klabel_of e) as [l|]; [|discriminate].
    destruct (kstep s l) as [s1|] eqn:E; [|discriminate].
    destruct (kreplay s1 evs) as [[s2 b2]|] eqn:E2; [|discriminate].
    injection H as <- _. destruct (IH _ _ _ E2) as (ls & Hls). exists (l :: ls). cbn. rewrite E. exact Hls.
Qed.

Lemma kreplay_app e1 : forall e2 s s', kreplay s (e1 ++ e2) = Some (s', true) ->
  exists s1, kreplay s e1 = Some (s1, true) /\ kreplay s1 e2 = Some (s', true).
Proof.
  induction e1 as [|e e1 IH]; cbn; intros e2 s s' H.
  - eauto.
  - destruct (klabel_of e) as [l|]; [|discriminate].
    destruct (kstep s l) as [s1|]; [|discriminate].
    destruct (kreplay s1 (e1 ++ e2)) as [[s2 b2]|] eqn:E2; [|discriminate].
    injection H as <- Hb. apply andb_true_iff in Hb as [Hk Hb]. subst b2.
    destruct (IH _ _ _ E2) as (sm & H1 & H2). exists sm. rewrite H1, Hk. auto.
Qed.

Lemma kev_ok_store s e : kev_ok s e = true -> store_ok e = true.
Proof.
  destruct e as [| t f k kc v | |]; cbn; auto. destruct f; auto.
  unfold kexpected. destruct (k_thr s t); try discriminate;
    repeat match goal with |- context [match ?x with _ => _ end] => destruct x end;
    intros H; apply andb_true_iff in H as [Hk Hv];
    apply Nat.eqb_eq in Hk; apply Nat.eqb_eq in Hv; subst; reflexivity.
Qed.

Lemma kreplay_stores evs : forall s s', kreplay s evs = Some (s', true) -> forallb store_ok evs = true.
Proof.
  induction evs as [|e evs IH]; cbn; intros s s' H; [reflexivity|].
  destruct (klabel_of e) as [l|]; [|discriminate].
  destruct (kstep s l) as [s1|]; [|discriminate].
  destruct (kreplay s1 evs) as [[s2 b2]|] eqn:E2; [|discriminate].
  injection H as <- Hb. apply andb_true_iff in Hb as [Hk Hb]. subst b2.
  rewrite (kev_ok_store _ _ Hk). eauto.
Qed.

(** the probe's events are operations of the probe without faults *)
Lemma probe_labels p pevs : probe_shape p pevs = true -> forall s s' b,
  kreplay s pevs = Some (s', b) -> krun s (repeat (KOp p false) (length pevs)) = Some s'.
Proof.
  induction pevs as [|e pevs IH]; cbn; intros Hp s s' b H.
  - injection H as <- _. reflexivity.
  - apply andb_true_iff in Hp as [He Hp].
    destruct e as [| t f k kc v | |]; try discriminate. destruct f; [discriminate|].
    apply Nat.eqb_eq in He. subst t. cbn in H.
    destruct (kop s p false) as [s1|]; [|discriminate].
    destruct (kreplay s1 pevs) as [[s2 b2]|] eqn:E2; [|discriminate].
    injection H as <- _. eauto.
Qed.

(** a call that runs alone is deterministic: it stops exactly once *)
Lemma ksolo_deterministic t : forall m n s a b,
  krun s (repeat (KOp t false) m) = Some a -> krun s (repeat (KOp t false) n) = Some b ->
  kfinished (k_thr a t) = true -> kfinished (k_thr b t) = true -> a = b.
Proof.
  assert (Hstop : forall s, kfinished (k_thr s t) = true -> kop s t false = None).
  { intros s H. unfold kop. destruct (k_thr s t); try discriminate; reflexivity. }
  induction m as [|m IH]; intros [|n] s a b Ha Hb Fa Fb; cbn in Ha, Hb.
  - congruence.
  - injection Ha as <-. rewrite (Hstop _ Fa) in Hb. discriminate.
  - injection Hb as <-. rewrite (Hstop _ Fb) in Ha. discriminate.
  - destruct (kop s t false) as [s1|]; [|discriminate]. eauto.
Qed.

Lemma fv_clean n : n <? 2 = true -> fv n <> FOther.
Proof. intros H. apply Nat.ltb_lt in H. destruct n as [|[|n]]; cbn; try discriminate. lia. Qed.

Lemma kres_good s t y : kthr_ok s (k_thr s t) -> kres_code (k_thr s t) = Some y ->
  y = (0, 0) \/ y = (1, 1).
Proof.
  destruct (k_thr s t) as [| | | |r0| | | | |[[r k]|]]; cbn; try discriminate.
  - intros [-> ->] H. injection H as <-. auto.
  - intros _ H. injection H as <-. auto.
Qed.

Lemma pair_eqb_eq a b : pair_eqb a b = true -> a = b.
Proof.
  destruct a, b. unfold pair_eqb. cbn. intros H. apply andb_true_iff in H as [H1 H2].
  apply Nat.eqb_eq in H1, H2. congruence.
Qed.

(** The run-time monitor [kspec], evaluated by the check on the implementation's observations,
    holds on every observation the model can produce: all five clauses follow from the theorems
    above.  So a spec failure on an implementation history means that the implementation left
    the model or that the property fails. *)
Theorem kspec_sound : forall c, kmodel_agrees c = true -> kspec c = true.
Proof.
  intros c H. unfold kmodel_agrees in H.
  destruct (kreplay (kinit_of c) (kall_events c)) as [[s b]|] eqn:ER; [|discriminate].
  apply andb_true_iff in H as [Hb HF]. subst b.
  unfold kfinal_agree in HF.
  repeat (apply andb_true_iff in HF as [HF ?HF]).
  rename HF into Hreg, HF0 into Hcr, HF1 into Hpres, HF2 into Hres, HF3 into Hkey.
  apply Nat.eqb_eq in Hreg, Hkey.
  destruct (kres_code (k_thr s (kc_probe c))) as [py|] eqn:EP; [|discriminate].
  apply pair_eqb_eq in Hpres.
  unfold kall_events in ER.
  destruct (kreplay_app _ _ _ _ ER) as (s1 & ER1 & ER2).
  pose proof (kreplay_stores _ _ _ ER1) as HS1.
  cbn [kreplay klabel_of] in ER2.
  match type of ER2 with (match ?X with _ => _ end) = _ => destruct X as [s2|] eqn:ES end; [|discriminate].
  match type of ER2 with (match ?X with _ => _ end) = _ => destruct X as [[s3 b3]|] eqn:ER3 end; [|discriminate].
  injection ER2 as -> Hb3. cbn in Hb3. subst b3.
  pose proof (kreplay_stores _ _ _ ER3) as HS2.
  destruct (kreplay_run _ _ _ _ ER) as (ls & Hls).
  destruct (kreplay_run _ _ _ _ ER1) as (ls1 & Hls1).
  unfold kspec.
  repeat (apply andb_true_iff; split).
  - exact Hcr.
  - rewrite forallb_app, HS1, HS2. reflexivity.
  - destruct (kc_reg0 c <? 2) eqn:EC; [cbn|reflexivity].
    destruct (krun_inv _ _ _ Hls (kinit_inv _ _ (kc_known c) (fv_clean _ EC))) as [_ T].
    apply andb_true_iff; split.
    + apply forallb_forall. intros [t x] Hin.
      rewrite forallb_forall in Hres. specialize (Hres _ Hin). cbn in Hres.
      destruct (kres_code (k_thr s t)) as [y|] eqn:EY; [|discriminate].
      apply pair_eqb_eq in Hres. subst x.
      destruct (kres_good _ _ _ (T t) EY) as [-> | ->]; reflexivity.
    + rewrite Hpres. destruct (kres_good _ _ _ (T _) EP) as [-> | ->]; reflexivity.
  - destruct (Nat.eqb (kc_reg0 c) 1 && Nat.eqb (kc_key0 c) 1) eqn:E11; [cbn|reflexivity].
    apply andb_true_iff in E11 as [E1 E2]. apply Nat.eqb_eq in E1, E2.
    assert (K0 : k_key (kinit_of c) = FMine) by (unfold kinit_of; rewrite E2; reflexivity).
    assert (R0 : k_reg (kinit_of c) <> FOther) by (unfold kinit_of; rewrite E1; cbn; congruence).
    destruct (kp_stored_account_never_replaced _ _ _ K0 R0 Hls) as [K R].
    rewrite Hkey, Hreg, K. cbn. destruct (k_reg s); cbn; congruence.
  - destruct (kc_reg0 c <? 2) eqn:EC; [|reflexivity].
    destruct (kc_known c) eqn:EK; [|reflexivity].
    destruct (probe_shape (kc_probe c) (kc_pevs c)) eqn:EPS; [cbn|reflexivity].
    (* the state the probe starts from *)
    destruct (krun_inv _ _ _ Hls1 (kinit_inv _ _ (kc_known c) (fv_clean _ EC))) as [C1 _].
    assert (K1 : k_known s1 = true).
    { rewrite (krun_known _ _ _ Hls1). unfold kinit_of. cbn. rewrite EK. reflexivity. }
    assert (Hidle : k_thr s1 (kc_probe c) = KIdle).
    { cbn in ES. destruct (k_thr s1 (kc_probe c)); try discriminate. reflexivity. }
    match type of ES with
    | kstep _ (KStart _ ?E) = _ =>
        destruct (kp_next_call_recovers s1 (kc_probe c) E Hidle C1 K1) as (n & s' & Hrun & Hd & Hr & Hk)
    end.
    cbn [krun] in Hrun. rewrite ES in Hrun.
    pose proof (probe_labels _ _ EPS _ _ _ ER3) as Hrun3.
    assert (Fs : kfinished (k_thr s (kc_probe c)) = true).
    { destruct (k_thr s (kc_probe c)); try discriminate; reflexivity. }
    assert (Fs' : kfinished (k_thr s' (kc_probe c)) = true) by (rewrite Hd; reflexivity).
    pose proof (ksolo_deterministic _ _ _ _ _ _ Hrun3 Hrun Fs Fs') as ->.
    rewrite Hd in EP. cbn in EP. injection EP as <-.
    rewrite Hpres, Hreg, Hkey, Hr, Hk. reflexivity.
Qed.
