(** C20 — proofs about the [Account] model. *)
From CM Require Import Lib.Str Gen.Consts Account.Model.
From Coq Require Import Arith Lia.
Open Scope nat_scope.

Lemma upd_eq {A} (f : nat -> A) k v : upd f k v k = v.
Proof. unfold upd. rewrite Nat.eqb_refl. reflexivity. Qed.
Lemma upd_neq {A} (f : nat -> A) k v x : x <> k -> upd f k v x = f x.
Proof. unfold upd. intros H. destruct (Nat.eqb_spec x k); congruence. Qed.

Notation pcof s t := (t_pc (thr s t)).
Notation caof s t := (t_ca (thr s t)).

(* projections through the crash helpers *)
Lemma cc_slots s th : slots (count_crash s th) = slots s.
Proof. unfold count_crash. destruct (in_save_window _); reflexivity. Qed.
Lemma cc_created s th : created (count_crash s th) = created s.
Proof. unfold count_crash. destruct (in_save_window _); reflexivity. Qed.
Lemma cc_forgotten s th : forgotten (count_crash s th) = forgotten s.
Proof. unfold count_crash. destruct (in_save_window _); reflexivity. Qed.
Lemma cc_lock s th : lock (count_crash s th) = lock s.
Proof. unfold count_crash. destruct (in_save_window _); reflexivity. Qed.
Lemma cc_thr s th : thr (count_crash s th) = thr s.
Proof. unfold count_crash. destruct (in_save_window _); reflexivity. Qed.
Lemma cc_fsaves s th : fsaves (count_crash s th) = fsaves s.
Proof. unfold count_crash. destruct (in_save_window _); reflexivity. Qed.
Lemma cc_deletes s th : deletes (count_crash s th) = deletes s.
Proof. unfold count_crash. destruct (in_save_window _); reflexivity. Qed.
Lemma cc_resets s th : resets (count_crash s th) = resets s.
Proof. unfold count_crash. destruct (in_save_window _); reflexivity. Qed.
Lemma cc_crashes s th c :
  crashes (count_crash s th) c =
  if in_save_window (t_pc th) && Nat.eqb c (t_ca th) then S (crashes s c) else crashes s c.
Proof.
  unfold count_crash. destruct (in_save_window _); cbn; [|reflexivity].
  unfold upd. destruct (Nat.eqb_spec c (t_ca th)); subst; reflexivity.
Qed.

Lemma rel_slots s t : slots (release s t) = slots s.
Proof. unfold release. destruct (lock s) as [h|]; [destruct (Nat.eqb h t)|]; reflexivity. Qed.
Lemma rel_created s t : created (release s t) = created s.
Proof. unfold release. destruct (lock s) as [h|]; [destruct (Nat.eqb h t)|]; reflexivity. Qed.
Lemma rel_forgotten s t : forgotten (release s t) = forgotten s.
Proof. unfold release. destruct (lock s) as [h|]; [destruct (Nat.eqb h t)|]; reflexivity. Qed.
Lemma rel_thr s t : thr (release s t) = thr s.
Proof. unfold release. destruct (lock s) as [h|]; [destruct (Nat.eqb h t)|]; reflexivity. Qed.
Lemma rel_fsaves s t : fsaves (release s t) = fsaves s.
Proof. unfold release. destruct (lock s) as [h|]; [destruct (Nat.eqb h t)|]; reflexivity. Qed.
Lemma rel_crashes s t : crashes (release s t) = crashes s.
Proof. unfold release. destruct (lock s) as [h|]; [destruct (Nat.eqb h t)|]; reflexivity. Qed.
Lemma rel_deletes s t : deletes (release s t) = deletes s.
Proof. unfold release. destruct (lock s) as [h|]; [destruct (Nat.eqb h t)|]; reflexivity. Qed.
Lemma rel_resets s t : resets (release s t) = resets s.
Proof. unfold release. destruct (lock s) as [h|]; [destruct (Nat.eqb h t)|]; reflexivity. Qed.
Lemma rel_lock s t :
  lock (release s t) = match lock s with Some h => if Nat.eqb h t then None else Some h | None => None end.
Proof.
  unfold release. destruct (lock s) as [h|] eqn:E; [destruct (Nat.eqb h t)|]; cbn; congruence.
Qed.

Ltac crash_norm :=
  rewrite ?rel_slots, ?rel_created, ?rel_forgotten, ?rel_thr, ?rel_fsaves, ?rel_crashes, ?rel_deletes,
    ?rel_resets, ?rel_lock, ?cc_slots, ?cc_created, ?cc_forgotten, ?cc_lock, ?cc_thr, ?cc_fsaves,
    ?cc_deletes, ?cc_resets, ?cc_crashes in *.

(** case analysis of one step: destructs the label, the pc of the acting thread, the fault flag
    and every test made by the transition; [H : step s l = Some s'] is consumed *)
Ltac step_cases H :=
  unfold step, op_step in H;
  repeat match type of H with
         | (match ?x with _ => _ end) = Some _ => destruct x eqn:?; try discriminate H
         | (if ?x then _ else _) = Some _ => destruct x eqn:?; try discriminate H
         | (let _ := _ in _) = Some _ => cbv zeta in H
         end;
  injection H as H; subst.

Lemma upd_neq' {A} k x (H : x <> k) (f : nat -> A) v : upd f k v x = f x.
Proof. apply upd_neq; exact H. Qed.

(** split every [upd f k v x] by comparing x with k (each pair is compared once) *)
Ltac upd_split x k :=
  first [ constr_eq x k; rewrite ?upd_eq in *
        | let E := fresh "E" in
          destruct (Nat.eq_dec x k) as [E|E];
          [ first [ subst x | subst k | rewrite E in * ]; rewrite ?upd_eq in *
          | rewrite ?(upd_neq' k x E) in * ] ].
Ltac upd_all :=
  repeat match goal with
         | |- context [upd _ ?k _ ?x] => upd_split x k
         | H : context [upd _ ?k _ ?x] |- _ => upd_split x k
         end.

Ltac bool_cases :=
  repeat match goal with
         | b : bool |- _ => destruct b
         end.

(* ------------------------------------------------------------------ the lock *)

Definition holds_lock_pc (p : pc) : bool :=
  match p with
  | LoadReg true | LoadKey true _ | Register | StoreReg _ | StoreKey _ | Rollback _ | Unlock _ => true
  | _ => false
  end.

(** a thread inside the locked region holds the lock *)
Definition I_lock (s : state) : Prop :=
  forall t, holds_lock_pc (pcof s t) = true -> lock s = Some t.

Ltac use_lock HI :=
  repeat match goal with
         | Hpc : t_pc (thr ?s0 ?t) = ?p |- _ =>
             lazymatch goal with
             | _ : lock s0 = Some t |- _ => fail
             | _ => let X := fresh "HL" in
                    assert (X : lock s0 = Some t) by (apply HI; rewrite Hpc; reflexivity)
             end
         | Hh : holds_lock_pc (t_pc (thr ?s0 ?t)) = true |- _ =>
             lazymatch goal with
             | _ : lock s0 = Some t |- _ => fail
             | _ => let X := fresh "HL" in assert (X : lock s0 = Some t) by (apply HI; exact Hh)
             end
         end.

Ltac res_cases :=
  repeat match goal with
         | r : option macct |- _ => destruct r
         end.

Lemma I_lock_step s l s' : I_lock s -> step s l = Some s' -> I_lock s'.
Proof.
  intros HI H. step_cases H; intros t0 Ht0; cbn in *; crash_norm; cbn in *; upd_all; cbn in *;
    bool_cases; res_cases; cbn in *;
    try discriminate; try (apply HI; assumption); try reflexivity; use_lock HI; try congruence.
  - (* Crash, t0 <> t *)
    rewrite HL. destruct (Nat.eqb_spec t0 t); congruence.
Qed.

(* ------------------------------------------------------------------ registering only when not full *)

Definition reg_pc (p : pc) : bool := match p with Register | StoreReg _ => true | _ => false end.

Lemma reg_pc_holds p : reg_pc p = true -> holds_lock_pc p = true.
Proof. destruct p; cbn; congruence. Qed.

(** a thread about to register, or about to write the reg file, sees an incomplete account *)
Definition J (s : state) : Prop :=
  forall t, reg_pc (pcof s t) = true -> full (slots s (caof s t)) = false.

Ltac full_simpl :=
  unfold full in *; cbn in *;
  repeat match goal with
         | |- context [match ?x with Some _ => _ | None => _ end] => destruct x eqn:?; cbn in *
         end.

Lemma J_step s l s' : I_lock s -> J s -> step s l = Some s' -> J s'.
Proof.
  intros HI HJ H. step_cases H; intros t0 Ht0; cbn in *; crash_norm; cbn in *; upd_all; cbn in *;
    bool_cases; res_cases; cbn in *; try discriminate;
    try (apply HJ; assumption).
  all: try (match goal with
            | Ht : reg_pc (t_pc (thr _ ?t0)) = true |- _ => pose proof (reg_pc_holds _ Ht)
            end).
  all: use_lock HI; try congruence.
  all: try (unfold full; cbn; match goal with H : s_reg _ = None |- _ => rewrite H end; reflexivity).
  all: try (unfold full; cbn; match goal with H : s_key _ = None |- _ => rewrite H end;
            destruct (s_reg _); reflexivity).
  all: try (match goal with
            | Hpc : t_pc (thr ?s0 ?t) = Register |- _ =>
                let X := fresh in assert (X := HJ t); rewrite Hpc in X; exact (X eq_refl)
            end).
  all: try (unfold full; cbn; destruct (s_reg _); reflexivity).
Qed.

(* ------------------------------------------------------------------ accounting of registrations *)

Definition b2n (b : bool) : nat := if b then 1 else 0.

(** 1 when CA c's account is either completely stored or on its way to storage *)
Definition ind (s : state) (c : ca) : nat :=
  match lock s with
  | Some t =>
      if Nat.eqb (caof s t) c then
        match pcof s t with
        | StoreReg _ => 1
        | StoreKey _ => b2n (has_reg (slots s c))
        | Rollback _ => 0
        | _ => b2n (full (slots s c))
        end
      else b2n (full (slots s c))
  | None => b2n (full (slots s c))
  end.

Definition ACC (s : state) : Prop :=
  forall c, created s c <= fsaves s c + crashes s c + deletes s c + ind s c.

Lemma ind_le1 s c : ind s c <= 1.
Proof.
  unfold ind, b2n. destruct (lock s); [destruct (Nat.eqb _ _); [destruct (t_pc _)|]|];
    repeat match goal with |- context [if ?b then _ else _] => destruct b end; lia.
Qed.

Ltac break_all :=
  repeat match goal with
         | |- context [match ?x with _ => _ end] => destruct x eqn:?; cbn in *; try discriminate; try congruence
         | H : context [match ?x with _ => _ end] |- _ => destruct x eqn:?; cbn in *; try discriminate; try congruence
         end.

(** use the tests [is_idle] / [finished] made by Start / Crash *)
Ltac pc_tests :=
  repeat match goal with
         | H : is_idle (t_pc ?x) = _ |- _ => destruct (t_pc x) eqn:?; cbn in H; try discriminate H; clear H
         | H : finished (t_pc ?x) = _ |- _ => destruct (t_pc x) eqn:?; cbn in H; try discriminate H; clear H
         end.

Ltac lock_facts HI :=
  use_lock HI;
  repeat match goal with
         | H1 : lock ?s0 = Some ?a, H2 : lock ?s0 = Some ?b |- _ =>
             first [ constr_eq a b; clear H2 | rewrite H1 in H2; injection H2 as H2; subst ]
         | H1 : lock ?s0 = None, H2 : lock ?s0 = Some _ |- _ => rewrite H1 in H2; discriminate H2
         end.

Ltac eqb_all :=
  repeat match goal with
         | |- context [Nat.eqb ?a ?b] => destruct (Nat.eqb_spec a b); subst
         | H : context [Nat.eqb ?a ?b] |- _ => destruct (Nat.eqb_spec a b); subst
         end.

Ltac rw_pcs :=
  repeat match goal with Hpc : t_pc (thr _ _) = _ |- _ => rewrite Hpc in * end.

Lemma ACC_step s l s' : I_lock s -> J s -> ACC s -> step s l = Some s' -> ACC s'.
Proof.
  intros HI HJ HA H. destruct l as [t c|t f|t|c].
  - (* Start *)
    step_cases H; pc_tests; intros c0; pose proof (HA c0) as HA0; unfold ind in *; cbn in *.
    destruct (lock s) as [h|] eqn:HLK; cbn in *; [|exact HA0].
    upd_all; cbn in *; rw_pcs; cbn in *;
      repeat match goal with |- context [if ?b then _ else _] => destruct b end;
      repeat match goal with H : context [if ?b then _ else _] |- _ => destruct b end; exact HA0.
  - (* Op *)
    step_cases H; intros c0; pose proof (HA c0) as HA0;
      pose proof (ind_le1 s c0) as Hle; unfold ind in *; cbn in *.
    all: destruct (lock s) as [h|] eqn:HLK; cbn in *; lock_facts HI; cbn in *; upd_all; cbn in *;
         try congruence; rw_pcs; cbn in *; bool_cases; res_cases; cbn in *; try lia.
    all: eqb_all; cbn in *; try congruence; rw_pcs; cbn in *; try lia.
    + (* Register *)
      pose proof (HJ t) as X. rewrite Heqp in X. rewrite (X eq_refl) in *. cbn in *. lia.
    + (* StoreKey succeeds *)
      unfold full, has_reg in *. cbn in *. destruct (s_reg (slots s (caof s t))); exact HA0.
  - (* Crash *)
    unfold step in H. destruct (finished (pcof s t)) eqn:Hf; [discriminate|]. injection H as <-.
    intros c0. pose proof (HA c0) as HA0. pose proof (ind_le1 s c0) as Hle.
    unfold ind in *. cbn. crash_norm. cbn.
    assert (Hcr : crashes s c0 <=
                  (if in_save_window (pcof s t) && Nat.eqb c0 (caof s t) then S (crashes s c0) else crashes s c0))
      by (destruct (_ && _); lia).
    destruct (lock s) as [h|] eqn:HLK.
    + destruct (Nat.eqb_spec h t) as [->|Hne]; cbn.
      * destruct (Nat.eqb_spec (caof s t) c0) as [E|Hc]; [subst c0|lia].
        rewrite Nat.eqb_refl, Bool.andb_true_r in *.
        destruct (pcof s t) eqn:Hpc; cbn in *; unfold b2n in *;
          repeat match goal with |- context [if ?b then _ else _] => destruct b end; lia.
      * rewrite (upd_neq _ _ _ _ Hne). lia.
    + lia.
  - (* Reset *)
    step_cases H. intros c0. pose proof (HA c0) as HA0. unfold ind in *. cbn in *. exact HA0.
Qed.

(* ------------------------------------------------------------------ account numbers are the CA's *)

Definition ok (s : state) (c : ca) (a : acct) : Prop := 1 <= a <= created s c.
Definition ok_opt (s : state) (c : ca) (o : option acct) : Prop :=
  match o with Some a => ok s c a | None => True end.
Definition ok_m (s : state) (c : ca) (m : macct) : Prop := ok s c (m_loc m) /\ ok s c (m_key m).
Definition pc_ok (s : state) (c : ca) (p : pc) : Prop :=
  match p with
  | LoadKey _ r => ok s c r
  | StoreReg a | StoreKey a | Rollback a => ok s c a
  | Unlock (Some m) | Order m _ | DelReg m | DelKey m | Done (Some m) => ok_m s c m
  | _ => True
  end.

(** every account number in storage or in a thread's memory was created by that CA *)
Definition WF (s : state) : Prop :=
  (forall c, ok_opt s c (s_reg (slots s c)) /\ ok_opt s c (s_key (slots s c))) /\
  (forall t, pc_ok s (caof s t) (pcof s t)).

Lemma WF_step s l s' : WF s -> step s l = Some s' -> WF s'.
Proof.
  intros [HS HT] H. step_cases H; pc_tests; (split; [intros c0; pose proof (HS c0) as HS0 | intros t0; pose proof (HT t0) as HT0]);
    try (pose proof (HT t) as HTt); try (pose proof (HS (caof s t)) as HSt);
    unfold ok_opt, pc_ok, ok_m, ok in *; cbn in *; crash_norm; cbn in *; upd_all; cbn in *;
    rw_pcs; cbn in *; bool_cases; res_cases; cbn in *;
    try exact I; repeat split; try (timeout 5 lia).
  all: try (destruct HS0 as [? ?]; assumption).
  all: try exact HT0.
  all: try (rewrite Heqo in HSt; destruct HSt as [? ?]; lia).
  all: try (destruct HS0 as [X Y]; first [destruct (s_reg _) | destruct (s_key _)]; lia).
  (* another thread of the same CA while the CA created an account *)
  - destruct HS0 as [X Y]. destruct (s_key _); lia.
  - (* another thread of the same CA while the CA created an account *)
    match goal with |- context [t_pc (thr s ?u)] => rename u into t1 end.
    clear - HT0. destruct (pcof s t1) as [| | | | | | | |[?|]| | | |[?|]]; lia.
Qed.

(** invariants are inherited along runs *)
Lemma run_app s ls1 ls2 :
  run s (ls1 ++ ls2) = match run s ls1 with Some s1 => run s1 ls2 | None => None end.
Proof.
  revert s; induction ls1 as [|l r IH]; intros s; cbn; [reflexivity|].
  destruct (step s l); [apply IH | reflexivity].
Qed.

Lemma reachable_ind (P : state -> Prop) :
  P init -> (forall s l s', reachable s -> P s -> step s l = Some s' -> P s') ->
  forall s, reachable s -> P s.
Proof.
  intros H0 HS s [ls Hr]. revert s Hr.
  induction ls as [|l r IH] using rev_ind; intros s Hr.
  - cbn in Hr. injection Hr as <-. exact H0.
  - rewrite run_app in Hr. destruct (run init r) as [s1|] eqn:E; [|discriminate].
    cbn in Hr. destruct (step s1 l) eqn:Es; [|discriminate]. injection Hr as <-.
    eapply HS; [exists r; exact E | apply IH; reflexivity | exact Es].
Qed.

Lemma reachable_step s l s' : reachable s -> step s l = Some s' -> reachable s'.
Proof.
  intros [ls Hr] Hs. exists (ls ++ [l]). rewrite run_app, Hr. cbn. rewrite Hs. reflexivity.
Qed.

