(** C20 — proofs about the [Account] model. *)
From CM Require Import Lib.Str Gen.Consts Account.Model.
From Coq Require Import Arith Lia.
Open Scope nat_scope.

Lemma upd_eq {A} (f : nat -> A) k v : upd f k v k = v.
Proof. unfold upd. rewrite Nat.eqb_refl. reflexivity. Qed.
Lemma upd_neq {A} (f : nat -> A) k v x : x <> k -> upd f k v x = f x.
Proof. unfold upd. intros H. destruct (Nat.eqb_spec x k); congruence. Qed.

Notation pcof s t := (t_pc (thr s t)).
Notation caof s t := (t_ca (thr s t)).

(* projections through the crash helpers *)
Lemma cc_slots s th : slots (count_crash s th) = slots s.
Proof. unfold count_crash. destruct (in_save_window _); reflexivity. Qed.
Lemma cc_created s th : created (count_crash s th) = created s.
Proof. unfold count_crash. destruct (in_save_window _); reflexivity. Qed.
Lemma cc_forgotten s th : forgotten (count_crash s th) = forgotten s.
Proof. unfold count_crash. destruct (in_save_window _); reflexivity. Qed.
Lemma cc_lock s th : lock (count_crash s th) = lock s.
Proof. unfold count_crash. destruct (in_save_window _); reflexivity. Qed.
Lemma cc_thr s th : thr (count_crash s th) = thr s.
Proof. unfold count_crash. destruct (in_save_window _); reflexivity. Qed.
Lemma cc_fsaves s th : fsaves (count_crash s th) = fsaves s.
Proof. unfold count_crash. destruct (in_save_window _); reflexivity. Qed.
Lemma cc_deletes s th : deletes (count_crash s th) = deletes s.
Proof. unfold count_crash. destruct (in_save_window _); reflexivity. Qed.
Lemma cc_resets s th : resets (count_crash s th) = resets s.
Proof. unfold count_crash. destruct (in_save_window _); reflexivity. Qed.
Lemma cc_crashes s th c :
  crashes (count_crash s th) c =
  if in_save_window (t_pc th) && Nat.eqb c (t_ca th) then S (crashes s c) else crashes s c.
Proof.
  unfold count_crash. destruct (in_save_window _); cbn; [|reflexivity].
  unfold upd. destruct (Nat.eqb_spec c (t_ca th)); subst; reflexivity.
Qed.

Lemma rel_slots s t : slots (release s t) = slots s.
Proof. unfold release. destruct (lock s) as [h|]; [destruct (Nat.eqb h t)|]; reflexivity. Qed.
Lemma rel_created s t : created (release s t) = created s.
Proof. unfold release. destruct (lock s) as [h|]; [destruct (Nat.eqb h t)|]; reflexivity. Qed.
Lemma rel_forgotten s t : forgotten (release s t) = forgotten s.
Proof. unfold release. destruct (lock s) as [h|]; [destruct (Nat.eqb h t)|]; reflexivity. Qed.
Lemma rel_thr s t : thr (release s t) = thr s.
Proof. unfold release. destruct (lock s) as [h|]; [destruct (Nat.eqb h t)|]; reflexivity. Qed.
Lemma rel_fsaves s t : fsaves (release s t) = fsaves s.
Proof. unfold release. destruct (lock s) as [h|]; [destruct (Nat.eqb h t)|]; reflexivity. Qed.
Lemma rel_crashes s t : crashes (release s t) = crashes s.
Proof. unfold release. destruct (lock s) as [h|]; [destruct (Nat.eqb h t)|]; reflexivity. Qed.
Lemma rel_deletes s t : deletes (release s t) = deletes s.
Proof. unfold release. destruct (lock s) as [h|]; [destruct (Nat.eqb h t)|]; reflexivity. Qed.
Lemma rel_resets s t : resets (release s t) = resets s.
Proof. unfold release. destruct (lock s) as [h|]; [destruct (Nat.eqb h t)|]; reflexivity. Qed.
Lemma rel_lock s t :
  lock (release s t) = match lock s with Some h => if Nat.eqb h t then None else Some h | None => None end.
Proof.
  unfold release. destruct (lock s) as [h|] eqn:E; [destruct (Nat.eqb h t)|]; cbn; congruence.
Qed.

Ltac crash_norm :=
  rewrite ?rel_slots, ?rel_created, ?rel_forgotten, ?rel_thr, ?rel_fsaves, ?rel_crashes, ?rel_deletes,
    ?rel_resets, ?rel_lock, ?cc_slots, ?cc_created, ?cc_forgotten, ?cc_lock, ?cc_thr, ?cc_fsaves,
    ?cc_deletes, ?cc_resets, ?cc_crashes in *.

(** case analysis of one step: destructs the label, the pc of the acting thread, the fault flag
    and every test made by the transition; [H : step s l = Some s'] is consumed *)
Ltac step_cases H :=
  unfold step, op_step in H;
  repeat match type of H with
         | (match ?x with _ => _ end) = Some _ => destruct x eqn:?; try discriminate H
         | (if ?x then _ else _) = Some _ => destruct x eqn:?; try discriminate H
         | (let _ := _ in _) = Some _ => cbv zeta in H
         end;
  injection H as H; subst.

Lemma upd_neq' {A} k x (H : x <> k) (f : nat -> A) v : upd f k v x = f x.
Proof. apply upd_neq; exact H. Qed.

(** split every [upd f k v x] by comparing x with k (each pair is compared once) *)
Ltac upd_split x k :=
  first [ constr_eq x k; rewrite ?upd_eq in *
        | let E := fresh "E" in
          destruct (Nat.eq_dec x k) as [E|E];
          [ first [ subst x | subst k | rewrite E in * ]; rewrite ?upd_eq in *
          | rewrite ?(upd_neq' k x E) in * ] ].
Ltac upd_all :=
  repeat match goal with
         | |- context [upd _ ?k _ ?x] => upd_split x k
         | H : context [upd _ ?k _ ?x] |- _ => upd_split x k
         end.

Ltac bool_cases :=
  repeat match goal with
         | b : bool |- _ => destruct b
         end.

(* ------------------------------------------------------------------ the lock *)

Definition holds_lock_pc (p : pc) : bool :=
  match p with
  | LoadReg true | LoadKey true _ | Register | StoreReg _ | StoreKey _ | Rollback _ | Unlock _ => true
  | DLoadReg _ | DLoadKey _ _ | DelReg _ | DelKey _ | DUnlock _ => true
  | _ => false
  end.

(** a thread inside the locked region holds the lock *)
Definition I_lock (s : state) : Prop :=
  forall t, holds_lock_pc (pcof s t) = true -> lock s = Some t.

Ltac use_lock HI :=
  repeat match goal with
         | Hpc : t_pc (thr ?s0 ?t) = ?p |- _ =>
             lazymatch goal with
             | _ : lock s0 = Some t |- _ => fail
             | _ => let X := fresh "HL" in
                    assert (X : lock s0 = Some t) by (apply HI; rewrite Hpc; reflexivity)
             end
         | Hh : holds_lock_pc (t_pc (thr ?s0 ?t)) = true |- _ =>
             lazymatch goal with
             | _ : lock s0 = Some t |- _ => fail
             | _ => let X := fresh "HL" in assert (X : lock s0 = Some t) by (apply HI; exact Hh)
             end
         end.

Ltac res_cases :=
  repeat match goal with
         | r : option macct |- _ => destruct r
         end.

Lemma I_lock_step s l s' : I_lock s -> step s l = Some s' -> I_lock s'.
Proof.
  intros HI H. step_cases H; intros t0 Ht0; cbn in *; crash_norm; cbn in *; upd_all; cbn in *;
    bool_cases; res_cases; cbn in *;
    try discriminate; try (apply HI; assumption); try reflexivity; use_lock HI; try congruence.
  - (* Crash, t0 <> t *)
    rewrite HL. destruct (Nat.eqb_spec t0 t); congruence.
Qed.

(* ------------------------------------------------------------------ registering only when not full *)

Definition reg_pc (p : pc) : bool := match p with Register | StoreReg _ => true | _ => false end.

Lemma reg_pc_holds p : reg_pc p = true -> holds_lock_pc p = true.
Proof. destruct p; cbn; congruence. Qed.

(** a thread about to register, or about to write the reg file, sees an incomplete account *)
Definition J (s : state) : Prop :=
  forall t, reg_pc (pcof s t) = true -> full (slots s (caof s t)) = false.

Ltac full_simpl :=
  unfold full in *; cbn in *;
  repeat match goal with
         | |- context [match ?x with Some _ => _ | None => _ end] => destruct x eqn:?; cbn in *
         end.

Lemma J_step s l s' : I_lock s -> J s -> step s l = Some s' -> J s'.
Proof.
  intros HI HJ H. step_cases H; intros t0 Ht0; cbn in *; crash_norm; cbn in *; upd_all; cbn in *;
    bool_cases; res_cases; cbn in *; try discriminate;
    try (apply HJ; assumption).
  all: try (match goal with
            | Ht : reg_pc (t_pc (thr _ ?t0)) = true |- _ => pose proof (reg_pc_holds _ Ht)
            end).
  all: use_lock HI; try congruence.
  all: try (unfold full; cbn; match goal with H : s_reg _ = None |- _ => rewrite H end; reflexivity).
  all: try (unfold full; cbn; match goal with H : s_key _ = None |- _ => rewrite H end;
            destruct (s_reg _); reflexivity).
  all: try (match goal with
            | Hpc : t_pc (thr ?s0 ?t) = Register |- _ =>
                let X := fresh in assert (X := HJ t); rewrite Hpc in X; exact (X eq_refl)
            end).
  all: try (unfold full; cbn; destruct (s_reg _); reflexivity).
Qed.

(* ------------------------------------------------------------------ accounting of registrations *)

Definition b2n (b : bool) : nat := if b then 1 else 0.

(** 1 when CA c's account is either completely stored or on its way to storage *)
Definition ind (s : state) (c : ca) : nat :=
  match lock s with
  | Some t =>
      if Nat.eqb (caof s t) c then
        match pcof s t with
        | StoreReg _ => 1
        | StoreKey _ => b2n (has_reg (slots s c))
        | Rollback _ => 0
        | _ => b2n (full (slots s c))
        end
      else b2n (full (slots s c))
  | None => b2n (full (slots s c))
  end.

Definition ACC (s : state) : Prop :=
  forall c, created s c <= fsaves s c + crashes s c + deletes s c + ind s c.

Lemma ind_le1 s c : ind s c <= 1.
Proof.
  unfold ind, b2n. destruct (lock s); [destruct (Nat.eqb _ _); [destruct (t_pc _)|]|];
    repeat match goal with |- context [if ?b then _ else _] => destruct b end; lia.
Qed.

Ltac break_all :=
  repeat match goal with
         | |- context [match ?x with _ => _ end] => destruct x eqn:?; cbn in *; try discriminate; try congruence
         | H : context [match ?x with _ => _ end] |- _ => destruct x eqn:?; cbn in *; try discriminate; try congruence
         end.

(** use the tests [is_idle] / [finished] made by Start / Crash *)
Ltac pc_tests :=
  repeat match goal with
         | H : is_idle (t_pc ?x) = _ |- _ => destruct (t_pc x) eqn:?; cbn in H; try discriminate H; clear H
         | H : finished (t_pc ?x) = _ |- _ => destruct (t_pc x) eqn:?; cbn in H; try discriminate H; clear H
         end.

Ltac lock_facts HI :=
  use_lock HI;
  repeat match goal with
         | H1 : lock ?s0 = Some ?a, H2 : lock ?s0 = Some ?b |- _ =>
             first [ constr_eq a b; clear H2 | rewrite H1 in H2; injection H2 as H2; subst ]
         | H1 : lock ?s0 = None, H2 : lock ?s0 = Some _ |- _ => rewrite H1 in H2; discriminate H2
         end.

Ltac eqb_all :=
  repeat match goal with
         | |- context [Nat.eqb ?a ?b] => destruct (Nat.eqb_spec a b); subst
         | H : context [Nat.eqb ?a ?b] |- _ => destruct (Nat.eqb_spec a b); subst
         end.

Ltac rw_pcs :=
  repeat match goal with Hpc : t_pc (thr _ _) = _ |- _ => rewrite Hpc in * end.

Lemma ACC_step s l s' : I_lock s -> J s -> ACC s -> step s l = Some s' -> ACC s'.
Proof.
  intros HI HJ HA H. destruct l as [t c|t f|t|c].
  - (* Start *)
    step_cases H; pc_tests; intros c0; pose proof (HA c0) as HA0; unfold ind in *; cbn in *.
    destruct (lock s) as [h|] eqn:HLK; cbn in *; [|exact HA0].
    upd_all; cbn in *; rw_pcs; cbn in *;
      repeat match goal with |- context [if ?b then _ else _] => destruct b end;
      repeat match goal with H : context [if ?b then _ else _] |- _ => destruct b end; exact HA0.
  - (* Op *)
    step_cases H; intros c0; pose proof (HA c0) as HA0;
      pose proof (ind_le1 s c0) as Hle; unfold ind in *; cbn in *.
    all: destruct (lock s) as [h|] eqn:HLK; cbn in *; lock_facts HI; cbn in *; upd_all; cbn in *;
         try congruence; rw_pcs; cbn in *; bool_cases; res_cases; cbn in *; try lia.
    all: eqb_all; cbn in *; try congruence; rw_pcs; cbn in *; try lia.
    + (* Register *)
      pose proof (HJ t) as X. rewrite Heqp in X. rewrite (X eq_refl) in *. cbn in *. lia.
    + (* StoreKey succeeds *)
      unfold full, has_reg in *. cbn in *. destruct (s_reg (slots s (caof s t))); exact HA0.
  - (* Crash *)
    unfold step in H. destruct (finished (pcof s t)) eqn:Hf; [discriminate|]. injection H as <-.
    intros c0. pose proof (HA c0) as HA0. pose proof (ind_le1 s c0) as Hle.
    unfold ind in *. cbn. crash_norm. cbn.
    assert (Hcr : crashes s c0 <=
                  (if in_save_window (pcof s t) && Nat.eqb c0 (caof s t) then S (crashes s c0) else crashes s c0))
      by (destruct (_ && _); lia).
    destruct (lock s) as [h|] eqn:HLK.
    + destruct (Nat.eqb_spec h t) as [->|Hne]; cbn.
      * destruct (Nat.eqb_spec (caof s t) c0) as [E|Hc]; [subst c0|lia].
        rewrite Nat.eqb_refl, Bool.andb_true_r in *.
        destruct (pcof s t) eqn:Hpc; cbn in *; unfold b2n in *;
          repeat match goal with |- context [if ?b then _ else _] => destruct b end; lia.
      * rewrite (upd_neq _ _ _ _ Hne). lia.
    + lia.
  - (* Reset *)
    step_cases H. intros c0. pose proof (HA c0) as HA0. unfold ind in *. cbn in *. exact HA0.
Qed.

(** ... and conversely, as long as no Unlock fails: the lock is held only by a thread inside a
    locked region (every way out of one — success, error, crash — releases it) *)
Definition I_held (s : state) : Prop :=
  forall t, lock s = Some t -> holds_lock_pc (pcof s t) = true.

Lemma I_held_step s l s' :
  I_lock s -> I_held s -> step s l = Some s' -> unlock_fault s l = false -> I_held s'.
Proof.
  intros HI HH H Hu. unfold unlock_fault in Hu. step_cases H; rewrite ?Heqp in Hu; try discriminate Hu; pc_tests; intros t0 Ht0; cbn in *; crash_norm; cbn in *; upd_all; cbn in *;
    bool_cases; res_cases; cbn in *;
    try discriminate; try reflexivity; try (apply HH; assumption); try congruence.
  all: try (injection Ht0 as <-; congruence).
  all: try (match goal with Hl : lock _ = Some ?u |- _ =>
              let X := fresh in pose proof (HH u Hl) as X; rw_pcs; cbn in X; discriminate X end).
  all: try (pose proof (HH t0 Ht0) as X; rewrite ?Heqp, ?Heqp0 in X; cbn in X; try discriminate X; use_lock HI; congruence).
  all: try (destruct (lock s) as [h|] eqn:HLK; [|discriminate]; destruct (Nat.eqb_spec h t); [discriminate|];
            injection Ht0 as ->; try congruence; apply HH; assumption).
Qed.

(* ------------------------------------------------------------------ account numbers are the CA's *)

Definition ok (s : state) (c : ca) (a : acct) : Prop := 1 <= a <= created s c.
Definition ok_opt (s : state) (c : ca) (o : option acct) : Prop :=
  match o with Some a => ok s c a | None => True end.
Definition ok_m (s : state) (c : ca) (m : macct) : Prop := ok s c (m_loc m) /\ ok s c (m_key m).
Definition pc_ok (s : state) (c : ca) (p : pc) : Prop :=
  match p with
  | LoadKey _ r => ok s c r
  | StoreReg a | StoreKey a | Rollback a => ok s c a
  | Unlock (Some m) | Order m _ | DelReg m | DelKey m | Done (Some m) => ok_m s c m
  | DWantLock m | DLoadReg m => ok_m s c m
  | DLoadKey m r => ok_m s c m /\ ok s c r
  | _ => True
  end.

(** every account number in storage or in a thread's memory was created by that CA *)
Definition WF (s : state) : Prop :=
  (forall c, ok_opt s c (s_reg (slots s c)) /\ ok_opt s c (s_key (slots s c))) /\
  (forall t, pc_ok s (caof s t) (pcof s t)).

Lemma WF_step s l s' : WF s -> step s l = Some s' -> WF s'.
Proof.
  intros [HS HT] H. step_cases H; pc_tests; (split; [intros c0; pose proof (HS c0) as HS0 | intros t0; pose proof (HT t0) as HT0]);
    try (pose proof (HT t) as HTt); try (pose proof (HS (caof s t)) as HSt);
    unfold ok_opt, pc_ok, ok_m, ok in *; cbn in *; crash_norm; cbn in *; upd_all; cbn in *;
    rw_pcs; cbn in *; bool_cases; res_cases; cbn in *;
    try exact I; repeat split; try (timeout 5 lia).
  all: try (destruct HS0 as [? ?]; assumption).
  all: try exact HT0.
  all: try (rewrite Heqo in HSt; destruct HSt as [? ?]; lia).
  all: try (destruct HS0 as [X Y]; first [destruct (s_reg _) | destruct (s_key _)]; lia).
  (* another thread of the same CA while the CA created an account *)
  - destruct HS0 as [X Y]. destruct (s_key _); lia.
  - (* another thread of the same CA while the CA created an account *)
    match goal with |- context [t_pc (thr s ?u)] => rename u into t1 end.
    clear - HT0. destruct (pcof s t1); res_cases; lia.
Qed.

(** invariants are inherited along runs *)
Lemma run_app s ls1 ls2 :
  run s (ls1 ++ ls2) = match run s ls1 with Some s1 => run s1 ls2 | None => None end.
Proof.
  revert s; induction ls1 as [|l r IH]; intros s; cbn; [reflexivity|].
  destruct (step s l); [apply IH | reflexivity].
Qed.

Lemma reachable_ind (P : state -> Prop) :
  P init -> (forall s l s', reachable s -> P s -> step s l = Some s' -> P s') ->
  forall s, reachable s -> P s.
Proof.
  intros H0 HS s [ls Hr]. revert s Hr.
  induction ls as [|l r IH] using rev_ind; intros s Hr.
  - cbn in Hr. injection Hr as <-. exact H0.
  - rewrite run_app in Hr. destruct (run init r) as [s1|] eqn:E; [|discriminate].
    cbn in Hr. destruct (step s1 l) eqn:Es; [|discriminate]. injection Hr as <-.
    eapply HS; [exists r; exact E | apply IH; reflexivity | exact Es].
Qed.

Lemma reachable_step s l s' : reachable s -> step s l = Some s' -> reachable s'.
Proof.
  intros [ls Hr] Hs. exists (ls ++ [l]). rewrite run_app, Hr. cbn. rewrite Hs. reflexivity.
Qed.


(* ------------------------------------------------------------------ no re-installed CA, no deletion *)

Definition is_del (p : pc) : bool :=
  match p with
  | DWantLock _ | DLoadReg _ | DLoadKey _ _ | DelReg _ | DelKey _ | DUnlock _ => true
  | _ => false
  end.

Definition K (s : state) : Prop :=
  forall c, resets s c = 0 ->
    forgotten s c = 0 /\ deletes s c = 0 /\ forall t, caof s t = c -> is_del (pcof s t) = false.

Lemma live_false s c a : live s c a = false -> a <= forgotten s c \/ created s c < a.
Proof.
  unfold live. intros H. apply Bool.andb_false_iff in H. destruct H as [H|H].
  - apply Nat.ltb_ge in H. lia.
  - apply Nat.leb_gt in H. lia.
Qed.
Lemma live_true s c a : live s c a = true -> forgotten s c < a <= created s c.
Proof.
  unfold live. intros H. apply Bool.andb_true_iff in H. destruct H as [H1 H2].
  apply Nat.ltb_lt in H1. apply Nat.leb_le in H2. lia.
Qed.

Lemma K_step s l s' : WF s -> K s -> step s l = Some s' -> K s'.
Proof.
  intros [HS HT] HK H. destruct l as [t c|t f|t|c].
  4: { step_cases H. intros c0 Hr. cbn in *. unfold upd in *.
       destruct (Nat.eqb_spec c0 c); [discriminate|]. exact (HK c0 Hr). }
  all: step_cases H; pc_tests; intros c0 Hr; cbn in *; crash_norm; cbn in *;
    pose proof (HK c0 Hr) as (HF & HD & HP);
    (split; [exact HF|split; [try exact HD|]]); try (intros t0 Ht0; pose proof (HP t0) as HP0);
    cbn in *; upd_all; cbn in *; bool_cases; res_cases; cbn in *; try reflexivity; try (apply HP0; assumption);
    try congruence.
  (* the recreate path itself is impossible: no thread of this CA is in it *)
  all: try (exfalso; match goal with
            | Hpc : t_pc (thr ?s0 ?u) = _, Hc : t_ca (thr ?s0 ?u) = _ |- _ =>
                let X := fresh in pose proof (HP u Hc) as X; rewrite Hpc in X; discriminate X
            end).
  all: try (exfalso; match goal with
            | Hpc : t_pc (thr ?s0 ?u) = _ |- _ =>
                let X := fresh in pose proof (HP u eq_refl) as X; rewrite Hpc in X; discriminate X
            end).
  - (* Order -> DWantLock is impossible: the account is live *)
    exfalso. apply live_false in Heqb0. pose proof (HT t) as X. rewrite Heqp in X.
    destruct X as [[X1 X2] _]. subst c0. lia.
Qed.

(* ------------------------------------------------------------------ persisted together *)

Definition saving_pc (p : pc) : bool :=
  match p with Register | StoreReg _ | StoreKey _ | Rollback _ => true | _ => false end.
Definition held (p : pc) : option macct :=
  match p with Unlock (Some m) | Order m _ => Some m | _ => None end.

Lemma saving_holds p : saving_pc p = true -> holds_lock_pc p = true.
Proof. destruct p; cbn; congruence. Qed.

(** as long as deleteAccountLocally has not run for CA c *)
Definition Q (s : state) : Prop :=
  forall c, deletes s c = 0 ->
    (forall t a, caof s t = c -> pcof s t = StoreKey a -> s_reg (slots s c) = Some a) /\
    (forall k, s_key (slots s c) = Some k ->
       s_reg (slots s c) = Some k /\ forall t, caof s t = c -> saving_pc (pcof s t) = false) /\
    (forall t m, caof s t = c -> held (pcof s t) = Some m -> s_key (slots s c) = Some (m_key m)) /\
    (forall t m, caof s t = c -> pcof s t = Done (Some m) ->
       m_loc m = m_key m /\ s_key (slots s c) = Some (m_key m)).

Lemma Q_step s l s' : I_lock s -> Q s -> step s l = Some s' -> Q s'.
Proof.
  intros HI HQ H. step_cases H; pc_tests; intros c0 Hd; cbn in *; crash_norm; cbn in *;
    try (match type of Hd with
         | context [upd] => unfold upd in Hd; destruct (Nat.eqb_spec c0 (caof s t)) as [E|E]; [discriminate Hd|]
         end);
    pose proof (HQ c0 Hd) as (Q1 & Q2 & Q3 & Q4);
    (split; [intros t0 a0 Hc0 Hp0
            |split; [intros k0 Hk0; split; [|intros t0 Hc0]
                    |split; [intros t0 m0 Hc0 Hp0 |intros t0 m0 Hc0 Hp0]]]);
    cbn in *; upd_all; cbn in *; bool_cases; res_cases; cbn in *; try discriminate;
    try (eapply Q1; eassumption); try (eapply Q3; eassumption); try (eapply Q4; eassumption);
    try (match goal with Hk : s_key _ = Some ?k |- _ => destruct (Q2 k Hk) as [? ?]; solve [eauto] end);
    try congruence; try contradiction.
  all: try (repeat match goal with H : Some _ = Some _ |- _ => injection H as H; subst end; cbn in *; congruence).
  all: try (exfalso; match goal with Hk : s_key _ = Some ?k |- _ => destruct (Q2 k Hk) as [X Y]; congruence end).
  all: try (exfalso; match goal with
                     | Hk : s_key _ = Some ?k, Hpc : t_pc (thr _ ?u) = _ |- _ =>
                         destruct (Q2 k ltac:(congruence)) as [X Y];
                         let Z := fresh in pose proof (Y u ltac:(congruence)) as Z; rewrite Hpc in Z; discriminate Z
                     end).
  all: try (lock_facts HI; congruence).
  all: try (injection Hp0 as <-; eapply (Q3 t); [assumption|rewrite Heqp; reflexivity]).
  all: try (injection Hp0 as <-;
            split; [apply Nat.eqb_eq; assumption|]; eapply (Q3 t); [assumption|rewrite Heqp; reflexivity]).
  - (* StoreKey succeeds: the reg file already holds the same account *)
    injection Hk0 as <-. eapply Q1; [reflexivity|exact Heqp].
  - (* ... and nobody else is saving *)
    destruct (saving_pc (pcof s t0)) eqn:X; [|reflexivity].
    apply saving_holds in X. lock_facts HI. congruence.
  - (* ... and nobody held an account before (a held account means the key file was there) *)
    exfalso. pose proof (Q3 t0 m0 E0 Hp0) as X. destruct (Q2 _ X) as [_ Y].
    pose proof (Y t eq_refl) as Z. rewrite Heqp in Z. discriminate Z.
  - exfalso. destruct (Q4 t0 m0 E0 Hp0) as [_ X]. destruct (Q2 _ X) as [_ Y].
    pose proof (Y t eq_refl) as Z. rewrite Heqp in Z. discriminate Z.
Qed.

(* ------------------------------------------------------------------ the invariant *)

Record Inv (s : state) : Prop := {
  inv_lock : I_lock s; inv_J : J s; inv_acc : ACC s; inv_wf : WF s; inv_K : K s; inv_Q : Q s
}.

Lemma Inv_init : Inv init.
Proof.
  split.
  - intros t H. cbn in H. discriminate.
  - intros t H. cbn in H. discriminate.
  - intros c. cbn. lia.
  - split; [intros c; cbn; split; exact I | intros t; cbn; exact I].
  - intros c _. cbn. repeat split; reflexivity.
  - intros c _. cbn. repeat split; intros; try discriminate; reflexivity.
Qed.

Lemma Inv_step s l s' : Inv s -> step s l = Some s' -> Inv s'.
Proof.
  intros [H1 H2 H3 H4 H5 H6] H. split.
  - eapply I_lock_step; eassumption.
  - eapply J_step; eassumption.
  - eapply ACC_step; eassumption.
  - eapply WF_step; eassumption.
  - eapply K_step; eassumption.
  - eapply Q_step; eassumption.
Qed.

Lemma Inv_reachable s : reachable s -> Inv s.
Proof.
  apply reachable_ind; [exact Inv_init|]. intros s0 l s1 _ HI Hs. eapply Inv_step; eassumption.
Qed.

(* ------------------------------------------------------------------ theorems *)

(** however many instances, threads, restarts, faults, crashes and CA re-installations: every
    registration beyond the first is paid for by a failed save, a crash between registering
    and saving, or a deletion by the recreate path *)
Theorem registrations_bounded s c :
  reachable s -> created s c <= 1 + fsaves s c + crashes s c + deletes s c.
Proof.
  intros H. apply Inv_reachable in H. pose proof (inv_acc _ H c). pose proof (ind_le1 s c). lia.
Qed.

Theorem no_reset_no_delete s c : reachable s -> resets s c = 0 -> deletes s c = 0.
Proof. intros H Hr. apply Inv_reachable in H. exact (proj1 (proj2 (inv_K _ H c Hr))). Qed.

Theorem at_most_one_registration s c :
  reachable s -> fsaves s c = 0 -> crashes s c = 0 -> resets s c = 0 -> created s c <= 1.
Proof.
  intros H Hf Hc Hr. pose proof (registrations_bounded s c H). pose proof (no_reset_no_delete s c H Hr). lia.
Qed.

(** the key file is never there without the reg file of the same account *)
Theorem persisted_together s c k :
  reachable s -> deletes s c = 0 -> s_key (slots s c) = Some k -> s_reg (slots s c) = Some k.
Proof.
  intros H Hd Hk. apply Inv_reachable in H.
  destruct (inv_Q _ H c Hd) as (_ & Q2 & _). exact (proj1 (Q2 k Hk)).
Qed.

(** a successful issuance used the account that is (completely) in storage *)
Theorem issued_with_stored_account s c t m :
  reachable s -> deletes s c = 0 -> caof s t = c -> pcof s t = Done (Some m) ->
  m_key m = m_loc m /\ slots s c = Slot (Some (m_loc m)) (Some (m_loc m)).
Proof.
  intros H Hd Hc Hp. apply Inv_reachable in H.
  destruct (inv_Q _ H c Hd) as (_ & Q2 & _ & Q4).
  destruct (Q4 t m Hc Hp) as [E Hk]. destruct (Q2 _ Hk) as [Hr _].
  split; [congruence|]. destruct (slots s c) as [r k]. cbn in *. congruence.
Qed.

(* ------------------------------------------------------------------ the lock is given back *)

Lemma I_held_run ls : forall s s1,
  Inv s -> I_held s -> run s ls = Some s1 -> unlock_faults s ls = 0 -> I_held s1.
Proof.
  induction ls as [|l r IH]; intros s s1 HI HH Hr Hu; cbn in *.
  - injection Hr as <-. exact HH.
  - destruct (step s l) as [s2|] eqn:Es; [|discriminate].
    destruct (unlock_fault s l) eqn:Eu; [discriminate|]. cbn in Hu.
    apply (IH s2 s1); auto.
    + eapply Inv_step; eassumption.
    + eapply I_held_step; [exact (inv_lock _ HI)|exact HH|exact Es|exact Eu].
Qed.

(** when no issuance is in flight (every thread has finished — with a certificate, an error or
    a crash — or has not started) and no Unlock has failed, the registration lock is free: no
    path through newACMEClientWithAccount or deleteAccountLocallyIfCurrent leaks it *)
Theorem lock_free_when_quiescent ls s :
  run init ls = Some s -> unlock_faults init ls = 0 ->
  (forall t, finished (pcof s t) = true) -> lock s = None.
Proof.
  intros Hr Hu Hq. destruct (lock s) as [t|] eqn:E; [|reflexivity].
  assert (HH : I_held s).
  { eapply I_held_run; [exact Inv_init| |exact Hr|exact Hu]. intros t0 H. cbn in H. discriminate. }
  pose proof (HH t E) as X. specialize (Hq t).
  destruct (pcof s t); cbn in *; discriminate.
Qed.
