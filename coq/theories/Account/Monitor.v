(** C20 — the run-time monitor ([Check.spec_hist]) is sound for the model: on every history in
    which the observations are the ones the model expects, the monitor's observed state is the
    model's state, and its verdict follows from the theorems. So a [spec_ok] failure on an
    implementation history means: the implementation left the model, or the property fails. *)
From CM Require Import Lib.Str Lib.Wire Gen.Consts Account.Model Account.Check Account.Proofs Account.Recreate.
From Coq Require Import Arith Lia.
Open Scope nat_scope.

Definition last_rel (l : nat * bool) (p : pc) : Prop :=
  (in_save_window p = true <-> (snd l = false /\ (fst l = k_newacct \/ fst l = k_storereg))) /\
  ((exists a, p = Rollback a) <-> (fst l = k_storekey /\ snd l = true)).

Record sim (o : ostate) (s : state) : Prop := {
  sim_slots : forall c, o_slots o c = slots s c;
  sim_created : forall c, o_created o c = created s c;
  sim_forgotten : forall c, o_forgotten o c = forgotten s c;
  sim_fsaves : forall c, o_fsaves o c = fsaves s c;
  sim_crashes : forall c, o_crashes o c = crashes s c;
  sim_deletes : forall c, o_deletes o c = deletes s c;
  sim_resets : forall c, o_resets o c = resets s c;
  sim_target : forall t, pcof s t <> Idle -> o_target o t = caof s t;
  sim_last : forall t, last_rel (o_last o t) (pcof s t);
  sim_oke : o_ok_e o = true;
  sim_okd : o_ok_d o = true
}.

Lemma sim_init : sim oinit init.
Proof.
  split; try reflexivity.
  - intros t. cbn. unfold last_rel, k_newacct, k_storereg, k_storekey. cbn. split; split.
    + discriminate.
    + intros [_ [H|H]]; discriminate.
    + intros [a H]. discriminate.
    + intros [H _]. discriminate.
Qed.

Definition ev_expected (s : state) (e : event) : Prop :=
  match e with
  | EOp t f k kc v => expected s t f = Some (k, kc, v)
  | _ => True
  end.

Ltac unfold_ks := unfold k_loadreg, k_loadkey, k_lock, k_newacct, k_storereg, k_storekey, k_delreg,
                    k_delkey, k_unlock, k_order in *.

Lemma last_rel_fresh p : in_save_window p = false -> (forall a, p <> Rollback a) -> last_rel (0, false) p.
Proof.
  intros H1 H2. unfold last_rel. unfold_ks. cbn. rewrite H1. split; split; try discriminate.
  - intros [_ [H|H]]; discriminate.
  - intros [a H]. exfalso. eapply H2. exact H.
  - intros [H _]. discriminate.
Qed.

Lemma sim_step_env o s e s1 :
  sim o s -> step s (label_of e) = Some s1 ->
  match e with EOp _ _ _ _ _ => False | _ => True end -> sim (ostep o e) s1.
Proof.
  intros [S1 S2 S3 S4 S5 S6 S7 S8 S9 S10 S11] H He. destruct e as [t c|t f k kc v|t|c]; [|contradiction| |]; cbn in H.
  - (* Start *)
    step_cases H; pc_tests. split; cbn; auto.
    + intros t0 Ht0. unfold upd in *. destruct (Nat.eqb_spec t0 t); subst; cbn in *; auto.
    + intros t0. unfold upd. destruct (Nat.eqb_spec t0 t); cbn; [|apply S9].
      apply last_rel_fresh; [reflexivity|discriminate].
  - (* Crash *)
    destruct (finished (pcof s t)) eqn:Hf; [discriminate|]. injection H as <-.
    assert (Hni : pcof s t <> Idle) by (intros X; rewrite X in Hf; discriminate).
    pose proof (S8 t Hni) as Ht. pose proof (S9 t) as [L1 L2].
    destruct (o_last o t) as [lk lf] eqn:El. cbn [fst snd] in *.
    split; cbn [ostep]; rewrite ?El; cbn; crash_norm; cbn; auto.
    + (* crashes *)
      intros c. rewrite cc_crashes. rewrite Ht. rewrite <- !S5.
      destruct (in_save_window (pcof s t)) eqn:Hw.
      * destruct (proj1 L1 eq_refl) as [-> Hk]. cbn.
        assert (X : (Nat.eqb lk k_newacct || Nat.eqb lk k_storereg) = true)
          by (destruct Hk as [->| ->]; unfold_ks; reflexivity).
        rewrite X. cbn. unfold upd. destruct (Nat.eqb_spec c (caof s t)); [subst c|]; reflexivity.
      * cbn.
        assert (X : negb lf && (Nat.eqb lk k_newacct || Nat.eqb lk k_storereg) = false).
        { destruct (negb lf && (Nat.eqb lk k_newacct || Nat.eqb lk k_storereg)) eqn:Y; [|reflexivity].
          apply Bool.andb_true_iff in Y. destruct Y as [Y1 Y2]. apply Bool.negb_true_iff in Y1.
          apply Bool.orb_true_iff in Y2.
          assert (Z : false = true); [|discriminate Z]. apply L1. split; [exact Y1|].
          destruct Y2 as [Y2|Y2]; apply Nat.eqb_eq in Y2; auto. }
        rewrite X. reflexivity.
    + intros t0 Ht0. unfold upd in *. destruct (Nat.eqb_spec t0 t); subst; cbn in *; auto.
    + intros t0. unfold upd. destruct (Nat.eqb_spec t0 t); cbn; [|apply S9].
      apply last_rel_fresh; [reflexivity|discriminate].
  - (* Reset *)
    step_cases H. split; cbn; auto.
    + intros c0. unfold upd. destruct (Nat.eqb c0 c); [apply S2|apply S3].
    + intros c0. unfold upd. destruct (Nat.eqb c0 c); [rewrite S7; reflexivity|apply S7].
Qed.

Lemma rollback_flag lk lf p :
  last_rel (lk, lf) p ->
  (Nat.eqb lk k_storekey && lf) = match p with Rollback _ => true | _ => false end.
Proof.
  intros [_ L2]. cbn [fst snd] in L2.
  destruct (Nat.eqb lk k_storekey && lf) eqn:E.
  - apply Bool.andb_true_iff in E. destruct E as [E1 E2]. apply Nat.eqb_eq in E1.
    destruct (proj2 L2 (conj E1 E2)) as [a ->]. reflexivity.
  - destruct p; try reflexivity. destruct (proj1 L2 (ex_intro _ a eq_refl)) as [-> ->].
    unfold_ks. cbn in E. discriminate.
Qed.

Lemma last_rel_after k f p :
  in_save_window p = (negb f && (Nat.eqb k k_newacct || Nat.eqb k k_storereg)) ->
  (match p with Rollback _ => true | _ => false end) = (Nat.eqb k k_storekey && f) ->
  last_rel (k, f) p.
Proof.
  intros H1 H2. unfold last_rel. cbn [fst snd]. split; split.
  - intros X. rewrite X in H1. symmetry in H1. apply Bool.andb_true_iff in H1. destruct H1 as [A B].
    apply Bool.negb_true_iff in A. apply Bool.orb_true_iff in B.
    split; [exact A|]. destruct B as [B|B]; apply Nat.eqb_eq in B; auto.
  - intros [-> B]. rewrite H1. cbn. destruct B as [->| ->]; unfold_ks; reflexivity.
  - intros [a ->]. symmetry in H2. apply Bool.andb_true_iff in H2. destruct H2 as [A B].
    apply Nat.eqb_eq in A. auto.
  - intros [-> ->]. unfold_ks. cbn in H2. destruct p; try discriminate. eauto.
Qed.

Lemma ov_pos a : 1 <= a -> ov a = Some a.
Proof. destruct a; [lia|reflexivity]. Qed.

Lemma sim_step_op o s t f k kc v s1 :
  WF s -> G s -> DD s -> sim o s -> step s (Op t f) = Some s1 -> expected s t f = Some (k, kc, v) ->
  sim (ostep o (EOp t f k kc v)) s1.
Proof.
  intros [_ HW] HG HDD [S1 S2 S3 S4 S5 S6 S7 S8 S9 S10 S11] H He. pose proof (HW t) as HWt.
  assert (Hni : pcof s t <> Idle) by (intros X; unfold expected in He; rewrite X in He; discriminate).
  pose proof (S8 t Hni) as Ht. pose proof (S9 t) as L.
  destruct (o_last o t) as [lk lf] eqn:El. pose proof (rollback_flag _ _ _ L) as RB.
  unfold expected in He. cbn [step] in H. unfold op_step in H.
  destruct (pcof s t) eqn:Hpc; try discriminate; destruct f; cbv zeta in He; injection He as E1 E2 E3; subst k kc v; cbv beta iota zeta in H;
    repeat match type of H with
           | (match ?x with _ => _ end) = Some _ => destruct x eqn:?; try discriminate H
           | (if ?x then _ else _) = Some _ => destruct x eqn:?; try discriminate H
           end.
  all: try discriminate H.
  all: injection H as <-.
  all: split; cbn [ostep]; rewrite ?El, ?Ht; unfold_ks; cbn; rewrite ?RB; cbn.
  all: try assumption.
  all: try (rewrite S10, ?Nat.eqb_refl; reflexivity).
  all: try (intros t0 Ht0; unfold upd in *; destruct (Nat.eqb_spec t0 t); subst; cbn in *; auto; fail).
  all: try (intros t0; unfold upd; destruct (Nat.eqb_spec t0 t);
            [subst; cbn; apply last_rel_after; unfold_ks; bool_cases; res_cases; reflexivity | apply S9]; fail).
  all: try (intros c; unfold upd; destruct (Nat.eqb c (caof s t)); rewrite ?S2, ?S4, ?S6; reflexivity).
  all: try (cbn in HWt; unfold ok in HWt; rewrite ov_pos by lia).
  all: try (intros c; unfold upd; destruct (Nat.eqb c (caof s t)); rewrite ?S1; reflexivity).
  all: try (rewrite S11; reflexivity).
  - (* deleteAccountLocally, reg file: the stored account is the one the CA has forgotten *)
    destruct (HDD t) as (_ & D2 & _). destruct (D2 m Hpc) as [Dr Dk].
    pose proof (HG t m) as X. rewrite Hpc in X. specialize (X eq_refl).
    rewrite S11, S1, S3, Dr, Dk. cbn. apply Bool.andb_true_iff. split; [|reflexivity].
    apply Nat.leb_le. exact X.
  - (* deleteAccountLocally, key file: the reg file is gone *)
    destruct (HDD t) as (_ & _ & D3). unfold has_reg. rewrite S11, S1, (D3 m Hpc). reflexivity.
  (* DUnlock also sets the attempt counter (Unlock failed / succeeded) *)
  - intros t0 Ht0; unfold upd in *; destruct (Nat.eqb_spec t0 t); subst; cbn in *; auto;
      rewrite Nat.eqb_refl; cbn; exact Ht.
  - intros t0 Ht0; unfold upd in *; destruct (Nat.eqb_spec t0 t); subst; cbn in *; auto;
      rewrite Nat.eqb_refl; cbn; exact Ht.
Qed.

Lemma triple_eqb_eq a b : triple_eqb a b = true -> a = b.
Proof.
  destruct a as [[x1 y1] z1], b as [[x2 y2] z2]. cbn. intros H.
  apply Bool.andb_true_iff in H. destruct H as [H H3]. apply Bool.andb_true_iff in H. destruct H as [H1 H2].
  apply Nat.eqb_eq in H1, H2, H3. congruence.
Qed.

Lemma replay_sim evs : forall s o s1,
  reachable s -> sim o s -> replay s evs = Some (s1, true) ->
  sim (fold_left ostep evs o) s1 /\ reachable s1.
Proof.
  induction evs as [|e r IH]; intros s o s1 Hr Hs H; cbn in H.
  - injection H as <-. cbn. split; assumption.
  - destruct (step s (label_of e)) as [s2|] eqn:Es; [|discriminate].
    destruct (replay s2 r) as [[s3 b]|] eqn:Er; [|discriminate].
    injection H as -> Hb. apply Bool.andb_true_iff in Hb. destruct Hb as [Hok ->].
    cbn [fold_left]. apply (IH s2); [eapply reachable_step; eassumption| |exact Er].
    destruct e as [t c|t f k kc v|t|c].
    + apply (sim_step_env o s (EStart t c) s2 Hs Es I).
    + destruct (expected s t f) as [x|] eqn:Ex; [|discriminate]. apply triple_eqb_eq in Hok. subst x.
      pose proof (Inv2_reachable _ Hr) as I2.
      eapply sim_step_op; try eassumption;
        [exact (inv_wf _ (Inv_reachable _ Hr))|exact (inv2_g _ I2)|exact (inv2_dd _ I2)].
    + apply (sim_step_env o s (ECrash t) s2 Hs Es I).
    + apply (sim_step_env o s (EReset c) s2 Hs Es I).
Qed.

Definition res_agree (s : state) (f : final) : bool :=
  forallb (fun '(t, (l, k)) =>
             match res_code (t_pc (thr s t)) with
             | Some (l', k') => Nat.eqb l l' && Nat.eqb k k'
             | None => false
             end) (f_res f).

Lemma spec_cas_ok o s f : reachable s -> sim o s -> res_agree s f = true ->
  forall l c, cas_agree s c l = true -> spec_cas o f c l = true.
Proof.
  intros Hr [S1 S2 S3 S4 S5 S6 S7 S8 S9 S10 S11] Hres. induction l as [|[[cr rg] ky] l IH]; intros c H; cbn in *.
  - reflexivity.
  - apply Bool.andb_true_iff in H. destruct H as [H Hl]. apply Bool.andb_true_iff in H. destruct H as [H Hk].
    apply Bool.andb_true_iff in H. destruct H as [Hc Hg]. apply Nat.eqb_eq in Hc, Hg, Hk. subst cr rg ky.
    rewrite (IH _ Hl), Bool.andb_true_r. rewrite S4, S5, S6, S7.
    apply Bool.andb_true_iff. split; [apply Bool.andb_true_iff; split; [apply Bool.andb_true_iff; split|]|].
    + apply Nat.leb_le. apply registrations_bounded_by_reinstallations. exact Hr.
    + apply Nat.leb_le. apply registrations_bounded. exact Hr.
    + destruct (Nat.eqb_spec (deletes s c) 0) as [Hd|Hd]; [|reflexivity]. cbn.
      destruct (s_key (slots s c)) as [k|] eqn:Ek; [|reflexivity].
      rewrite (persisted_together s c k Hr Hd Ek). cbn. rewrite Nat.eqb_refl. apply Bool.orb_true_r.
    + destruct (Nat.eqb_spec (resets s c) 0) as [Hz|Hz]; [|reflexivity]. cbn.
      pose proof (no_reset_no_delete s c Hr Hz) as Hd. rewrite Hd. cbn.
      apply forallb_forall. intros [t [lo k]] Hin.
      unfold res_agree in Hres. rewrite forallb_forall in Hres. specialize (Hres _ Hin). cbn in Hres.
      destruct (pcof s t) eqn:Hp; cbn in Hres; try discriminate.
      destruct res as [m|].
      * apply Bool.andb_true_iff in Hres. destruct Hres as [E1 E2]. apply Nat.eqb_eq in E1, E2. subst lo k.
        rewrite (S8 t) by (rewrite Hp; discriminate).
        destruct (Nat.eqb_spec (caof s t) c) as [Hc|Hc]; [|reflexivity]. cbn.
        destruct (issued_with_stored_account s c t m Hr Hd Hc Hp) as [Ek Es]. rewrite Es, Ek. cbn.
        rewrite !Nat.eqb_refl. cbn. apply Bool.orb_true_r.
      * apply Bool.andb_true_iff in Hres. destruct Hres as [E1 _]. apply Nat.eqb_eq in E1. subst lo.
        cbn. rewrite Bool.orb_true_r. reflexivity.
Qed.

(** a thread leaves [Idle] only by its Start *)
Lemma idle_step s l s1 t :
  step s l = Some s1 -> pcof s t = Idle -> (forall c, l <> Start t c) -> pcof s1 t = Idle.
Proof.
  intros H Hi Hl. destruct l as [t1 c1|t1 f1|t1|c1].
  - destruct (Nat.eq_dec t1 t) as [->|Hne]; [exfalso; eapply Hl; reflexivity|].
    step_cases H. cbn. rewrite upd_neq by congruence. exact Hi.
  - destruct (Nat.eq_dec t1 t) as [->|Hne].
    + cbn in H. unfold op_step in H. rewrite Hi in H. discriminate.
    + step_cases H; cbn; rewrite ?upd_neq by congruence; exact Hi.
  - destruct (Nat.eq_dec t1 t) as [->|Hne].
    + cbn in H. rewrite Hi in H. discriminate.
    + cbn in H. destruct (finished (pcof s t1)); [discriminate|]. injection H as <-.
      cbn. crash_norm. rewrite upd_neq by congruence. exact Hi.
  - step_cases H. exact Hi.
Qed.

Lemma started_in_history evs t : forall s s1 b,
  replay s evs = Some (s1, b) -> pcof s t = Idle -> pcof s1 t <> Idle ->
  exists c, In (EStart t c) evs.
Proof.
  induction evs as [|e r IH]; intros s s1 b H Hi Hn; cbn in H.
  - injection H as <- _. contradiction.
  - destruct (step s (label_of e)) as [s2|] eqn:Es; [|discriminate].
    destruct (replay s2 r) as [[s3 b3]|] eqn:Er; [|discriminate]. injection H as <- _.
    destruct e as [t1 c1|t1 f1 k1 kc1 v1|t1|c1]; cbn [label_of] in Es.
    1: destruct (Nat.eq_dec t1 t) as [->|Hne]; [exists c1; left; reflexivity|].
    all: (destruct (IH s2 s3 b3 Er) as [c Hc]; [|exact Hn|exists c; right; exact Hc]);
      eapply idle_step; [exact Es|exact Hi|intros c0 X; try discriminate X; congruence].
Qed.

Lemma replay_run evs : forall s s1 b,
  replay s evs = Some (s1, b) -> run s (map label_of evs) = Some s1.
Proof.
  induction evs as [|e r IH]; intros s s1 b H; cbn in *.
  - injection H as <- _. reflexivity.
  - destruct (step s (label_of e)) as [s2|]; [|discriminate].
    destruct (replay s2 r) as [[s3 b3]|] eqn:Er; [|discriminate]. injection H as <- _.
    eapply IH. exact Er.
Qed.

Lemma replay_no_unlock_fault evs : forall s s1,
  replay s evs = Some (s1, true) -> no_unlock_fault evs = true ->
  unlock_faults s (map label_of evs) = 0.
Proof.
  induction evs as [|e r IH]; intros s s1 H Hn; cbn in *; [reflexivity|].
  apply Bool.andb_true_iff in Hn. destruct Hn as [Hn Hn'].
  destruct (step s (label_of e)) as [s2|] eqn:Es; [|discriminate].
  destruct (replay s2 r) as [[s3 b3]|] eqn:Er; [|discriminate]. injection H as -> Hb.
  apply Bool.andb_true_iff in Hb. destruct Hb as [Hok ->].
  rewrite (IH s2 s1 Er Hn'), Nat.add_0_r.
  destruct e as [t c|t f k kc v|t|c]; cbn; try reflexivity.
  destruct f; [|reflexivity].
  destruct (expected s t true) as [x|] eqn:Ex; [|discriminate]. apply triple_eqb_eq in Hok. subst x.
  unfold expected in Ex.
  destruct (pcof s t); try reflexivity; cbv zeta in Ex; injection Ex as <- _ _; discriminate Hn.
Qed.

Lemma spec_lock_ok evs s f :
  replay init evs = Some (s, true) -> final_agree s f = true -> spec_lock evs f = true.
Proof.
  intros Hrep Hf. unfold spec_lock. destruct (all_finished evs f) eqn:Ha; [cbn|reflexivity].
  destruct (no_unlock_fault evs) eqn:Hnu; [cbn|reflexivity].
  unfold final_agree in Hf. apply Bool.andb_true_iff in Hf. destruct Hf as [Hf Hl].
  apply Bool.andb_true_iff in Hf. destruct Hf as [_ Hres].
  assert (Hq : forall t, finished (pcof s t) = true).
  { intros t. destruct (pcof s t) eqn:Hp; try reflexivity; exfalso.
    all: destruct (started_in_history evs t init s true Hrep eq_refl) as [c Hc]; [rewrite Hp; discriminate|].
    all: unfold all_finished in Ha; rewrite forallb_forall in Ha; specialize (Ha _ Hc); cbn in Ha.
    all: apply existsb_exists in Ha; destruct Ha as [[t' x] [Hin Ht']]; apply Nat.eqb_eq in Ht'; subst t'.
    all: rewrite forallb_forall in Hres; specialize (Hres _ Hin); destruct x as [lo k]; cbn in Hres.
    all: rewrite Hp in Hres; cbn in Hres; discriminate Hres. }
  rewrite (lock_free_when_quiescent _ s (replay_run _ _ _ _ Hrep) (replay_no_unlock_fault _ _ _ Hrep Hnu) Hq) in Hl.
  destruct (f_lock_free f); [reflexivity|discriminate Hl].
Qed.

(** every clause of the monitor — (a) registrations bounded, (b) persisted together, (c) reuse
    of the stored account, (d) the recreate path deletes only a stored account the CA has
    forgotten, (e) only the directory in use is touched, (f) the lock is free once nothing is in
    flight — holds on every history, sequential or
    concurrent, on which the model and the observation agree *)
Theorem monitor_sound evs s f :
  replay init evs = Some (s, true) -> final_agree s f = true -> spec_hist evs f = true.
Proof.
  intros Hrep Hf. destruct (replay_sim evs init oinit s) as [Hs Hr]; auto.
  { exists []. reflexivity. } { exact sim_init. }
  pose proof Hf as Hf0.
  unfold final_agree in Hf. apply Bool.andb_true_iff in Hf. destruct Hf as [Hf _].
  apply Bool.andb_true_iff in Hf. destruct Hf as [Hc Hres].
  unfold spec_hist. rewrite (spec_lock_ok evs s f Hrep Hf0), Bool.andb_true_r.
  unfold orun. rewrite (sim_oke _ _ Hs), (sim_okd _ _ Hs). cbn.
  eapply spec_cas_ok; eassumption.
Qed.

Lemma model_agrees_hist evs f conf recs :
  model_agrees (CHist evs f conf recs) = true ->
  exists s, replay init evs = Some (s, true) /\ final_agree s f = true.
Proof.
  cbn. destruct (replay init evs) as [[s b]|]; [|discriminate]. intros H.
  apply Bool.andb_true_iff in H. destruct H as [H _].
  apply Bool.andb_true_iff in H. destruct H as [-> H]. exists s. split; [reflexivity|exact H].
Qed.

(* non-vacuity: the history of the former known finding, as the harness records it on the
   repaired code: threads 1 and 2 hold account 1 of a re-installed CA; thread 1 recreates
   (account 2); thread 2 finds account 2 under the lock, deletes nothing and uses it *)
Definition ex_history : list event :=
  [EStart 0 0; EOp 0 false 1 0 0; EOp 0 false 3 0 0; EOp 0 false 1 0 0; EOp 0 false 4 0 1;
   EOp 0 false 5 0 1; EOp 0 false 6 0 1; EOp 0 false 9 0 0; EOp 0 false 10 0 0;
   EStart 1 0; EOp 1 false 1 0 1; EOp 1 false 2 0 1; EStart 2 0; EOp 2 false 1 0 1; EOp 2 false 2 0 1;
   EReset 0;
   EOp 1 false 10 0 1; EOp 1 false 3 0 0; EOp 1 false 1 0 1; EOp 1 false 2 0 1; EOp 1 false 7 0 0;
   EOp 1 false 8 0 0; EOp 1 false 9 0 0; EOp 1 false 1 0 0; EOp 1 false 3 0 0; EOp 1 false 1 0 0;
   EOp 1 false 4 0 2; EOp 1 false 5 0 2; EOp 1 false 6 0 2; EOp 1 false 9 0 0; EOp 1 false 10 0 0;
   EOp 2 false 10 0 1; EOp 2 false 3 0 0; EOp 2 false 1 0 2; EOp 2 false 2 0 2; EOp 2 false 9 0 0;
   EOp 2 false 1 0 2; EOp 2 false 2 0 2; EOp 2 false 10 0 0].
Definition ex_final : final := Final [(2, 2, 2)] [(0, (1, 1)); (1, (2, 2)); (2, (2, 2))] true.

Example ex_history_agrees :
  model_agrees (CHist ex_history ex_final false []) = true /\ spec_hist ex_history ex_final = true.
Proof. split; vm_compute; reflexivity. Qed.

(** ... and the monitor does reject the old behaviour: thread 2 deleting account 2 *)
Definition ex_history_old : list event :=
  firstn 32 ex_history ++ [EOp 2 false 7 0 0; EOp 2 false 8 0 0].
Example ex_history_old_rejected :
  o_ok_d (orun (firstn 31 ex_history)) = true /\ o_ok_d (orun ex_history_old) = false.
Proof. split; vm_compute; reflexivity. Qed.
