(** C20 — what the run-time monitor and the replay check on the implementation, stated and proved
    about the model: the behaviours that the seeded changes of the last rounds broke (continue
    after a failed save, treat a load error as "absent", skip the key file, compare outside the
    lock, recreate on other CA answers, bindings on the wrong request). *)
From CM Require Import Lib.Str Lib.Wire Gen.Consts Account.Model Account.Check Account.Proofs
  Account.Recreate Account.Monitor.
From Coq Require Import Arith Lia.
Open Scope nat_scope.

(* ------------------------------------------------------------------ compare-and-delete under the lock *)

Definition in_cad (p : pc) : bool :=
  match p with DLoadReg _ | DLoadKey _ _ | DelReg _ | DelKey _ | DUnlock _ => true | _ => false end.

(** the stored account is loaded, compared and deleted while the registration lock is held *)
Theorem compare_and_delete_under_lock s t :
  reachable s -> in_cad (pcof s t) = true -> lock s = Some t.
Proof.
  intros Hr H. apply (inv_lock _ (Inv_reachable _ Hr)). destruct (pcof s t); cbn in *; congruence.
Qed.

(** ... so that what was compared is what gets deleted: at the first Delete both files are there,
    the reg file holds the account the thread was refused with, and the CA has forgotten it *)
Theorem delete_sees_what_was_compared s t m :
  reachable s -> pcof s t = DelReg m ->
  lock s = Some t /\ s_reg (slots s (caof s t)) = Some (m_loc m) /\
  has_key (slots s (caof s t)) = true /\ m_loc m <= forgotten s (caof s t).
Proof.
  intros Hr Hp. pose proof (Inv2_reachable _ Hr) as I2.
  destruct (inv2_dd _ I2 t) as (_ & D2 & _). destruct (D2 m Hp) as [Dr Dk].
  repeat split; auto.
  - apply compare_and_delete_under_lock; [exact Hr|rewrite Hp; reflexivity].
  - apply (inv2_g _ I2 t m). rewrite Hp. reflexivity.
Qed.

(* ------------------------------------------------------------------ only accountDoesNotExist recreates *)

Definition in_recreate (p : pc) : bool :=
  match p with
  | DWantLock _ | DLoadReg _ | DLoadKey _ _ | DelReg _ | DelKey _ | DUnlock _ => true
  | _ => false
  end.

(** whatever else the CA answers to an order (unauthorized 401/403, rateLimited, malformed,
    serverInternal, at newOrder or at finalize = a faulted [Order] step; or, truthfully,
    "unauthorized" for an account whose key is another one's): the issuance fails and nothing
    else happens — no file is touched, nothing is registered, the recreate path is not entered *)
Theorem ca_problem_never_deletes s t s1 m i :
  step s (Op t true) = Some s1 -> pcof s t = Order m i ->
  pcof s1 t = Done None /\ slots s1 = slots s /\ created s1 = created s /\ lock s1 = lock s.
Proof.
  intros H Hp. cbn in H. unfold op_step in H. rewrite Hp in H. injection H as <-.
  cbn. rewrite upd_eq. auto.
Qed.

Theorem live_account_order_never_recreates s t f s1 m i :
  step s (Op t f) = Some s1 -> pcof s t = Order m i -> live s (caof s t) (m_loc m) = true ->
  in_recreate (pcof s1 t) = false /\ slots s1 = slots s /\ created s1 = created s.
Proof.
  intros H Hp Hl. cbn in H. unfold op_step in H. rewrite Hp in H. rewrite Hl in H.
  destruct f; [|destruct (Nat.eqb (m_loc m) (m_key m))]; injection H as <-; cbn; rewrite upd_eq; auto.
Qed.

(** the recreate path is entered only by the first attempt of an order that the CA — not a fault —
    answered with accountDoesNotExist, i.e. for an account that CA does not know *)
Theorem recreate_entered_only_if_ca_says_gone s l s1 t :
  step s l = Some s1 -> in_recreate (pcof s t) = false -> in_recreate (pcof s1 t) = true ->
  l = Op t false /\ exists m, pcof s t = Order m 0 /\ pcof s1 t = DWantLock m /\
                              live s (caof s t) (m_loc m) = false.
Proof.
  intros H H0 H1. destruct l as [t1 c1|t1 f1|t1|c1].
  - step_cases H; pc_tests. cbn in H1. unfold upd in H1. destruct (Nat.eqb t t1); cbn in H1; congruence.
  - destruct (Nat.eq_dec t1 t) as [->|Hne].
    + step_cases H; cbn in *; rewrite ?upd_eq in *; cbn in *; rewrite ?upd_eq in *; cbn in *;
        bool_cases; res_cases; cbn in *; try congruence; try discriminate.
      match goal with X : (_ =? 0) = true |- _ => apply Nat.eqb_eq in X; subst end.
      split; [reflexivity|]. exists m. auto.
    + step_cases H; cbn in *; rewrite ?(upd_neq' t1 t) in H1 by congruence; cbn in *;
        rewrite ?(upd_neq' t1 t) in H1 by congruence; congruence.
  - unfold step in H. destruct (finished (pcof s t1)); [discriminate|]. injection H as <-.
    cbn in H1. crash_norm. unfold upd in H1. destruct (Nat.eqb t t1); cbn in H1; congruence.
  - step_cases H. cbn in H1. congruence.
Qed.

(* ------------------------------------------------------------------ load errors abort *)

Definition load_pc (p : pc) : bool :=
  match p with LoadReg _ | LoadKey _ _ | DLoadReg _ | DLoadKey _ _ => true | _ => false end.
(** on its way out with an error: nothing left to do but to release the lock *)
Definition aborting (p : pc) : bool :=
  match p with Done None | Unlock None | DUnlock false => true | _ => false end.

Lemma load_fault_step s t s1 :
  step s (Op t true) = Some s1 -> load_pc (pcof s t) = true ->
  aborting (pcof s1 t) = true /\ slots s1 = slots s /\ created s1 = created s.
Proof.
  intros H Hl. cbn in H. unfold op_step in H.
  destruct (pcof s t) eqn:Hp; cbn in Hl; try discriminate; injection H as <-; cbn; rewrite upd_eq;
    try destruct locked; cbn; auto.
Qed.

Lemma aborting_step s l s1 t :
  step s l = Some s1 -> aborting (pcof s t) = true ->
  aborting (pcof s1 t) = true /\
  (label_tid l = Some t -> slots s1 = slots s /\ created s1 = created s).
Proof.
  intros H Ha. destruct l as [t1 c1|t1 f1|t1|c1].
  - step_cases H; pc_tests. cbn. unfold upd. destruct (Nat.eqb_spec t t1) as [->|Hne].
    + rewrite Heqp in Ha. discriminate.
    + split; [exact Ha|intros X; injection X as X; congruence].
  - destruct (Nat.eq_dec t1 t) as [->|Hne].
    + cbn in H. unfold op_step in H.
      destruct (pcof s t) eqn:Hp; cbn in Ha; try discriminate Ha;
        repeat match goal with
               | r : option macct |- _ => destruct r
               | b : bool |- _ => destruct b
               end; cbn in Ha; try discriminate Ha; try discriminate H;
        injection H as <-; cbn; rewrite ?upd_eq; cbn; auto.
    + split; [|intros X; injection X as X; congruence].
      step_cases H; cbn; rewrite ?(upd_neq' t1 t) by congruence; cbn; rewrite ?(upd_neq' t1 t) by congruence;
        exact Ha.
  - unfold step in H. destruct (finished (pcof s t1)) eqn:Hf; [discriminate|]. injection H as <-.
    split.
    + cbn. crash_norm. unfold upd. destruct (Nat.eqb_spec t t1) as [->|Hne]; cbn; auto.
    + intros _. cbn. crash_norm. auto.
  - step_cases H. cbn. split; [exact Ha|intros X; discriminate X].
Qed.

(** a Load that fails with anything but "does not exist" (reg or key file; before the lock, under
    it, or in the compare-and-delete) is never read as "the account is absent": the call is on its
    way out with an error for good — in every continuation, whatever the other threads do, this
    thread never registers, stores or deletes anything *)
Theorem load_error_aborts s t s1 :
  step s (Op t true) = Some s1 -> load_pc (pcof s t) = true ->
  slots s1 = slots s /\ created s1 = created s /\
  forall ls s2, run s1 ls = Some s2 -> aborting (pcof s2 t) = true.
Proof.
  intros H Hl. destruct (load_fault_step s t s1 H Hl) as (Ha & Hs & Hc). repeat split; auto.
  intros ls. clear H Hs Hc. revert s1 Ha. induction ls as [|l r IH]; intros s1 Ha s2 Hr; cbn in Hr.
  - injection Hr as <-. exact Ha.
  - destruct (step s1 l) as [s3|] eqn:Es; [|discriminate].
    apply (IH s3); [exact (proj1 (aborting_step _ _ _ t Es Ha))|exact Hr].
Qed.

Theorem aborting_thread_touches_nothing s l s1 t :
  step s l = Some s1 -> aborting (pcof s t) = true -> label_tid l = Some t ->
  slots s1 = slots s /\ created s1 = created s.
Proof. intros H Ha Hl. exact (proj2 (aborting_step _ _ _ t H Ha) Hl). Qed.

(* ------------------------------------------------------------------ the save is all or error *)

(** what a thread brings out of the locked region of newACMEClientWithAccount is completely in
    storage: the account it registered and saved (both Stores succeeded), or the account another
    one saved and it reloaded. In particular a failed save never continues with the unpersisted
    account ([failed_save_is_an_error]) and the key file is written with the registration, whatever
    the key file held before ([save_writes_both_files]). *)
Definition LR (s : state) : Prop :=
  forall t,
    (forall r, pcof s t = LoadKey true r -> s_reg (slots s (caof s t)) = Some r) /\
    (forall m, pcof s t = Unlock (Some m) ->
       slots s (caof s t) = Slot (Some (m_loc m)) (Some (m_key m))).

Definition lr_pc (p : pc) : bool :=
  match p with LoadKey true _ | Unlock (Some _) => true | _ => false end.
Lemma lr_holds p : lr_pc p = true -> holds_lock_pc p = true.
Proof. destruct p; cbn; try congruence; res_cases; bool_cases; cbn; congruence. Qed.

Lemma LR_step s l s' : I_lock s -> RR s -> LR s -> step s l = Some s' -> LR s'.
Proof.
  intros HI HR HL H. step_cases H; pc_tests; intros t0; pose proof (HL t0) as (L1 & L2);
    cbn in *; crash_norm; cbn in *; upd_all; cbn in *; bool_cases; res_cases; cbn in *;
    (split; [intros r0 HE|intros m0 HE]);
    try discriminate; try (injection HE as HE; subst); cbn in *;
    try (eapply L1; eassumption); try (eapply L2; eassumption); try congruence.
  all: try (exfalso; assert (X : lr_pc (pcof s t0) = true) by (rewrite HE; reflexivity);
            apply lr_holds in X; lock_facts HI; congruence).
  all: try (pose proof (L1 _ Heqp) as X; destruct (slots s (caof s t)) as [rg ky]; cbn in *; congruence).
  all: try (pose proof (HR t a) as X; rewrite Heqp in X; rewrite (X eq_refl); reflexivity).
Qed.

Lemma LR_reachable s : reachable s -> LR s.
Proof.
  intros Hr. cut ((Inv s /\ Inv2 s) /\ LR s); [tauto|]. revert s Hr. apply reachable_ind.
  - split; [split; [exact Inv_init|exact Inv2_init]|]. intros t. cbn. split; intros; discriminate.
  - intros s l s1 Hr [[HI H2] HL] Hs. split.
    + split; [eapply Inv_step; eassumption|].
      apply Inv2_reachable. eapply reachable_step; eassumption.
    + eapply LR_step; [exact (inv_lock _ HI)|exact (inv2_rr _ H2)|exact HL|exact Hs].
Qed.

Theorem locked_result_is_stored s t m :
  reachable s -> pcof s t = Unlock (Some m) ->
  lock s = Some t /\ slots s (caof s t) = Slot (Some (m_loc m)) (Some (m_key m)).
Proof.
  intros Hr Hp. split.
  - apply (inv_lock _ (Inv_reachable _ Hr)). rewrite Hp. reflexivity.
  - exact (proj2 (LR_reachable _ Hr t) m Hp).
Qed.

(** a Store of the save that fails makes the call fail: rollback (when the reg file was written),
    release, error — the freshly registered account is never used *)
Theorem failed_save_is_an_error s t a s1 :
  step s (Op t true) = Some s1 -> (pcof s t = StoreReg a \/ pcof s t = StoreKey a) ->
  (pcof s1 t = Unlock None \/ pcof s1 t = Rollback a) /\
  forall f s2, step s1 (Op t f) = Some s2 -> pcof s1 t = Rollback a -> pcof s2 t = Unlock None.
Proof.
  intros H Hp. cbn in H. unfold op_step in H. split.
  - destruct Hp as [Hp|Hp]; rewrite Hp in H; injection H as <-; cbn; rewrite upd_eq; auto.
  - intros f s2 H2 Hr. cbn in H2. unfold op_step in H2. rewrite Hr in H2.
    destruct f; injection H2 as <-; cbn; rewrite upd_eq; reflexivity.
Qed.

(** the save writes the key file together with the registration — also over a key file that is
    already there (left by an earlier failed deletion or save) *)
Theorem save_writes_both_files s t a s1 :
  reachable s -> pcof s t = StoreKey a -> step s (Op t false) = Some s1 ->
  slots s1 (caof s t) = Slot (Some a) (Some a) /\ pcof s1 t = Unlock (Some (MA a a)).
Proof.
  intros Hr Hp H. pose proof (inv2_rr _ (Inv2_reachable _ Hr) t a) as X. rewrite Hp in X.
  specialize (X eq_refl). cbn in H. unfold op_step in H. rewrite Hp in H. injection H as <-.
  cbn. rewrite !upd_eq, X. auto.
Qed.

Theorem registration_is_followed_by_both_stores s t s1 :
  step s (Op t false) = Some s1 -> pcof s t = Register ->
  exists a, pcof s1 t = StoreReg a /\ a = S (created s (caof s t)) /\
            forall s2, step s1 (Op t false) = Some s2 -> pcof s2 t = StoreKey a.
Proof.
  intros H Hp. cbn in H. unfold op_step in H. rewrite Hp in H. injection H as <-.
  eexists. cbn. rewrite upd_eq. repeat split.
  intros s2 H2. cbn in H2. unfold op_step in H2. cbn in H2. rewrite upd_eq in H2. cbn in H2.
  injection H2 as <-. cbn. rewrite upd_eq. reflexivity.
Qed.

(* ------------------------------------------------------------------ external account bindings *)

(** what the model predicts for the requests the CAs log in a history: a binding is attached to
    exactly the account-creating newAccount requests ([Register]), for the directory in use, with
    the configured credentials and the account key that signs the request *)
Theorem eab_spec_sound conf recs :
  forallb (eab_predicted conf) recs = true -> eab_spec conf recs = true.
Proof.
  unfold eab_spec. intros H. apply forallb_forall. intros r Hin.
  rewrite forallb_forall in H. specialize (H r Hin). unfold eab_predicted in H.
  destruct r as [[[[c cr] h] u] g]. cbn in *.
  destruct conf, cr, h, g; cbn in *; try discriminate; try reflexivity;
    try (rewrite Bool.andb_true_r in *); try exact H; try (destruct (Nat.eqb u c); discriminate).
Qed.

(* ------------------------------------------------------------------ clause (h) of the monitor *)

Definition cad_pc (p : pc) : bool :=
  match p with DWantLock _ | DLoadReg _ | DLoadKey _ _ | DelReg _ | DelKey _ => true | _ => false end.

Lemma last_rel_step s t f s1 k kc v :
  step s (Op t f) = Some s1 -> expected s t f = Some (k, kc, v) -> last_rel (k, f) (pcof s1 t).
Proof.
  intros H He. unfold expected in He. cbn [step] in H. unfold op_step in H.
  destruct (pcof s t) eqn:Hpc; try discriminate; destruct f; cbv zeta in He; injection He as E1 E2 E3; subst k kc v;
    cbv beta iota zeta in H;
    repeat match type of H with
           | (match ?x with _ => _ end) = Some _ => destruct x eqn:?; try discriminate H
           | (if ?x then _ else _) = Some _ => destruct x eqn:?; try discriminate H
           end.
  all: try discriminate H.
  all: injection H as <-.
  all: cbn; rewrite ?upd_eq; cbn; rewrite ?upd_eq; cbn.
  all: apply last_rel_after; unfold_ks; bool_cases; res_cases; reflexivity.
Qed.

Lemma cad_step s t f s1 k kc v :
  step s (Op t f) = Some s1 -> expected s t f = Some (k, kc, v) -> cad_pc (pcof s1 t) = true ->
  (cad_pc (pcof s t) = true /\ k <> k_order) \/ (k = k_order /\ f = false /\ v = 1).
Proof.
  intros H He Hc. unfold expected in He. cbn [step] in H. unfold op_step in H.
  destruct (pcof s t) eqn:Hpc; try discriminate; destruct f; cbv zeta in He; injection He as E1 E2 E3; subst k kc v;
    cbv beta iota zeta in H;
    repeat match type of H with
           | (match ?x with _ => _ end) = Some _ => destruct x eqn:?; try discriminate H
           | (if ?x then _ else _) = Some _ => destruct x eqn:?; try discriminate H
           end.
  all: try discriminate H.
  all: injection H as <-.
  all: cbn in Hc; rewrite ?upd_eq in Hc; cbn in Hc; rewrite ?upd_eq in Hc; cbn in Hc.
  all: bool_cases; res_cases; cbn in Hc; try discriminate Hc.
  all: try (left; split; [reflexivity|unfold_ks; discriminate]).
  all: right; repeat split; reflexivity.
Qed.

Lemma other_thread_pc s l s1 t :
  step s l = Some s1 -> label_tid l <> Some t -> pcof s1 t = pcof s t.
Proof.
  intros H Hl. destruct l as [t1 c1|t1 f1|t1|c1]; cbn in Hl.
  - step_cases H. cbn. rewrite upd_neq by congruence. reflexivity.
  - step_cases H; cbn; rewrite ?(upd_neq' t1 t) by congruence; cbn; rewrite ?(upd_neq' t1 t) by congruence; reflexivity.
  - unfold step in H. destruct (finished (pcof s t1)); [discriminate|]. injection H as <-.
    cbn. crash_norm. rewrite upd_neq by congruence. reflexivity.
  - step_cases H. reflexivity.
Qed.

Lemma spec_gone_ok evs : forall s gone last s1,
  (forall t, cad_pc (pcof s t) = true -> gone t = true) ->
  (forall t, last_rel (last t) (pcof s t)) ->
  replay s evs = Some (s1, true) -> spec_gone gone last evs = true.
Proof.
  induction evs as [|e r IH]; intros s gone last s1 HG HL H; cbn in H; [reflexivity|].
  destruct (step s (label_of e)) as [s2|] eqn:Es; [|discriminate].
  destruct (replay s2 r) as [[s3 b3]|] eqn:Er; [|discriminate]. injection H as -> Hb.
  apply Bool.andb_true_iff in Hb. destruct Hb as [Hok ->].
  destruct e as [t c|t f k kc v|t|c]; cbn [spec_gone label_of] in *.
  - (* Start *)
    apply (IH s2 _ _ s1); [| |exact Er].
    + intros t0 Hc. unfold upd. destruct (Nat.eqb_spec t0 t) as [->|Hne].
      * exfalso. step_cases Es; pc_tests. cbn in Hc. rewrite upd_eq in Hc. discriminate.
      * apply HG. rewrite <- (other_thread_pc _ _ _ t0 Es) by (cbn; congruence). exact Hc.
    + intros t0. unfold upd. destruct (Nat.eqb_spec t0 t) as [->|Hne].
      * step_cases Es; pc_tests. cbn. rewrite upd_eq. apply last_rel_fresh; [reflexivity|discriminate].
      * rewrite (other_thread_pc _ _ _ t0 Es) by (cbn; congruence). apply HL.
  - (* Op *)
    destruct (expected s t f) as [x|] eqn:Ex; [|discriminate]. apply triple_eqb_eq in Hok. subst x.
    pose proof (HL t) as Lt. destruct (last t) as [lk lf] eqn:El.
    pose proof (rollback_flag _ _ _ Lt) as RB.
    apply Bool.andb_true_iff. split.
    + (* the check *)
      destruct ((Nat.eqb k k_delreg || Nat.eqb k k_delkey) &&
                negb (Nat.eqb k k_delreg && Nat.eqb lk k_storekey && lf)) eqn:Ed; [cbn|reflexivity].
      apply HG. unfold expected in Ex.
      destruct (pcof s t) eqn:Hp; try discriminate; cbv zeta in Ex; injection Ex as E1 E2 E3; subst k kc v;
        unfold_ks; cbn in Ed; try discriminate Ed; try reflexivity.
      (* Rollback is recognised *)
      rewrite RB in Ed. cbn in Ed. discriminate Ed.
    + apply (IH s2 _ _ s1); [| |exact Er].
      * intros t0 Hc. destruct (Nat.eq_dec t0 t) as [->|Hne].
        -- destruct (cad_step _ _ _ _ _ _ _ Es Ex Hc) as [[Hold Hk]|(-> & -> & ->)].
           ++ destruct (Nat.eqb_spec k k_order) as [E|_]; [contradiction|]. apply HG. exact Hold.
           ++ rewrite Nat.eqb_refl. rewrite upd_eq. reflexivity.
        -- rewrite (other_thread_pc _ _ _ t0 Es) in Hc by (cbn; congruence).
           destruct (Nat.eqb k k_order); [rewrite upd_neq by exact Hne|]; apply HG; exact Hc.
      * intros t0. unfold upd. destruct (Nat.eqb_spec t0 t) as [->|Hne].
        -- eapply last_rel_step; eassumption.
        -- rewrite (other_thread_pc _ _ _ t0 Es) by (cbn; congruence). apply HL.
  - (* Crash *)
    apply (IH s2 _ _ s1); [| |exact Er].
    + intros t0 Hc. apply HG. destruct (Nat.eq_dec t0 t) as [->|Hne].
      * exfalso. cbn in Es. destruct (finished (pcof s t)); [discriminate|]. injection Es as <-.
        cbn in Hc. crash_norm. rewrite upd_eq in Hc. discriminate.
      * rewrite <- (other_thread_pc _ _ _ t0 Es) by (cbn; congruence). exact Hc.
    + intros t0. unfold upd. destruct (Nat.eqb_spec t0 t) as [->|Hne].
      * cbn in Es. destruct (finished (pcof s t)); [discriminate|]. injection Es as <-.
        cbn. crash_norm. rewrite upd_eq. apply last_rel_fresh; [reflexivity|discriminate].
      * rewrite (other_thread_pc _ _ _ t0 Es) by (cbn; congruence). apply HL.
  - (* Reset *)
    apply (IH s2 _ _ s1); [| |exact Er].
    + intros t0 Hc. apply HG. rewrite <- (other_thread_pc _ _ _ t0 Es) by (cbn; discriminate). exact Hc.
    + intros t0. rewrite (other_thread_pc _ _ _ t0 Es) by (cbn; discriminate). apply HL.
Qed.

(** clause (h) holds on every history on which the model and the observation agree: in the model
    a thread deletes only after its own order was answered accountDoesNotExist by the CA *)
Theorem deletes_only_after_account_does_not_exist evs s :
  replay init evs = Some (s, true) -> spec_gone0 evs = true.
Proof.
  intros H. unfold spec_gone0. eapply (spec_gone_ok evs init); [| |exact H].
  - intros t Hc. cbn in Hc. discriminate.
  - intros t. exact (sim_last _ _ sim_init t).
Qed.

(** the whole specification of a doIssue history — clauses (a)–(h) — holds on every observation
    the model can produce: any threads, schedule, faults (storage, CA answers, Unlock), crashes,
    re-installations, with and without an external account *)
Theorem hist_spec_ok_sound evs f conf recs :
  model_agrees (CHist evs f conf recs) = true -> spec_ok (CHist evs f conf recs) = true.
Proof.
  intros H. cbn [model_agrees] in H.
  destruct (replay init evs) as [[s b]|] eqn:Er; [|discriminate].
  apply Bool.andb_true_iff in H. destruct H as [H He].
  apply Bool.andb_true_iff in H. destruct H as [-> Hf].
  cbn [spec_ok]. rewrite (monitor_sound evs s f Er Hf), (eab_spec_sound conf recs He),
    (deletes_only_after_account_does_not_exist evs s Er). reflexivity.
Qed.

(* ------------------------------------------------------------------ the hypotheses are satisfiable *)

Example ex_load_error :
  exists s s1, reachable s /\ load_pc (pcof s 0) = true /\ step s (Op 0 true) = Some s1 /\
               pcof s1 0 = Done None.
Proof.
  eexists. eexists. split; [exists [Start 0 0]; reflexivity|]. split; [reflexivity|]. split; reflexivity.
Qed.

(** under the lock: the reload fails after another thread's account was stored *)
Example ex_load_error_under_lock :
  exists s s1, run init (Start 0 0 :: ops 0 2) = Some s /\ pcof s 0 = LoadReg true /\
               step s (Op 0 true) = Some s1 /\ pcof s1 0 = Unlock None /\ lock s1 = Some 0.
Proof. eexists. eexists. split; [vm_compute; reflexivity|]. repeat split. Qed.

Example ex_ca_problem :
  exists s s1, run init (Start 0 0 :: ops 0 7) = Some s /\ pcof s 0 = Order (MA 1 1) 0 /\
               live s 0 1 = true /\ step s (Op 0 true) = Some s1 /\
               slots s1 0 = Slot (Some 1) (Some 1) /\ created s1 0 = 1.
Proof. eexists. eexists. split; [vm_compute; reflexivity|]. repeat split. Qed.

Example ex_recreate_entered :
  exists s s1, run init (Start 0 0 :: ops 0 7 ++ [Reset 0]) = Some s /\
               in_recreate (pcof s 0) = false /\ step s (Op 0 false) = Some s1 /\
               in_recreate (pcof s1 0) = true.
Proof. eexists. eexists. split; [vm_compute; reflexivity|]. repeat split. Qed.

Example ex_locked_result :
  exists s, run init (Start 0 0 :: ops 0 6) = Some s /\ pcof s 0 = Unlock (Some (MA 1 1)).
Proof. eexists. split; vm_compute; reflexivity. Qed.

(** the save over a key file that is already there: account 1 stored, CA re-installed, the
    recreating issuance deletes the reg file, its Delete of the key file fails; the next issuance
    registers account 2 and is about to store its key over the old one *)
Definition run_save_over_old_key : list label :=
  Start 0 0 :: ops 0 8 ++ Reset 0 :: Start 1 0 :: ops 1 7 ++ [Op 1 true; Op 1 false] ++ Start 2 0 :: ops 2 5.
Example ex_save_over_old_key :
  exists s s1, run init run_save_over_old_key = Some s /\ pcof s 2 = StoreKey 2 /\
               slots s 0 = Slot (Some 2) (Some 1) /\ step s (Op 2 false) = Some s1 /\
               slots s1 0 = Slot (Some 2) (Some 2).
Proof. eexists. eexists. split; [vm_compute; reflexivity|]. repeat split. Qed.

Example ex_failed_save :
  exists s s1, run init (Start 0 0 :: ops 0 5) = Some s /\ pcof s 0 = StoreKey 1 /\
               step s (Op 0 true) = Some s1 /\ pcof s1 0 = Rollback 1.
Proof. eexists. eexists. split; [vm_compute; reflexivity|]. repeat split. Qed.

Example ex_eab_predicted :
  forallb (eab_predicted true) [(0, true, true, 0, true); (1, true, true, 1, true)] = true /\
  forallb (eab_predicted false) [(0, true, false, 9, false)] = true /\
  eab_predicted true (1, true, true, 0, true) = false /\      (* a binding for another CA's URL *)
  eab_predicted true (0, false, true, 0, true) = false.       (* a binding on another request *)
Proof. repeat split. Qed.

Example ex_hist_spec_ok :
  model_agrees (CHist ex_history ex_final true [(0, true, true, 0, true); (0, true, true, 0, true)]) = true.
Proof. vm_compute. reflexivity. Qed.

(** clause (h) rejects the behaviour of the seeded change: the same operations, but the order was
    answered with an injected problem (unauthorized) instead of accountDoesNotExist *)
Example ex_gone_rejects :
  spec_gone0 ex_history = true /\
  spec_gone0 (map (fun e => match e with EOp 1 false 10 0 1 => EOp 1 true 10 0 2 | _ => e end) ex_history) = false.
Proof. split; vm_compute; reflexivity. Qed.
