(** C20 — the configured-account-key mode ([ACMEIssuer.AccountKeyPEM]).  Executable model only.

    Read from account.go ([GetAccount], [loadAccountByKey], [loadAccount], [lookUpAccount],
    [saveAccount]) and storage.go ([storeTx]) as they are now (after 55396a9):

      with e-mail:     Load key --match--> loadAccount = Load reg, Load key --ok--> done
      without e-mail:  List users --folder--> Load key --match--> loadAccount ...
      every miss / error of the above --> lookUpAccount = newAccount(onlyReturnExisting) at the CA
            --found--> saveAccount = storeTx [Store reg; Store key] (rollback: Delete reg)

    There is no lock and nothing is ever registered in this mode.  Any number of such calls
    (instances, goroutines, restarts) share one storage; every storage operation and the look-up
    is one step and may fail ([fault]); threads may crash anywhere.

    One account folder (that of the contact the CA has on file for the configured key, which is
    where [saveAccount] writes); file contents are abstracted to absent / "mine" (the configured
    key; the registration of its account) / "other". *)
From Coq Require Import Arith List Bool.
Import ListNotations.
Open Scope bool_scope.
Open Scope nat_scope.

Definition ktid := nat.

(** contents of a file: 0 absent, 1 the configured key / its account's registration, 2 other *)
Inductive fval := FNone | FMine | FOther.

Definition fval_eqb (a b : fval) : bool :=
  match a, b with FNone, FNone | FMine, FMine | FOther, FOther => true | _, _ => false end.

Inductive kpc :=
| KIdle
| KList                   (* no e-mail: Storage.List of the users folder *)
| KFirstKey               (* Load key, to compare it with the configured PEM *)
| KLoadReg                (* loadAccount: Load reg *)
| KLoadKey (r : fval)     (* loadAccount: Load key; the reg file held r *)
| KLookup                 (* lookUpAccount: POST newAccount onlyReturnExisting *)
| KStoreReg               (* saveAccount / storeTx *)
| KStoreKey
| KRollback               (* Store key failed: Delete reg (error ignored) *)
| KDone (res : option (fval * fval)).   (* Some (r, k): GetAccount returned the account (r, k) *)

Record kstate := KState {
  k_reg : fval;
  k_key : fval;
  k_known : bool;                 (* the CA has an account for the configured key *)
  k_thr : ktid -> kpc
}.

Inductive klabel :=
| KStart (t : ktid) (email : bool)
| KOp (t : ktid) (fault : bool)
| KCrash (t : ktid).

Definition kupd (f : ktid -> kpc) (t : ktid) (p : kpc) : ktid -> kpc :=
  fun x => if Nat.eqb x t then p else f x.

Definition kset (s : kstate) (t : ktid) (p : kpc) : kstate :=
  KState (k_reg s) (k_key s) (k_known s) (kupd (k_thr s) t p).
Definition kset_reg (s : kstate) (v : fval) : kstate := KState v (k_key s) (k_known s) (k_thr s).
Definition kset_key (s : kstate) (v : fval) : kstate := KState (k_reg s) v (k_known s) (k_thr s).

Definition kinit (r k : fval) (known : bool) : kstate := KState r k known (fun _ => KIdle).

Definition kfinished (p : kpc) : bool := match p with KIdle | KDone _ => true | _ => false end.

Definition kop (s : kstate) (t : ktid) (fault : bool) : option kstate :=
  match k_thr s t with
  | KIdle | KDone _ => None
  | KList =>
      (* error, or no account folder at all: not found -> look up *)
      if fault then Some (kset s t KLookup)
      else match k_reg s, k_key s with
           | FNone, FNone => Some (kset s t KLookup)
           | _, _ => Some (kset s t KFirstKey)
           end
  | KFirstKey =>
      if fault then Some (kset s t KLookup)
      else match k_key s with
           | FMine => Some (kset s t KLoadReg)
           | _ => Some (kset s t KLookup)
           end
  | KLoadReg =>
      if fault then Some (kset s t KLookup)
      else match k_reg s with
           | FNone => Some (kset s t KLookup)
           | r => Some (kset s t (KLoadKey r))
           end
  | KLoadKey r =>
      if fault then Some (kset s t KLookup)
      else match k_key s with
           | FNone => Some (kset s t KLookup)
           | k => Some (kset s t (KDone (Some (r, k))))
           end
  | KLookup =>
      if fault then Some (kset s t (KDone None))
      else if k_known s then Some (kset s t KStoreReg) else Some (kset s t (KDone None))
  | KStoreReg =>
      if fault then Some (kset s t (KDone None))
      else Some (kset (kset_reg s FMine) t KStoreKey)
  | KStoreKey =>
      if fault then Some (kset s t KRollback)
      else Some (kset (kset_key s FMine) t (KDone (Some (FMine, FMine))))
  | KRollback =>
      if fault then Some (kset s t (KDone None))
      else Some (kset (kset_reg s FNone) t (KDone None))
  end.

Definition kstep (s : kstate) (l : klabel) : option kstate :=
  match l with
  | KStart t e =>
      match k_thr s t with
      | KIdle => Some (kset s t (if e then KFirstKey else KList))
      | _ => None
      end
  | KOp t f => kop s t f
  | KCrash t => if kfinished (k_thr s t) then None else Some (kset s t (KDone None))
  end.

Fixpoint krun (s : kstate) (ls : list klabel) : option kstate :=
  match ls with
  | [] => Some s
  | l :: r => match kstep s l with Some s' => krun s' r | None => None end
  end.

(** one call running alone, without faults, for at most [fuel] operations *)
Fixpoint ksolo (s : kstate) (t : ktid) (fuel : nat) : kstate :=
  match fuel with
  | 0 => s
  | S n => match kop s t false with Some s' => ksolo s' t n | None => s end
  end.

(** the sequential summary used by the single-call cases: (success, looked up at the CA, the
    account is completely stored afterwards) of one fault-free call on a quiet storage *)
Definition keypem_outcome (key_matches reg_ok ca_knows : bool) : bool * bool * bool :=
  if key_matches && reg_ok then (true, false, true) else (ca_knows, true, ca_knows).
