(** C20 — the CA URL rule. *)
From CM Require Import Lib.Str Gen.Consts Account.Model.
Open Scope N_scope.

Lemma has_prefix_app p a b : has_prefix p a = true -> has_prefix p (a ++ b) = true.
Proof.
  unfold has_prefix. destruct (strip_prefix p a) as [r|] eqn:E; [|discriminate]. intros _.
  apply strip_prefix_spec in E. subst a. rewrite <- app_assoc.
  destruct (strip_prefix p (p ++ r ++ b)) eqn:E2; [reflexivity|].
  assert (X : strip_prefix p (p ++ r ++ b) = Some (r ++ b)) by (apply strip_prefix_spec; reflexivity).
  congruence.
Qed.

Lemma contains_nil s : contains [] s = true.
Proof. destruct s; reflexivity. Qed.

Lemma contains_app pat a b : contains pat a = true -> contains pat (a ++ b) = true.
Proof.
  induction a as [|x r IH]; cbn.
  - destruct pat; [intros _; apply contains_nil | discriminate].
  - intros H. apply Bool.orb_true_iff in H. destruct H as [H|H].
    + change (x :: r ++ b) with ((x :: r) ++ b). rewrite (has_prefix_app _ _ _ H). reflexivity.
    + rewrite (IH H). apply Bool.orb_true_r.
Qed.

(** the prefix that is put in front of a scheme-less URL itself contains the separator the
    rule looks for (a fact about the literals read from the source on every run) *)
Lemma prefix_has_sep : contains url_scheme_sep url_https_prefix = true.
Proof. vm_compute. reflexivity. Qed.

Lemma effective_idem u : effective (effective u) = effective u.
Proof.
  unfold effective. destruct (contains url_scheme_sep u) eqn:E.
  - rewrite E. reflexivity.
  - rewrite (contains_app _ _ u prefix_has_sep). reflexivity.
Qed.

Section Url.
  Variable parse : str -> option (str * str).
  Variable internal : str -> bool.

  Lemma secure_ca_url_secure u e : secure_ca_url parse internal u = Some e ->
    e = effective u /\ secure parse internal u = true.
  Proof.
    unfold secure_ca_url, secure. destruct (parse (effective u)) as [[sch host]|]; [|discriminate].
    destruct (str_eqb sch url_https_scheme || internal host) eqn:X; [|discriminate].
    intros H. injection H as <-. split; reflexivity.
  Qed.

  (** for every CA URL, test-CA URL and attempt: the directory the client is built for is,
      as the rule reads it, an HTTPS URL or the URL of an internal host *)
  Theorem https_unless_internal ca_url test_url use_test d :
    client_dir parse internal ca_url test_url use_test = Some d -> secure parse internal d = true.
  Proof.
    unfold client_dir. destruct (secure_ca_url parse internal ca_url) as [e|] eqn:E1; [|discriminate].
    destruct (use_test && negb (str_eqb test_url [])).
    - destruct (secure_ca_url parse internal test_url) as [e2|] eqn:E2; [|discriminate].
      intros H. injection H as <-. exact (proj2 (secure_ca_url_secure _ _ E2)).
    - intros H. injection H as <-. destruct (secure_ca_url_secure _ _ E1) as [-> Hs].
      unfold secure in *. rewrite effective_idem. exact Hs.
  Qed.

  (** read the other way: a directory whose scheme is not "https" is that of an internal host *)
  Corollary never_plain_http_to_public_host ca_url test_url use_test d scheme host :
    client_dir parse internal ca_url test_url use_test = Some d ->
    parse (effective d) = Some (scheme, host) -> scheme <> url_https_scheme -> internal host = true.
  Proof.
    intros H Hp Hs. apply https_unless_internal in H. unfold secure in H. rewrite Hp in H.
    apply Bool.orb_true_iff in H. destruct H as [H|H]; [|exact H].
    apply str_eqb_eq in H. contradiction.
  Qed.
End Url.

(** the rule is as good as its notion of "internal": if whatever [internal] accepts is internal by
    an independent reading [ref] (validated by the harness on every host of every case), then an
    accepted directory is HTTPS or internal by that reading *)
Theorem https_unless_really_internal parse internal ref ca_url test_url use_test d :
  (forall h, internal h = true -> ref h = true) ->
  client_dir parse internal ca_url test_url use_test = Some d -> secure parse ref d = true.
Proof.
  intros Hsub H. apply https_unless_internal in H. unfold secure in *.
  destruct (parse (effective d)) as [[sch host]|]; [|discriminate].
  apply Bool.orb_true_iff in H. apply Bool.orb_true_iff. destruct H as [H|H]; auto.
Qed.
