(** C20 — the recreate path: what may replace a stored account. *)
From CM Require Import Lib.Str Gen.Consts Account.Model Account.Proofs.
From Coq Require Import Arith Lia.
Open Scope nat_scope.

Definition own_pc (p : pc) : option acct :=
  match p with StoreReg a | StoreKey a | Rollback a => Some a | _ => None end.
Definition after_reg (p : pc) : option acct :=
  match p with StoreKey a | Rollback a => Some a | _ => None end.
Definition del_of (p : pc) : option macct :=
  match p with DWantLock m | DLoadReg m | DLoadKey m _ | DelReg m | DelKey m => Some m | _ => None end.

(** an account that is being saved is not yet in the key file *)
Definition FR (s : state) : Prop :=
  forall t a, own_pc (pcof s t) = Some a -> s_key (slots s (caof s t)) <> Some a.
(** after its Store, the reg file holds the saver's account (every writer holds the lock) *)
Definition RR (s : state) : Prop :=
  forall t a, after_reg (pcof s t) = Some a -> s_reg (slots s (caof s t)) = Some a.
(** deleteAccountLocallyIfCurrent runs only for an account the CA of the directory in use has forgotten *)
Definition G (s : state) : Prop :=
  forall t m, del_of (pcof s t) = Some m -> m_loc m <= forgotten s (caof s t).

Lemma own_holds p a : own_pc p = Some a -> holds_lock_pc p = true.
Proof. destruct p; cbn; congruence. Qed.
Lemma after_holds p a : after_reg p = Some a -> holds_lock_pc p = true.
Proof. destruct p; cbn; congruence. Qed.

Lemma FR_step s l s' : I_lock s -> WF s -> FR s -> step s l = Some s' -> FR s'.
Proof.
  intros HI [HS HT] HF H. step_cases H; pc_tests; intros t0 a0 Ht0; pose proof (HF t0 a0) as HF0;
    cbn in *; crash_norm; cbn in *; upd_all; cbn in *; bool_cases; res_cases; cbn in *;
    try discriminate; try (apply HF0; assumption); try congruence.
  all: try (match goal with H : own_pc _ = Some _ |- _ => pose proof (own_holds _ _ H) end; lock_facts HI; congruence).
  - injection Ht0 as <-. pose proof (HS (caof s t)) as [_ X]. unfold ok_opt, ok in X.
    destruct (s_key (slots s (caof s t))); [|discriminate]. intros Y. injection Y as Y. lia.
  - injection Ht0 as <-. apply (HF t a). rewrite Heqp. reflexivity.
  - injection Ht0 as <-. apply (HF t a). rewrite Heqp. reflexivity.
Qed.

Lemma RR_step s l s' : I_lock s -> RR s -> step s l = Some s' -> RR s'.
Proof.
  intros HI HR H. step_cases H; pc_tests; intros t0 a0 Ht0; pose proof (HR t0 a0) as HR0;
    cbn in *; crash_norm; cbn in *; upd_all; cbn in *; bool_cases; res_cases; cbn in *;
    try discriminate; try (apply HR0; assumption); try congruence.
  all: try (match goal with H : after_reg _ = Some _ |- _ => pose proof (after_holds _ _ H) end; lock_facts HI; congruence).
  - injection Ht0 as <-. apply (HR t a). rewrite Heqp. reflexivity.
Qed.

Lemma G_step s l s' : WF s -> G s -> step s l = Some s' -> G s'.
Proof.
  intros [HS HT] HG H. step_cases H; pc_tests; intros t0 m0 Ht0; pose proof (HG t0 m0) as HG0;
    cbn in *; crash_norm; cbn in *; upd_all; cbn in *; bool_cases; res_cases; cbn in *;
    try discriminate; try (apply HG0; assumption); try congruence.
  all: try (injection Ht0 as <-; apply (HG t m); rewrite Heqp; reflexivity).
  - injection Ht0 as <-. apply live_false in Heqb0. pose proof (HT t) as X. rewrite Heqp in X.
    destruct X as [[X1 X2] _]. lia.
  - (* Reset: everything created so far is forgotten *)
    pose proof (HT t0) as X. destruct (pcof s t0); cbn in Ht0; try discriminate;
      injection Ht0 as <-; cbn in X; unfold ok_m, ok in X; lia.
Qed.


(** what deleteAccountLocallyIfCurrent has read under the lock is still what is stored: every
    writer holds the lock *)
Definition DD (s : state) : Prop :=
  forall t,
    (forall m r, pcof s t = DLoadKey m r -> s_reg (slots s (caof s t)) = Some r) /\
    (forall m, pcof s t = DelReg m ->
       s_reg (slots s (caof s t)) = Some (m_loc m) /\ has_key (slots s (caof s t)) = true) /\
    (forall m, pcof s t = DelKey m -> s_reg (slots s (caof s t)) = None).

Definition dd_pc (p : pc) : bool :=
  match p with DLoadKey _ _ | DelReg _ | DelKey _ => true | _ => false end.
Lemma dd_holds p : dd_pc p = true -> holds_lock_pc p = true.
Proof. destruct p; cbn; congruence. Qed.

Lemma DD_step s l s' : I_lock s -> DD s -> step s l = Some s' -> DD s'.
Proof.
  intros HI HD H. step_cases H; pc_tests; intros t0; pose proof (HD t0) as (D1 & D2 & D3);
    cbn in *; crash_norm; cbn in *; upd_all; cbn in *; bool_cases; res_cases; cbn in *;
    (split; [intros m0 r0 HE|split; [intros m0 HE|intros m0 HE]]);
    try discriminate; try (injection HE as HE; subst); cbn in *;
    try (eapply D1; eassumption); try (eapply D2; eassumption); try (eapply D3; eassumption);
    try congruence.
  all: try (exfalso; assert (X : dd_pc (pcof s t0) = true) by (rewrite HE; reflexivity);
            apply dd_holds in X; lock_facts HI; congruence).
  - apply Nat.eqb_eq in Heqb0. subst. split; [eapply D1; exact Heqp|].
    unfold has_key. rewrite Heqo. reflexivity.
Qed.

(* ------------------------------------------------------------------ registrations and re-installations *)

(** the account that is completely stored or on its way to storage *)
Definition acc (s : state) (c : ca) : option acct :=
  let dflt := if full (slots s c) then s_reg (slots s c) else None in
  match lock s with
  | Some t =>
      if Nat.eqb (caof s t) c then
        match pcof s t with
        | StoreReg a => Some a
        | StoreKey _ => s_reg (slots s c)
        | Rollback _ => None
        | _ => dflt
        end
      else dflt
  | None => dflt
  end.
Definition ind2 (s : state) (c : ca) : nat := match acc s c with Some _ => 1 | None => 0 end.
(** ... and the CA has forgotten it: a re-installation that has not yet been paid for by a new registration *)
Definition stale (s : state) (c : ca) : nat :=
  match acc s c with Some a => b2n (a <=? forgotten s c) | None => 0 end.

Definition ACC2 (s : state) : Prop :=
  forall c, created s c + stale s c <= fsaves s c + crashes s c + resets s c + ind2 s c.

Lemma stale_le1 s c : stale s c <= ind2 s c.
Proof. unfold stale, ind2, b2n. destruct (acc s c); [destruct (_ <=? _)|]; lia. Qed.
Lemma ind2_le1 s c : ind2 s c <= 1.
Proof. unfold ind2. destruct (acc s c); lia. Qed.

Ltac leb_all :=
  repeat match goal with
         | |- context [?a <=? ?b] => destruct (Nat.leb_spec a b)
         | H : context [?a <=? ?b] |- _ => destruct (Nat.leb_spec a b)
         end.

(** the CA forgets only accounts it has created *)
Definition FC (s : state) : Prop := forall c, forgotten s c <= created s c.
Lemma FC_step s l s' : FC s -> step s l = Some s' -> FC s'.
Proof.
  intros HF H. step_cases H; intros c0; pose proof (HF c0); cbn; crash_norm; cbn; upd_all; lia.
Qed.

Local Opaque Nat.leb.

Lemma ACC2_step s l s' :
  I_lock s -> J s -> FC s -> G s -> DD s -> ACC2 s -> step s l = Some s' -> ACC2 s'.
Proof.
  intros HI HJ HFC HG HD HA H. destruct l as [t c|t f|t|c].
  - (* Start *)
    step_cases H; pc_tests; intros c0; pose proof (HA c0) as HA0; unfold stale, ind2, acc in *; cbn in *.
    destruct (lock s) as [h|] eqn:HLK; cbn in *; [|exact HA0].
    upd_all; cbn in *; rw_pcs; cbn in *;
      repeat match goal with |- context [if Nat.eqb ?a ?b then _ else _] => destruct (Nat.eqb a b) end;
      repeat match goal with H : context [if Nat.eqb ?a ?b then _ else _] |- _ => destruct (Nat.eqb a b) end; exact HA0.
  - (* Op *)
    step_cases H; intros c0; pose proof (HA c0) as HA0;
      pose proof (stale_le1 s c0) as Hle; pose proof (ind2_le1 s c0) as Hle1;
      unfold stale, ind2, acc in *; cbn in *.
    all: destruct (lock s) as [h|] eqn:HLK; cbn in *; lock_facts HI; cbn in *; upd_all; cbn in *;
         try congruence; rw_pcs; cbn in *; bool_cases; res_cases; cbn in *; try lia.
    all: eqb_all; cbn in *; try congruence; rw_pcs; cbn in *; try lia.
    + (* Register: nothing complete before (J), a live account afterwards *)
      pose proof (HJ t) as X. rewrite Heqp in X. rewrite (X eq_refl) in *. cbn in *.
      pose proof (HFC (caof s t)). unfold b2n. leb_all; lia.
    + (* the Store of the reg file fails *)
      pose proof (HJ t) as X. rewrite Heqp in X. rewrite (X eq_refl) in *. cbn in *.
      unfold b2n in *. leb_all; lia.
    + (* the Store of the key file succeeds *)
      unfold full in *. cbn in *. destruct (s_reg (slots s (caof s t))); exact HA0.
    + (* the rollback fails *)
      unfold b2n in *. destruct (full _); [destruct (s_reg _)|]; leb_all; lia.
    + (* deleteAccountLocally, reg file: the stored account is the one the CA has forgotten *)
      destruct (HD t) as (_ & D2 & _). destruct (D2 m Heqp) as [Dr Dk].
      pose proof (HG t m) as X. rewrite Heqp in X. specialize (X eq_refl).
      unfold full, has_key in *. rewrite Dr in *. destruct (s_key (slots s (caof s t))); [|discriminate].
      cbn in *. unfold b2n in *. leb_all; lia.
    + (* deleteAccountLocally, key file *)
      destruct (HD t) as (_ & _ & D3). unfold full in *. cbn in *. rewrite (D3 m Heqp) in *. cbn in *. lia.
  - (* Crash *)
    unfold step in H. destruct (finished (pcof s t)) eqn:Hf; [discriminate|]. injection H as <-.
    intros c0. pose proof (HA c0) as HA0. pose proof (stale_le1 s c0) as Hle. pose proof (ind2_le1 s c0) as Hle1.
    unfold stale, ind2, acc in *. cbn. crash_norm. cbn.
    assert (Hcr : crashes s c0 <=
                  (if in_save_window (pcof s t) && Nat.eqb c0 (caof s t) then S (crashes s c0) else crashes s c0))
      by (destruct (_ && _); lia).
    destruct (lock s) as [h|] eqn:HLK.
    + destruct (Nat.eqb_spec h t) as [->|Hne]; cbn.
      * destruct (Nat.eqb_spec (caof s t) c0) as [E|Hc]; [subst c0|lia].
        rewrite Nat.eqb_refl, Bool.andb_true_r in *.
        pose proof (HJ t) as XJ.
        destruct (pcof s t) eqn:Hpc; cbn in *; try (rewrite (XJ eq_refl) in *); unfold full, b2n in *; cbn in *;
          repeat match goal with |- context [match ?x with Some _ => _ | None => _ end] => destruct x eqn:? end;
          cbn in *; leb_all; try discriminate; lia.
      * rewrite (upd_neq _ _ _ _ Hne). lia.
    + lia.
  - (* Reset *)
    step_cases H. intros c0. pose proof (HA c0) as HA0. pose proof (stale_le1 s c0) as Hle.
    pose proof (ind2_le1 s c0) as Hle1. unfold stale, ind2, acc in *. cbn in *.
    unfold upd. destruct (Nat.eqb_spec c0 c) as [->|Hne]; [|exact HA0].
    destruct (lock s) as [h|]; [destruct (Nat.eqb (caof s h) c); [destruct (pcof s h)|]|];
      repeat match goal with |- context [match ?x with Some _ => _ | None => _ end] => destruct x eqn:? end;
      unfold b2n in *; leb_all; lia.
Qed.
Local Transparent Nat.leb.

Record Inv2 (s : state) : Prop := {
  inv2_fr : FR s; inv2_rr : RR s; inv2_g : G s; inv2_dd : DD s; inv2_fc : FC s; inv2_acc : ACC2 s
}.

Lemma Inv2_init : Inv2 init.
Proof.
  split.
  - intros t x H; cbn in H; discriminate.
  - intros t x H; cbn in H; discriminate.
  - intros t x H; cbn in H; discriminate.
  - intros t. cbn. repeat split; intros; discriminate.
  - intros c. cbn. lia.
  - intros c. cbn. lia.
Qed.

Lemma Inv2_reachable s : reachable s -> Inv2 s.
Proof.
  intros Hr. cut (Inv s /\ Inv2 s); [tauto|]. revert s Hr. apply reachable_ind.
  - split; [exact Inv_init|exact Inv2_init].
  - intros s l s1 _ [HI [H1 H2 H3 H4 H5 H6]] Hs. split; [eapply Inv_step; eassumption|].
    destruct HI as [L J0 _ W _ _]. split.
    + eapply FR_step; eassumption.
    + eapply RR_step; eassumption.
    + eapply G_step; eassumption.
    + eapply DD_step; eassumption.
    + eapply FC_step; eassumption.
    + eapply ACC2_step; eassumption.
Qed.

(** however many instances, threads, restarts, faults, crashes: every registration beyond the
    first is paid for by a failed save, a crash between registering and saving, or a
    re-installation of the CA — the recreate path by itself never costs a registration *)
Theorem registrations_bounded_by_reinstallations s c :
  reachable s -> created s c <= 1 + fsaves s c + crashes s c + resets s c.
Proof.
  intros H. apply Inv2_reachable in H. pose proof (inv2_acc _ H c). pose proof (ind2_le1 s c). lia.
Qed.

(* ------------------------------------------------------------------ what changes a stored account *)

(** only the acting thread's own CA is touched (deleteAccountLocally and saveAccount use the
    directory in use) *)
Theorem only_directory_in_use_touched s t f s1 c :
  step s (Op t f) = Some s1 -> c <> caof s t -> slots s1 c = slots s c.
Proof.
  intros H Hc. step_cases H; cbn; try reflexivity; rewrite upd_neq by assumption; reflexivity.
Qed.

Theorem other_labels_touch_no_account s l s1 c :
  step s l = Some s1 -> (forall t f, l <> Op t f) -> slots s1 c = slots s c.
Proof.
  intros H Hl. destruct l as [t c1|t f|t|c1]; [|exfalso; eapply Hl; reflexivity| |];
    step_cases H; cbn; crash_norm; reflexivity.
Qed.

(** F, for every schedule: a completely stored account (reg and key of the same account [a]) is
    modified only by deleteAccountLocally, run under the registration lock by a thread whose own
    CA (the directory in use) answered accountDoesNotExist for exactly this account [a], which
    that CA has indeed forgotten *)
Theorem replaced_only_if_ca_says_gone s l s1 c a :
  reachable s -> step s l = Some s1 ->
  slots s c = Slot (Some a) (Some a) -> slots s1 c <> slots s c ->
  exists t m, l = Op t false /\ caof s t = c /\ pcof s t = DelReg m /\ lock s = Some t /\
              m_loc m = a /\ a <= forgotten s c /\ live s c a = false.
Proof.
  intros Hr Hs Hsl Hch.
  pose proof (Inv_reachable _ Hr) as [HL HJ _ _ _ _]. pose proof (Inv2_reachable _ Hr) as [HF HR HG HD _ _].
  destruct l as [t c1|t f|t|c1];
    try (exfalso; apply Hch; eapply other_labels_touch_no_account; [eassumption|intros; discriminate]).
  destruct (Nat.eq_dec c (caof s t)) as [->|Hne];
    [|exfalso; apply Hch; eapply only_directory_in_use_touched; eassumption].
  step_cases Hs; cbn in *; rewrite ?upd_eq in *; try (exfalso; apply Hch; reflexivity).
  - (* Store of the reg file: the saver saw an incomplete account *)
    exfalso. pose proof (HJ t) as X. rewrite Heqp in X. specialize (X eq_refl).
    rewrite Hsl in X. discriminate X.
  - (* Store of the key file: the reg file would be the saver's, the key file not yet *)
    exfalso. pose proof (HR t a0) as X. rewrite Heqp in X. specialize (X eq_refl).
    pose proof (HF t a0) as Y. rewrite Heqp in Y. specialize (Y eq_refl).
    rewrite Hsl in *. cbn in *. congruence.
  - (* rollback: same *)
    exfalso. pose proof (HR t a0) as X. rewrite Heqp in X. specialize (X eq_refl).
    pose proof (HF t a0) as Y. rewrite Heqp in Y. specialize (Y eq_refl).
    rewrite Hsl in *. cbn in *. congruence.
  - (* Delete of the reg file *)
    exists t, m. pose proof (HG t m) as X. rewrite Heqp in X. specialize (X eq_refl).
    destruct (HD t) as (_ & D2 & _). destruct (D2 m Heqp) as [Dr _]. rewrite Hsl in Dr. cbn in Dr.
    injection Dr as Dr. rewrite <- Dr in *.
    repeat split; auto.
    + apply HL. rewrite Heqp. reflexivity.
    + unfold live. apply Bool.andb_false_iff. left. apply Nat.ltb_ge. exact X.
  - (* Delete of the key file: the reg file is gone already *)
    exfalso. destruct (HD t) as (_ & _ & D3). pose proof (D3 m Heqp) as X. rewrite Hsl in X. discriminate X.
Qed.

(* ------------------------------------------------------------------ an existing account is reused *)

Definition okpc (a : acct) (p : pc) : Prop :=
  match p with
  | Idle | Done None | LoadReg _ | WantLock | Unlock None => True
  | LoadKey _ r => r = a
  | Unlock (Some m) | Order m _ | Done (Some m) => m = MA a a
  | Register | StoreReg _ | StoreKey _ | Rollback _ => False
  | DWantLock _ | DLoadReg _ | DLoadKey _ _ | DelReg _ | DelKey _ | DUnlock _ => False
  end.

(** account [a] of CA [c] is completely stored, the CA knows it, and no thread of that CA is in
    the middle of registering, saving or deleting, or holds another account *)
Definition stable (s : state) (c : ca) (a : acct) : Prop :=
  slots s c = Slot (Some a) (Some a) /\ live s c a = true /\
  forall t, caof s t = c -> okpc a (pcof s t).

Lemma stable_step s l s1 c a :
  stable s c a -> step s l = Some s1 -> l <> Reset c ->
  stable s1 c a /\ created s1 c = created s c.
Proof.
  intros (Hsl & Hlv & Hp) H Hl. unfold stable.
  destruct l as [t c1|t f|t|c1].
  - step_cases H; pc_tests. cbn. repeat split; auto. intros t0 Ht0. pose proof (Hp t0) as X.
    cbn in *. upd_all; cbn in *; auto.
  - destruct (Nat.eq_dec (caof s t) c) as [Hc|Hc].
    + pose proof (Hp t Hc) as Ht. subst c.
      step_cases H; cbn in Ht; try contradiction; unfold live in *; cbn in *;
        rewrite ?upd_eq; (split; [split; [exact Hsl|split; [exact Hlv|]]|reflexivity]);
        intros t0 Ht0; pose proof (Hp t0) as X; cbn in *; upd_all; cbn in *; bool_cases; res_cases; cbn in *;
        auto; try congruence.
      all: try (rewrite Hsl in *; cbn in *; congruence).
      subst m. cbn in *. congruence.
    + (* a thread of another CA *)
      assert (Hs1 : slots s1 c = slots s c)
        by (eapply only_directory_in_use_touched; [eassumption|congruence]).
      step_cases H; unfold live in *; cbn in *; rewrite ?upd_neq by congruence;
        (split; [split; [first [exact Hsl | cbn in Hs1; rewrite ?upd_neq in Hs1 by congruence; congruence]
                        |split; [exact Hlv|]]|reflexivity]);
        intros t0 Ht0; pose proof (Hp t0) as X; cbn in *; upd_all; cbn in *; auto; congruence.
  - unfold step in H. destruct (finished (pcof s t)); [discriminate|]. injection H as <-.
    unfold live. cbn. crash_norm. cbn. repeat split; auto.
    intros t0 Ht0. pose proof (Hp t0) as X. cbn in *. upd_all; cbn in *; auto.
  - step_cases H. unfold live in *. cbn in *. rewrite upd_neq by congruence. repeat split; auto.
Qed.

(** once account [a] is settled, every continuation in which CA [c] is not re-installed — any
    number of further threads, any interleaving, storage faults and crashes — leaves it in
    storage, registers nothing at [c], and every issuance that succeeds used [a] *)
Theorem existing_account_reused s c a ls s1 :
  stable s c a -> run s ls = Some s1 -> ~ In (Reset c) ls ->
  stable s1 c a /\ created s1 c = created s c /\
  forall t m, caof s1 t = c -> pcof s1 t = Done (Some m) -> m = MA a a.
Proof.
  intros Hst Hr Hn.
  assert (X : stable s1 c a /\ created s1 c = created s c).
  { revert s Hst Hr Hn. induction ls as [|l r IH]; intros s Hst Hr Hn; cbn in Hr.
    - injection Hr as <-. split; [exact Hst|reflexivity].
    - destruct (step s l) as [s2|] eqn:Es; [|discriminate].
      destruct (stable_step s l s2 c a Hst Es) as [H2 E2]; [intros ->; apply Hn; left; reflexivity|].
      destruct (IH s2 H2 Hr) as [H3 E3]; [intros Hin; apply Hn; right; exact Hin|].
      split; [exact H3|congruence]. }
  destruct X as [X1 X2]. repeat split; try apply X1; auto.
  intros t m Hc Hp. destruct X1 as (_ & _ & X3). pose proof (X3 t Hc) as Y. rewrite Hp in Y. exact Y.
Qed.


(* ------------------------------------------------------------------ concurrent issuances *)

Definition opt_eqb (a b : option nat) : bool :=
  match a, b with Some x, Some y => Nat.eqb x y | None, None => true | _, _ => false end.
Definition slot_eqb (a b : slot) : bool :=
  opt_eqb (s_reg a) (s_reg b) && opt_eqb (s_key a) (s_key b).
Lemma opt_eqb_eq a b : opt_eqb a b = true <-> a = b.
Proof.
  destruct a, b; cbn; split; intros H; try congruence; try discriminate.
  - apply Nat.eqb_eq in H. congruence.
  - injection H as ->. apply Nat.eqb_refl.
Qed.
Lemma slot_eqb_eq a b : slot_eqb a b = true <-> a = b.
Proof.
  unfold slot_eqb. rewrite Bool.andb_true_iff, !opt_eqb_eq. destruct a, b; cbn; split.
  - intros [-> ->]. reflexivity.
  - intros H. injection H as -> ->. split; reflexivity.
Qed.


Definition ops (t : tid) (n : nat) : list label := repeat (Op t false) n.

(** the schedule that used to delete a live account (the former known finding): thread 0
    registers account 1 and issues; threads 1 and 2 load account 1; the CA is re-installed;
    thread 1 is told accountDoesNotExist, deletes account 1 under the lock, registers account 2,
    saves it and issues; thread 2 (still holding account 1) is told accountDoesNotExist, takes
    the lock, finds account 2 in storage — not the one it was refused with — deletes nothing,
    loads account 2 and issues with it. Two accounts, not three. *)
Definition witness_concurrent : list label :=
  Start 0 0 :: ops 0 8 ++ Start 1 0 :: ops 1 2 ++ Start 2 0 :: ops 2 2 ++ Reset 0 :: ops 1 15 ++ ops 2 8.

Example witness_concurrent_ok :
  match run init witness_concurrent with
  | Some s =>
      slot_eqb (slots s 0) (Slot (Some 2) (Some 2)) && live s 0 2 && Nat.eqb (created s 0) 2 &&
      Nat.eqb (deletes s 0) 2 &&
      match pcof s 1, pcof s 2 with
      | Done (Some m1), Done (Some m2) => Nat.eqb (m_loc m1) 2 && Nat.eqb (m_loc m2) 2
      | _, _ => false
      end
  | None => false
  end = true.
Proof. vm_compute. reflexivity. Qed.
