(** C20 — the recreate path: what may replace a stored account. *)
From CM Require Import Lib.Str Gen.Consts Account.Model Account.Proofs.
From Coq Require Import Arith Lia.
Open Scope nat_scope.

Definition own_pc (p : pc) : option acct :=
  match p with StoreReg a | StoreKey a | Rollback a => Some a | _ => None end.
Definition after_reg (p : pc) : option acct :=
  match p with StoreKey a | Rollback a => Some a | _ => None end.
Definition del_of (p : pc) : option macct :=
  match p with DelReg m | DelKey m => Some m | _ => None end.

(** an account that is being saved is not yet in the key file *)
Definition FR (s : state) : Prop :=
  forall t a, own_pc (pcof s t) = Some a -> s_key (slots s (caof s t)) <> Some a.
(** after its Store, the reg file holds the saver's account unless somebody deleted it *)
Definition RR (s : state) : Prop :=
  forall t a, after_reg (pcof s t) = Some a ->
    s_reg (slots s (caof s t)) = Some a \/ s_reg (slots s (caof s t)) = None.
(** deleteAccountLocally runs only for an account the CA of the directory in use has forgotten *)
Definition G (s : state) : Prop :=
  forall t m, del_of (pcof s t) = Some m -> m_loc m <= forgotten s (caof s t).

Lemma own_holds p a : own_pc p = Some a -> holds_lock_pc p = true.
Proof. destruct p; cbn; congruence. Qed.
Lemma after_holds p a : after_reg p = Some a -> holds_lock_pc p = true.
Proof. destruct p; cbn; congruence. Qed.

Lemma FR_step s l s' : I_lock s -> WF s -> FR s -> step s l = Some s' -> FR s'.
Proof.
  intros HI [HS HT] HF H. step_cases H; pc_tests; intros t0 a0 Ht0; pose proof (HF t0 a0) as HF0;
    cbn in *; crash_norm; cbn in *; upd_all; cbn in *; bool_cases; res_cases; cbn in *;
    try discriminate; try (apply HF0; assumption); try congruence.
  all: try (match goal with H : own_pc _ = Some _ |- _ => pose proof (own_holds _ _ H) end; lock_facts HI; congruence).
  - injection Ht0 as <-. pose proof (HS (caof s t)) as [_ X]. unfold ok_opt, ok in X.
    destruct (s_key (slots s (caof s t))); [|discriminate]. intros Y. injection Y as Y. lia.
  - injection Ht0 as <-. apply (HF t a). rewrite Heqp. reflexivity.
  - injection Ht0 as <-. apply (HF t a). rewrite Heqp. reflexivity.
  - rewrite <- E. apply HF0. assumption.
Qed.

Lemma RR_step s l s' : I_lock s -> RR s -> step s l = Some s' -> RR s'.
Proof.
  intros HI HR H. step_cases H; pc_tests; intros t0 a0 Ht0; pose proof (HR t0 a0) as HR0;
    cbn in *; crash_norm; cbn in *; upd_all; cbn in *; bool_cases; res_cases; cbn in *;
    try discriminate; try (apply HR0; assumption); try congruence; try (left; congruence); try (right; reflexivity).
  all: try (match goal with H : after_reg _ = Some _ |- _ => pose proof (after_holds _ _ H) end; lock_facts HI; congruence).
  - injection Ht0 as <-. apply (HR t a). rewrite Heqp. reflexivity.
  - rewrite <- E. apply HR0. assumption.
Qed.

Lemma G_step s l s' : WF s -> G s -> step s l = Some s' -> G s'.
Proof.
  intros [HS HT] HG H. step_cases H; pc_tests; intros t0 m0 Ht0; pose proof (HG t0 m0) as HG0;
    cbn in *; crash_norm; cbn in *; upd_all; cbn in *; bool_cases; res_cases; cbn in *;
    try discriminate; try (apply HG0; assumption); try congruence.
  - injection Ht0 as <-. apply live_false in Heqb0. pose proof (HT t) as X. rewrite Heqp in X.
    destruct X as [[X1 X2] _]. lia.
  - injection Ht0 as <-. apply (HG t m). rewrite Heqp. reflexivity.
  - pose proof (HT t0) as X. destruct (pcof s t0); cbn in Ht0; try discriminate;
      injection Ht0 as <-; destruct X as [[X1 X2] _]; lia.
Qed.

Record Inv2 (s : state) : Prop := { inv2_fr : FR s; inv2_rr : RR s; inv2_g : G s }.

Lemma Inv2_reachable s : reachable s -> Inv2 s.
Proof.
  intros Hr. cut (Inv s /\ Inv2 s); [tauto|]. revert s Hr. apply reachable_ind.
  - split; [exact Inv_init|]. split; intros t x H; cbn in H; discriminate.
  - intros s l s1 _ [HI [H1 H2 H3]] Hs. split; [eapply Inv_step; eassumption|].
    destruct HI as [L _ _ W _ _]. split.
    + eapply FR_step; eassumption.
    + eapply RR_step; eassumption.
    + eapply G_step; eassumption.
Qed.

(* ------------------------------------------------------------------ what changes a stored account *)

(** only the acting thread's own CA is touched (deleteAccountLocally and saveAccount use the
    directory in use) *)
Theorem only_directory_in_use_touched s t f s1 c :
  step s (Op t f) = Some s1 -> c <> caof s t -> slots s1 c = slots s c.
Proof.
  intros H Hc. step_cases H; cbn; try reflexivity; rewrite upd_neq by assumption; reflexivity.
Qed.

Theorem other_labels_touch_no_account s l s1 c :
  step s l = Some s1 -> (forall t f, l <> Op t f) -> slots s1 c = slots s c.
Proof.
  intros H Hl. destruct l as [t c1|t f|t|c1]; [|exfalso; eapply Hl; reflexivity| |];
    step_cases H; cbn; crash_norm; reflexivity.
Qed.

(** F: a completely stored account (reg and key of the same account [a]) is modified only by
    deleteAccountLocally, run by a thread whose own CA (the directory in use) answered
    accountDoesNotExist for the account [m] the thread held, which that CA has indeed forgotten *)
Theorem replaced_only_if_ca_says_gone s l s1 c a :
  reachable s -> step s l = Some s1 ->
  slots s c = Slot (Some a) (Some a) -> slots s1 c <> slots s c ->
  exists t m, l = Op t false /\ caof s t = c /\
              (pcof s t = DelReg m \/ pcof s t = DelKey m) /\
              m_loc m <= forgotten s c /\ live s c (m_loc m) = false.
Proof.
  intros Hr Hs Hsl Hch.
  pose proof (Inv_reachable _ Hr) as [HL HJ _ _ _ _]. pose proof (Inv2_reachable _ Hr) as [HF HR HG].
  destruct l as [t c1|t f|t|c1];
    try (exfalso; apply Hch; eapply other_labels_touch_no_account; [eassumption|intros; discriminate]).
  destruct (Nat.eq_dec c (caof s t)) as [->|Hne];
    [|exfalso; apply Hch; eapply only_directory_in_use_touched; eassumption].
  step_cases Hs; cbn in *; rewrite ?upd_eq in *; try (exfalso; apply Hch; reflexivity).
  - (* Store of the reg file: the saver saw an incomplete account *)
    exfalso. pose proof (HJ t) as X. rewrite Heqp in X. specialize (X eq_refl).
    rewrite Hsl in X. discriminate X.
  - (* Store of the key file: the reg file would be the saver's, the key file not yet *)
    exfalso. pose proof (HR t a0) as X. rewrite Heqp in X. specialize (X eq_refl).
    pose proof (HF t a0) as Y. rewrite Heqp in Y. specialize (Y eq_refl).
    rewrite Hsl in *. cbn in *. destruct X as [X|X]; congruence.
  - (* rollback: same *)
    exfalso. pose proof (HR t a0) as X. rewrite Heqp in X. specialize (X eq_refl).
    pose proof (HF t a0) as Y. rewrite Heqp in Y. specialize (Y eq_refl).
    rewrite Hsl in *. cbn in *. destruct X as [X|X]; congruence.
  - exists t, m. pose proof (HG t m) as X. rewrite Heqp in X. specialize (X eq_refl).
    repeat split; auto. unfold live. apply Bool.andb_false_iff. left. apply Nat.ltb_ge. exact X.
  - exists t, m. pose proof (HG t m) as X. rewrite Heqp in X. specialize (X eq_refl).
    repeat split; auto. unfold live. apply Bool.andb_false_iff. left. apply Nat.ltb_ge. exact X.
Qed.

(* ------------------------------------------------------------------ an existing account is reused *)

Definition okpc (a : acct) (p : pc) : Prop :=
  match p with
  | Idle | Done None | LoadReg _ | WantLock | Unlock None => True
  | LoadKey _ r => r = a
  | Unlock (Some m) | Order m _ | Done (Some m) => m = MA a a
  | Register | StoreReg _ | StoreKey _ | Rollback _ | DelReg _ | DelKey _ => False
  end.

(** account [a] of CA [c] is completely stored, the CA knows it, and no thread of that CA is in
    the middle of registering, saving or deleting, or holds another account *)
Definition stable (s : state) (c : ca) (a : acct) : Prop :=
  slots s c = Slot (Some a) (Some a) /\ live s c a = true /\
  forall t, caof s t = c -> okpc a (pcof s t).

Lemma stable_step s l s1 c a :
  stable s c a -> step s l = Some s1 -> l <> Reset c ->
  stable s1 c a /\ created s1 c = created s c.
Proof.
  intros (Hsl & Hlv & Hp) H Hl. unfold stable.
  destruct l as [t c1|t f|t|c1].
  - step_cases H; pc_tests. cbn. repeat split; auto. intros t0 Ht0. pose proof (Hp t0) as X.
    cbn in *. upd_all; cbn in *; auto.
  - destruct (Nat.eq_dec (caof s t) c) as [Hc|Hc].
    + pose proof (Hp t Hc) as Ht. subst c.
      step_cases H; cbn in Ht; try contradiction; unfold live in *; cbn in *;
        rewrite ?upd_eq; (split; [split; [exact Hsl|split; [exact Hlv|]]|reflexivity]);
        intros t0 Ht0; pose proof (Hp t0) as X; cbn in *; upd_all; cbn in *; bool_cases; res_cases; cbn in *;
        auto; try congruence.
      all: try (rewrite Hsl in *; cbn in *; congruence).
      subst m. cbn in *. congruence.
    + (* a thread of another CA *)
      assert (Hs1 : slots s1 c = slots s c)
        by (eapply only_directory_in_use_touched; [eassumption|congruence]).
      step_cases H; unfold live in *; cbn in *; rewrite ?upd_neq by congruence;
        (split; [split; [first [exact Hsl | cbn in Hs1; rewrite ?upd_neq in Hs1 by congruence; congruence]
                        |split; [exact Hlv|]]|reflexivity]);
        intros t0 Ht0; pose proof (Hp t0) as X; cbn in *; upd_all; cbn in *; auto; congruence.
  - unfold step in H. destruct (finished (pcof s t)); [discriminate|]. injection H as <-.
    unfold live. cbn. crash_norm. cbn. repeat split; auto.
    intros t0 Ht0. pose proof (Hp t0) as X. cbn in *. upd_all; cbn in *; auto.
  - step_cases H. unfold live in *. cbn in *. rewrite upd_neq by congruence. repeat split; auto.
Qed.

(** once account [a] is settled, every continuation in which CA [c] is not re-installed — any
    number of further threads, any interleaving, storage faults and crashes — leaves it in
    storage, registers nothing at [c], and every issuance that succeeds used [a] *)
Theorem existing_account_reused s c a ls s1 :
  stable s c a -> run s ls = Some s1 -> ~ In (Reset c) ls ->
  stable s1 c a /\ created s1 c = created s c /\
  forall t m, caof s1 t = c -> pcof s1 t = Done (Some m) -> m = MA a a.
Proof.
  intros Hst Hr Hn.
  assert (X : stable s1 c a /\ created s1 c = created s c).
  { revert s Hst Hr Hn. induction ls as [|l r IH]; intros s Hst Hr Hn; cbn in Hr.
    - injection Hr as <-. split; [exact Hst|reflexivity].
    - destruct (step s l) as [s2|] eqn:Es; [|discriminate].
      destruct (stable_step s l s2 c a Hst Es) as [H2 E2]; [intros ->; apply Hn; left; reflexivity|].
      destruct (IH s2 H2 Hr) as [H3 E3]; [intros Hin; apply Hn; right; exact Hin|].
      split; [exact H3|congruence]. }
  destruct X as [X1 X2]. repeat split; try apply X1; auto.
  intros t m Hc Hp. destruct X1 as (_ & _ & X3). pose proof (X3 t Hc) as Y. rewrite Hp in Y. exact Y.
Qed.

(* ------------------------------------------------------------------ one issuance at a time *)

(** sequential schedules: a thread takes steps only while every other thread is idle or
    finished (any number of issuances one after the other, in any instances, with faults,
    crashes and CA re-installations at any moment) *)
Definition quiet (s : state) (t : tid) : Prop :=
  forall t', t' <> t -> finished (pcof s t') = true.
Definition seq_ok (s : state) (l : label) : Prop :=
  match label_tid l with Some t => quiet s t | None => True end.
Inductive seq_reachable : state -> Prop :=
| seq_init : seq_reachable init
| seq_next s l s1 : seq_reachable s -> seq_ok s l -> step s l = Some s1 -> seq_reachable s1.

Lemma seq_reachable_reachable s : seq_reachable s -> reachable s.
Proof.
  induction 1 as [|s l s1 _ IH _ Hs]; [exists []; reflexivity|]. eapply reachable_step; eassumption.
Qed.

Definition carries (p : pc) : option macct :=
  match p with Unlock (Some m) | Order m _ | DelReg m => Some m | _ => None end.

Definition SQ (s : state) : Prop :=
  forall t,
    (forall lk r, pcof s t = LoadKey lk r -> s_reg (slots s (caof s t)) = Some r) /\
    (forall a, pcof s t = StoreKey a -> s_reg (slots s (caof s t)) = Some a) /\
    (forall m, carries (pcof s t) = Some m -> slots s (caof s t) = Slot (Some (m_loc m)) (Some (m_key m))) /\
    (forall m, pcof s t = DelKey m -> s_reg (slots s (caof s t)) = None).

Lemma thr_frame s l s1 t t0 :
  step s l = Some s1 -> label_tid l = Some t -> t0 <> t -> thr s1 t0 = thr s t0.
Proof.
  intros H Hl Hne. destruct l as [t' c1|t' f|t'|c1]; cbn in Hl; try discriminate; injection Hl as ->;
    step_cases H; cbn; crash_norm; cbn; rewrite ?(upd_neq' t t0 Hne); reflexivity.
Qed.

Lemma SQ_step s l s1 : SQ s -> seq_ok s l -> step s l = Some s1 -> SQ s1.
Proof.
  intros HS Hq H.
  destruct (label_tid l) as [t|] eqn:Hl.
  2: { destruct l; cbn in Hl; try discriminate. step_cases H. exact HS. }
  unfold seq_ok in Hq. rewrite Hl in Hq.
  intros t0. destruct (Nat.eq_dec t0 t) as [->|Hne].
  2: { rewrite (thr_frame _ _ _ _ _ H Hl Hne). pose proof (Hq t0 Hne) as Hfin.
       destruct (pcof s t0); cbn in Hfin; try discriminate; repeat split; intros; discriminate. }
  pose proof (HS t) as (S1 & S2 & S3 & S4).
  destruct l as [t' c1|t' f|t'|c1]; cbn in Hl; try discriminate; injection Hl as ->.
  all: step_cases H; pc_tests; cbn in *; crash_norm; cbn in *; rewrite ?upd_eq; cbn;
    bool_cases; res_cases; cbn in *;
    (split; [intros lk0 r0 E0|split; [intros a0 E0|split; [intros m0 E0|intros m0 E0]]]);
    try discriminate; try (injection E0 as E0; subst); cbn in *; try congruence.
  - pose proof (S1 _ _ eq_refl) as X. destruct (slots s (caof s t)) as [rg ky]. cbn in *. congruence.
  - pose proof (S1 _ _ eq_refl) as X. destruct (slots s (caof s t)) as [rg ky]. cbn in *. congruence.
  - rewrite (S2 _ eq_refl). reflexivity.
  - apply S3. reflexivity.
  - apply S3. reflexivity.
Qed.

Lemma SQ_reachable s : seq_reachable s -> SQ s.
Proof.
  induction 1 as [|s l s1 _ IH Hq Hs].
  - intros t. cbn. repeat split; intros; discriminate.
  - eapply SQ_step; eassumption.
Qed.

(** F (sequential): with one issuance at a time — which is all a single doIssue, however often
    retried or restarted, amounts to — the stored account is replaced only when the CA of the
    directory in use reports that this very account no longer exists *)
Theorem replaced_only_if_ca_says_gone_sequential s l s1 c a :
  seq_reachable s -> seq_ok s l -> step s l = Some s1 ->
  slots s c = Slot (Some a) (Some a) -> slots s1 c <> slots s c ->
  exists t, l = Op t false /\ caof s t = c /\ pcof s t = DelReg (MA a a) /\ live s c a = false.
Proof.
  intros Hr Hq Hs Hsl Hch.
  destruct (replaced_only_if_ca_says_gone s l s1 c a (seq_reachable_reachable _ Hr) Hs Hsl Hch)
    as (t & m & -> & Hc & Hp & _ & Hlv).
  pose proof (SQ_reachable _ Hr t) as (_ & _ & S3 & S4). exists t. subst c.
  destruct Hp as [Hp|Hp].
  - pose proof (S3 m) as X. rewrite Hp in X. specialize (X eq_refl). rewrite Hsl in X.
    injection X as X1 X2. destruct m as [lo ky]. cbn in *. subst. repeat split; auto.
  - pose proof (S4 m Hp) as X. rewrite Hsl in X. discriminate X.
Qed.

(* ------------------------------------------------------------------ R: concurrent issuances *)

Definition opt_eqb (a b : option nat) : bool :=
  match a, b with Some x, Some y => Nat.eqb x y | None, None => true | _, _ => false end.
Definition slot_eqb (a b : slot) : bool :=
  opt_eqb (s_reg a) (s_reg b) && opt_eqb (s_key a) (s_key b).
Lemma opt_eqb_eq a b : opt_eqb a b = true <-> a = b.
Proof.
  destruct a, b; cbn; split; intros H; try congruence; try discriminate.
  - apply Nat.eqb_eq in H. congruence.
  - injection H as ->. apply Nat.eqb_refl.
Qed.
Lemma slot_eqb_eq a b : slot_eqb a b = true <-> a = b.
Proof.
  unfold slot_eqb. rewrite Bool.andb_true_iff, !opt_eqb_eq. destruct a, b; cbn; split.
  - intros [-> ->]. reflexivity.
  - intros H. injection H as -> ->. split; reflexivity.
Qed.

Definition ops (t : tid) (n : nat) : list label := repeat (Op t false) n.

(** thread 0 registers account 1 and issues; threads 1 and 2 load account 1; the CA is
    re-installed; thread 1 is told accountDoesNotExist, deletes, registers account 2, saves it;
    thread 2 (still holding account 1) is told accountDoesNotExist and is about to delete *)
Definition witness_concurrent : list label :=
  Start 0 0 :: ops 0 8 ++ Start 1 0 :: ops 1 2 ++ Start 2 0 :: ops 2 2 ++ Reset 0 :: ops 1 10 ++ ops 2 1.

Lemma witness_concurrent_ok :
  match run init witness_concurrent with
  | Some s =>
      slot_eqb (slots s 0) (Slot (Some 2) (Some 2)) && live s 0 2 &&
      match step s (Op 2 false) with
      | Some s1 => slot_eqb (slots s1 0) (Slot None (Some 2)) &&
                   match run s1 (ops 2 9) with
                   | Some s2 => Nat.eqb (created s2 0) 3 && slot_eqb (slots s2 0) (Slot (Some 3) (Some 3))
                   | None => false
                   end
      | None => false
      end
  | None => false
  end = true.
Proof. vm_compute. reflexivity. Qed.

(** R: with two issuances in flight the strong statement fails — a completely stored account
    that the CA knows is deleted (and then replaced by a third registration), although the CA
    only ever reported the *previous* account as missing *)
Theorem replaced_only_if_ca_says_gone_concurrent_refuted :
  exists s l s1 c a,
    reachable s /\ step s l = Some s1 /\
    slots s c = Slot (Some a) (Some a) /\ live s c a = true /\ slots s1 c <> slots s c.
Proof.
  pose proof witness_concurrent_ok as H.
  destruct (run init witness_concurrent) as [s|] eqn:E; [|discriminate].
  destruct (step s (Op 2 false)) as [s1|] eqn:E1;
    [|rewrite Bool.andb_false_r in H; discriminate].
  apply Bool.andb_true_iff in H. destruct H as [H H1].
  apply Bool.andb_true_iff in H. destruct H as [H0 Hl].
  apply Bool.andb_true_iff in H1. destruct H1 as [H1 _].
  apply slot_eqb_eq in H0, H1.
  exists s, (Op 2 false), s1, 0, 2. repeat split; auto.
  - exists witness_concurrent. exact E.
  - rewrite H0, H1. discriminate.
Qed.
