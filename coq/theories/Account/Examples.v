(** C20 — concrete reachable states showing that the hypotheses of the theorems are met by
    non-trivial runs (and that the bounds are attained). *)
From CM Require Import Lib.Str Gen.Consts Account.Model Account.Proofs Account.Recreate.
From Coq Require Import Arith Lia.
Open Scope nat_scope.

(** three threads find nothing, queue on the lock; one registers, the others reload *)
Definition run_first_use : list label :=
  [Start 0 0; Start 1 0; Start 2 0; Op 0 false; Op 1 false; Op 2 false] ++
  ops 1 7 ++ ops 0 5 ++ ops 2 5.

Example first_use_three_threads :
  exists s, run init run_first_use = Some s /\
            created s 0 = 1 /\ fsaves s 0 = 0 /\ crashes s 0 = 0 /\ resets s 0 = 0 /\
            slots s 0 = Slot (Some 1) (Some 1) /\
            pcof s 0 = Done (Some (MA 1 1)) /\ pcof s 1 = Done (Some (MA 1 1)) /\
            pcof s 2 = Done (Some (MA 1 1)).
Proof. eexists. split; [vm_compute; reflexivity|]. vm_compute. repeat split; reflexivity. Qed.

(** the bound of [registrations_bounded] is attained: a failed Store of the key file (rolled
    back), then a crash between the two Stores, then a successful registration *)
Definition run_lost_registrations : list label :=
  Start 0 0 :: ops 0 5 ++ [Op 0 true; Op 0 false; Op 0 false] ++
  Start 1 0 :: ops 1 5 ++ [Crash 1] ++
  Start 2 0 :: ops 2 8.

Example registrations_bound_attained :
  exists s, run init run_lost_registrations = Some s /\
            created s 0 = 3 /\ fsaves s 0 = 1 /\ crashes s 0 = 1 /\ deletes s 0 = 0 /\
            slots s 0 = Slot (Some 3) (Some 3).
Proof. eexists. split; [vm_compute; reflexivity|]. vm_compute. repeat split; reflexivity. Qed.

(** a crash between the two Stores leaves the reg file alone; it loads as absent *)
Example reg_only_after_crash :
  exists s, run init (Start 0 0 :: ops 0 5 ++ [Crash 0] ++ Start 1 0 :: ops 1 1) = Some s /\
            slots s 0 = Slot (Some 1) None /\ lock s = None /\ pcof s 1 = LoadKey false 1 /\
            exists s1, step s (Op 1 false) = Some s1 /\ pcof s1 1 = WantLock.
Proof.
  eexists. split; [vm_compute; reflexivity|]. vm_compute. repeat split; try reflexivity.
  eexists. split; reflexivity.
Qed.

(** a settled account: reachable, and [stable] *)
Example stable_reachable :
  exists s, run init (Start 0 0 :: ops 0 8) = Some s /\ stable s 0 1.
Proof.
  eexists. split; [vm_compute; reflexivity|]. unfold stable. split; [reflexivity|]. split; [reflexivity|].
  intros t _. destruct t as [|t]; cbn; auto.
Qed.

(** a sequential run in which the recreate path deletes: one issuance, CA re-installed before
    its order *)
Definition only0 (s : state) : Prop := forall t, t <> 0 -> pcof s t = Idle.
Definition label0 (l : label) : bool :=
  match l with Start 0 _ | Op 0 _ | Crash 0 | Reset _ => true | _ => false end.

Lemma seq_run0 ls : forall s s1, seq_reachable s -> only0 s -> forallb label0 ls = true ->
  run s ls = Some s1 -> seq_reachable s1 /\ only0 s1.
Proof.
  induction ls as [|l r IH]; intros s s1 Hs H0 Hl Hr; cbn in *.
  - injection Hr as <-. split; assumption.
  - apply Bool.andb_true_iff in Hl. destruct Hl as [Hl Hl'].
    destruct (step s l) as [s2|] eqn:E; [|discriminate].
    apply (IH s2 s1); auto.
    + eapply seq_next; [exact Hs| |exact E].
      unfold seq_ok. destruct l as [[|?] ?|[|?] ?|[|?]|?]; cbn in *; try discriminate; auto;
        intros t' Ht'; rewrite (H0 t' Ht'); reflexivity.
    + intros t Ht. destruct (label_tid l) as [t0|] eqn:Et.
      * assert (t0 = 0) by (destruct l as [[|?] ?|[|?] ?|[|?]|?]; cbn in *; congruence). subst t0.
        rewrite (thr_frame _ _ _ _ _ E Et Ht). apply H0. exact Ht.
      * destruct l; cbn in Et; try discriminate. step_cases E. cbn. apply H0. exact Ht.
Qed.

Example sequential_recreate_reachable :
  exists s, seq_reachable s /\ slots s 0 = Slot (Some 1) (Some 1) /\
            pcof s 0 = DelReg (MA 1 1) /\ live s 0 1 = false /\
            exists s1, step s (Op 0 false) = Some s1 /\ slots s1 0 <> slots s 0.
Proof.
  destruct (run init (Start 0 0 :: ops 0 7 ++ [Reset 0; Op 0 false])) as [s|] eqn:E.
  2: { vm_compute in E. discriminate. }
  exists s.
  assert (Hl : forallb label0 (Start 0 0 :: ops 0 7 ++ [Reset 0; Op 0 false]) = true) by reflexivity.
  destruct (seq_run0 _ init s seq_init (fun t _ => eq_refl) Hl E) as [Hs _].
  split; [exact Hs|]. revert E. vm_compute. intros E. injection E as <-.
  repeat split; try reflexivity. eexists. split; [reflexivity|]. cbn. discriminate.
Qed.
