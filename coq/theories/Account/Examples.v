(** C20 — concrete reachable states showing that the hypotheses of the theorems are met by
    non-trivial runs (and that the bounds are attained). *)
From CM Require Import Lib.Str Gen.Consts Account.Model Account.Proofs Account.Recreate.
From Coq Require Import Arith Lia.
Open Scope nat_scope.

(** three threads find nothing, queue on the lock; one registers, the others reload *)
Definition run_first_use : list label :=
  [Start 0 0; Start 1 0; Start 2 0; Op 0 false; Op 1 false; Op 2 false] ++
  ops 1 7 ++ ops 0 5 ++ ops 2 5.

Example first_use_three_threads :
  exists s, run init run_first_use = Some s /\
            created s 0 = 1 /\ fsaves s 0 = 0 /\ crashes s 0 = 0 /\ resets s 0 = 0 /\
            slots s 0 = Slot (Some 1) (Some 1) /\
            pcof s 0 = Done (Some (MA 1 1)) /\ pcof s 1 = Done (Some (MA 1 1)) /\
            pcof s 2 = Done (Some (MA 1 1)).
Proof. eexists. split; [vm_compute; reflexivity|]. vm_compute. repeat split; reflexivity. Qed.

(** the bound of [registrations_bounded] is attained: a failed Store of the key file (rolled
    back), then a crash between the two Stores, then a successful registration *)
Definition run_lost_registrations : list label :=
  Start 0 0 :: ops 0 5 ++ [Op 0 true; Op 0 false; Op 0 false] ++
  Start 1 0 :: ops 1 5 ++ [Crash 1] ++
  Start 2 0 :: ops 2 8.

Example registrations_bound_attained :
  exists s, run init run_lost_registrations = Some s /\
            created s 0 = 3 /\ fsaves s 0 = 1 /\ crashes s 0 = 1 /\ deletes s 0 = 0 /\
            slots s 0 = Slot (Some 3) (Some 3).
Proof. eexists. split; [vm_compute; reflexivity|]. vm_compute. repeat split; reflexivity. Qed.

(** a crash between the two Stores leaves the reg file alone; it loads as absent *)
Example reg_only_after_crash :
  exists s, run init (Start 0 0 :: ops 0 5 ++ [Crash 0] ++ Start 1 0 :: ops 1 1) = Some s /\
            slots s 0 = Slot (Some 1) None /\ lock s = None /\ pcof s 1 = LoadKey false 1 /\
            exists s1, step s (Op 1 false) = Some s1 /\ pcof s1 1 = WantLock.
Proof.
  eexists. split; [vm_compute; reflexivity|]. vm_compute. repeat split; try reflexivity.
  eexists. split; reflexivity.
Qed.

(** a settled account: reachable, and [stable] *)
Example stable_reachable :
  exists s, run init (Start 0 0 :: ops 0 8) = Some s /\ stable s 0 1.
Proof.
  eexists. split; [vm_compute; reflexivity|]. unfold stable. split; [reflexivity|]. split; [reflexivity|].
  intros t _. destruct t as [|t]; cbn; auto.
Qed.

(** the recreate path about to delete: one issuance, CA re-installed before its order; the
    thread holds the lock, has found the very account it was refused with, and its next
    operation changes the stored account (hypotheses of [replaced_only_if_ca_says_gone]) *)
Example recreate_reachable :
  exists s, run init (Start 0 0 :: ops 0 7 ++ Reset 0 :: ops 0 4) = Some s /\
            slots s 0 = Slot (Some 1) (Some 1) /\ lock s = Some 0 /\
            pcof s 0 = DelReg (MA 1 1) /\ live s 0 1 = false /\
            exists s1, step s (Op 0 false) = Some s1 /\ slots s1 0 <> slots s 0.
Proof.
  eexists. split; [vm_compute; reflexivity|]. vm_compute. repeat split; try reflexivity.
  eexists. split; [reflexivity|]. discriminate.
Qed.

(** the bound of [registrations_bounded_by_reinstallations] is attained: first use, the CA is
    re-installed, the next issuance recreates the account *)
Example reinstallation_bound_attained :
  exists s, run init (Start 0 0 :: ops 0 8 ++ Reset 0 :: Start 1 0 :: ops 1 17) = Some s /\
            created s 0 = 2 /\ fsaves s 0 = 0 /\ crashes s 0 = 0 /\ resets s 0 = 1 /\
            slots s 0 = Slot (Some 2) (Some 2) /\ pcof s 1 = Done (Some (MA 2 2)).
Proof. eexists. split; [vm_compute; reflexivity|]. vm_compute. repeat split; reflexivity. Qed.

(** a failed Unlock: the issuance goes on and succeeds, the lock stays held *)
Example unlock_fault_leaves_lock :
  exists s, run init (Start 0 0 :: ops 0 6 ++ [Op 0 true; Op 0 false]) = Some s /\
            unlock_faults init (Start 0 0 :: ops 0 6 ++ [Op 0 true; Op 0 false]) = 1 /\
            pcof s 0 = Done (Some (MA 1 1)) /\ lock s = Some 0.
Proof. eexists. split; [vm_compute; reflexivity|]. vm_compute. repeat split; reflexivity. Qed.

(** ... and without one it is free (hypotheses of [lock_free_when_quiescent]) *)
Example no_unlock_fault_run :
  unlock_faults init run_first_use = 0 /\
  exists s, run init run_first_use = Some s /\ lock s = None.
Proof. split; [vm_compute; reflexivity|]. eexists. split; vm_compute; reflexivity. Qed.
