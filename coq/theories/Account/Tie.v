(** C20 — the statement-order and loop facts that [Account.Model] / [Account.KeyPem] hard-code,
    compared with what the translator (harness/cmd/consts/c20order.go) reads from the source on
    every run. If the code is restructured this file stops compiling and the check reports a
    broken tie instead of trusting a stale model. *)
From CM Require Import Lib.Str Gen.Consts Account.Model Account.KeyPem.
From Coq Require Import List Arith.
Import ListNotations.
Open Scope nat_scope.

(** [Order m i]: only attempt 0 recreates the account, and there is a second attempt to use it *)
Example tie_recreate_loop : c20_recreate_on_attempt = 0 /\ c20_recreate_on_attempt < c20_recreate_attempts.
Proof. split; [reflexivity|apply Nat.ltb_lt; reflexivity]. Qed.

(** [StoreReg] before [StoreKey]; [Rollback] deletes the registration only (the one Store that
    preceded the failed one), result ignored *)
Example tie_save_order : c20_save_order = [0; 1] /\ c20_storetx_rollback = true.
Proof. split; reflexivity. Qed.

(** [DelReg] before [DelKey]; [LoadReg] before [LoadKey] *)
Example tie_delete_load_order : c20_delete_order = [0; 1] /\ c20_load_order = [0; 1].
Proof. split; reflexivity. Qed.

(** load, (absent) Lock with the release deferred, reload, register, save *)
Example tie_client_order : c20_client_order = [1; 2; 1; 3; 4].
Proof. reflexivity. Qed.

(** the recreate path (f0aaa6b): [DWantLock] = the registration lock, release deferred ->
    [DLoadReg]/[DLoadKey] = loadAccount -> absent: nothing to delete ([DUnlock true]) -> any other
    load error: give up ([DUnlock false]) -> another Location: nothing to delete ([DUnlock true]) ->
    [DelReg]/[DelKey] = deleteAccountLocally, which nothing else in the package calls; then, in
    doIssue, a second newACMEClientWithAccount and the retry with the account it returns *)
Example tie_compare_and_delete :
  c20_cad_order = [2; 5; 6; 7; 8; 9] /\ c20_cad_lock_key = true /\ c20_delete_call_sites = 1.
Proof. repeat split; reflexivity. Qed.
Example tie_recreate_branch : c20_recreate_calls = [10; 11; 12; 13].
Proof. reflexivity. Qed.
