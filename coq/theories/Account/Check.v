(** Correspondence for C20.  A case is one of
      kind 0: a lock-step history of doIssue threads on the real code (events with what the
              implementation was observed to do at every gate, and the final observation);
      kind 1: the URL rule on one (CA, TestCA, useTestCA) triple with url.Parse /
              SubjectIsInternal oracle tables;
      kind 2: what a recording proxy saw when the directory was fetched for such a triple;
      kind 3: one GetAccount call with a configured account key;
      kind 4: a lock-step history of calls with a configured account key ([Account.KeyPem]),
              followed by one more call that runs alone and without faults (the probe).
    [check_line] computes (a) model == implementation and (b) [spec_ok]: the statements of the
    theorems evaluated on the implementation's observations only. *)
From CM Require Import Lib.Str Lib.Wire Gen.Consts Account.Model Account.KeyPem.
From Coq Require Import Arith.
Open Scope nat_scope.

(* ------------------------------------------------------------------ kind 0: histories *)

(** operation kinds as the harness names them *)
Definition k_loadreg := 1.   Definition k_loadkey := 2.   Definition k_lock := 3.
Definition k_newacct := 4.   Definition k_storereg := 5.  Definition k_storekey := 6.
Definition k_delreg := 7.    Definition k_delkey := 8.    Definition k_unlock := 9.
Definition k_order := 10.

Inductive event :=
| EStart (t : tid) (c : ca)
| EOp (t : tid) (fault : bool) (kind : nat) (kc : ca) (v : nat)
      (* kc: the CA whose storage key / endpoint was touched; v: value observed:
         loads: account held by the file (0: absent or error); newAccount: number of the account
         created (0: none); stores: account written; order: 0 issued, 1 accountDoesNotExist,
         2 any other error *)
| ECrash (t : tid)
| EReset (c : ca).

Definition label_of (e : event) : label :=
  match e with
  | EStart t c => Start t c
  | EOp t f _ _ _ => Op t f
  | ECrash t => Crash t
  | EReset c => Reset c
  end.

Definition oacct (o : option acct) : nat := match o with Some a => a | None => 0 end.

(** what the model expects thread t to do next: (kind, ca, value) *)
Definition expected (s : state) (t : tid) (fault : bool) : option (nat * ca * nat) :=
  let th := thr s t in
  let c := t_ca th in
  let sl := slots s c in
  let nf (v : nat) := if fault then 0 else v in
  match t_pc th with
  | Idle | Done _ => None
  | LoadReg _ => Some (k_loadreg, c, nf (oacct (s_reg sl)))
  | LoadKey _ _ => Some (k_loadkey, c, nf (oacct (s_key sl)))
  | WantLock => Some (k_lock, 0, 0)
  | Register => Some (k_newacct, c, nf (S (created s c)))
  | StoreReg a => Some (k_storereg, c, nf a)
  | StoreKey a => Some (k_storekey, c, nf a)
  | Rollback _ => Some (k_delreg, c, 0)
  | Unlock _ => Some (k_unlock, 0, 0)
  | Order m _ =>
      Some (k_order, c,
            if fault then 2
            else if live s c (m_loc m) then (if Nat.eqb (m_loc m) (m_key m) then 0 else 2) else 1)
  | DWantLock _ => Some (k_lock, 0, 0)
  | DLoadReg _ => Some (k_loadreg, c, nf (oacct (s_reg sl)))
  | DLoadKey _ _ => Some (k_loadkey, c, nf (oacct (s_key sl)))
  | DelReg _ => Some (k_delreg, c, 0)
  | DelKey _ => Some (k_delkey, c, 0)
  | DUnlock _ => Some (k_unlock, 0, 0)
  end.

Definition triple_eqb (a b : nat * ca * nat) : bool :=
  let '(x1, y1, z1) := a in let '(x2, y2, z2) := b in
  Nat.eqb x1 x2 && Nat.eqb y1 y2 && Nat.eqb z1 z2.

(** replay the history on the model; [Some (s, agree)]: final model state and whether every
    observed operation was the one the model expected. [None]: a label was not enabled. *)
Fixpoint replay (s : state) (evs : list event) : option (state * bool) :=
  match evs with
  | [] => Some (s, true)
  | e :: r =>
      let ok := match e with
                | EOp t f k kc v =>
                    match expected s t f with
                    | Some x => triple_eqb x (k, kc, v)
                    | None => false
                    end
                | _ => true
                end in
      match step s (label_of e) with
      | Some s' => match replay s' r with
                   | Some (s'', b) => Some (s'', ok && b)
                   | None => None
                   end
      | None => None
      end
  end.

(** final observation of the implementation *)
Record final := Final {
  f_cas : list (nat * nat * nat);      (* per CA 0..n-1: accounts created, reg file, key file (0 absent) *)
  f_res : list (tid * (nat * nat));    (* finished threads: (0,0) error, else (Location, key) *)
  f_lock_free : bool
}.

Definition res_code (p : pc) : option (nat * nat) :=
  match p with
  | Done (Some m) => Some (m_loc m, m_key m)
  | Done None => Some (0, 0)
  | _ => None
  end.

Fixpoint cas_agree (s : state) (c : ca) (l : list (nat * nat * nat)) : bool :=
  match l with
  | [] => true
  | (cr, rg, ky) :: r =>
      Nat.eqb cr (created s c) && Nat.eqb rg (oacct (s_reg (slots s c))) &&
      Nat.eqb ky (oacct (s_key (slots s c))) && cas_agree s (S c) r
  end.

Definition final_agree (s : state) (f : final) : bool :=
  cas_agree s 0 (f_cas f) &&
  forallb (fun '(t, (l, k)) =>
             match res_code (t_pc (thr s t)) with
             | Some (l', k') => Nat.eqb l l' && Nat.eqb k k'
             | None => false
             end) (f_res f) &&
  Bool.eqb (f_lock_free f) (match lock s with None => true | Some _ => false end).

(** ---- the monitor: the observed history folded into an observed state (no model state) *)
Record ostate := OState {
  o_slots : ca -> slot;
  o_created : ca -> nat;
  o_forgotten : ca -> nat;
  o_fsaves : ca -> nat;
  o_crashes : ca -> nat;
  o_deletes : ca -> nat;
  o_resets : ca -> nat;
  o_target : tid -> ca;                 (* CA of the thread (from its Start) *)
  o_last : tid -> nat * bool;           (* kind and fault of the thread's previous operation *)
  o_ok_e : bool;                        (* so far only the directory in use was touched *)
  o_ok_d : bool                         (* so far deleteAccountLocally only deleted a stored account the CA had forgotten *)
}.

Definition oinit : ostate :=
  OState (fun _ => empty_slot) (fun _ => 0) (fun _ => 0) (fun _ => 0) (fun _ => 0) (fun _ => 0)
         (fun _ => 0) (fun _ => 0) (fun _ => (0, false)) true true.

Definition ov (v : nat) : option acct := match v with 0 => None | _ => Some v end.

(** a proper stored account that the CA still knows *)
Definition o_live_proper (o : ostate) (c : ca) : bool :=
  match s_reg (o_slots o c), s_key (o_slots o c) with
  | Some r, Some k => Nat.eqb r k && (o_forgotten o c <? r) && (r <=? o_created o c)
  | _, _ => false
  end.

Definition ostep (o : ostate) (e : event) : ostate :=
  match e with
  | EStart t c =>
      OState (o_slots o) (o_created o) (o_forgotten o) (o_fsaves o) (o_crashes o) (o_deletes o)
             (o_resets o) (upd (o_target o) t c) (upd (o_last o) t (0, false)) (o_ok_e o) (o_ok_d o)
  | EReset c =>
      OState (o_slots o) (o_created o) (upd (o_forgotten o) c (o_created o c)) (o_fsaves o)
             (o_crashes o) (o_deletes o) (upd (o_resets o) c (S (o_resets o c)))
             (o_target o) (o_last o) (o_ok_e o) (o_ok_d o)
  | ECrash t =>
      let c := o_target o t in
      let '(lk, lf) := o_last o t in
      (* in the window: the last operation was a successful newAccount or Store of the reg file *)
      let inw := negb lf && (Nat.eqb lk k_newacct || Nat.eqb lk k_storereg) in
      OState (o_slots o) (o_created o) (o_forgotten o) (o_fsaves o)
             (if inw then upd (o_crashes o) c (S (o_crashes o c)) else o_crashes o)
             (o_deletes o) (o_resets o) (o_target o) (upd (o_last o) t (0, false)) (o_ok_e o) (o_ok_d o)
  | EOp t f k kc v =>
      let c := o_target o t in
      let sl := o_slots o kc in
      let '(lk, lf) := o_last o t in
      let touches := negb (Nat.eqb k k_lock || Nat.eqb k k_unlock) in
      (* (e) only the account of the directory in use is touched *)
      let ok_e := negb touches || Nat.eqb kc c in
      (* a Delete of the reg file right after the thread's own failed Store of the key file is
         storeTx's rollback; every other Delete is deleteAccountLocally *)
      let rollback := Nat.eqb k k_delreg && Nat.eqb lk k_storekey && lf in
      let recreate_del := (Nat.eqb k k_delreg || Nat.eqb k k_delkey) && negb rollback in
      (* (d) deleteAccountLocally runs only on a stored account (reg and key file present) whose
         registration is one the CA has forgotten: its first Delete finds that, its second Delete
         finds the reg file gone (so no other account, and in particular no account the CA still
         knows, is ever deleted — whatever the interleaving) *)
      let ok_d := negb (recreate_del && negb f) ||
                  (if Nat.eqb k k_delreg
                   then match s_reg sl with
                        | Some r => (r <=? o_forgotten o kc) && has_key sl
                        | None => false
                        end
                   else negb (has_reg sl)) in
      let slots' :=
          if f then o_slots o
          else if Nat.eqb k k_storereg then upd (o_slots o) kc (Slot (ov v) (s_key sl))
          else if Nat.eqb k k_storekey then upd (o_slots o) kc (Slot (s_reg sl) (ov v))
          else if Nat.eqb k k_delreg then upd (o_slots o) kc (Slot None (s_key sl))
          else if Nat.eqb k k_delkey then upd (o_slots o) kc (Slot (s_reg sl) None)
          else o_slots o in
      let created' :=
          if negb f && Nat.eqb k k_newacct && negb (Nat.eqb v 0)
          then upd (o_created o) kc (S (o_created o kc)) else o_created o in
      let fsaves' :=
          if f && (Nat.eqb k k_storereg || Nat.eqb k k_storekey)
          then upd (o_fsaves o) kc (S (o_fsaves o kc)) else o_fsaves o in
      let deletes' :=
          if recreate_del && negb f then upd (o_deletes o) kc (S (o_deletes o kc)) else o_deletes o in
      OState slots' created' (o_forgotten o) fsaves' (o_crashes o) deletes' (o_resets o)
             (o_target o) (upd (o_last o) t (k, f)) (o_ok_e o && ok_e) (o_ok_d o && ok_d)
  end.

Definition orun (evs : list event) : ostate := fold_left ostep evs oinit.

(** end-of-history clauses, on the final observation of the implementation *)
Fixpoint spec_cas (o : ostate) (f : final) (c : ca) (l : list (nat * nat * nat)) : bool :=
  match l with
  | [] => true
  | (cr, rg, ky) :: r =>
      (* (a) registrations bounded: each one beyond the first is paid for by a failed save, a crash
         between registering and saving, or a re-installation of the CA (and by a deletion) *)
      (cr <=? 1 + o_fsaves o c + o_crashes o c + o_resets o c) &&
      (cr <=? 1 + o_fsaves o c + o_crashes o c + o_deletes o c) &&
      (* (b) persisted together *)
      (negb (Nat.eqb (o_deletes o c) 0) || Nat.eqb ky 0 || Nat.eqb rg ky) &&
      (* (c) without a re-installed CA nothing is deleted and every issuance used the stored account *)
      (negb (Nat.eqb (o_resets o c) 0) ||
       (Nat.eqb (o_deletes o c) 0 &&
        forallb (fun '(t, (lo, k)) =>
                   negb (Nat.eqb (o_target o t) c) || Nat.eqb lo 0 ||
                   (Nat.eqb lo k && Nat.eqb rg lo && Nat.eqb ky lo)) (f_res f))) &&
      spec_cas o f (S c) r
  end.

(** every thread that was started is among the finished ones *)
Definition all_finished (evs : list event) (f : final) : bool :=
  forallb (fun e => match e with
                    | EStart t _ => existsb (fun '(t', _) => Nat.eqb t' t) (f_res f)
                    | _ => true
                    end) evs.

Definition no_unlock_fault (evs : list event) : bool :=
  forallb (fun e => match e with EOp _ true k _ _ => negb (Nat.eqb k k_unlock) | _ => true end) evs.

(** (f) when no issuance is in flight any more (and no Unlock failed), the registration lock is free *)
Definition spec_lock (evs : list event) (f : final) : bool :=
  negb (all_finished evs f && no_unlock_fault evs) || f_lock_free f.

Definition spec_hist (evs : list event) (f : final) : bool :=
  let o := orun evs in o_ok_e o && o_ok_d o && spec_cas o f 0 (f_cas f) && spec_lock evs f.

(* ------------------------------------------------------------------ kinds 1, 2: URL rule *)

Fixpoint lookup {A} (k : str) (tbl : list (str * A)) : option A :=
  match tbl with
  | [] => None
  | (k', v) :: r => if str_eqb k k' then Some v else lookup k r
  end.
Definition tbl_parse (tbl : list (str * option (str * str))) (u : str) : option (str * str) :=
  match lookup u tbl with Some r => r | None => None end.
Definition tbl_internal (tbl : list (str * bool)) (h : str) : bool :=
  match lookup h tbl with Some b => b | None => false end.

Record url_case := UrlCase {
  u_ca : str; u_test : str; u_use_test : bool;
  u_ptbl : list (str * option (str * str));
  u_itbl : list (str * bool);     (* host -> SubjectIsInternal (the oracle the model is fed with) *)
  u_rtbl : list (str * bool)      (* host -> internal by the harness's independent reading *)
}.

Definition url_model (u : url_case) : option str :=
  client_dir (tbl_parse (u_ptbl u)) (tbl_internal (u_itbl u)) (u_ca u) (u_test u) (u_use_test u).

Definition opt_str_eqb (a b : option str) : bool :=
  match a, b with Some x, Some y => str_eqb x y | None, None => true | _, _ => false end.

(** accepted => the directory, read by the rule, is HTTPS or — judged by the independent
    reading of "internal address", not by the implementation's — internal *)
Definition url_spec (u : url_case) (obs : option str) : bool :=
  match obs with
  | None => true
  | Some d => secure (tbl_parse (u_ptbl u)) (tbl_internal (u_rtbl u)) d
  end.

(** kind 2: contacts seen by the recording proxy: (plain HTTP?, host internal?) *)
Definition contact_spec (cs : list (bool * bool)) : bool :=
  forallb (fun '(plain, internal) => negb plain || internal) cs.

(* ------------------------------------------------------------------ kind 4: account-key histories *)

Definition k_lookup := 11.   Definition k_list := 12.

Definition fn (v : fval) : nat := match v with FNone => 0 | FMine => 1 | FOther => 2 end.
Definition fv (n : nat) : fval := match n with 0 => FNone | 1 => FMine | _ => FOther end.

Definition klabel_of (e : event) : option klabel :=
  match e with
  | EStart t c => Some (KStart t (Nat.eqb c 1))
  | EOp t f _ _ _ => Some (KOp t f)
  | ECrash t => Some (KCrash t)
  | EReset _ => None
  end.

(** what the model expects thread t to do next: (kind, value observed / written) *)
Definition kexpected (s : kstate) (t : ktid) (fault : bool) : option (nat * nat) :=
  let nf (v : nat) := if fault then 0 else v in
  match k_thr s t with
  | KIdle | KDone _ => None
  | KList => Some (k_list, nf (match k_reg s, k_key s with FNone, FNone => 0 | _, _ => 1 end))
  | KFirstKey | KLoadKey _ => Some (k_loadkey, nf (fn (k_key s)))
  | KLoadReg => Some (k_loadreg, nf (fn (k_reg s)))
  | KLookup => Some (k_lookup, nf (if k_known s then 1 else 0))
  | KStoreReg => Some (k_storereg, nf 1)
  | KStoreKey => Some (k_storekey, nf 1)
  | KRollback => Some (k_delreg, 0)
  end.

Definition kev_ok (s : kstate) (e : event) : bool :=
  match e with
  | EOp t f k _ v =>
      match kexpected s t f with
      | Some (k', v') => Nat.eqb k k' && Nat.eqb v v'
      | None => false
      end
  | _ => true
  end.

Fixpoint kreplay (s : kstate) (evs : list event) : option (kstate * bool) :=
  match evs with
  | [] => Some (s, true)
  | e :: r =>
      match klabel_of e with
      | None => None
      | Some l =>
          match kstep s l with
          | Some s' => match kreplay s' r with
                       | Some (s'', b) => Some (s'', kev_ok s e && b)
                       | None => None
                       end
          | None => None
          end
      end
  end.

Record kcase := KCase {
  kc_reg0 : nat; kc_key0 : nat; kc_known : bool;     (* storage and CA before the history *)
  kc_evs : list event;                               (* the concurrent history *)
  kc_probe : tid; kc_probe_email : bool;
  kc_pevs : list event;                              (* the probe's operations *)
  kc_res : list (tid * (nat * nat));                 (* finished threads of the history: (0,0) error, else (reg, key) *)
  kc_pres : nat * nat;                               (* result of the probe *)
  kc_freg : nat; kc_fkey : nat;                      (* files at the end *)
  kc_created : nat                                   (* accounts registered by newAccount during the case *)
}.

Definition kres_code (p : kpc) : option (nat * nat) :=
  match p with
  | KDone (Some (r, k)) => Some (fn r, fn k)
  | KDone None => Some (0, 0)
  | _ => None
  end.

Definition pair_eqb (a b : nat * nat) : bool := Nat.eqb (fst a) (fst b) && Nat.eqb (snd a) (snd b).

Definition kall_events (c : kcase) : list event :=
  kc_evs c ++ EStart (kc_probe c) (if kc_probe_email c then 1 else 0) :: kc_pevs c.

Definition kfinal_agree (s : kstate) (c : kcase) : bool :=
  Nat.eqb (kc_freg c) (fn (k_reg s)) && Nat.eqb (kc_fkey c) (fn (k_key s)) &&
  forallb (fun '(t, x) => match kres_code (k_thr s t) with Some y => pair_eqb x y | None => false end)
          (kc_res c) &&
  match kres_code (k_thr s (kc_probe c)) with Some y => pair_eqb (kc_pres c) y | None => false end &&
  Nat.eqb (kc_created c) 0.

Definition kinit_of (c : kcase) : kstate := kinit (fv (kc_reg0 c)) (fv (kc_key0 c)) (kc_known c).

Definition kmodel_agrees (c : kcase) : bool :=
  match kreplay (kinit_of c) (kall_events c) with
  | Some (s, b) => b && kfinal_agree s c
  | None => false
  end.

(** the probe's operations: its own, not faulted *)
Definition probe_shape (p : tid) (pevs : list event) : bool :=
  forallb (fun e => match e with EOp t false _ _ _ => Nat.eqb t p | _ => false end) pevs.

Definition is_store (k : nat) : bool := Nat.eqb k k_storereg || Nat.eqb k k_storekey.
(** an observed Store wrote the configured key / the registration of its account *)
Definition store_ok (e : event) : bool :=
  match e with
  | EOp _ false k _ v => negb (is_store k) || Nat.eqb v 1
  | _ => true
  end.

(** the monitor, on the implementation's observations only:
    (i)   nothing is ever registered in this mode;
    (ii)  whatever is stored is the configured key / the registration of its account;
    (iii) (storage did not hold a foreign registration) a call that succeeds returns that account;
    (iv)  an account that was completely stored is never replaced by a different one;
    (v)   (no foreign registration, CA knows the key) whatever faults, crashes and interleavings
          came before, the next call that runs alone succeeds with that account and leaves it
          completely stored *)
Definition kspec (c : kcase) : bool :=
  let clean := kc_reg0 c <? 2 in
  let good (x : nat * nat) := pair_eqb x (0, 0) || pair_eqb x (1, 1) in
  Nat.eqb (kc_created c) 0 &&
  forallb store_ok (kc_evs c ++ kc_pevs c) &&
  (negb clean || (forallb (fun '(_, x) => good x) (kc_res c) && good (kc_pres c))) &&
  (negb (Nat.eqb (kc_reg0 c) 1 && Nat.eqb (kc_key0 c) 1) ||
   (Nat.eqb (kc_fkey c) 1 && negb (Nat.eqb (kc_freg c) 2))) &&
  (negb (clean && kc_known c && probe_shape (kc_probe c) (kc_pevs c)) ||
   (pair_eqb (kc_pres c) (1, 1) && Nat.eqb (kc_freg c) 1 && Nat.eqb (kc_fkey c) 1)).

(* ------------------------------------------------------------------ wire *)

(** Wire tag 4 is a newAccount request whose response was lost: the CA created account [v], the
    client saw an I/O error and goes on as after any failed registration. In the model's
    vocabulary that is a registration whose save fails before its first Store — exactly the same
    effect on every component of the state (account created, nothing stored, lock still held,
    next operation: Unlock), accounted in [fsaves] — so the decoder expands it to those two
    operations; the replay then demands that the implementation's next operation is the Unlock. *)
Definition get_event : dec (list event) :=
  (tag <- get_nat ;;
   match tag with
   | 0 => t <- get_nat ;; c <- get_nat ;; ret [EStart t c]
   | 1 => t <- get_nat ;; f <- get_bool ;; k <- get_nat ;; kc <- get_nat ;; v <- get_nat ;;
          ret [EOp t f k kc v]
   | 2 => t <- get_nat ;; ret [ECrash t]
   | 3 => c <- get_nat ;; ret [EReset c]
   | 4 => t <- get_nat ;; c <- get_nat ;; v <- get_nat ;;
          ret [EOp t false k_newacct c v; EOp t true k_storereg c 0]
   | _ => fun _ => None
   end).
Definition get_events : dec (list event) := (l <- get_list get_event ;; ret (concat l)).

Definition get_final : dec final :=
  (cas <- get_list (x <- get_nat ;; y <- get_nat ;; z <- get_nat ;; ret (x, y, z)) ;;
   res <- get_list (t <- get_nat ;; l <- get_nat ;; k <- get_nat ;; ret (t, (l, k))) ;;
   lf <- get_bool ;;
   ret (Final cas res lf)).

Definition get_parsed : dec (option (str * str)) :=
  get_opt (get_pair get_str get_str).

Definition get_url_case : dec url_case :=
  (c <- get_str ;; t <- get_str ;; u <- get_bool ;;
   pt <- get_list (get_pair get_str get_parsed) ;;
   it <- get_list (h <- get_str ;; i <- get_bool ;; r <- get_bool ;; ret (h, (i, r))) ;;
   ret (UrlCase c t u pt (map (fun '(h, (i, _)) => (h, i)) it) (map (fun '(h, (_, r)) => (h, r)) it))).

(** kind 0, external account binding: the requests that carried an externalAccountBinding or
    created an account, as the mock CAs logged them: (CA, account-creating newAccount?, carries a
    binding?, the CA whose newAccount URL the binding names (9 none), key id + MAC + inner JWK all
    as configured / as the outer request's key) *)
Definition eab_rec := (nat * bool * bool * nat * bool)%type.

(** (g) a binding is sent only inside an account-creating newAccount request, names the newAccount
    URL of the CA that receives it, carries the configured key id, a valid MAC and the account key
    that signs the request — and only when an external account is configured; with one
    configured, every account created at the production CA was bound to it *)
Definition eab_spec (conf : bool) (recs : list eab_rec) : bool :=
  forallb (fun r : eab_rec =>
             let '(c, creating, has, url_ca, good) := r in
             if (has : bool) then conf && creating && Nat.eqb url_ca c && good
             else negb (conf && creating && Nat.eqb c 0)) recs.

(** what the model predicts for such a record: only account-creating newAccount requests ([Register]
    operations) are recorded at all — nothing else carries a binding —, they carry one iff an
    external account is configured, and then it names the directory in use and is well-formed *)
Definition eab_predicted (conf : bool) (r : eab_rec) : bool :=
  let '(c, creating, has, url_ca, good) := r in
  (creating : bool) && Bool.eqb has conf && (negb conf || (Nat.eqb url_ca c && good)).

(** (h) only accountDoesNotExist recreates: a Delete of deleteAccountLocally by a thread comes after
    that thread's own order was answered accountDoesNotExist by the CA (an observed, not injected,
    answer), with no other order of that thread in between. [gone t]: the thread's latest order was
    answered so; [last t]: kind and fault of its previous operation (to tell storeTx's rollback). *)
Fixpoint spec_gone (gone : tid -> bool) (last : tid -> nat * bool) (evs : list event) : bool :=
  match evs with
  | [] => true
  | EStart t _ :: r => spec_gone (upd gone t false) (upd last t (0, false)) r
  | ECrash t :: r => spec_gone gone (upd last t (0, false)) r
  | EReset _ :: r => spec_gone gone last r
  | EOp t f k kc v :: r =>
      let '(lk, lf) := last t in
      let rollback := Nat.eqb k k_delreg && Nat.eqb lk k_storekey && lf in
      let recreate_del := (Nat.eqb k k_delreg || Nat.eqb k k_delkey) && negb rollback in
      let gone' := if Nat.eqb k k_order then upd gone t (negb f && Nat.eqb v 1) else gone in
      (negb recreate_del || gone t) && spec_gone gone' (upd last t (k, f)) r
  end.
Definition spec_gone0 (evs : list event) : bool := spec_gone (fun _ => false) (fun _ => (0, false)) evs.

Inductive case :=
| CHist (evs : list event) (f : final) (eab_conf : bool) (eab : list eab_rec)
| CUrl (u : url_case) (obs : option str)
| CContact (u : url_case) (cs : list (bool * bool))
| CKeyPem (with_email key_matches reg_ok ca_knows : bool)
          (obs_ok : bool) (obs_lookups : nat) (obs_saved : bool) (obs_created : nat)
| CKp (c : kcase).

Definition get_case : dec case :=
  (kind <- get_nat ;;
   match kind with
   | 0 => evs <- get_events ;; f <- get_final ;;
          conf <- get_bool ;;
          recs <- get_list (c <- get_nat ;; cr <- get_bool ;; h <- get_bool ;; u <- get_nat ;; g <- get_bool ;;
                            ret (c, cr, h, u, g)) ;;
          ret (CHist evs f conf recs)
   | 1 => u <- get_url_case ;; o <- get_opt get_str ;; ret (CUrl u o)
   | 2 => u <- get_url_case ;; cs <- get_list (get_pair get_bool get_bool) ;; ret (CContact u cs)
   | 3 => we <- get_bool ;; km <- get_bool ;; ro <- get_bool ;; ck <- get_bool ;;
          ok <- get_bool ;; lk <- get_nat ;; sv <- get_bool ;; cr <- get_nat ;;
          ret (CKeyPem we km ro ck ok lk sv cr)
   | 4 => r0 <- get_nat ;; k0 <- get_nat ;; kn <- get_bool ;;
          evs <- get_events ;;
          p <- get_nat ;; pe <- get_bool ;; pevs <- get_events ;;
          res <- get_list (t <- get_nat ;; l <- get_nat ;; k <- get_nat ;; ret (t, (l, k))) ;;
          pr <- get_nat ;; pk <- get_nat ;;
          fr <- get_nat ;; fk <- get_nat ;; cr <- get_nat ;;
          ret (CKp (KCase r0 k0 kn evs p pe pevs res (pr, pk) fr fk cr))
   | _ => fun _ => None
   end).

Definition model_agrees (c : case) : bool :=
  match c with
  | CHist evs f conf recs =>
      match replay init evs with
      | Some (s, b) => b && final_agree s f && forallb (eab_predicted conf) recs
      | None => false
      end
  | CUrl u obs => opt_str_eqb (url_model u) obs
  | CContact u cs =>
      (* the model only predicts silence: a rejected URL is never contacted in the clear (plain
         requests are attributed to their case exactly, CONNECTs only by host) *)
      match url_model u with None => negb (existsb fst cs) | Some _ => true end
  | CKeyPem we km ro ck ok lk sv cr =>
      let '(m_ok, m_lookup, m_saved) := keypem_outcome km ro ck in
      Bool.eqb m_ok ok && Bool.eqb m_lookup (negb (Nat.eqb lk 0)) && Bool.eqb m_saved sv
  | CKp c => kmodel_agrees c
  end.

Definition spec_ok (c : case) : bool :=
  match c with
  | CHist evs f conf recs => spec_hist evs f && eab_spec conf recs && spec_gone0 evs
  | CUrl u obs => url_spec u obs
  | CContact u cs => contact_spec cs
  | CKeyPem _ _ _ _ _ _ _ cr => Nat.eqb cr 0     (* a configured key never registers an account *)
  | CKp c => kspec c
  end.

Definition check_line (l : list Z) : Z :=
  match decode get_case l with
  | Some c => code (model_agrees c) (spec_ok c)
  | None => code_decode_error
  end.

(** diagnostics: for histories, the index of the first event where the model disagrees (or
    the number of events if none), then the model's final (created, reg, key) of CAs 0 and 1
    and lock state; for URL cases the model's verdict *)
Fixpoint first_bad (s : state) (evs : list event) (i : nat) : nat :=
  match evs with
  | [] => i
  | e :: r =>
      let ok := match e with
                | EOp t f k kc v =>
                    match expected s t f with Some x => triple_eqb x (k, kc, v) | None => false end
                | _ => true
                end in
      if ok then match step s (label_of e) with Some s' => first_bad s' r (S i) | None => i end
      else i
  end.

Fixpoint kfirst_bad (s : kstate) (evs : list event) (i : nat) : nat :=
  match evs with
  | [] => i
  | e :: r =>
      if kev_ok s e
      then match klabel_of e with
           | Some l => match kstep s l with Some s' => kfirst_bad s' r (S i) | None => i end
           | None => i
           end
      else i
  end.

Definition explain_line (l : list Z) : list Z :=
  match decode get_case l with
  | Some (CHist evs f _ _) =>
      let i := first_bad init evs 0 in
      let st := match replay init (firstn i evs) with Some (s, _) => s | None => init end in
      let exp := match nth_error evs i with
                 | Some (EOp t fl _ _ _) =>
                     match expected st t fl with
                     | Some (k, c, v) => [Z.of_nat k; Z.of_nat c; Z.of_nat v]
                     | None => [(-1)%Z]
                     end
                 | _ => []
                 end in
      (Z.of_nat i :: Z.of_nat (length evs) :: exp) ++
      match replay init evs with
      | Some (s, b) =>
          [(if b then 1 else 0)%Z;
           Z.of_nat (created s 0); Z.of_nat (oacct (s_reg (slots s 0))); Z.of_nat (oacct (s_key (slots s 0)));
           Z.of_nat (created s 1); Z.of_nat (oacct (s_reg (slots s 1))); Z.of_nat (oacct (s_key (slots s 1)));
           (match lock s with None => 0 | Some t => Z.of_nat (S t) end)%Z]
      | None => [(-2)%Z]
      end
  | Some (CUrl u _) | Some (CContact u _) =>
      match url_model u with Some d => 1%Z :: put_str d | None => [0%Z] end
  | Some (CKeyPem we km ro ck _ _ _ _) =>
      let '(a, b, c) := keypem_outcome km ro ck in
      [(if a then 1 else 0)%Z; (if b then 1 else 0)%Z; (if c then 1 else 0)%Z]
  | Some (CKp c) =>
      let evs := kall_events c in
      let i := kfirst_bad (kinit_of c) evs 0 in
      let st := match kreplay (kinit_of c) (firstn i evs) with Some (s, _) => s | None => kinit_of c end in
      let exp := match nth_error evs i with
                 | Some (EOp t fl _ _ _) =>
                     match kexpected st t fl with
                     | Some (k, v) => [Z.of_nat k; Z.of_nat v]
                     | None => [(-1)%Z]
                     end
                 | _ => []
                 end in
      (Z.of_nat i :: Z.of_nat (length evs) :: exp) ++
      match kreplay (kinit_of c) evs with
      | Some (s, b) =>
          [(if b then 1 else 0)%Z; Z.of_nat (fn (k_reg s)); Z.of_nat (fn (k_key s));
           (match kres_code (k_thr s (kc_probe c)) with Some (a, b) => Z.of_nat (10 * a + b) | None => (-1)%Z end)]
      | None => [(-2)%Z]
      end
  | None => []
  end.
