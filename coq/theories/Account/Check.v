(** Correspondence for C20.  A case is one of
      kind 0: a lock-step history of doIssue threads on the real code (events with what the
              implementation was observed to do at every gate, and the final observation);
      kind 1: the URL rule on one (CA, TestCA, useTestCA) triple with url.Parse /
              SubjectIsInternal oracle tables;
      kind 2: what a recording proxy saw when the directory was fetched for such a triple;
      kind 3: one GetAccount call with a configured account key.
    [check_line] computes (a) model == implementation and (b) [spec_ok]: the statements of the
    theorems evaluated on the implementation's observations only. *)
From CM Require Import Lib.Str Lib.Wire Gen.Consts Account.Model.
From Coq Require Import Arith.
Open Scope nat_scope.

(* ------------------------------------------------------------------ kind 0: histories *)

(** operation kinds as the harness names them *)
Definition k_loadreg := 1.   Definition k_loadkey := 2.   Definition k_lock := 3.
Definition k_newacct := 4.   Definition k_storereg := 5.  Definition k_storekey := 6.
Definition k_delreg := 7.    Definition k_delkey := 8.    Definition k_unlock := 9.
Definition k_order := 10.

Inductive event :=
| EStart (t : tid) (c : ca)
| EOp (t : tid) (fault : bool) (kind : nat) (kc : ca) (v : nat)
      (* kc: the CA whose storage key / endpoint was touched; v: value observed:
         loads: account held by the file (0: absent or error); newAccount: number of the account
         created (0: none); stores: account written; order: 0 issued, 1 accountDoesNotExist,
         2 any other error *)
| ECrash (t : tid)
| EReset (c : ca).

Definition label_of (e : event) : label :=
  match e with
  | EStart t c => Start t c
  | EOp t f _ _ _ => Op t f
  | ECrash t => Crash t
  | EReset c => Reset c
  end.

Definition oacct (o : option acct) : nat := match o with Some a => a | None => 0 end.

(** what the model expects thread t to do next: (kind, ca, value) *)
Definition expected (s : state) (t : tid) (fault : bool) : option (nat * ca * nat) :=
  let th := thr s t in
  let c := t_ca th in
  let sl := slots s c in
  let nf (v : nat) := if fault then 0 else v in
  match t_pc th with
  | Idle | Done _ => None
  | LoadReg _ => Some (k_loadreg, c, nf (oacct (s_reg sl)))
  | LoadKey _ _ => Some (k_loadkey, c, nf (oacct (s_key sl)))
  | WantLock => Some (k_lock, 0, 0)
  | Register => Some (k_newacct, c, nf (S (created s c)))
  | StoreReg a => Some (k_storereg, c, nf a)
  | StoreKey a => Some (k_storekey, c, nf a)
  | Rollback _ => Some (k_delreg, c, 0)
  | Unlock _ => Some (k_unlock, 0, 0)
  | Order m _ =>
      Some (k_order, c,
            if fault then 2
            else if live s c (m_loc m) then (if Nat.eqb (m_loc m) (m_key m) then 0 else 2) else 1)
  | DelReg _ => Some (k_delreg, c, 0)
  | DelKey _ => Some (k_delkey, c, 0)
  end.

Definition triple_eqb (a b : nat * ca * nat) : bool :=
  let '(x1, y1, z1) := a in let '(x2, y2, z2) := b in
  Nat.eqb x1 x2 && Nat.eqb y1 y2 && Nat.eqb z1 z2.

(** replay the history on the model; [Some (s, agree)]: final model state and whether every
    observed operation was the one the model expected. [None]: a label was not enabled. *)
Fixpoint replay (s : state) (evs : list event) : option (state * bool) :=
  match evs with
  | [] => Some (s, true)
  | e :: r =>
      let ok := match e with
                | EOp t f k kc v =>
                    match expected s t f with
                    | Some x => triple_eqb x (k, kc, v)
                    | None => false
                    end
                | _ => true
                end in
      match step s (label_of e) with
      | Some s' => match replay s' r with
                   | Some (s'', b) => Some (s'', ok && b)
                   | None => None
                   end
      | None => None
      end
  end.

(** final observation of the implementation *)
Record final := Final {
  f_cas : list (nat * nat * nat);      (* per CA 0..n-1: accounts created, reg file, key file (0 absent) *)
  f_res : list (tid * (nat * nat));    (* finished threads: (0,0) error, else (Location, key) *)
  f_lock_free : bool
}.

Definition res_code (p : pc) : option (nat * nat) :=
  match p with
  | Done (Some m) => Some (m_loc m, m_key m)
  | Done None => Some (0, 0)
  | _ => None
  end.

Fixpoint cas_agree (s : state) (c : ca) (l : list (nat * nat * nat)) : bool :=
  match l with
  | [] => true
  | (cr, rg, ky) :: r =>
      Nat.eqb cr (created s c) && Nat.eqb rg (oacct (s_reg (slots s c))) &&
      Nat.eqb ky (oacct (s_key (slots s c))) && cas_agree s (S c) r
  end.

Definition final_agree (s : state) (f : final) : bool :=
  cas_agree s 0 (f_cas f) &&
  forallb (fun '(t, (l, k)) =>
             match res_code (t_pc (thr s t)) with
             | Some (l', k') => Nat.eqb l l' && Nat.eqb k k'
             | None => false
             end) (f_res f) &&
  Bool.eqb (f_lock_free f) (match lock s with None => true | Some _ => false end).

(** ---- the monitor: the observed history folded into an observed state (no model state) *)
Record ostate := OState {
  o_slots : ca -> slot;
  o_created : ca -> nat;
  o_forgotten : ca -> nat;
  o_fsaves : ca -> nat;
  o_crashes : ca -> nat;
  o_deletes : ca -> nat;
  o_resets : ca -> nat;
  o_target : tid -> ca;                 (* CA of the thread (from its Start) *)
  o_last : tid -> nat * bool;           (* kind and fault of the thread's previous operation *)
  o_ok_e : bool;                        (* so far only the directory in use was touched *)
  o_ok_d : bool                         (* so far no complete, live account was deleted *)
}.

Definition oinit : ostate :=
  OState (fun _ => empty_slot) (fun _ => 0) (fun _ => 0) (fun _ => 0) (fun _ => 0) (fun _ => 0)
         (fun _ => 0) (fun _ => 0) (fun _ => (0, false)) true true.

Definition ov (v : nat) : option acct := match v with 0 => None | _ => Some v end.

(** a proper stored account that the CA still knows *)
Definition o_live_proper (o : ostate) (c : ca) : bool :=
  match s_reg (o_slots o c), s_key (o_slots o c) with
  | Some r, Some k => Nat.eqb r k && (o_forgotten o c <? r) && (r <=? o_created o c)
  | _, _ => false
  end.

Definition ostep (o : ostate) (e : event) : ostate :=
  match e with
  | EStart t c =>
      OState (o_slots o) (o_created o) (o_forgotten o) (o_fsaves o) (o_crashes o) (o_deletes o)
             (o_resets o) (upd (o_target o) t c) (upd (o_last o) t (0, false)) (o_ok_e o) (o_ok_d o)
  | EReset c =>
      OState (o_slots o) (o_created o) (upd (o_forgotten o) c (o_created o c)) (o_fsaves o)
             (o_crashes o) (o_deletes o) (upd (o_resets o) c (S (o_resets o c)))
             (o_target o) (o_last o) (o_ok_e o) (o_ok_d o)
  | ECrash t =>
      let c := o_target o t in
      let '(lk, lf) := o_last o t in
      (* in the window: the last operation was a successful newAccount or Store of the reg file *)
      let inw := negb lf && (Nat.eqb lk k_newacct || Nat.eqb lk k_storereg) in
      OState (o_slots o) (o_created o) (o_forgotten o) (o_fsaves o)
             (if inw then upd (o_crashes o) c (S (o_crashes o c)) else o_crashes o)
             (o_deletes o) (o_resets o) (o_target o) (upd (o_last o) t (0, false)) (o_ok_e o) (o_ok_d o)
  | EOp t f k kc v =>
      let c := o_target o t in
      let sl := o_slots o kc in
      let '(lk, lf) := o_last o t in
      let touches := negb (Nat.eqb k k_lock || Nat.eqb k k_unlock) in
      (* (e) only the account of the directory in use is touched *)
      let ok_e := negb touches || Nat.eqb kc c in
      (* a Delete of the reg file right after the thread's own failed Store of the key file is
         storeTx's rollback; every other Delete is deleteAccountLocally *)
      let rollback := Nat.eqb k k_delreg && Nat.eqb lk k_storekey && lf in
      let recreate_del := (Nat.eqb k k_delreg || Nat.eqb k k_delkey) && negb rollback in
      (* (d) deleteAccountLocally never hits a proper account the CA still knows *)
      let ok_d := negb (recreate_del && negb f && o_live_proper o kc) in
      let slots' :=
          if f then o_slots o
          else if Nat.eqb k k_storereg then upd (o_slots o) kc (Slot (ov v) (s_key sl))
          else if Nat.eqb k k_storekey then upd (o_slots o) kc (Slot (s_reg sl) (ov v))
          else if Nat.eqb k k_delreg then upd (o_slots o) kc (Slot None (s_key sl))
          else if Nat.eqb k k_delkey then upd (o_slots o) kc (Slot (s_reg sl) None)
          else o_slots o in
      let created' :=
          if negb f && Nat.eqb k k_newacct && negb (Nat.eqb v 0)
          then upd (o_created o) kc (S (o_created o kc)) else o_created o in
      let fsaves' :=
          if f && (Nat.eqb k k_storereg || Nat.eqb k k_storekey)
          then upd (o_fsaves o) kc (S (o_fsaves o kc)) else o_fsaves o in
      let deletes' :=
          if recreate_del && negb f then upd (o_deletes o) kc (S (o_deletes o kc)) else o_deletes o in
      OState slots' created' (o_forgotten o) fsaves' (o_crashes o) deletes' (o_resets o)
             (o_target o) (upd (o_last o) t (k, f)) (o_ok_e o && ok_e) (o_ok_d o && ok_d)
  end.

Definition orun (evs : list event) : ostate := fold_left ostep evs oinit.

(** end-of-history clauses, on the final observation of the implementation *)
Fixpoint spec_cas (o : ostate) (f : final) (c : ca) (l : list (nat * nat * nat)) : bool :=
  match l with
  | [] => true
  | (cr, rg, ky) :: r =>
      (* (a) registrations bounded *)
      (cr <=? 1 + o_fsaves o c + o_crashes o c + o_deletes o c) &&
      (* (b) persisted together *)
      (negb (Nat.eqb (o_deletes o c) 0) || Nat.eqb ky 0 || Nat.eqb rg ky) &&
      (* (c) without a re-installed CA nothing is deleted and every issuance used the stored account *)
      (negb (Nat.eqb (o_resets o c) 0) ||
       (Nat.eqb (o_deletes o c) 0 &&
        forallb (fun '(t, (lo, k)) =>
                   negb (Nat.eqb (o_target o t) c) || Nat.eqb lo 0 ||
                   (Nat.eqb lo k && Nat.eqb rg lo && Nat.eqb ky lo)) (f_res f))) &&
      spec_cas o f (S c) r
  end.

Definition spec_hist (evs : list event) (f : final) : bool :=
  let o := orun evs in o_ok_e o && o_ok_d o && spec_cas o f 0 (f_cas f).

(* ------------------------------------------------------------------ kinds 1, 2: URL rule *)

Fixpoint lookup {A} (k : str) (tbl : list (str * A)) : option A :=
  match tbl with
  | [] => None
  | (k', v) :: r => if str_eqb k k' then Some v else lookup k r
  end.
Definition tbl_parse (tbl : list (str * option (str * str))) (u : str) : option (str * str) :=
  match lookup u tbl with Some r => r | None => None end.
Definition tbl_internal (tbl : list (str * bool)) (h : str) : bool :=
  match lookup h tbl with Some b => b | None => false end.

Record url_case := UrlCase {
  u_ca : str; u_test : str; u_use_test : bool;
  u_ptbl : list (str * option (str * str));
  u_itbl : list (str * bool)
}.

Definition url_model (u : url_case) : option str :=
  client_dir (tbl_parse (u_ptbl u)) (tbl_internal (u_itbl u)) (u_ca u) (u_test u) (u_use_test u).

Definition opt_str_eqb (a b : option str) : bool :=
  match a, b with Some x, Some y => str_eqb x y | None, None => true | _, _ => false end.

(** accepted => the directory, read by the rule, is HTTPS or internal *)
Definition url_spec (u : url_case) (obs : option str) : bool :=
  match obs with
  | None => true
  | Some d => secure (tbl_parse (u_ptbl u)) (tbl_internal (u_itbl u)) d
  end.

(** kind 2: contacts seen by the recording proxy: (plain HTTP?, host internal?) *)
Definition contact_spec (cs : list (bool * bool)) : bool :=
  forallb (fun '(plain, internal) => negb plain || internal) cs.

(* ------------------------------------------------------------------ wire *)

Definition get_event : dec event :=
  (tag <- get_nat ;;
   match tag with
   | 0 => t <- get_nat ;; c <- get_nat ;; ret (EStart t c)
   | 1 => t <- get_nat ;; f <- get_bool ;; k <- get_nat ;; kc <- get_nat ;; v <- get_nat ;;
          ret (EOp t f k kc v)
   | 2 => t <- get_nat ;; ret (ECrash t)
   | 3 => c <- get_nat ;; ret (EReset c)
   | _ => fun _ => None
   end).

Definition get_final : dec final :=
  (cas <- get_list (x <- get_nat ;; y <- get_nat ;; z <- get_nat ;; ret (x, y, z)) ;;
   res <- get_list (t <- get_nat ;; l <- get_nat ;; k <- get_nat ;; ret (t, (l, k))) ;;
   lf <- get_bool ;;
   ret (Final cas res lf)).

Definition get_parsed : dec (option (str * str)) :=
  get_opt (get_pair get_str get_str).

Definition get_url_case : dec url_case :=
  (c <- get_str ;; t <- get_str ;; u <- get_bool ;;
   pt <- get_list (get_pair get_str get_parsed) ;;
   it <- get_list (get_pair get_str get_bool) ;;
   ret (UrlCase c t u pt it)).

Inductive case :=
| CHist (evs : list event) (f : final)
| CUrl (u : url_case) (obs : option str)
| CContact (u : url_case) (cs : list (bool * bool))
| CKeyPem (with_email key_matches reg_ok ca_knows : bool)
          (obs_ok : bool) (obs_lookups : nat) (obs_saved : bool) (obs_created : nat).

Definition get_case : dec case :=
  (kind <- get_nat ;;
   match kind with
   | 0 => evs <- get_list get_event ;; f <- get_final ;; ret (CHist evs f)
   | 1 => u <- get_url_case ;; o <- get_opt get_str ;; ret (CUrl u o)
   | 2 => u <- get_url_case ;; cs <- get_list (get_pair get_bool get_bool) ;; ret (CContact u cs)
   | 3 => we <- get_bool ;; km <- get_bool ;; ro <- get_bool ;; ck <- get_bool ;;
          ok <- get_bool ;; lk <- get_nat ;; sv <- get_bool ;; cr <- get_nat ;;
          ret (CKeyPem we km ro ck ok lk sv cr)
   | _ => fun _ => None
   end).

Definition model_agrees (c : case) : bool :=
  match c with
  | CHist evs f =>
      match replay init evs with
      | Some (s, b) => b && final_agree s f
      | None => false
      end
  | CUrl u obs => opt_str_eqb (url_model u) obs
  | CContact u cs =>
      (* the model only predicts silence: a rejected URL is never contacted in the clear (plain
         requests are attributed to their case exactly, CONNECTs only by host) *)
      match url_model u with None => negb (existsb fst cs) | Some _ => true end
  | CKeyPem we km ro ck ok lk sv cr =>
      let '(m_ok, m_lookup, m_saved) := keypem_outcome km ro ck we in
      Bool.eqb m_ok ok && Bool.eqb m_lookup (negb (Nat.eqb lk 0)) &&
      Bool.eqb (m_saved || (km && ro)) sv
  end.

Definition spec_ok (c : case) : bool :=
  match c with
  | CHist evs f => spec_hist evs f
  | CUrl u obs => url_spec u obs
  | CContact u cs => contact_spec cs
  | CKeyPem _ _ _ _ _ _ _ cr => Nat.eqb cr 0     (* a configured key never registers an account *)
  end.

Definition check_line (l : list Z) : Z :=
  match decode get_case l with
  | Some c => code (model_agrees c) (spec_ok c)
  | None => code_decode_error
  end.

(** diagnostics: for histories, the index of the first event where the model disagrees (or
    the number of events if none), then the model's final (created, reg, key) of CAs 0 and 1
    and lock state; for URL cases the model's verdict *)
Fixpoint first_bad (s : state) (evs : list event) (i : nat) : nat :=
  match evs with
  | [] => i
  | e :: r =>
      let ok := match e with
                | EOp t f k kc v =>
                    match expected s t f with Some x => triple_eqb x (k, kc, v) | None => false end
                | _ => true
                end in
      if ok then match step s (label_of e) with Some s' => first_bad s' r (S i) | None => i end
      else i
  end.

Definition explain_line (l : list Z) : list Z :=
  match decode get_case l with
  | Some (CHist evs f) =>
      let i := first_bad init evs 0 in
      let st := match replay init (firstn i evs) with Some (s, _) => s | None => init end in
      let exp := match nth_error evs i with
                 | Some (EOp t fl _ _ _) =>
                     match expected st t fl with
                     | Some (k, c, v) => [Z.of_nat k; Z.of_nat c; Z.of_nat v]
                     | None => [(-1)%Z]
                     end
                 | _ => []
                 end in
      (Z.of_nat i :: Z.of_nat (length evs) :: exp) ++
      match replay init evs with
      | Some (s, b) =>
          [(if b then 1 else 0)%Z;
           Z.of_nat (created s 0); Z.of_nat (oacct (s_reg (slots s 0))); Z.of_nat (oacct (s_key (slots s 0)));
           Z.of_nat (created s 1); Z.of_nat (oacct (s_reg (slots s 1))); Z.of_nat (oacct (s_key (slots s 1)));
           (match lock s with None => 0 | Some t => Z.of_nat (S t) end)%Z]
      | None => [(-2)%Z]
      end
  | Some (CUrl u _) | Some (CContact u _) =>
      match url_model u with Some d => 1%Z :: put_str d | None => [0%Z] end
  | Some (CKeyPem we km ro ck _ _ _ _) =>
      let '(a, b, c) := keypem_outcome km ro ck we in
      [(if a then 1 else 0)%Z; (if b then 1 else 0)%Z; (if c then 1 else 0)%Z]
  | None => []
  end.
