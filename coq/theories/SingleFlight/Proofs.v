(** Invariants of the single-flight LTS (property C13). *)
From Coq Require Import List NArith ZArith Bool Lia PeanoNat.
From CM Require Import Gen.Consts SingleFlight.Model.
Import ListNotations.
Open Scope Z_scope.

Ltac inv H := inversion H; subst; clear H.

(** * 1. What a goroutine's step does to the wait maps: seven shapes *)

Definition same_maps (s s' : state) : Prop :=
  lmap s' = lmap s /\ omap s' = omap s /\ closed s' = closed s /\ nextc s' = nextc s.

Definition waiting (p : pc) : bool := match waits_on p with Some _ => true | None => false end.

(** the part of a goroutine the invariants talk about stays the same / changes as stated *)
Record keeps (th th' : thread) : Prop := Keeps {
  k_name : t_name th' = t_name th;
  k_fin : finished (t_pc th') = true -> t_ld th' = None
}.

Inductive vstep (s : state) (t : tid) (th : thread) (s' : state) : Prop :=
| VPlain th' :          (* no map touched, not waiting afterwards *)
    same_maps s s' -> thr s' = upd (thr s) t (Some th') -> keeps th th' ->
    t_ld th' = t_ld th -> owns_o (t_pc th') = owns_o (t_pc th) -> waits_on (t_pc th') = None ->
    vstep s t th s'
| VWaitL th' ch :       (* starts waiting on the registered load channel of its name, not its own *)
    same_maps s s' -> thr s' = upd (thr s) t (Some th') -> keeps th th' ->
    t_ld th' = t_ld th -> owns_o (t_pc th) = None -> owns_o (t_pc th') = None ->
    waits_on (t_pc th') = Some ch -> lmap s (t_name th) = Some ch -> t_ld th <> Some ch ->
    vstep s t th s'
| VWaitO th' ch :       (* starts waiting on the registered obtain channel of its name *)
    same_maps s s' -> thr s' = upd (thr s) t (Some th') -> keeps th th' ->
    t_ld th' = t_ld th -> owns_o (t_pc th) = None -> owns_o (t_pc th') = None ->
    waits_on (t_pc th') = Some ch -> omap s (t_name th) = Some ch ->
    vstep s t th s'
| VRegL th' :           (* registers a new load channel *)
    lmap s (t_name th) = None -> t_ld th = None ->
    lmap s' = upd (lmap s) (t_name th) (Some (nextc s)) -> omap s' = omap s -> closed s' = closed s ->
    nextc s' = S (nextc s) -> thr s' = upd (thr s) t (Some th') -> keeps th th' ->
    t_ld th' = Some (nextc s) -> owns_o (t_pc th) = None -> owns_o (t_pc th') = None ->
    waits_on (t_pc th') = None ->
    vstep s t th s'
| VRegO th' (sp : option (tid * thread)) :   (* registers a new obtain channel, for itself or for a spawned goroutine *)
    omap s (t_name th) = None -> owns_o (t_pc th) = None ->
    lmap s' = lmap s -> omap s' = upd (omap s) (t_name th) (Some (nextc s)) -> closed s' = closed s ->
    nextc s' = S (nextc s) -> keeps th th' -> t_ld th' = t_ld th -> waits_on (t_pc th') = None ->
    match sp with
    | None => thr s' = upd (thr s) t (Some th') /\ owns_o (t_pc th') = Some (nextc s)
    | Some (b, tb) =>
        thr s' = upd (upd (thr s) t (Some th')) b (Some tb) /\ b <> t /\ thr s b = None /\
        owns_o (t_pc th') = None /\ t_name tb = t_name th /\ t_ld tb = None /\
        owns_o (t_pc tb) = Some (nextc s) /\ waits_on (t_pc tb) = None /\ finished (t_pc tb) = false
    end ->
    vstep s t th s'
| VRelO th' ch :        (* close + delete of its obtain channel, one critical section *)
    owns_o (t_pc th) = Some ch ->
    lmap s' = lmap s -> omap s' = upd (omap s) (t_name th) None -> closed s' = upd (closed s) ch true ->
    nextc s' = nextc s -> thr s' = upd (thr s) t (Some th') -> keeps th th' ->
    t_ld th' = t_ld th -> owns_o (t_pc th') = None -> waits_on (t_pc th') = None ->
    vstep s t th s'
| VRelL th' ch :        (* close + delete of its load channel (the defer) *)
    t_ld th = Some ch ->
    lmap s' = upd (lmap s) (t_name th) None -> omap s' = omap s -> closed s' = upd (closed s) ch true ->
    nextc s' = nextc s -> thr s' = upd (thr s) t (Some th') -> keeps th th' ->
    t_ld th' = None -> owns_o (t_pc th) = None -> owns_o (t_pc th') = None -> waits_on (t_pc th') = None ->
    vstep s t th s'.

Lemma same_maps_refl s : same_maps s s. Proof. repeat split. Qed.

Lemma guard_some b o s' : guard b o = Some s' -> b = true /\ o = Some s'.
Proof. destruct b; cbn; [auto|discriminate]. Qed.

(* side conditions of the shapes: all by computation once the current pc is known *)
Ltac sc P := first
  [ reflexivity
  | solve [repeat split]
  | solve [cbn; rewrite ?P; reflexivity]
  | solve [split; [reflexivity | cbn; intros; first [discriminate | assumption | reflexivity]]]
  | solve [cbn; rewrite ?P; cbn; congruence] ].
Ltac vplain P th' := apply (VPlain _ _ _ _ th'); [sc P|sc P|sc P|sc P|sc P|sc P].

(** every enabled step of a goroutine has one of the seven shapes (given that the load channel
    it holds is the registered one, which is part of the invariant) *)
Lemma thread_step_vstep s t th a s' :
  (forall ch, t_ld th = Some ch -> lmap s (t_name th) = Some ch) ->
  thread_step s t th a = Some s' -> vstep s t th s'.
Proof.
  intros Hld H. unfold thread_step in H.
  destruct (t_pc th) eqn:P; destruct a; try discriminate.
  - (* PStart *)
    destruct (lookup (cache s (t_name th))) as [c|].
    + destruct load; inv H.
      * vplain P (set_ctx (set_pc th (PMaint c)) (CtxHit c)).
      * vplain P (set_pc th (PRet (RCert c))).
    + inv H. vplain P (set_pc th (PLoadReg load)).
  - (* PLoadReg *)
    destruct (lmap s (t_name th)) as [ch|] eqn:L.
    + destruct (match t_ld th with Some own => Nat.eqb own ch | None => false end) eqn:Own; inv H.
      * vplain P (set_pc th (PGate1 load)).
      * apply (VWaitL _ _ _ _ (set_pc th (PLoadWait ch (now s))) ch); try sc P.
        intros E. rewrite E, Nat.eqb_refl in Own. discriminate.
    + inv H. destruct (t_ld th) as [own|] eqn:Ld.
      * specialize (Hld own eq_refl). congruence.
      * apply (VRegL _ _ _ _ (set_ld (set_pc th (PGate1 load)) (Some (nextc s)))); try sc P; try assumption.
  - (* PLoadWait, wake *)
    apply guard_some in H as [_ H]. inv H. vplain P (set_waited (set_pc th (PStart false)) (Some ch)).
  - apply guard_some in H as [_ H]. inv H. vplain P (set_pc th (PRet RErr)).
  - inv H. vplain P (set_pc th (PRet RErr)).
  - (* PGate1 *)
    destruct allow; [destruct load|]; inv H.
    + vplain P (set_pc th PLoad).
    + vplain P (set_pc th (PRet RErr)).
    + vplain P (set_pc th (PRet RErr)).
  - (* PLoad *)
    destruct (store s (t_name th)) as [c0|]; inv H.
    + vplain P (set_ctx (set_pc th (PMaint (unrevoked c0))) (CtxLoaded (unrevoked c0))).
    + vplain P (set_pc th PObtReg).
  - (* PMaint *)
    destruct (revoked c); [inv H; vplain P (set_pc th (PRenReg c))|].
    destruct (needs_renew c); [|inv H; vplain P (set_pc th (PRet (RCert c)))].
    destruct (is_none (store s (t_name th))); inv H.
    + vplain P (set_pc th (PGate2 c)).
    + vplain P (set_pc th (PRenReg c)).
  - (* PGate2 *)
    destruct allow; inv H.
    + vplain P (set_pc th PObtReg).
    + vplain P (set_pc th (PRet RErr)).
  - (* PObtReg *)
    destruct (omap s (t_name th)) as [ch|] eqn:O; inv H.
    + apply (VWaitO _ _ _ _ (set_pc th (PObtWait ch (now s))) ch); try sc P; try exact O.
    + apply (VRegO _ _ _ _ (set_pc th (PObtain (nextc s) (now s))) None); try sc P; try exact O.
  - (* PObtWait *)
    apply guard_some in H as [_ H]. inv H. vplain P (set_waited (set_pc th (PStart false)) (Some ch)).
  - apply guard_some in H as [_ H]. inv H. vplain P (set_pc th (PRet RErr)).
  - (* PObtain *)
    apply guard_some in H as [_ H]. inv H. vplain P (set_pc th (PObtLoad ch)).
  - apply guard_some in H as [_ H]. destruct o; inv H.
    + vplain P (set_pc th (PObtLoad ch)).
    + vplain P (set_pc th (PObtUnblock ch RErr)).
    + vplain P (set_pc th (PObtUnblock ch RErr)).
  - inv H. vplain P (set_pc th (PObtUnblock ch RErr)).
  - (* PObtLoad *)
    destruct (store s (t_name th)) as [c0|]; inv H.
    + vplain P (set_pc th (PObtUnblock ch (RCert (unrevoked c0)))).
    + vplain P (set_pc th (PObtUnblock ch RErr)).
  - (* PObtUnblock *)
    inv H. apply (VRelO _ _ _ _ (set_pc th (PRet r)) ch); sc P.
  - (* PRenReg *)
    destruct (omap s (t_name th)) as [ch|] eqn:O.
    + destruct (negb (expired c) && negb (revoked c)); inv H.
      * vplain P (set_pc th (PRet (RCert c))).
      * apply (VWaitO _ _ _ _ (set_pc th (PRenWait ch (now s))) ch); try sc P; try exact O.
    + destruct (expired c).
      * inv H. apply (VRegO _ _ _ _ (set_pc th (PRenGate (nextc s) c false (now s))) None); try sc P; try exact O.
      * apply guard_some in H as [G H]. inv H. apply andb_true_iff in G as [G1 G2].
        apply negb_true_iff in G1. apply Nat.eqb_neq in G1.
        apply (VRegO _ _ _ _ (set_pc th (PRet (RCert c)))
                 (Some (b, Thread (t_name th) (PRenGate (nextc s) c true (now s)) None CtxNone None)));
          try sc P; try exact O.
        repeat split; try sc P; try exact G1. destruct (thr s b); [discriminate|reflexivity].
  - (* PRenWait *)
    apply guard_some in H as [_ H]. inv H. vplain P (set_waited (set_pc th (PStart false)) (Some ch)).
  - apply guard_some in H as [_ H]. inv H. vplain P (set_pc th (PRet RErr)).
  - (* PRenGate *)
    destruct allow; inv H.
    + vplain P (set_pc th (PRenLoad ch c bg started)).
    + vplain P (set_pc th (PRenUnblock ch c RErr bg)).
  - (* PRenLoad *)
    destruct (store s (t_name th)) as [s0|].
    + destruct (needs_renew s0 || revoked c); inv H.
      * vplain P (set_pc th (PRenIssue ch c bg started)).
      * vplain P (set_pc th (PRenReload ch c bg)).
    + destruct (revoked c); inv H.
      * vplain P (set_pc th (PRenUnblock ch c (RCertErr c) bg)).
      * vplain P (set_pc th (PRenUnblock ch c RErr bg)).
  - (* PRenIssue *)
    destruct o; [inv H; vplain P (set_pc th (PRenReload ch c bg))| |];
      (destruct (revoked c); inv H;
       [vplain P (set_pc th (PRenUnblock ch c (RCertErr c) bg))|vplain P (set_pc th (PRenUnblock ch c RErr bg))]).
  - apply guard_some in H as [_ H]. destruct (revoked c); inv H.
    + vplain P (set_pc th (PRenUnblock ch c (RCertErr c) bg)).
    + vplain P (set_pc th (PRenUnblock ch c RErr bg)).
  - (* PRenReload *)
    destruct (store s (t_name th)) as [s0|]; inv H.
    + vplain P (set_pc th (PRenUnblock ch c (RCert (unrevoked s0)) bg)).
    + vplain P (set_pc th (PRenUnblock ch c RErr bg)).
  - (* PRenUnblock *)
    inv H. apply (VRelO _ _ _ _ (set_pc th (if bg && is_none (t_ld th) then PExit else PRet r)) ch); try sc P.
    + split; [reflexivity|]. cbn. destruct bg; cbn; [|discriminate].
      destruct (t_ld th); cbn; [discriminate|reflexivity].
    + cbn. destruct (bg && is_none (t_ld th)); reflexivity.
    + cbn. destruct (bg && is_none (t_ld th)); reflexivity.
  - (* PRet *)
    destruct (t_ld th) as [ch|] eqn:Ld; inv H.
    + apply (VRelL _ _ _ _ (set_ld (set_pc th (PDone (final_res (t_ctx th) r))) None) ch); try sc P; try exact Ld.
    + apply (VPlain _ _ _ _ (set_pc th (PDone (final_res (t_ctx th) r)))); try sc P.
Qed.

(** * 2. The abstract system the invariants are about *)

(** what the invariants need to know of a goroutine *)
Record info := Info {
  i_name : name; i_ld : option chan; i_own : option chan; i_wait : option chan; i_fin : bool }.

Definition info_of (th : thread) : info :=
  Info (t_name th) (t_ld th) (owns_o (t_pc th)) (waits_on (t_pc th)) (finished (t_pc th)).

Record astate := AState {
  a_l : name -> option chan; a_o : name -> option chan; a_c : chan -> bool; a_nx : chan;
  a_tb : tid -> option info }.

Definition abs (s : state) : astate :=
  AState (lmap s) (omap s) (closed s) (nextc s) (fun t => option_map info_of (thr s t)).

Lemma upd_same {A} (f : nat -> A) k v : upd f k v k = v.
Proof. unfold upd. rewrite Nat.eqb_refl. reflexivity. Qed.
Lemma upd_other {A} (f : nat -> A) k v x : x <> k -> upd f k v x = f x.
Proof. unfold upd. intros H. apply Nat.eqb_neq in H. rewrite H. reflexivity. Qed.

Record AInv (a : astate) : Prop := {
  ai_l_own : forall n ch, a_l a n = Some ch ->
    exists t i, a_tb a t = Some i /\ i_name i = n /\ i_ld i = Some ch;
  ai_l_reg : forall t i ch, a_tb a t = Some i -> i_ld i = Some ch -> a_l a (i_name i) = Some ch;
  ai_o_own : forall n ch, a_o a n = Some ch ->
    exists t i, a_tb a t = Some i /\ i_name i = n /\ i_own i = Some ch;
  ai_o_reg : forall t i ch, a_tb a t = Some i -> i_own i = Some ch -> a_o a (i_name i) = Some ch;
  ai_l_uniq : forall t1 t2 i1 i2, a_tb a t1 = Some i1 -> a_tb a t2 = Some i2 ->
    i_name i1 = i_name i2 -> i_ld i1 <> None -> i_ld i2 <> None -> t1 = t2;
  ai_o_uniq : forall t1 t2 i1 i2, a_tb a t1 = Some i1 -> a_tb a t2 = Some i2 ->
    i_name i1 = i_name i2 -> i_own i1 <> None -> i_own i2 <> None -> t1 = t2;
  ai_l_fresh : forall n ch, a_l a n = Some ch -> (ch < a_nx a)%nat /\ a_c a ch = false;
  ai_o_fresh : forall n ch, a_o a n = Some ch -> (ch < a_nx a)%nat /\ a_c a ch = false;
  ai_disj : forall n1 n2 ch, a_l a n1 = Some ch -> a_o a n2 = Some ch -> False;
  ai_l_inj : forall n1 n2 ch, a_l a n1 = Some ch -> a_l a n2 = Some ch -> n1 = n2;
  ai_o_inj : forall n1 n2 ch, a_o a n1 = Some ch -> a_o a n2 = Some ch -> n1 = n2;
  ai_wait : forall t i ch, a_tb a t = Some i -> i_wait i = Some ch ->
    a_c a ch = true \/ a_l a (i_name i) = Some ch \/ a_o a (i_name i) = Some ch;
  ai_noself : forall t i ch, a_tb a t = Some i -> i_ld i = Some ch -> i_wait i <> Some ch;
  ai_own_nowait : forall t i, a_tb a t = Some i -> i_own i <> None -> i_wait i = None;
  ai_fin : forall t i, a_tb a t = Some i -> i_fin i = true -> i_ld i = None /\ i_own i = None /\ i_wait i = None;
  ai_c_fresh : forall ch, (a_nx a <= ch)%nat -> a_c a ch = false;
  ai_finite : exists bound, forall t, (bound <= t)%nat -> a_tb a t = None
}.

(** * 3. The invariant is preserved by every abstract transition *)
(* H : a_tb a' t0 = Some i0, Htb : forall x, a_tb a' x = upd (a_tb a) t (Some i') x *)
Ltac tbs Htb H :=
  rewrite Htb in H;
  match type of H with
  | upd _ ?t _ ?t0 = _ =>
      let Hq := fresh "Hteq" in
      destruct (Nat.eq_dec t0 t) as [Hq|Hq];
      [rewrite Hq in *; clear Hq; rewrite upd_same in H; inversion H; subst; clear H
      |rewrite upd_other in H by assumption]
  end.

Section OneThread.
  Variables (a a' : astate) (t : tid) (i i' : info).
  Hypothesis I : AInv a.
  Hypothesis Ht : a_tb a t = Some i.
  Hypothesis Htb : forall x, a_tb a' x = upd (a_tb a) t (Some i') x.
  Hypothesis Nn : i_name i' = i_name i.

  Lemma ex_thread (P : info -> Prop) :
    (exists t0 i0, a_tb a t0 = Some i0 /\ P i0) -> (P i -> P i') ->
    exists t0 i0, a_tb a' t0 = Some i0 /\ P i0.
  Proof.
    intros (t0 & i0 & A & B) Hi. destruct (Nat.eq_dec t0 t).
    - subst. exists t, i'. rewrite Htb, upd_same. split; [reflexivity|].
      apply Hi. congruence.
    - exists t0, i0. rewrite Htb, upd_other by assumption. auto.
  Qed.

  Lemma finite_upd : exists bound, forall x, (bound <= x)%nat -> a_tb a' x = None.
  Proof.
    destruct (ai_finite a I) as [b Hb]. exists (Nat.max b (S t)). intros x Hx.
    rewrite Htb, upd_other by lia. apply Hb. lia.
  Qed.
End OneThread.


Ltac getI I := pose proof I as [Ilown Ilreg Ioown Ioreg Iluniq Iouniq Ilfresh Iofresh Idisj Ilinj Ioinj Iwait Inoself Iownw Ifin Icfresh Ifinite].

(** maps unchanged; one goroutine changes what it waits on / whether it is finished *)
Lemma inv_same_maps a a' t i i' : AInv a ->
    a_tb a t = Some i -> a_l a' = a_l a -> a_o a' = a_o a -> a_c a' = a_c a -> a_nx a' = a_nx a ->
    (forall x, a_tb a' x = upd (a_tb a) t (Some i') x) ->
    i_name i' = i_name i -> i_ld i' = i_ld i -> i_own i' = i_own i ->
    (forall ch, i_wait i' = Some ch ->
       (a_l a (i_name i) = Some ch \/ a_o a (i_name i) = Some ch) /\ i_ld i <> Some ch /\ i_own i = None) ->
    (i_fin i' = true -> i_ld i' = None /\ i_own i' = None /\ i_wait i' = None) -> AInv a'.
Proof.
  intros I Ht El Eo Ec En Htb Nn Nl No Nw Nf. getI I.
  constructor; rewrite ?El, ?Eo, ?Ec, ?En; auto.
  - intros n ch H. destruct (Ilown n ch H) as (t0 & i0 & A & B & C).
    apply (ex_thread a a' t i i' Ht Htb (fun j => i_name j = n /\ i_ld j = Some ch)); [eauto|].
    intros [? ?]; split; congruence.
  - intros t0 i0 ch H L. tbs Htb H.
    + rewrite Nn. apply (Ilreg t i ch Ht). congruence.
    + eauto.
  - intros n ch H. destruct (Ioown n ch H) as (t0 & i0 & A & B & C).
    apply (ex_thread a a' t i i' Ht Htb (fun j => i_name j = n /\ i_own j = Some ch)); [eauto|].
    intros [? ?]; split; congruence.
  - intros t0 i0 ch H L. tbs Htb H.
    + rewrite Nn. apply (Ioreg t i ch Ht). congruence.
    + eauto.
  - intros t1 t2 i1 i2 H1 H2 E L1 L2. tbs Htb H1; tbs Htb H2; auto.
    + apply (Iluniq t t2 i i2); auto; congruence.
    + apply (Iluniq t1 t i1 i); auto; congruence.
    + eauto.
  - intros t1 t2 i1 i2 H1 H2 E L1 L2. tbs Htb H1; tbs Htb H2; auto.
    + apply (Iouniq t t2 i i2); auto; congruence.
    + apply (Iouniq t1 t i1 i); auto; congruence.
    + eauto.
  - intros t0 i0 ch H W. tbs Htb H; [|eauto].
    destruct (Nw ch ltac:(first [exact W|reflexivity|congruence])) as ([L|O] & _ & _); rewrite Nn; auto.
  - intros t0 i0 ch H L. tbs Htb H; [|eauto].
    intros W. destruct (Nw ch ltac:(first [exact W|reflexivity|congruence])) as (_ & X & _). congruence.
  - intros t0 i0 H O. tbs Htb H; [|eauto].
    destruct (i_wait i0) as [ch|] eqn:W; [|reflexivity].
    destruct (Nw ch ltac:(first [exact W|reflexivity|congruence])) as (_ & _ & X). congruence.
  - intros t0 i0 H F. tbs Htb H; [auto|eauto].
  - eapply finite_upd; eauto.
Qed.

Lemma inv_regl a a' t i i' : AInv a ->
    a_tb a t = Some i -> a_l a (i_name i) = None -> i_ld i = None ->
    a_l a' = upd (a_l a) (i_name i) (Some (a_nx a)) -> a_o a' = a_o a -> a_c a' = a_c a ->
    a_nx a' = S (a_nx a) -> (forall x, a_tb a' x = upd (a_tb a) t (Some i') x) ->
    i_name i' = i_name i -> i_ld i' = Some (a_nx a) -> i_own i = None -> i_own i' = None ->
    i_wait i' = None -> i_fin i' = false -> AInv a'.
Proof.
  intros I Ht Ln Ld El Eo Ec En Htb Nn Nl Oi No Nw Nf. getI I.
  constructor; rewrite ?El, ?Eo, ?Ec, ?En.
  - intros n ch H. destruct (Nat.eq_dec n (i_name i)) as [->|Ne].
    + rewrite upd_same in H. inv H. exists t, i'. rewrite Htb, upd_same. auto.
    + rewrite upd_other in H by assumption. destruct (Ilown n ch H) as (t0 & i0 & A & B & C).
      exists t0, i0. rewrite Htb, upd_other; [auto|]. intros ->. congruence.
  - intros t0 i0 ch H L. tbs Htb H.
    + rewrite Nn, upd_same. congruence.
    + pose proof (Ilreg t0 i0 ch H L) as X. rewrite upd_other; [exact X|]. intros E. congruence.
  - intros n ch H. destruct (Ioown n ch H) as (t0 & i0 & A & B & C).
    exists t0, i0. rewrite Htb, upd_other; [auto|]. intros ->. congruence.
  - intros t0 i0 ch H L. tbs Htb H; [congruence|eauto].
  - intros t1 t2 i1 i2 H1 H2 E L1 L2. tbs Htb H1; tbs Htb H2; auto.
    + exfalso. destruct (i_ld i2) as [c2|] eqn:X; [|congruence].
      pose proof (Ilreg t2 i2 c2 H2 X). congruence.
    + exfalso. destruct (i_ld i1) as [c1|] eqn:X; [|congruence].
      pose proof (Ilreg t1 i1 c1 H1 X). congruence.
    + eauto.
  - intros t1 t2 i1 i2 H1 H2 E L1 L2. tbs Htb H1; tbs Htb H2; auto; try congruence. eauto.
  - intros n ch H. destruct (Nat.eq_dec n (i_name i)) as [->|Ne].
    + rewrite upd_same in H. inv H. split; [lia|]. apply Icfresh. lia.
    + rewrite upd_other in H by assumption. destruct (Ilfresh n ch H). split; [lia|assumption].
  - intros n ch H. destruct (Iofresh n ch H). split; [lia|assumption].
  - intros n1 n2 ch H1 H2. destruct (Nat.eq_dec n1 (i_name i)) as [->|Ne].
    + rewrite upd_same in H1. inv H1. destruct (Iofresh n2 _ H2). lia.
    + rewrite upd_other in H1 by assumption. eauto.
  - intros n1 n2 ch H1 H2.
    destruct (Nat.eq_dec n1 (i_name i)) as [->|Ne1]; destruct (Nat.eq_dec n2 (i_name i)) as [->|Ne2]; auto.
    + rewrite upd_same in H1. rewrite upd_other in H2 by assumption. inv H1.
      destruct (Ilfresh n2 _ H2). lia.
    + rewrite upd_same in H2. rewrite upd_other in H1 by assumption. inv H2.
      destruct (Ilfresh n1 _ H1). lia.
    + rewrite upd_other in H1, H2 by assumption. eauto.
  - exact Ioinj.
  - intros t0 i0 ch H W. tbs Htb H; [congruence|].
    destruct (Iwait t0 i0 ch H W) as [X|[X|X]]; auto.
    right; left. rewrite upd_other; [exact X|]. intros E. congruence.
  - intros t0 i0 ch H L. tbs Htb H; [congruence|eauto].
  - intros t0 i0 H O. tbs Htb H; [congruence|eauto].
  - intros t0 i0 H F. tbs Htb H; [congruence|eauto].
  - intros ch H. apply Icfresh. lia.
  - eapply finite_upd; eauto.
Qed.

Lemma inv_rego a a' t i i' : AInv a ->
    a_tb a t = Some i -> a_o a (i_name i) = None -> i_own i = None ->
    a_l a' = a_l a -> a_o a' = upd (a_o a) (i_name i) (Some (a_nx a)) -> a_c a' = a_c a ->
    a_nx a' = S (a_nx a) -> (forall x, a_tb a' x = upd (a_tb a) t (Some i') x) ->
    i_name i' = i_name i -> i_ld i' = i_ld i -> i_own i' = Some (a_nx a) ->
    i_wait i' = None -> i_fin i' = false -> AInv a'.
Proof.
  intros I Ht On Oi El Eo Ec En Htb Nn Nl No Nw Nf. getI I.
  constructor; rewrite ?El, ?Eo, ?Ec, ?En.
  - intros n ch H. destruct (Ilown n ch H) as (t0 & i0 & A & B & C).
    apply (ex_thread a a' t i i' Ht Htb (fun j => i_name j = n /\ i_ld j = Some ch)); [eauto|].
    intros [? ?]; split; congruence.
  - intros t0 i0 ch H L. tbs Htb H.
    + rewrite Nn. apply (Ilreg t i ch Ht). congruence.
    + eauto.
  - intros n ch H. destruct (Nat.eq_dec n (i_name i)) as [->|Ne].
    + rewrite upd_same in H. inv H. exists t, i'. rewrite Htb, upd_same. auto.
    + rewrite upd_other in H by assumption. destruct (Ioown n ch H) as (t0 & i0 & A & B & C).
      exists t0, i0. rewrite Htb, upd_other; [auto|]. intros ->. congruence.
  - intros t0 i0 ch H L. tbs Htb H.
    + rewrite Nn, upd_same. congruence.
    + pose proof (Ioreg t0 i0 ch H L) as X. rewrite upd_other; [exact X|]. intros E. congruence.
  - intros t1 t2 i1 i2 H1 H2 E L1 L2. tbs Htb H1; tbs Htb H2; auto.
    + apply (Iluniq t t2 i i2); auto; congruence.
    + apply (Iluniq t1 t i1 i); auto; congruence.
    + eauto.
  - intros t1 t2 i1 i2 H1 H2 E L1 L2. tbs Htb H1; tbs Htb H2; auto.
    + exfalso. destruct (i_own i2) as [c2|] eqn:X; [|congruence].
      pose proof (Ioreg t2 i2 c2 H2 X). congruence.
    + exfalso. destruct (i_own i1) as [c1|] eqn:X; [|congruence].
      pose proof (Ioreg t1 i1 c1 H1 X). congruence.
    + eauto.
  - intros n ch H. destruct (Ilfresh n ch H). split; [lia|assumption].
  - intros n ch H. destruct (Nat.eq_dec n (i_name i)) as [->|Ne].
    + rewrite upd_same in H. inv H. split; [lia|]. apply Icfresh. lia.
    + rewrite upd_other in H by assumption. destruct (Iofresh n ch H). split; [lia|assumption].
  - intros n1 n2 ch H1 H2. destruct (Nat.eq_dec n2 (i_name i)) as [->|Ne].
    + rewrite upd_same in H2. inv H2. destruct (Ilfresh n1 _ H1). lia.
    + rewrite upd_other in H2 by assumption. eauto.
  - exact Ilinj.
  - intros n1 n2 ch H1 H2.
    destruct (Nat.eq_dec n1 (i_name i)) as [->|Ne1]; destruct (Nat.eq_dec n2 (i_name i)) as [->|Ne2]; auto.
    + rewrite upd_same in H1. rewrite upd_other in H2 by assumption. inv H1.
      destruct (Iofresh n2 _ H2). lia.
    + rewrite upd_same in H2. rewrite upd_other in H1 by assumption. inv H2.
      destruct (Iofresh n1 _ H1). lia.
    + rewrite upd_other in H1, H2 by assumption. eauto.
  - intros t0 i0 ch H W. tbs Htb H; [congruence|].
    destruct (Iwait t0 i0 ch H W) as [X|[X|X]]; auto.
    right; right. rewrite upd_other; [exact X|]. intros E. congruence.
  - intros t0 i0 ch H L. tbs Htb H; [congruence|eauto].
  - intros t0 i0 H O. tbs Htb H; [assumption|eauto].
  - intros t0 i0 H F. tbs Htb H; [congruence|eauto].
  - intros ch H. apply Icfresh. lia.
  - eapply finite_upd; eauto.
Qed.

(** a new goroutine (handshake arriving, or background renewal about to be given a channel) *)
Lemma inv_arrive a a' t i' : AInv a ->
    a_tb a t = None -> a_l a' = a_l a -> a_o a' = a_o a -> a_c a' = a_c a -> a_nx a' = a_nx a ->
    (forall x, a_tb a' x = upd (a_tb a) t (Some i') x) ->
    i_ld i' = None -> i_own i' = None -> i_wait i' = None -> AInv a'.
Proof.
  intros I Ht El Eo Ec En Htb Nl No Nw. getI I.
  assert (Old : forall t0 i0, a_tb a t0 = Some i0 -> a_tb a' t0 = Some i0).
  { intros t0 i0 H. rewrite Htb, upd_other; [exact H|]. intros ->. congruence. }
  constructor; rewrite ?El, ?Eo, ?Ec, ?En; auto.
  - intros n ch H. destruct (Ilown n ch H) as (t0 & i0 & A & B & C). exists t0, i0. auto.
  - intros t0 i0 ch H L. tbs Htb H; [congruence|eauto].
  - intros n ch H. destruct (Ioown n ch H) as (t0 & i0 & A & B & C). exists t0, i0. auto.
  - intros t0 i0 ch H L. tbs Htb H; [congruence|eauto].
  - intros t1 t2 i1 i2 H1 H2 E L1 L2. tbs Htb H1; tbs Htb H2; auto; try congruence. eauto.
  - intros t1 t2 i1 i2 H1 H2 E L1 L2. tbs Htb H1; tbs Htb H2; auto; try congruence. eauto.
  - intros t0 i0 ch H W. tbs Htb H; [congruence|eauto].
  - intros t0 i0 ch H L. tbs Htb H; [congruence|eauto].
  - intros t0 i0 H O. tbs Htb H; [congruence|eauto].
  - intros t0 i0 H F. tbs Htb H; [auto|eauto].
  - eapply finite_upd; eauto.
Qed.

Lemma inv_relo a a' t i i' ch : AInv a ->
    a_tb a t = Some i -> i_own i = Some ch ->
    a_l a' = a_l a -> a_o a' = upd (a_o a) (i_name i) None -> a_c a' = upd (a_c a) ch true ->
    a_nx a' = a_nx a -> (forall x, a_tb a' x = upd (a_tb a) t (Some i') x) ->
    i_name i' = i_name i -> i_ld i' = i_ld i -> i_own i' = None -> i_wait i' = None ->
    (i_fin i' = true -> i_ld i' = None) -> AInv a'.
Proof.
  intros I Ht Oi El Eo Ec En Htb Nn Nl No Nw Nf. getI I.
  pose proof (Ioreg t i ch Ht Oi) as Reg.
  destruct (Iofresh _ _ Reg) as [Lt Cf].
  constructor; rewrite ?El, ?Eo, ?Ec, ?En.
  - intros n c2 H. destruct (Ilown n c2 H) as (t0 & i0 & A & B & C).
    apply (ex_thread a a' t i i' Ht Htb (fun j => i_name j = n /\ i_ld j = Some c2)); [eauto|].
    intros [? ?]; split; congruence.
  - intros t0 i0 c2 H L. tbs Htb H.
    + rewrite Nn. apply (Ilreg t i c2 Ht). congruence.
    + eauto.
  - intros n c2 H. destruct (Nat.eq_dec n (i_name i)) as [->|Ne].
    + rewrite upd_same in H. discriminate.
    + rewrite upd_other in H by assumption. destruct (Ioown n c2 H) as (t0 & i0 & A & B & C).
      exists t0, i0. rewrite Htb, upd_other; [auto|]. intros ->. congruence.
  - intros t0 i0 c2 H L. tbs Htb H; [congruence|].
    pose proof (Ioreg t0 i0 c2 H L) as X. rewrite upd_other; [exact X|].
    intros E. match goal with N : t0 <> t |- _ => apply N end. apply (Iouniq t0 t i0 i); auto; congruence.
  - intros t1 t2 i1 i2 H1 H2 E L1 L2. tbs Htb H1; tbs Htb H2; auto.
    + apply (Iluniq t t2 i i2); auto; congruence.
    + apply (Iluniq t1 t i1 i); auto; congruence.
    + eauto.
  - intros t1 t2 i1 i2 H1 H2 E L1 L2. tbs Htb H1; tbs Htb H2; auto; try congruence. eauto.
  - intros n c2 H. destruct (Ilfresh n c2 H) as [A B]. split; [exact A|].
    rewrite upd_other; [exact B|]. intros ->. exact (Idisj _ _ _ H Reg).
  - intros n c2 H. destruct (Nat.eq_dec n (i_name i)) as [->|Ne].
    + rewrite upd_same in H. discriminate.
    + rewrite upd_other in H by assumption. destruct (Iofresh n c2 H) as [A B]. split; [exact A|].
      rewrite upd_other; [exact B|]. intros ->. apply Ne. exact (Ioinj _ _ _ H Reg).
  - intros n1 n2 c2 H1 H2. destruct (Nat.eq_dec n2 (i_name i)) as [->|Ne].
    + rewrite upd_same in H2. discriminate.
    + rewrite upd_other in H2 by assumption. eauto.
  - exact Ilinj.
  - intros n1 n2 c2 H1 H2.
    destruct (Nat.eq_dec n1 (i_name i)) as [->|Ne1]; [rewrite upd_same in H1; discriminate|].
    destruct (Nat.eq_dec n2 (i_name i)) as [->|Ne2]; [rewrite upd_same in H2; discriminate|].
    rewrite upd_other in H1, H2 by assumption. eauto.
  - intros t0 i0 c2 H W. tbs Htb H; [congruence|].
    destruct (Iwait t0 i0 c2 H W) as [X|[X|X]].
    + left. unfold upd. destruct (Nat.eqb c2 ch); [reflexivity|exact X].
    + right; left; exact X.
    + destruct (Nat.eq_dec (i_name i0) (i_name i)) as [En'|Ne].
      * left. rewrite En' in X. assert (c2 = ch) by congruence. subst. apply upd_same.
      * right; right. rewrite upd_other by assumption. exact X.
  - intros t0 i0 c2 H L. tbs Htb H; [congruence|eauto].
  - intros t0 i0 H O. tbs Htb H; [congruence|eauto].
  - intros t0 i0 H F. tbs Htb H; [auto|eauto].
  - intros c2 H. rewrite upd_other by lia. apply Icfresh. exact H.
  - eapply finite_upd; eauto.
Qed.

Lemma inv_rell a a' t i i' ch : AInv a ->
    a_tb a t = Some i -> i_ld i = Some ch ->
    a_l a' = upd (a_l a) (i_name i) None -> a_o a' = a_o a -> a_c a' = upd (a_c a) ch true ->
    a_nx a' = a_nx a -> (forall x, a_tb a' x = upd (a_tb a) t (Some i') x) ->
    i_name i' = i_name i -> i_ld i' = None -> i_own i = None -> i_own i' = None -> i_wait i' = None ->
    AInv a'.
Proof.
  intros I Ht Li El Eo Ec En Htb Nn Nl Oi No Nw. getI I.
  pose proof (Ilreg t i ch Ht Li) as Reg.
  destruct (Ilfresh _ _ Reg) as [Lt Cf].
  constructor; rewrite ?El, ?Eo, ?Ec, ?En.
  - intros n c2 H. destruct (Nat.eq_dec n (i_name i)) as [->|Ne].
    + rewrite upd_same in H. discriminate.
    + rewrite upd_other in H by assumption. destruct (Ilown n c2 H) as (t0 & i0 & A & B & C).
      exists t0, i0. rewrite Htb, upd_other; [auto|]. intros ->. congruence.
  - intros t0 i0 c2 H L. tbs Htb H; [congruence|].
    pose proof (Ilreg t0 i0 c2 H L) as X. rewrite upd_other; [exact X|].
    intros E. match goal with N : t0 <> t |- _ => apply N end. apply (Iluniq t0 t i0 i); auto; congruence.
  - intros n c2 H. destruct (Ioown n c2 H) as (t0 & i0 & A & B & C).
    apply (ex_thread a a' t i i' Ht Htb (fun j => i_name j = n /\ i_own j = Some c2)); [eauto|].
    intros [? ?]; split; congruence.
  - intros t0 i0 c2 H L. tbs Htb H; [congruence|eauto].
  - intros t1 t2 i1 i2 H1 H2 E L1 L2. tbs Htb H1; tbs Htb H2; auto; try congruence. eauto.
  - intros t1 t2 i1 i2 H1 H2 E L1 L2. tbs Htb H1; tbs Htb H2; auto; try congruence. eauto.
  - intros n c2 H. destruct (Nat.eq_dec n (i_name i)) as [->|Ne].
    + rewrite upd_same in H. discriminate.
    + rewrite upd_other in H by assumption. destruct (Ilfresh n c2 H) as [A B]. split; [exact A|].
      rewrite upd_other; [exact B|]. intros ->. apply Ne. exact (Ilinj _ _ _ H Reg).
  - intros n c2 H. destruct (Iofresh n c2 H) as [A B]. split; [exact A|].
    rewrite upd_other; [exact B|]. intros ->. exact (Idisj _ _ _ Reg H).
  - intros n1 n2 c2 H1 H2. destruct (Nat.eq_dec n1 (i_name i)) as [->|Ne].
    + rewrite upd_same in H1. discriminate.
    + rewrite upd_other in H1 by assumption. eauto.
  - intros n1 n2 c2 H1 H2.
    destruct (Nat.eq_dec n1 (i_name i)) as [->|Ne1]; [rewrite upd_same in H1; discriminate|].
    destruct (Nat.eq_dec n2 (i_name i)) as [->|Ne2]; [rewrite upd_same in H2; discriminate|].
    rewrite upd_other in H1, H2 by assumption. eauto.
  - exact Ioinj.
  - intros t0 i0 c2 H W. tbs Htb H; [congruence|].
    destruct (Iwait t0 i0 c2 H W) as [X|[X|X]].
    + left. unfold upd. destruct (Nat.eqb c2 ch); [reflexivity|exact X].
    + destruct (Nat.eq_dec (i_name i0) (i_name i)) as [En'|Ne].
      * left. rewrite En' in X. assert (c2 = ch) by congruence. subst. apply upd_same.
      * right; left. rewrite upd_other by assumption. exact X.
    + right; right; exact X.
  - intros t0 i0 c2 H L. tbs Htb H; [congruence|eauto].
  - intros t0 i0 H O. tbs Htb H; [congruence|eauto].
  - intros t0 i0 H F. tbs Htb H; [auto|eauto].
  - intros c2 H. rewrite upd_other by lia. apply Icfresh. exact H.
  - eapply finite_upd; eauto.
Qed.

(** * 4. Every step of the LTS preserves the invariant *)

Lemma tb_upd s t th' x :
  option_map info_of (upd (thr s) t (Some th') x) = upd (fun y => option_map info_of (thr s y)) t (Some (info_of th')) x.
Proof. unfold upd. destruct (Nat.eqb x t); reflexivity. Qed.

Lemma abs_tb s t th : thr s t = Some th -> a_tb (abs s) t = Some (info_of th).
Proof. cbn. intros ->. reflexivity. Qed.

Lemma thread_step_inv s t th a s' : AInv (abs s) -> thr s t = Some th ->
  thread_step s t th a = Some s' -> AInv (abs s').
Proof.
  intros I Ht H.
  assert (Hld : forall ch, t_ld th = Some ch -> lmap s (t_name th) = Some ch).
  { intros ch L. exact (ai_l_reg _ I t (info_of th) ch (abs_tb _ _ _ Ht) L). }
  pose proof (abs_tb _ _ _ Ht) as HT.
  destruct (thread_step_vstep _ _ _ _ _ Hld H) as
    [th' SM Etb [Kn Kf] Eld Eown Ew
    |th' ch SM Etb [Kn Kf] Eld Own0 Own1 Ew Lm Nself
    |th' ch SM Etb [Kn Kf] Eld Own0 Own1 Ew Om
    |th' Ln Ld0 El Eo Ec En Etb [Kn Kf] Eld Own0 Own1 Ew
    |th' sp On Own0 El Eo Ec En [Kn Kf] Eld Ew Hsp
    |th' ch Own0 El Eo Ec En Etb [Kn Kf] Eld Own1 Ew
    |th' ch Ld0 El Eo Ec En Etb [Kn Kf] Eld Own0 Own1 Ew].
  - (* plain *)
    destruct SM as (El & Eo & Ec & En).
    apply (inv_same_maps (abs s) (abs s') t (info_of th) (info_of th') I HT); cbn; try congruence.
    + intros x. rewrite Etb. apply tb_upd.
    + intros F. split; [auto|]. split; [|exact Ew]. destruct (t_pc th'); cbn in F; try discriminate; reflexivity.
  - (* wait on a load channel *)
    destruct SM as (El & Eo & Ec & En).
    apply (inv_same_maps (abs s) (abs s') t (info_of th) (info_of th') I HT); cbn; try congruence.
    + intros x. rewrite Etb. apply tb_upd.
    + intros c W. assert (c = ch) by congruence. subst c. auto.
    + intros F. destruct (t_pc th'); cbn in F, Ew; try discriminate.
  - (* wait on an obtain channel *)
    destruct SM as (El & Eo & Ec & En).
    apply (inv_same_maps (abs s) (abs s') t (info_of th) (info_of th') I HT); cbn; try congruence.
    + intros x. rewrite Etb. apply tb_upd.
    + intros c W. assert (c = ch) by congruence. subst c. split; [auto|]. split; [|assumption].
      intros L. pose proof (Hld _ L) as X.
      exact (ai_disj _ I _ _ _ X Om).
    + intros F. destruct (t_pc th'); cbn in F, Ew; try discriminate.
  - (* register load *)
    apply (inv_regl (abs s) (abs s') t (info_of th) (info_of th') I HT); cbn; try congruence.
    + intros x. rewrite Etb. apply tb_upd.
    + destruct (finished (t_pc th')) eqn:F; [|reflexivity]. specialize (Kf eq_refl). congruence.
  - (* register obtain *)
    destruct sp as [[b tb]|].
    + destruct Hsp as (Etb & Nb & Tb & O' & Nn & Lb & Ob & Wb & Fb).
      (* three stages: the parent's pc changes; the new goroutine appears; it registers *)
      set (a1 := AState (lmap s) (omap s) (closed s) (nextc s)
                        (upd (fun y => option_map info_of (thr s y)) t (Some (info_of th')))).
      assert (I1 : AInv a1).
      { apply (inv_same_maps (abs s) a1 t (info_of th) (info_of th') I HT); cbn; try congruence; try reflexivity.
        intros F. split; [auto|]. split; congruence. }
      set (ib0 := Info (t_name tb) None None None false).
      set (a2 := AState (lmap s) (omap s) (closed s) (nextc s) (upd (a_tb a1) b (Some ib0))).
      assert (I2 : AInv a2).
      { apply (inv_arrive a1 a2 b ib0 I1); try reflexivity.
        cbn. rewrite upd_other by exact Nb. rewrite Tb. reflexivity. }
      apply (inv_rego a2 (abs s') b ib0 (info_of tb) I2); cbn; try congruence.
      * apply upd_same.
      * intros x. rewrite Etb. unfold upd.
        destruct (Nat.eqb x b); [reflexivity|]. destruct (Nat.eqb x t); reflexivity.
    + destruct Hsp as [Etb O'].
      apply (inv_rego (abs s) (abs s') t (info_of th) (info_of th') I HT); cbn; try congruence.
      * intros x. rewrite Etb. apply tb_upd.
      * destruct (t_pc th'); cbn in O' |- *; try discriminate; reflexivity.
  - (* release obtain *)
    apply (inv_relo (abs s) (abs s') t (info_of th) (info_of th') ch I HT); cbn; try congruence.
    + intros x. rewrite Etb. apply tb_upd.
    + exact Kf.
  - (* release load *)
    apply (inv_rell (abs s) (abs s') t (info_of th) (info_of th') ch I HT); cbn; try congruence.
    intros x. rewrite Etb. apply tb_upd.
Qed.

Lemma inv_stutter a a' : AInv a ->
  a_l a' = a_l a -> a_o a' = a_o a -> a_c a' = a_c a -> a_nx a' = a_nx a ->
  (forall x, a_tb a' x = a_tb a x) -> AInv a'.
Proof.
  intros I El Eo Ec En Htb. getI I.
  constructor; rewrite ?El, ?Eo, ?Ec, ?En; auto.
  - intros n ch H. destruct (Ilown n ch H) as (t0 & i0 & A & B). exists t0, i0. rewrite Htb. auto.
  - intros t0 i0 ch H. rewrite Htb in H. eauto.
  - intros n ch H. destruct (Ioown n ch H) as (t0 & i0 & A & B). exists t0, i0. rewrite Htb. auto.
  - intros t0 i0 ch H. rewrite Htb in H. eauto.
  - intros t1 t2 i1 i2 H1 H2. rewrite Htb in H1, H2. eauto.
  - intros t1 t2 i1 i2 H1 H2. rewrite Htb in H1, H2. eauto.
  - intros t0 i0 ch H. rewrite Htb in H. eauto.
  - intros t0 i0 ch H. rewrite Htb in H. eauto.
  - intros t0 i0 H. rewrite Htb in H. eauto.
  - intros t0 i0 H. rewrite Htb in H. eauto.
  - destruct Ifinite as [b Hb]. exists b. intros x Hx. rewrite Htb. auto.
Qed.

Lemma step_inv s l s' : AInv (abs s) -> step s l = Some s' -> AInv (abs s').
Proof.
  intros I H. destruct l; cbn [step] in H.
  - destruct (thr s t) as [th|] eqn:Ht; [|discriminate]. eapply thread_step_inv; eauto.
  - apply guard_some in H as [G H]. inv H.
    apply (inv_arrive (abs s) _ t (info_of (Thread n (PStart true) None CtxNone None)) I); try reflexivity.
    + cbn. destruct (thr s t); [discriminate|reflexivity].
    + intros x. cbn. apply tb_upd.
  - apply guard_some in H as [G H]. inv H. apply (inv_stutter (abs s)); auto.
  - inv H. apply (inv_stutter (abs s)); auto.
  - inv H. apply (inv_stutter (abs s)); auto.
  - inv H. apply (inv_stutter (abs s)); auto.
  - inv H. apply (inv_stutter (abs s)); auto.
Qed.

Lemma init_inv c0 s0 f0 : AInv (abs (init c0 s0 f0)).
Proof.
  constructor; cbn; try discriminate; auto.
  exists O. auto.
Qed.

Definition reachable (s : state) : Prop :=
  exists c0 s0 f0 ls, run (init c0 s0 f0) ls = Some s.

Lemma run_inv ls : forall s s', AInv (abs s) -> run s ls = Some s' -> AInv (abs s').
Proof.
  induction ls as [|l ls IH]; intros s s' I H; cbn in H.
  - inv H. exact I.
  - destruct (step s l) as [s1|] eqn:E; [|discriminate].
    eapply IH; [|exact H]. eapply step_inv; eauto.
Qed.

Theorem reachable_inv s : reachable s -> AInv (abs s).
Proof. intros (c0 & s0 & f0 & ls & H). eapply run_inv; [apply init_inv|exact H]. Qed.

(** * 5. The theorems *)

(** at most one goroutine per name is in the worker region of the obtain map / holds the load
    channel *)
Theorem one_obtain_worker_per_name s : reachable s ->
  forall t1 t2 th1 th2, thr s t1 = Some th1 -> thr s t2 = Some th2 -> t_name th1 = t_name th2 ->
  owns_o (t_pc th1) <> None -> owns_o (t_pc th2) <> None -> t1 = t2.
Proof.
  intros R t1 t2 th1 th2 H1 H2 E O1 O2. pose proof (reachable_inv _ R) as I.
  exact (ai_o_uniq _ I t1 t2 (info_of th1) (info_of th2) (abs_tb _ _ _ H1) (abs_tb _ _ _ H2) E O1 O2).
Qed.

Theorem one_load_worker_per_name s : reachable s ->
  forall t1 t2 th1 th2, thr s t1 = Some th1 -> thr s t2 = Some th2 -> t_name th1 = t_name th2 ->
  t_ld th1 <> None -> t_ld th2 <> None -> t1 = t2.
Proof.
  intros R t1 t2 th1 th2 H1 H2 E O1 O2. pose proof (reachable_inv _ R) as I.
  exact (ai_l_uniq _ I t1 t2 (info_of th1) (info_of th2) (abs_tb _ _ _ H1) (abs_tb _ _ _ H2) E O1 O2).
Qed.

(** the issuer is called only from inside the obtain-map worker region *)
Lemma issue_needs_ownership s t th o s' :
  thread_step s t th (AIssue o) = Some s' -> owns_o (t_pc th) <> None.
Proof. unfold thread_step. destruct (t_pc th); try discriminate; cbn; discriminate. Qed.

Theorem one_issuer_call_per_name s : reachable s ->
  forall t1 t2 th1 th2 o1 o2 s1 s2, thr s t1 = Some th1 -> thr s t2 = Some th2 ->
  t_name th1 = t_name th2 ->
  thread_step s t1 th1 (AIssue o1) = Some s1 -> thread_step s t2 th2 (AIssue o2) = Some s2 -> t1 = t2.
Proof.
  intros R t1 t2 th1 th2 o1 o2 s1 s2 H1 H2 E S1 S2.
  eapply one_obtain_worker_per_name; eauto using issue_needs_ownership.
Qed.

(** invariant A.8: a waiting goroutine's channel is closed, or registered for its name with a
    live owner that is another goroutine *)
Theorem chan_inv s : reachable s ->
  forall t th ch, thr s t = Some th -> waits_on (t_pc th) = Some ch ->
  closed s ch = true \/
  exists w thw, w <> t /\ thr s w = Some thw /\ t_name thw = t_name th /\ finished (t_pc thw) = false /\
    ((lmap s (t_name th) = Some ch /\ t_ld thw = Some ch) \/
     (omap s (t_name th) = Some ch /\ owns_o (t_pc thw) = Some ch)).
Proof.
  intros R t th ch Ht W. pose proof (reachable_inv _ R) as I.
  pose proof (abs_tb _ _ _ Ht) as HT.
  destruct (ai_wait _ I t (info_of th) ch HT W) as [C|[L|O]]; [left; exact C| |]; right; cbn in *.
  - destruct (ai_l_own _ I _ _ L) as (w & iw & Hw & Nw & Lw). cbn in Hw.
    destruct (thr s w) as [thw|] eqn:Tw; [|discriminate]. inv Hw. cbn in *.
    exists w, thw. split; [|split; [exact Tw|split; [exact Nw|split; [|left; auto]]]].
    + intros ->. rewrite Ht in Tw. inv Tw.
      exact (ai_noself _ I t (info_of thw) ch HT Lw W).
    + destruct (finished (t_pc thw)) eqn:F; [|reflexivity].
      destruct (ai_fin _ I w (info_of thw) (abs_tb _ _ _ Tw) F) as (X & _). cbn in X. congruence.
  - destruct (ai_o_own _ I _ _ O) as (w & iw & Hw & Nw & Ow). cbn in Hw.
    destruct (thr s w) as [thw|] eqn:Tw; [|discriminate]. inv Hw. cbn in *.
    exists w, thw. split; [|split; [exact Tw|split; [exact Nw|split; [|right; auto]]]].
    + intros ->. rewrite Ht in Tw. inv Tw.
      assert (X : i_wait (info_of thw) = None).
      { apply (ai_own_nowait _ I t (info_of thw) HT). cbn. congruence. }
      cbn in X. congruence.
    + destruct (finished (t_pc thw)) eqn:F; [|reflexivity].
      destruct (ai_fin _ I w (info_of thw) (abs_tb _ _ _ Tw) F) as (_ & X & _). cbn in X. congruence.
Qed.

(** every exit of the worker regions closes and deletes in the same step: when a goroutine
    stops owning a channel, the channel is closed and gone from the map in the resulting state ... *)
Theorem worker_exit_releases s t th a s' ch : thr s t = Some th ->
  (forall c, t_ld th = Some c -> lmap s (t_name th) = Some c) ->
  thread_step s t th a = Some s' ->
  forall th', thr s' t = Some th' ->
  (owns_o (t_pc th) = Some ch -> owns_o (t_pc th') <> Some ch ->
     closed s' ch = true /\ omap s' (t_name th) = None) /\
  (t_ld th = Some ch -> t_ld th' <> Some ch ->
     closed s' ch = true /\ lmap s' (t_name th) = None).
Proof.
  intros Ht Hld H th' Ht'.
  destruct (thread_step_vstep _ _ _ _ _ Hld H) as
    [th1 SM Etb [Kn Kf] Eld Eown Ew
    |th1 c SM Etb [Kn Kf] Eld Own0 Own1 Ew Lm Nself
    |th1 c SM Etb [Kn Kf] Eld Own0 Own1 Ew Om
    |th1 Ln Ld0 El Eo Ec En Etb [Kn Kf] Eld Own0 Own1 Ew
    |th1 sp On Own0 El Eo Ec En [Kn Kf] Eld Ew Hsp
    |th1 c Own0 El Eo Ec En Etb [Kn Kf] Eld Own1 Ew
    |th1 c Ld0 El Eo Ec En Etb [Kn Kf] Eld Own0 Own1 Ew].
  all: try (rewrite Etb, upd_same in Ht'; inv Ht'; split; intros A B; congruence).
  - (* register obtain *)
    destruct sp as [[b tb]|].
    + destruct Hsp as (Etb & Nb & _). rewrite Etb, upd_other, upd_same in Ht' by congruence. inv Ht'.
      split; intros A B; congruence.
    + destruct Hsp as [Etb _]. rewrite Etb, upd_same in Ht'. inv Ht'. split; intros A B; congruence.
  - rewrite Etb, upd_same in Ht'. inv Ht'. split; intros A B; [|congruence].
    assert (c = ch) by congruence. subst c. rewrite Ec, Eo, !upd_same. auto.
  - rewrite Etb, upd_same in Ht'. inv Ht'. split; intros A B; [congruence|].
    assert (c = ch) by congruence. subst c. rewrite Ec, El, !upd_same. auto.
Qed.

(** ... hence every goroutine waiting on it can continue at once *)
Theorem waiter_enabled_when_closed s t th ch : thr s t = Some th ->
  waits_on (t_pc th) = Some ch -> closed s ch = true -> thread_step s t th AWake <> None.
Proof.
  intros Ht W C. unfold thread_step. destruct (t_pc th); cbn in W; try discriminate; inv W;
    rewrite C; cbn; discriminate.
Qed.

(** the worker regions are straight-line: every step of an owner strictly decreases this rank or
    releases, and an owner always has an enabled step (it never blocks on a channel) *)
Definition rank (p : pc) : nat :=
  match p with
  | PObtain _ _ => 3 | PObtLoad _ => 2 | PObtUnblock _ _ => 1
  | PRenGate _ _ _ _ => 5 | PRenLoad _ _ _ _ => 4 | PRenIssue _ _ _ _ => 3
  | PRenReload _ _ _ => 2 | PRenUnblock _ _ _ _ => 1
  | _ => 0
  end%nat.

Theorem worker_progress s t th a s' ch : thr s t = Some th -> owns_o (t_pc th) = Some ch ->
  thread_step s t th a = Some s' ->
  exists th', thr s' t = Some th' /\
    ((owns_o (t_pc th') = Some ch /\ (rank (t_pc th') < rank (t_pc th))%nat) \/
     (owns_o (t_pc th') = None /\ closed s' ch = true)).
Proof.
  intros Ht O H. unfold thread_step in H.
  destruct (t_pc th) eqn:P; cbn in O; try discriminate; inv O; destruct a; try discriminate;
    repeat match type of H with
           | guard _ _ = Some _ => apply guard_some in H as [_ H]
           | context [match ?x with _ => _ end] => destruct x
           | context [if ?x then _ else _] => destruct x
           end; inv H; cbn;
    (eexists; split; [apply upd_same|]); cbn; first [left; split; [reflexivity|lia] | right; split; [reflexivity|apply upd_same] | idtac].
  all: try (destruct (bg && is_none (t_ld th)); cbn; right; split; [reflexivity|apply upd_same]).
Qed.

Theorem worker_never_blocked s t th ch : thr s t = Some th -> owns_o (t_pc th) = Some ch ->
  exists a, a <> ATimeout /\ a <> ACancel /\ thread_step s t th a <> None.
Proof.
  intros Ht Ow. unfold thread_step. cbv beta zeta.
  destruct (t_pc th) eqn:P; cbn in Ow; try discriminate.
  - destruct (is_none (store s (t_name th))) eqn:E.
    + exists (AIssue OOk). cbn. repeat split; discriminate.
    + exists (AStep O). cbn. repeat split; discriminate.
  - exists (AStep O). repeat split; try discriminate. destruct (store s (t_name th)); discriminate.
  - exists (AStep O). repeat split; discriminate.
  - exists (AGate true). repeat split; discriminate.
  - exists (AStep O). repeat split; try discriminate.
    destruct (store s (t_name th)); [destruct (_ || _)|destruct (revoked c)]; discriminate.
  - exists (AIssue OOk). repeat split; discriminate.
  - exists (AStep O). repeat split; try discriminate. destruct (store s (t_name th)); discriminate.
  - exists (AStep O). repeat split; discriminate.
Qed.

(** a goroutine that is neither waiting nor finished always has an enabled step (given an
    unused goroutine id for a possible spawn) *)
Lemma runnable_enabled s t th b : waits_on (t_pc th) = None -> finished (t_pc th) = false ->
  b <> t -> thr s b = None ->
  exists a, a <> ATimeout /\ a <> ACancel /\ thread_step s t th a <> None.
Proof.
  intros W F Nb Tb. unfold thread_step. cbv beta zeta.
  destruct (t_pc th) eqn:P; cbn in W, F; try discriminate.
  - exists (AStep b). repeat split; try discriminate.
    destruct (lookup _); [destruct load|]; discriminate.
  - exists (AStep b). repeat split; try discriminate.
    destruct (lmap s (t_name th)); [destruct (match t_ld th with Some _ => _ | None => _ end)|]; discriminate.
  - exists (AGate true). repeat split; try discriminate. destruct load; discriminate.
  - exists (AStep b). repeat split; try discriminate. destruct (store s (t_name th)); discriminate.
  - exists (AStep b). repeat split; try discriminate.
    destruct (revoked c); [discriminate|]. destruct (needs_renew c); [|discriminate].
    destruct (is_none _); discriminate.
  - exists (AGate true). repeat split; discriminate.
  - exists (AStep b). repeat split; try discriminate. destruct (omap s (t_name th)); discriminate.
  - destruct (is_none (store s (t_name th))) eqn:E.
    + exists (AIssue OOk). cbn. repeat split; discriminate.
    + exists (AStep b). cbn. repeat split; discriminate.
  - exists (AStep b). repeat split; try discriminate. destruct (store s (t_name th)); discriminate.
  - exists (AStep b). repeat split; discriminate.
  - exists (AStep b). repeat split; try discriminate.
    destruct (omap s (t_name th)).
    + destruct (negb (expired c) && negb (revoked c)); discriminate.
    + destruct (expired c); [discriminate|].
      assert (G : negb (Nat.eqb b t) && is_none (thr s b) = true).
      { rewrite Tb. apply Nat.eqb_neq in Nb. rewrite Nb. reflexivity. }
      rewrite G. cbn. discriminate.
  - exists (AGate true). repeat split; discriminate.
  - exists (AStep b). repeat split; try discriminate.
    destruct (store s (t_name th)); [destruct (_ || _)|destruct (revoked c)]; discriminate.
  - exists (AIssue OOk). repeat split; discriminate.
  - exists (AStep b). repeat split; try discriminate. destruct (store s (t_name th)); discriminate.
  - exists (AStep b). repeat split; discriminate.
  - exists (AStep b). repeat split; try discriminate. destruct (t_ld th); discriminate.
Qed.

(** nobody is left hanging: whenever some goroutine waits, some goroutine can take a step that is
    neither a time-out nor a cancellation — the waiter itself (its channel is closed), the worker
    it waits for, or the obtain/renew worker that one waits for *)
Theorem no_hang s : reachable s ->
  forall t th ch, thr s t = Some th -> waits_on (t_pc th) = Some ch ->
  exists t' th' a, thr s t' = Some th' /\ a <> ATimeout /\ a <> ACancel /\
    thread_step s t' th' a <> None.
Proof.
  intros R t th ch Ht W. pose proof (reachable_inv _ R) as I.
  destruct (ai_finite _ I) as [bound Hb]. cbn in Hb.
  assert (Fr : forall x, exists b, b <> x /\ thr s b = None).
  { intros x. exists (S (Nat.max bound x)). split; [lia|].
    specialize (Hb (S (Nat.max bound x)) ltac:(lia)). destruct (thr s (S (Nat.max bound x))); [discriminate|reflexivity]. }
  destruct (chan_inv s R t th ch Ht W) as [C|(w & thw & Nw & Tw & Enw & Fw & Cases)].
  { exists t, th, AWake. split; [exact Ht|]. repeat split; try discriminate.
    eapply waiter_enabled_when_closed; eauto. }
  destruct Cases as [[L Lw]|[O Ow]].
  - (* t waits for the load worker w *)
    destruct (waits_on (t_pc thw)) as [ch2|] eqn:W2.
    + destruct (chan_inv s R w thw ch2 Tw W2) as [C2|(w2 & thw2 & Nw2 & Tw2 & Enw2 & Fw2 & Cases2)].
      { exists w, thw, AWake. split; [exact Tw|]. repeat split; try discriminate.
        eapply waiter_enabled_when_closed; eauto. }
      destruct Cases2 as [[L2 Lw2]|[O2 Ow2]].
      * exfalso. apply Nw2.
        apply (one_load_worker_per_name s R w2 w thw2 thw Tw2 Tw); congruence.
      * destruct (worker_never_blocked s w2 thw2 ch2 Tw2 Ow2) as (a & A1 & A2 & A3).
        exists w2, thw2, a. auto.
    + destruct (Fr w) as (b & Bw & Tb).
      destruct (runnable_enabled s w thw b W2 Fw Bw Tb) as (a & A1 & A2 & A3).
      exists w, thw, a. auto.
  - destruct (worker_never_blocked s w thw ch Tw Ow) as (a & A1 & A2 & A3).
    exists w, thw, a. auto.
Qed.

(** * 6. Time-outs *)

Lemma documented_timeouts :
  t_load_wait = 120000000000 /\ t_obtain_wait = 120000000000 /\ t_renew_wait = 120000000000 /\
  t_obtain_ctx = 180000000000 /\ t_renew_fg_ctx = 90000000000 /\ t_renew_bg_ctx = 300000000000.
Proof. repeat split; reflexivity. Qed.

Definition two_minutes : Z := 120000000000.

(** each wait has its time-out alternative enabled once 2 minutes have passed since it began *)
Theorem waiter_bounded s t th ch since :
  (t_pc th = PLoadWait ch since \/ t_pc th = PObtWait ch since \/ t_pc th = PRenWait ch since) ->
  since + two_minutes <= now s -> thread_step s t th ATimeout <> None.
Proof.
  intros P Hn. unfold thread_step. cbv beta zeta.
  destruct documented_timeouts as (A & B & C & _). unfold two_minutes in Hn.
  destruct P as [P|[P|P]]; rewrite P; [rewrite A|rewrite B|rewrite C];
    (assert (G : (since + 120000000000 <=? now s) = true) by (apply Z.leb_le; exact Hn));
    rewrite G; cbn; discriminate.
Qed.

(** the clock only moves forward, so the alternative stays enabled *)
Lemma now_monotone s l s' : step s l = Some s' -> now s <= now s'.
Proof.
  intros H. destruct l; cbn [step] in H.
  - destruct (thr s t) as [th|]; [|discriminate]. unfold thread_step in H.
    destruct (t_pc th); destruct a; try discriminate;
      repeat match type of H with
             | guard _ _ = Some _ => apply guard_some in H as [_ H]
             | context [match ?x with _ => _ end] => destruct x
             | context [if ?x then _ else _] => destruct x
             end; inv H; cbn; lia.
  - apply guard_some in H as [_ H]. inv H. cbn. lia.
  - apply guard_some in H as [G H]. inv H. cbn. apply Z.leb_le in G. lia.
  - inv H. cbn. lia.
  - inv H. cbn. lia.
  - inv H. cbn. lia.
  - inv H. cbn. lia.
Qed.

(** a worker's blocking call (the issuer) can always be ended by cancellation: at any time for a
    handshake's own context, at the latest 5 minutes after it started for a background renewal *)
Theorem worker_cancel_enabled s t th :
  (exists ch st, t_pc th = PObtain ch st) \/
  (exists ch c st, t_pc th = PRenIssue ch c false st) \/
  (exists ch c st, t_pc th = PRenIssue ch c true st /\ st + 300000000000 <= now s) ->
  thread_step s t th ACancel <> None.
Proof.
  intros P. unfold thread_step. cbv beta zeta.
  destruct P as [(ch & st & P)|[(ch & c & st & P)|(ch & c & st & P & Hn)]]; rewrite P.
  - discriminate.
  - cbn. destruct (revoked c); discriminate.
  - destruct documented_timeouts as (_ & _ & _ & _ & _ & E). rewrite E.
    assert (G : (st + 300000000000 <=? now s) = true) by (apply Z.leb_le; exact Hn).
    rewrite G. cbn. destruct (revoked c); discriminate.
Qed.

(** * 7. Serving the current certificate while it is being renewed *)

(** other goroutines' steps, arrivals and the environment leave a goroutine's own record alone *)
Lemma frame s l s' t : step s l = Some s' ->
  match l with LThread t' _ => t' <> t | LArrive t' _ => True | _ => True end ->
  forall th, thr s t = Some th -> thr s' t = Some th.
Proof.
  intros H Hl th Ht. destruct l; cbn [step] in H.
  - destruct (thr s t0) as [th0|] eqn:Ht0; [|discriminate].
    assert (Hsp : forall b tb x, b <> t0 -> thr s b = None -> x = upd (upd (thr s) t0 (Some th0)) b (Some tb) t -> True) by auto.
    unfold thread_step in H.
    destruct (t_pc th0); destruct a; try discriminate;
      repeat match type of H with
             | guard _ _ = Some _ => apply guard_some in H as [?G H]
             | context [match ?x with _ => _ end] => destruct x eqn:?
             | context [if ?x then _ else _] => destruct x eqn:?
             end; inv H; cbn; rewrite ?upd_other by congruence; try assumption.
    (* the spawn: the new id was unused, so it is not t *)
    apply andb_true_iff in G as [G1 G2].
    assert (b <> t). { intros ->. rewrite Ht in G2. discriminate. }
    rewrite upd_other by congruence. rewrite upd_other by congruence. assumption.
  - apply guard_some in H as [G H]. inv H. cbn. rewrite upd_other; [assumption|].
    intros ->. rewrite Ht in G. discriminate.
  - apply guard_some in H as [G H]. inv H. assumption.
  - inv H. assumption.
  - inv H. assumption.
  - inv H. assumption.
  - inv H. assumption.
Qed.

(** a handshake that found (cache hit) an unexpired, unrevoked certificate due for renewal whose
    bundle is in storage: its next three own steps are all enabled whatever the others have done
    meanwhile (no wait, no gate), and lead to "return that certificate" *)
Definition serving (c : cert) : Prop := cl c = Due /\ revoked c = false.

Theorem serve_current_step1 s t th c b : serving c -> t_pc th = PMaint c ->
  store s (t_name th) <> None ->
  thread_step s t th (AStep b) = Some (set_thr s t (set_pc th (PRenReg c))).
Proof.
  intros [D Rv] P St. unfold thread_step. cbv beta zeta. rewrite P, Rv.
  unfold needs_renew. rewrite D. destruct (store s (t_name th)); [reflexivity|congruence].
Qed.

Theorem serve_current_step2 s t th c b : serving c -> t_pc th = PRenReg c ->
  b <> t -> thr s b = None ->
  exists s', thread_step s t th (AStep b) = Some s' /\
             thr s' t = Some (set_pc th (PRet (RCert c))).
Proof.
  intros [D Rv] P Nb Tb. unfold thread_step. cbv beta zeta. rewrite P.
  unfold expired. rewrite D, Rv. cbn [negb andb].
  destruct (omap s (t_name th)).
  - eexists. split; [reflexivity|]. cbn. apply upd_same.
  - assert (G : negb (Nat.eqb b t) && is_none (thr s b) = true).
    { rewrite Tb. apply Nat.eqb_neq in Nb. rewrite Nb. reflexivity. }
    rewrite G. eexists. split; [reflexivity|]. cbn.
    rewrite upd_other by congruence. apply upd_same.
Qed.

Theorem serve_current_step3 s t th c b : t_pc th = PRet (RCert c) -> t_ctx th = CtxHit c ->
  exists s' th', thread_step s t th (AStep b) = Some s' /\ thr s' t = Some th' /\
                 t_pc th' = PDone (RCert c).
Proof.
  intros P X. unfold thread_step. cbv beta zeta. rewrite P, X.
  destruct (t_ld th); eexists; eexists; (split; [reflexivity|]); cbn; (split; [apply upd_same|reflexivity]).
Qed.

(** * 8. After the renewal: the new certificate is what later handshakes get *)

Lemma lookup_prefers_unexpired l : (exists x, In x l /\ expired x = false) ->
  exists y, lookup l = Some y /\ expired y = false.
Proof.
  intros (x & Hx & Ex). unfold lookup.
  destruct l as [|a [|b r]]; [destruct Hx| |].
  - destruct Hx as [->|[]]. eauto.
  - destruct (find (fun c => negb (expired c)) (a :: b :: r)) as [y|] eqn:F.
    + apply find_some in F as [_ F]. apply negb_true_iff in F. eauto.
    + exfalso. pose proof (find_none _ _ F x Hx) as N. cbn in N. rewrite Ex in N. discriminate.
Qed.

(** the reload step of a successful renewal puts a certificate of the stored (new) generation
    into the cache and takes the old one out *)
Theorem renewed_cert_is_cached s t th ch c bg s0 b :
  t_pc th = PRenReload ch c bg -> store s (t_name th) = Some s0 -> gen s0 <> gen c ->
  exists s', thread_step s t th (AStep b) = Some s' /\
    existsb (cert_eqb (unrevoked s0)) (cache s' (t_name th)) = true /\
    existsb (cert_eqb c) (cache s' (t_name th)) = false.
Proof.
  intros P St Ng. unfold thread_step. cbv beta zeta. rewrite P, St.
  eexists. split; [reflexivity|]. cbn. rewrite upd_same.
  set (l := cache_del c (cache s (t_name th))).
  assert (D : existsb (cert_eqb c) l = false).
  { apply not_true_iff_false. intros E. apply existsb_exists in E as (x & Hx & Ex).
    unfold l, cache_del in Hx. apply filter_In in Hx as [_ Hx]. rewrite Ex in Hx. discriminate. }
  unfold cache_add. destruct (existsb (cert_eqb (unrevoked s0)) l) eqn:E.
  - split; [exact E|exact D].
  - rewrite !existsb_app. cbn [existsb]. split.
    + unfold cert_eqb at 2. rewrite Nat.eqb_refl. rewrite orb_true_r. reflexivity.
    + rewrite D. unfold cert_eqb. cbn.
      destruct (Nat.eqb_spec (gen c) (gen s0)); [congruence|reflexivity].
Qed.

(** an expired certificate can only be returned by a re-entry after a wait (the worker it waited
    for has released), or by a worker as the result of its own load: never by the maintenance
    or serve-current paths.  (_partial: "the renewal it waited for failed" needs the history.) *)
Theorem expired_returned_only_after_wait_partial s t th a s' th' c :
  thread_step s t th a = Some s' -> thr s' t = Some th' ->
  t_pc th' = PRet (RCert c) -> expired c = true -> t_pc th <> PRet (RCert c) ->
  t_pc th = PStart false \/ (exists ch, t_pc th = PObtUnblock ch (RCert c)) \/
  (exists ch c0 bg, t_pc th = PRenUnblock ch c0 (RCert c) bg).
Proof.
  intros H Ht' P' Ex Np. unfold thread_step in H.
  destruct (t_pc th) eqn:P; destruct a; try discriminate;
    repeat match type of H with
           | guard _ _ = Some _ => apply guard_some in H as [?G H]
           | context [match ?x with _ => _ end] => destruct x eqn:?
           | context [if ?x then _ else _] => destruct x eqn:?
           end; inv H; cbn in Ht'; rewrite ?upd_same in Ht';
    try (rewrite upd_other, upd_same in Ht' by (apply andb_true_iff in G as [G _]; apply negb_true_iff in G; apply Nat.eqb_neq in G; congruence));
    inv Ht'; cbn in P'; try discriminate; inv P'; auto.
  all: try (unfold expired in Ex; unfold needs_renew in *; destruct (cl c); discriminate).
  all: try (right; left; eauto; fail).
  all: try (right; right; eauto; fail).
  all: exfalso; rewrite Ex in *; cbn in *; discriminate.
Qed.

(** * 9. The others wait and then use what the worker left: they do not repeat the work *)

(** program counters of a goroutine that has re-entered with loading disabled *)
Definition lazy (p : pc) : bool :=
  match p with
  | PStart false | PLoadReg false | PGate1 false | PLoadWait _ _ | PRet _ | PDone _ => true
  | _ => false
  end.

Lemma wake_is_lazy s t th s' th' : thread_step s t th AWake = Some s' -> thr s' t = Some th' ->
  lazy (t_pc th') = true.
Proof.
  intros H Ht'. unfold thread_step in H.
  destruct (t_pc th); try discriminate; apply guard_some in H as [_ H]; inv H;
    cbn in Ht'; rewrite upd_same in Ht'; inv Ht'; reflexivity.
Qed.

Lemma lazy_closed s t th a s' th' : lazy (t_pc th) = true ->
  thread_step s t th a = Some s' -> thr s' t = Some th' -> lazy (t_pc th') = true.
Proof.
  intros L H Ht'. unfold thread_step in H.
  destruct (t_pc th) eqn:P; cbn in L; try discriminate; try (destruct load; try discriminate);
    destruct a; try discriminate;
    repeat match type of H with
           | guard _ _ = Some _ => apply guard_some in H as [?G H]
           | context [match ?x with _ => _ end] => destruct x eqn:?
           | context [if ?x then _ else _] => destruct x eqn:?
           end; inv H; cbn in Ht'; rewrite ?upd_same in Ht'; inv Ht'; reflexivity.
Qed.

(** no lazy program counter is one from which storage is read or the issuer called *)
Lemma lazy_no_work p : lazy p = true ->
  match p with
  | PLoad | PObtain _ _ | PObtLoad _ | PRenLoad _ _ _ _ | PRenIssue _ _ _ _ | PRenReload _ _ _ => False
  | _ => True
  end.
Proof. destruct p; cbn; try discriminate; auto. Qed.

(** * 9b. After the renewal: what subsequent handshakes find *)
Lemma last_in (l : list cert) d : l <> [] -> In (last l d) l.
Proof.
  revert d; induction l as [|x l IH]; intros d N; [congruence|].
  destruct l as [|x' l']; [left; reflexivity|]. right. apply IH. discriminate.
Qed.

Lemma lookup_in l y : lookup l = Some y -> In y l.
Proof.
  unfold lookup. destruct l as [|a [|b r]]; [discriminate| |].
  - intros H; inv H. left; reflexivity.
  - destruct (find (fun c => negb (expired c)) (a :: b :: r)) as [z|] eqn:F; intros H.
    + inv H. apply find_some in F as [F _]. exact F.
    + injection H as E. rewrite <- E.
      change (In (last (a :: b :: r) (Cert O Valid false)) (a :: b :: r)). apply last_in. discriminate.
Qed.

Lemma lookup_some l : l <> [] -> exists y, lookup l = Some y.
Proof.
  unfold lookup. destruct l as [|a [|b r]]; [congruence|eauto|].
  intros _. destruct (find _ _); eauto.
Qed.

(** once the renewal has completed (the reload step of the worker), the cache lookup of any
    subsequent handshake for the name yields a certificate, and it is not the old one *)
Theorem after_renewal_lookup_is_new s t th ch c bg s0 b s' :
  t_pc th = PRenReload ch c bg -> store s (t_name th) = Some s0 -> gen s0 <> gen c ->
  thread_step s t th (AStep b) = Some s' ->
  exists y, lookup (cache s' (t_name th)) = Some y /\ gen y <> gen c.
Proof.
  intros P St Ng H.
  destruct (renewed_cert_is_cached s t th ch c bg s0 b P St Ng) as (s1 & H1 & A & B).
  rewrite H in H1. inv H1.
  assert (NE : cache s1 (t_name th) <> []).
  { intros E. rewrite E in A. discriminate. }
  destruct (lookup_some _ NE) as [y Hy]. exists y. split; [exact Hy|].
  apply lookup_in in Hy. intros E.
  assert (X : existsb (cert_eqb c) (cache s1 (t_name th)) = true).
  { apply existsb_exists. exists y. split; [exact Hy|]. unfold cert_eqb. rewrite E. apply Nat.eqb_refl. }
  congruence.
Qed.

(** ... so a handshake arriving then (first entry or re-entry after a wait) goes on with that
    certificate: its first step leads to the maintenance of y or returns y *)
Theorem after_renewal_handshake_gets_new s t th load b y :
  t_pc th = PStart load -> lookup (cache s (t_name th)) = Some y ->
  exists s' th', thread_step s t th (AStep b) = Some s' /\ thr s' t = Some th' /\
    (t_pc th' = PMaint y \/ t_pc th' = PRet (RCert y)).
Proof.
  intros P L. unfold thread_step. cbv beta zeta. rewrite P, L. destruct load.
  - eexists. eexists. split; [reflexivity|]. cbn. rewrite upd_same. split; [reflexivity|]. left; reflexivity.
  - eexists. eexists. split; [reflexivity|]. cbn. rewrite upd_same. split; [reflexivity|]. right; reflexivity.
Qed.

(** * 10. The history of a served expired certificate: a goroutine's [t_waited] is the channel whose
    close woke it last; channels never re-open *)
Ltac split_step H :=
  repeat match type of H with
         | guard _ _ = Some _ => apply guard_some in H as [?G H]
         | context [match ?x with _ => _ end] => destruct x eqn:?
         | context [if ?x then _ else _] => destruct x eqn:?
         end.

Lemma upd_true_mono (f : nat -> bool) c x : f x = true -> upd f c true x = true.
Proof. intros H. unfold upd. destruct (Nat.eqb x c); auto. Qed.

(** a closed channel stays closed *)
Lemma step_closed_mono s t th a s' ch : thread_step s t th a = Some s' ->
  closed s ch = true -> closed s' ch = true.
Proof.
  intros H C. unfold thread_step in H.
  destruct (t_pc th) eqn:P; destruct a; try discriminate; split_step H; inv H; cbn;
    try exact C; try (apply upd_true_mono; exact C).
Qed.

(** the history variable of the stepping goroutine changes only at a wake-up, whose guard is that
    the channel is closed; a goroutine is at [PStart false] only right after a wake-up *)
Lemma step_waited_self s t th a s' : thread_step s t th a = Some s' ->
  exists th', thr s' t = Some th' /\
    (t_waited th' = t_waited th \/ exists ch, t_waited th' = Some ch /\ closed s ch = true) /\
    (t_pc th' = PStart false -> t_waited th' <> None).
Proof.
  intros H. unfold thread_step in H.
  destruct (t_pc th) eqn:P; destruct a; try discriminate; split_step H; inv H; cbn;
    rewrite ?upd_same;
    try (rewrite upd_other, upd_same by (apply andb_true_iff in G as [G _]; apply negb_true_iff in G; apply Nat.eqb_neq in G; congruence));
    eexists; (split; [reflexivity|]); cbn; (split; [first [left; reflexivity | right; eexists; split; [reflexivity|assumption]] | first [discriminate | intros _; discriminate]]).
Qed.

(** the other goroutines are untouched; a goroutine spawned by the step starts with no history *)
Lemma step_waited_other s t th a s' : thread_step s t th a = Some s' ->
  forall x thx, x <> t -> thr s' x = Some thx ->
  thr s x = Some thx \/ (t_waited thx = None /\ t_pc thx <> PStart false).
Proof.
  intros H x thx Nx Hx. unfold thread_step in H.
  destruct (t_pc th) eqn:P; destruct a; try discriminate; split_step H; inv H; cbn in Hx;
    try (rewrite upd_other in Hx by exact Nx; left; exact Hx).
  (* the spawning step *)
  destruct (Nat.eq_dec x b) as [->|Nb].
  - rewrite upd_same in Hx. inv Hx. right. split; [reflexivity|discriminate].
  - rewrite upd_other in Hx by exact Nb. rewrite upd_other in Hx by exact Nx. left; exact Hx.
Qed.

Definition WInv (s : state) : Prop :=
  forall t th, thr s t = Some th ->
    (forall ch, t_waited th = Some ch -> closed s ch = true) /\
    (t_pc th = PStart false -> t_waited th <> None).

Lemma winv_step s l s' : WInv s -> step s l = Some s' -> WInv s'.
Proof.
  intros W H. destruct l; cbn in H.
  - destruct (thr s t) as [th|] eqn:Ht; [|discriminate].
    intros x thx Hx. destruct (Nat.eq_dec x t) as [->|Nx].
    + destruct (step_waited_self _ _ _ _ _ H) as (th' & Ht' & Wd & Ps).
      rewrite Ht' in Hx. inv Hx. split; [|exact Ps].
      intros ch Hc. destruct Wd as [E|(c & E & C)].
      * rewrite E in Hc. eapply step_closed_mono; [exact H|]. exact (proj1 (W _ _ Ht) ch Hc).
      * rewrite E in Hc. inv Hc. eapply step_closed_mono; eauto.
    + destruct (step_waited_other _ _ _ _ _ H x thx Nx Hx) as [Hs|[E P]].
      * destruct (W _ _ Hs) as [A B]. split; [|exact B].
        intros ch Hc. eapply step_closed_mono; [exact H|]. exact (A ch Hc).
      * split; [intros ch Hc; congruence|intros Q; contradiction].
  - apply guard_some in H as [G H]. inv H. intros x thx Hx. cbn in Hx.
    destruct (Nat.eq_dec x t) as [->|Nx].
    + rewrite upd_same in Hx. inv Hx. split; [intros ch Hc; discriminate|discriminate].
    + rewrite upd_other in Hx by exact Nx. exact (W _ _ Hx).
  - apply guard_some in H as [G H]. inv H. exact W.
  - inv H. exact W.
  - inv H. exact W.
  - inv H. exact W.
  - inv H. exact W.
Qed.

Lemma winv_run ls : forall s s', WInv s -> run s ls = Some s' -> WInv s'.
Proof.
  induction ls as [|l ls IH]; intros s s' W H; cbn in H; [inv H; exact W|].
  destruct (step s l) as [s1|] eqn:E; [|discriminate]. eapply IH; [|exact H]. eapply winv_step; eauto.
Qed.

Theorem reachable_winv s : reachable s -> WInv s.
Proof.
  intros (c0 & s0 & f0 & ls & H). eapply winv_run; [|exact H].
  intros t th Ht. discriminate.
Qed.

(** an expired certificate is handed back only (a) by a goroutine that re-entered after a wait,
    and then the channel it waited on is closed: the attempt it waited for is over (its worker has
    released: the renewal it depended on can no longer succeed or fail); or (b) by a worker as the
    result of its own load of the bundle in storage *)
Theorem expired_returned_only_after_wait_over s t th a s' th' c : reachable s ->
  thr s t = Some th -> thread_step s t th a = Some s' -> thr s' t = Some th' ->
  t_pc th' = PRet (RCert c) -> expired c = true -> t_pc th <> PRet (RCert c) ->
  (t_pc th = PStart false /\ exists ch, t_waited th = Some ch /\ closed s ch = true) \/
  (exists ch, t_pc th = PObtUnblock ch (RCert c)) \/
  (exists ch c0 bg, t_pc th = PRenUnblock ch c0 (RCert c) bg).
Proof.
  intros R Ht H Ht' P' Ex Np.
  destruct (expired_returned_only_after_wait_partial _ _ _ _ _ _ _ H Ht' P' Ex Np) as [A|[B|C]]; auto.
  left. split; [exact A|].
  destruct (reachable_winv s R t th Ht) as [W1 W2].
  destruct (t_waited th) as [ch|] eqn:E; [|exfalso; apply (W2 A); reflexivity].
  exists ch. split; [reflexivity|]. apply W1; reflexivity.
Qed.


(** the strict reading of "an expired certificate is not served while its renewal can still
    succeed" is false of the model (and of the code): a goroutine that waited for a renewal which
    failed is served the cached expired certificate on re-entry, even when meanwhile a LATER handshake
    has started a new renewal that can still succeed *)
Definition cexp : cert := Cert 1 Expired false.
Definition refuted_run : list label :=
  [LArrive 0 0; LThread 0 (AStep 9); LThread 0 (AStep 9); LThread 0 (AStep 9);          (* T0: hit, maintenance, renewal worker at its gate *)
   LArrive 1 0; LThread 1 (AStep 9); LThread 1 (AStep 9); LThread 1 (AStep 9);          (* T1: hit, waits for T0's renewal *)
   LThread 0 (AGate true); LThread 0 (AStep 9); LThread 0 (AIssue OFail);               (* T0's issuer call fails *)
   LThread 0 (AStep 9); LThread 0 (AStep 9);                                            (* T0 releases, returns the error *)
   LArrive 2 0; LThread 2 (AStep 9); LThread 2 (AStep 9); LThread 2 (AStep 9);          (* T2: hit, new renewal worker *)
   LThread 2 (AGate true); LThread 2 (AStep 9);                                         (* T2 at the issuer *)
   LThread 1 AWake; LThread 1 (AStep 9); LThread 1 (AStep 9)]%nat.                      (* T1 re-enters: served the expired certificate *)
Definition refuted_init : state :=
  init (fun n => match n with O => [cexp] | _ => [] end) (fun n => match n with O => Some cexp | _ => None end) 2%nat.

Lemma expired_served_during_later_renewal :
  exists s, reachable s /\ exists t1 t2 th1 th2 c ch st,
    thr s t1 = Some th1 /\ t_pc th1 = PDone (RCert c) /\ expired c = true /\
    thr s t2 = Some th2 /\ t_name th2 = t_name th1 /\ t2 <> t1 /\
    t_pc th2 = PRenIssue ch c false st /\ omap s (t_name th1) = Some ch.
Proof.
  destruct (run refuted_init refuted_run) as [s|] eqn:E; [|vm_compute in E; discriminate].
  exists s. split; [eexists _, _, _, refuted_run; exact E|].
  vm_compute in E. inversion E. clear E.
  exists 1%nat, 2%nat. eexists. eexists. exists cexp, 1%nat, 0.
  cbn. repeat split; discriminate.
Qed.

(** * 10b. The waiters of a successful attempt find its result in the cache *)
(** the obtain worker puts the certificate it is going to hand back into the cache in the step
    that leads to its release point *)
Theorem obtain_result_is_cached s t th ch c0 b :
  t_pc th = PObtLoad ch -> store s (t_name th) = Some c0 ->
  exists s', thread_step s t th (AStep b) = Some s' /\
    thr s' t = Some (set_pc th (PObtUnblock ch (RCert (unrevoked c0)))) /\
    existsb (cert_eqb (unrevoked c0)) (cache s' (t_name th)) = true.
Proof.
  intros P St. unfold thread_step. cbv beta zeta. rewrite P, St.
  eexists. split; [reflexivity|]. cbn. rewrite !upd_same. split; [reflexivity|].
  unfold cache_add. destruct (existsb (cert_eqb (unrevoked c0)) (cache s (t_name th))) eqn:E; [exact E|].
  rewrite existsb_app. cbn [existsb]. unfold cert_eqb. rewrite Nat.eqb_refl. cbn. apply orb_true_r.
Qed.

(** an obtain-map channel is closed only from the two unblock points, i.e. after the load / reload
    step (or after the attempt has failed) *)
Theorem release_only_from_unblock s t th a s' th' ch :
  thread_step s t th a = Some s' -> thr s' t = Some th' ->
  owns_o (t_pc th) = Some ch -> owns_o (t_pc th') <> Some ch ->
  (exists r, t_pc th = PObtUnblock ch r) \/ (exists c r bg, t_pc th = PRenUnblock ch c r bg).
Proof.
  intros H Ht' O N. unfold thread_step in H.
  destruct (t_pc th) eqn:P; cbn in O; try discriminate; inv O; destruct a; try discriminate;
    split_step H; inv H; cbn in Ht'; rewrite ?upd_same in Ht'; inv Ht'; cbn in N;
    try (exfalso; apply N; reflexivity); eauto.
Qed.

(** a goroutine that re-enters after its wait while the cache holds an unexpired certificate for the
    name is answered with an unexpired certificate *)
Theorem reentry_gets_unexpired s t th b :
  t_pc th = PStart false -> (exists x, In x (cache s (t_name th)) /\ expired x = false) ->
  exists s' y, thread_step s t th (AStep b) = Some s' /\
    thr s' t = Some (set_pc th (PRet (RCert y))) /\ expired y = false.
Proof.
  intros P Ex. destruct (lookup_prefers_unexpired _ Ex) as (y & L & E).
  unfold thread_step. cbv beta zeta. rewrite P, L.
  eexists. exists y. split; [reflexivity|]. cbn. rewrite upd_same. split; [reflexivity|exact E].
Qed.

(** * 10c. The issuer is asked once per renewal: a renewal worker that finds the bundle in storage
    no longer due (it has been renewed meanwhile: by a worker that finished just before, or by another
    instance) and whose own certificate is not revoked goes on to the reload; no issuer step *)
Theorem renewal_not_repeated s t th ch c bg st s0 b :
  t_pc th = PRenLoad ch c bg st -> store s (t_name th) = Some s0 ->
  needs_renew s0 = false -> revoked c = false ->
  (forall o, thread_step s t th (AIssue o) = None) /\
  thread_step s t th (AStep b) = Some (set_thr s t (set_pc th (PRenReload ch c bg))).
Proof.
  intros P St N R. unfold thread_step. cbv beta zeta. rewrite P, St, N, R. cbn. split; [intros o|]; reflexivity.
Qed.

(** * 10d. The background renewal is not tied to the handshake that started it: its issuer call
    cannot be cancelled before its own 5-minute deadline (context.Background), and no other step of a
    background worker has a cancellation alternative at all; the return of the handshake that spawned
    it is a step of another goroutine ([frame]) *)
Theorem background_renewal_not_cancellable_early s t th ch c st :
  t_pc th = PRenIssue ch c true st -> now s < st + t_renew_bg_ctx -> thread_step s t th ACancel = None.
Proof.
  intros P N. unfold thread_step. cbv beta zeta. rewrite P. cbn [negb orb].
  destruct (st + t_renew_bg_ctx <=? now s) eqn:E; [apply Z.leb_le in E; lia|reflexivity].
Qed.
Theorem background_worker_other_steps_not_cancellable s t th :
  (exists ch c st, t_pc th = PRenGate ch c true st) \/ (exists ch c st, t_pc th = PRenLoad ch c true st) \/
  (exists ch c, t_pc th = PRenReload ch c true) \/ (exists ch c r, t_pc th = PRenUnblock ch c r true) ->
  thread_step s t th ACancel = None.
Proof.
  intros [(ch & c & st & P)|[(ch & c & st & P)|[(ch & c & P)|(ch & c & r & P)]]];
    unfold thread_step; cbv beta zeta; rewrite P; reflexivity.
Qed.

(** * 10e. No handshake ends with the empty certificate and a nil error *)
(** no goroutine ever carries or returns the empty certificate with a nil error *)
Definition res_pc (p : pc) : option res :=
  match p with
  | PObtUnblock _ r | PRenUnblock _ _ r _ | PRet r | PDone r => Some r
  | _ => None
  end.
Definition EInv (s : state) : Prop := forall t th, thr s t = Some th -> res_pc (t_pc th) <> Some REmpty.

Lemma final_res_not_empty x r : r <> REmpty -> final_res x r <> REmpty.
Proof. destruct x, r; cbn; try congruence; try (destruct (expired c); congruence); try (destruct (expired c0); congruence). Qed.

Lemma step_noempty_self s t th a s' : thread_step s t th a = Some s' ->
  res_pc (t_pc th) <> Some REmpty ->
  exists th', thr s' t = Some th' /\ res_pc (t_pc th') <> Some REmpty.
Proof.
  intros H N. unfold thread_step in H.
  destruct (t_pc th) eqn:P; destruct a; try discriminate; split_step H; inv H; cbn;
    rewrite ?upd_same;
    try (rewrite upd_other, upd_same by (apply andb_true_iff in G as [G _]; apply negb_true_iff in G; apply Nat.eqb_neq in G; congruence));
    eexists; (split; [reflexivity|]); cbn; try discriminate;
    try (intros E; inv E; apply N; reflexivity);
    try (intros E; injection E as E; revert E; apply final_res_not_empty; intros E; apply N; cbn; congruence).
Qed.

Lemma step_noempty_other s t th a s' : thread_step s t th a = Some s' ->
  forall x thx, x <> t -> thr s' x = Some thx -> thr s x = Some thx \/ res_pc (t_pc thx) = None.
Proof.
  intros H x thx Nx Hx. unfold thread_step in H.
  destruct (t_pc th) eqn:P; destruct a; try discriminate; split_step H; inv H; cbn in Hx;
    try (rewrite upd_other in Hx by exact Nx; left; exact Hx).
  destruct (Nat.eq_dec x b) as [->|Nb].
  - rewrite upd_same in Hx. inv Hx. right. reflexivity.
  - rewrite upd_other in Hx by exact Nb. rewrite upd_other in Hx by exact Nx. left; exact Hx.
Qed.

Lemma einv_step s l s' : EInv s -> step s l = Some s' -> EInv s'.
Proof.
  intros W H. destruct l; cbn in H.
  - destruct (thr s t) as [th|] eqn:Ht; [|discriminate].
    intros x thx Hx. destruct (Nat.eq_dec x t) as [->|Nx].
    + destruct (step_noempty_self _ _ _ _ _ H (W _ _ Ht)) as (th' & Ht' & E). rewrite Ht' in Hx. inv Hx. exact E.
    + destruct (step_noempty_other _ _ _ _ _ H x thx Nx Hx) as [Hs|E]; [exact (W _ _ Hs)|rewrite E; discriminate].
  - apply guard_some in H as [G H]. inv H. intros x thx Hx. cbn in Hx.
    destruct (Nat.eq_dec x t) as [->|Nx].
    + rewrite upd_same in Hx. inv Hx. discriminate.
    + rewrite upd_other in Hx by exact Nx. exact (W _ _ Hx).
  - apply guard_some in H as [G H]. inv H. exact W.
  - inv H. exact W.
  - inv H. exact W.
  - inv H. exact W.
  - inv H. exact W.
Qed.

Lemma einv_run ls : forall s s', EInv s -> run s ls = Some s' -> EInv s'.
Proof.
  induction ls as [|l ls IH]; intros s s' W H; cbn in H; [inv H; exact W|].
  destruct (step s l) as [s1|] eqn:E; [|discriminate]. eapply IH; [|exact H]. eapply einv_step; eauto.
Qed.

Theorem no_empty_result s : reachable s ->
  forall t th, thr s t = Some th -> t_pc th <> PDone REmpty.
Proof.
  intros (c0 & s0 & f0 & ls & H) t th Ht E.
  assert (W : EInv s) by (eapply einv_run; [|exact H]; intros x thx Hx; discriminate).
  apply (W t th Ht). rewrite E. reflexivity.
Qed.

(** * The statement shapes of the source the LTS was written against (translator item
    c13EmitC13Shape): every re-entry into getCertDuringHandshake passes loadOrObtainIfNecessary =
    false; each of the three release sections is Lock; close(wait); delete(map, name); Unlock (one
    critical section = the atomic steps [rel_l] / [rel_o]); unblockWaiters is called once in
    obtainOnDemandCertificate (after ObtainCertAsync, right before the return) and twice in
    renewDynamicCertificate (denial path, normal path), never deferred; serve-current iff
    timeLeft > 0 && !revoked; background renewal iff timeLeft > 0, under a context derived from
    context.Background() (not from the handshake's).  By computation. *)
Lemma source_shape :
  hs_reentry_load_args = [[false]; [false]; [false]] /\
  hs_release_shapes = [[1; 2; 3; 4]; [1; 2; 3; 4]; [1; 2; 3; 4]]%nat /\
  hs_unblock_call_counts = [1; 2]%nat /\
  hs_obtain_unblock_then_return = true /\
  hs_serve_current_iff_unexpired_unrevoked = true /\
  hs_background_iff_unexpired = true /\
  hs_background_ctx_is_background = true.
Proof. repeat split. Qed.
