(** What the clauses of the monitor [Check.spec_ok] read through [pos_of] mean as invariants of the
    single-flight LTS (property C13): quiescence of the wait maps, completeness of the result, and
    "the issuer is asked once per renewal". *)
From Coq Require Import List NArith ZArith Bool Lia PeanoNat.
From CM Require Import Gen.Consts SingleFlight.Model SingleFlight.Proofs SingleFlight.Check.
Import ListNotations.
Open Scope Z_scope.

(** * Quiescence of the wait maps (the monitor clauses "a registration has a live goroutine behind it"
    and "at the end both maps are empty") *)
Lemma tb_some s t i : a_tb (abs s) t = Some i -> exists th, thr s t = Some th /\ i = info_of th.
Proof. cbn. destruct (thr s t) as [th|]; intros H; inv H. eauto. Qed.

Theorem registration_has_live_goroutine s : reachable s ->
  forall n ch, lmap s n = Some ch \/ omap s n = Some ch ->
  exists t th, thr s t = Some th /\ t_name th = n /\ finished (t_pc th) = false /\
    (t_ld th = Some ch \/ owns_o (t_pc th) = Some ch).
Proof.
  intros R n ch H. pose proof (reachable_inv s R) as I.
  destruct H as [H|H].
  - destruct (ai_l_own _ I n ch H) as (t & i & Ht & Hn & Hl).
    destruct (tb_some _ _ _ Ht) as (th & Hth & ->). cbn in Hn, Hl.
    exists t, th. split; [exact Hth|]. split; [exact Hn|]. split; [|left; exact Hl].
    destruct (finished (t_pc th)) eqn:F; [|reflexivity].
    destruct (ai_fin _ I t _ Ht F) as (A & _). cbn in A. congruence.
  - destruct (ai_o_own _ I n ch H) as (t & i & Ht & Hn & Ho).
    destruct (tb_some _ _ _ Ht) as (th & Hth & ->). cbn in Hn, Ho.
    exists t, th. split; [exact Hth|]. split; [exact Hn|]. split; [|right; exact Ho].
    destruct (finished (t_pc th)) eqn:F; [|reflexivity].
    destruct (ai_fin _ I t _ Ht F) as (_ & A & _). cbn in A. congruence.
Qed.

Theorem maps_empty_when_all_finished s : reachable s ->
  (forall t th, thr s t = Some th -> finished (t_pc th) = true) ->
  forall n, lmap s n = None /\ omap s n = None.
Proof.
  intros R F n. split.
  - destruct (lmap s n) as [ch|] eqn:E; [|reflexivity].
    destruct (registration_has_live_goroutine s R n ch (or_introl E)) as (t & th & Ht & _ & Nf & _).
    rewrite (F t th Ht) in Nf. discriminate.
  - destruct (omap s n) as [ch|] eqn:E; [|reflexivity].
    destruct (registration_has_live_goroutine s R n ch (or_intror E)) as (t & th & Ht & _ & Nf & _).
    rewrite (F t th Ht) in Nf. discriminate.
Qed.

(** read through [pos_of]: a finished goroutine is exactly one the harness sees as done / exited, and
    no reachable position is "returned the empty certificate" *)
Lemma finished_is_done s th : finished (t_pc th) = true <-> is_done (pos_of s th) = true.
Proof.
  unfold pos_of. destruct (t_pc th); cbn; try (split; discriminate); try (split; reflexivity);
    try (destruct (at_gate s th); cbn; split; discriminate).
  destruct r; cbn; split; reflexivity.
Qed.
Theorem no_done_empty_position s : reachable s ->
  forall t th, thr s t = Some th -> pos_of s th <> DoneEmpty.
Proof.
  intros R t th Ht E. apply (no_empty_result s R t th Ht).
  unfold pos_of in E. destruct (t_pc th); try discriminate; try (destruct (at_gate s th); discriminate).
  destruct r; try discriminate. reflexivity.
Qed.

(** * The issuer is asked once per renewal, as an invariant of the runs in which nobody else writes
    the name's bundle (no LStoreDel / LStorePut): a goroutine is at the issuer for a renewal with an
    unrevoked certificate in hand only while the stored bundle is (still) due *)
Definition store_calm (l : label) : Prop :=
  match l with LStoreDel _ | LStorePut _ _ => False | _ => True end.
Definition creachable (s : state) : Prop :=
  exists c0 s0 f0 ls, Forall store_calm ls /\ run (init c0 s0 f0) ls = Some s.
Lemma creachable_reachable s : creachable s -> reachable s.
Proof. intros (c0 & s0 & f0 & ls & _ & H). exists c0, s0, f0, ls. exact H. Qed.

Definition JInv (s : state) : Prop :=
  forall t th ch c bg st, thr s t = Some th -> t_pc th = PRenIssue ch c bg st -> revoked c = false ->
  exists s0, store s (t_name th) = Some s0 /\ needs_renew s0 = true.

Lemma step_store s t th a s' : thread_step s t th a = Some s' ->
  store s' = store s \/
  (owns_o (t_pc th) <> None /\ store s' = upd (store s) (t_name th) (Some (Cert (fresh s) Valid false))).
Proof.
  intros H. unfold thread_step in H.
  destruct (t_pc th) eqn:P; destruct a; try discriminate; split_step H; inv H; cbn;
    try (left; reflexivity); right; (split; [discriminate|reflexivity]).
Qed.

Lemma step_enter_issue s t th a s' th' ch c bg st : thread_step s t th a = Some s' ->
  thr s' t = Some th' -> t_pc th' = PRenIssue ch c bg st -> revoked c = false ->
  exists s0, store s' (t_name th') = Some s0 /\ needs_renew s0 = true.
Proof.
  intros H Ht' P' Rv. unfold thread_step in H.
  destruct (t_pc th) eqn:P; destruct a; try discriminate; split_step H; inv H; cbn in Ht';
    rewrite ?upd_same in Ht';
    try (rewrite upd_other, upd_same in Ht' by (apply andb_true_iff in G as [G _]; apply negb_true_iff in G; apply Nat.eqb_neq in G; congruence));
    inv Ht'; cbn in P'; try discriminate.
  inv P'. cbn. rewrite Rv, orb_false_r in *. eauto.
Qed.

Lemma step_other_pc s t th a s' : thread_step s t th a = Some s' ->
  forall x thx, x <> t -> thr s' x = Some thx ->
  thr s x = Some thx \/ exists ch c st, t_pc thx = PRenGate ch c true st.
Proof.
  intros H x thx Nx Hx. unfold thread_step in H.
  destruct (t_pc th) eqn:P; destruct a; try discriminate; split_step H; inv H; cbn in Hx;
    try (rewrite upd_other in Hx by exact Nx; left; exact Hx).
  destruct (Nat.eq_dec x b) as [->|Nb].
  - rewrite upd_same in Hx. inv Hx. right. cbn. eauto.
  - rewrite upd_other in Hx by exact Nb. rewrite upd_other in Hx by exact Nx. left; exact Hx.
Qed.

Lemma jinv_step s l s' : AInv (abs s) -> JInv s -> store_calm l -> step s l = Some s' -> JInv s'.
Proof.
  intros I J C H. destruct l; cbn in H; try contradiction.
  - destruct (thr s t) as [th0|] eqn:Ht0; [|discriminate].
    intros x thx ch c bg st Hx Px Rv. destruct (Nat.eq_dec x t) as [->|Nx].
    + eapply step_enter_issue; eauto.
    + destruct (step_other_pc _ _ _ _ _ H x thx Nx Hx) as [Hs|(ch' & c' & st' & E)]; [|congruence].
      destruct (J x thx ch c bg st Hs Px Rv) as (s0 & S0 & N0).
      destruct (step_store _ _ _ _ _ H) as [E|[Ow E]]; rewrite E; [eauto|].
      destruct (Nat.eq_dec (t_name thx) (t_name th0)) as [En|Nn]; [|rewrite upd_other by exact Nn; eauto].
      exfalso. apply Nx.
      apply (ai_o_uniq _ I x t (info_of thx) (info_of th0)); cbn; try rewrite Hs; try rewrite Ht0; auto.
      rewrite Px. discriminate.
  - apply guard_some in H as [G H]. inv H. intros x thx ch c bg st Hx Px Rv. cbn in Hx.
    destruct (Nat.eq_dec x t) as [->|Nx].
    + rewrite upd_same in Hx. inv Hx. discriminate.
    + rewrite upd_other in Hx by exact Nx. exact (J _ _ _ _ _ _ Hx Px Rv).
  - apply guard_some in H as [G H]. inv H. exact J.
  - inv H. exact J.
  - inv H. exact J.
Qed.

Lemma jinv_run ls : forall s s', AInv (abs s) -> JInv s -> Forall store_calm ls -> run s ls = Some s' -> JInv s'.
Proof.
  induction ls as [|l ls IH]; intros s s' I J C H; cbn in H; [inv H; exact J|].
  inversion C as [|? ? C1 C2]; subst.
  destruct (step s l) as [s1|] eqn:E; [|discriminate].
  eapply IH; [eapply step_inv; eauto|eapply jinv_step; eauto|exact C2|exact H].
Qed.

Theorem issuer_asked_only_while_due s : creachable s -> JInv s.
Proof.
  intros (c0 & s0 & f0 & ls & C & H). eapply jinv_run; [apply init_inv| |exact C|exact H].
  intros t th ch c bg st Ht. discriminate.
Qed.

(** in the monitor's terms: once the bundle in storage is not due (the issuer has delivered, or
    another worker has renewed), whoever is seen at the issuer for that name holds a revoked certificate *)
Theorem at_issuer_only_while_due s : creachable s ->
  forall t th s0, thr s t = Some th -> store s (t_name th) = Some s0 -> needs_renew s0 = false ->
  pos_of s th = AtIssue -> exists ch c bg st, t_pc th = PRenIssue ch c bg st /\ revoked c = true.
Proof.
  intros R t th s0 Ht St N P. unfold pos_of in P.
  destruct (t_pc th) eqn:Pc; try discriminate; try (destruct r; discriminate);
    try (destruct (at_gate s th) eqn:G; discriminate).
  - (* PObtain: at the gate only while the bundle is missing *)
    unfold at_gate in P. rewrite Pc, St in P. cbn in P. discriminate.
  - exists ch, c, bg, started. split; [reflexivity|].
    destruct (revoked c) eqn:Rv; [reflexivity|].
    destruct (issuer_asked_only_while_due s R t th ch c bg started Ht Pc Rv) as (s1 & S1 & N1).
    rewrite St in S1. inv S1. congruence.
Qed.

(** ... and in such runs a bundle that is not due stays not due (the only writer is the issuer step
    of the name's single worker, which stores a fresh, valid certificate) *)
Lemma calm_store_stays_fresh s l s' n : store_calm l -> step s l = Some s' ->
  (exists s0, store s n = Some s0 /\ needs_renew s0 = false) ->
  exists s0, store s' n = Some s0 /\ needs_renew s0 = false.
Proof.
  intros C H (s0 & S0 & N0). destruct l; cbn in H; try contradiction.
  - destruct (thr s t) as [th|]; [|discriminate].
    destruct (step_store _ _ _ _ _ H) as [E|[_ E]]; rewrite E; [eauto|].
    destruct (Nat.eq_dec n (t_name th)) as [->|Nn]; [rewrite upd_same; eexists; split; reflexivity|].
    rewrite upd_other by exact Nn. eauto.
  - apply guard_some in H as [_ H]. inv H. cbn. eauto.
  - apply guard_some in H as [_ H]. inv H. cbn. eauto.
  - inv H. cbn. eauto.
  - inv H. cbn. eauto.
Qed.
