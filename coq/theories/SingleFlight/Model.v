(** Model of the two single-flight maps of handshake.go (certLoadWaitChans,
    obtainCertWaitChans) as a labelled transition system with any number of handshake
    goroutines: getCertDuringHandshake (cache lookup, load single-flight, re-entry with loading
    disabled), obtainOnDemandCertificate, handshakeMaintenance / renewDynamicCertificate
    (serve-current, foreground or background renewal).  Executable definitions only.

    Granularity: one step = one critical section of a wait-map mutex, one cache / storage access,
    one externally visible call (DecisionFunc, bundle load, Issuer.Issue), or one wake-up /
    time-out / cancellation of a waiting select. *)
From Coq Require Import List NArith ZArith Bool Lia.
From CM Require Import Gen.Consts.
Import ListNotations.
Open Scope Z_scope.

Definition tid := nat.
Definition name := nat.
Definition chan := nat.

Definition first_or (l : list Z) (d : Z) : Z := match l with x :: _ => x | [] => d end.
(** the waiters' time-outs and the workers' context time-outs, from Gen.Consts (nanoseconds) *)
Definition t_load_wait : Z := first_or load_wait_timeouts 0.
Definition t_obtain_wait : Z := first_or obtain_wait_timeouts 0.
Definition t_renew_wait : Z := first_or renew_wait_timeouts 0.
Definition t_obtain_ctx : Z := first_or obtain_ctx_timeouts 0.
Definition t_renew_bg_ctx : Z := first_or renew_ctx_timeouts 0.
Definition t_renew_fg_ctx : Z := first_or (tl renew_ctx_timeouts) 0.

(** ** certificates, as far as this logic looks at them *)
Inductive cls := Valid | Due | Expired.     (* Due: in the renewal window, not expired *)
Record cert := Cert { gen : nat; cl : cls; revoked : bool }.

Definition expired (c : cert) : bool := match cl c with Expired => true | _ => false end.
Definition needs_renew (c : cert) : bool := match cl c with Valid => false | _ => true end.
Definition cert_eqb (a b : cert) : bool := Nat.eqb (gen a) (gen b).
Definition unrevoked (c : cert) : cert := Cert (gen c) (cl c) false.

(** getCertificateFromCache + DefaultCertificateSelector on the certificates cached for a name *)
Definition lookup (l : list cert) : option cert :=
  match l with
  | [] => None
  | [c] => Some c
  | _ => match find (fun c => negb (expired c)) l with
         | Some c => Some c
         | None => Some (last l (Cert O Valid false))
         end
  end.
Definition cache_add (c : cert) (l : list cert) : list cert :=
  if existsb (cert_eqb c) l then l else l ++ [c].
Definition cache_del (c : cert) (l : list cert) : list cert :=
  filter (fun x => negb (cert_eqb c x)) l.

(** ** results *)
Inductive res :=
| RCert (c : cert)
| REmpty                 (* empty certificate, nil error *)
| RErr
| RCertErr (c : cert).   (* certificate and error (forceRenew failure) *)

(** what called the maintenance code: nothing yet, optionalMaintenance on a cache hit, or
    loadCertFromStorage on a freshly loaded certificate.  loadCertFromStorage turns a maintenance
    failure that yields no certificate into an error [fix 781aee7], and getCertDuringHandshake does
    not go on to obtainOnDemandCertificate after such an error [fix 5058ec2]:
    the handshake returns an error. *)
Inductive mctx := CtxNone | CtxHit (c : cert) | CtxLoaded (c : cert).

Definition final_res (x : mctx) (r : res) : res :=
  match x with
  | CtxNone => match r with RCertErr _ => RErr | _ => r end
  | CtxHit c0 =>
      match r with
      | RErr | RCertErr _ => if expired c0 then RErr else RCert c0
      | _ => r
      end
  | CtxLoaded _ =>
      match r with
      | RErr => RErr
      | RCertErr c => RCert c
      | _ => r
      end
  end.

(** ** program counters of a handshake goroutine (name fixed per goroutine) *)
Inductive pc :=
| PStart (load : bool)                 (* getCertDuringHandshake entry: cache lookup next *)
| PLoadReg (load : bool)               (* cache miss: about to enter the certLoadWaitChans section *)
| PLoadWait (ch : chan) (since : Z)    (* select on another goroutine's load channel *)
| PGate1 (load : bool)                 (* load worker: about to call checkIfCertShouldBeObtained *)
| PLoad                                (* load worker: about to read the bundle from storage *)
| PMaint (c : cert)                    (* handshakeMaintenance on c (incl. the storage Exists check) *)
| PGate2 (c : cert)                    (* storage-missing branch: about to evaluate the policy *)
| PObtReg                              (* about to enter the obtainCertWaitChans section (obtain) *)
| PObtWait (ch : chan) (since : Z)
| PObtain (ch : chan) (started : Z)    (* obtain worker: ObtainCertAsync, about to call the issuer *)
| PObtLoad (ch : chan)                 (* obtain worker: about to load the new bundle *)
| PObtUnblock (ch : chan) (r : res)    (* obtain worker: about to close + delete *)
| PRenReg (c : cert)                   (* about to enter the obtainCertWaitChans section (renew) *)
| PRenWait (ch : chan) (since : Z)
| PRenGate (ch : chan) (c : cert) (bg : bool) (started : Z)   (* renew worker: policy evaluation next *)
| PRenLoad (ch : chan) (c : cert) (bg : bool) (started : Z)   (* renew worker: bundle read of renewCert next *)
| PRenIssue (ch : chan) (c : cert) (bg : bool) (started : Z)  (* renew worker: issuer call next *)
| PRenReload (ch : chan) (c : cert) (bg : bool)               (* renew worker: reload next *)
| PRenUnblock (ch : chan) (c : cert) (r : res) (bg : bool)    (* renew worker: about to close + delete *)
| PRet (r : res)                       (* returning; the deferred release of the load channel runs *)
| PDone (r : res)                      (* handshake returned r *)
| PExit.                               (* background goroutine finished *)

Record thread := Thread {
  t_name : name;
  t_pc : pc;
  t_ld : option chan;      (* load channel registered by this goroutine (released by its defer) *)
  t_ctx : mctx;
  t_waited : option chan   (* history variable: the channel whose close woke this goroutine last *)
}.

Record state := State {
  lmap : name -> option chan;        (* certLoadWaitChans *)
  omap : name -> option chan;        (* obtainCertWaitChans *)
  closed : chan -> bool;
  nextc : chan;                      (* channels >= nextc have not been made yet *)
  cache : name -> list cert;
  store : name -> option cert;
  thr : tid -> option thread;
  now : Z;
  fresh : nat                        (* generation of the next issued certificate *)
}.

Definition upd {A} (f : nat -> A) (k : nat) (v : A) : nat -> A :=
  fun x => if Nat.eqb x k then v else f x.

Definition set_thr (s : state) (t : tid) (th : thread) : state :=
  State (lmap s) (omap s) (closed s) (nextc s) (cache s) (store s) (upd (thr s) t (Some th)) (now s) (fresh s).
Definition set_pc (th : thread) (p : pc) : thread := Thread (t_name th) p (t_ld th) (t_ctx th) (t_waited th).
Definition set_ctx (th : thread) (x : mctx) : thread := Thread (t_name th) (t_pc th) (t_ld th) x (t_waited th).
Definition set_ld (th : thread) (l : option chan) : thread := Thread (t_name th) (t_pc th) l (t_ctx th) (t_waited th).
Definition set_waited (th : thread) (w : option chan) : thread := Thread (t_name th) (t_pc th) (t_ld th) (t_ctx th) w.
Definition set_cache (s : state) (n : name) (l : list cert) : state :=
  State (lmap s) (omap s) (closed s) (nextc s) (upd (cache s) n l) (store s) (thr s) (now s) (fresh s).
Definition set_store (s : state) (n : name) (c : option cert) : state :=
  State (lmap s) (omap s) (closed s) (nextc s) (cache s) (upd (store s) n c) (thr s) (now s) (fresh s).
Definition bump_fresh (s : state) : state :=
  State (lmap s) (omap s) (closed s) (nextc s) (cache s) (store s) (thr s) (now s) (S (fresh s)).
(** register a new channel in a map *)
Definition reg_l (s : state) (n : name) : state :=
  State (upd (lmap s) n (Some (nextc s))) (omap s) (closed s) (S (nextc s)) (cache s) (store s) (thr s) (now s) (fresh s).
Definition reg_o (s : state) (n : name) : state :=
  State (lmap s) (upd (omap s) n (Some (nextc s))) (closed s) (S (nextc s)) (cache s) (store s) (thr s) (now s) (fresh s).
(** close(wait); delete(map, name) — one critical section *)
Definition rel_l (s : state) (n : name) (ch : chan) : state :=
  State (upd (lmap s) n None) (omap s) (upd (closed s) ch true) (nextc s) (cache s) (store s) (thr s) (now s) (fresh s).
Definition rel_o (s : state) (n : name) (ch : chan) : state :=
  State (lmap s) (upd (omap s) n None) (upd (closed s) ch true) (nextc s) (cache s) (store s) (thr s) (now s) (fresh s).
Definition tick (s : state) (d : Z) : state :=
  State (lmap s) (omap s) (closed s) (nextc s) (cache s) (store s) (thr s) (now s + d) (fresh s).

(** ** labels *)
Inductive outcome := OOk | OFail | OCancel.
Inductive act :=
| AStep (b : tid)            (* internal step; b = id for a goroutine spawned by it (if any) *)
| AGate (allow : bool)       (* DecisionFunc answered *)
| AIssue (o : outcome)       (* Issuer.Issue returned *)
| AWake                      (* the channel waited on is closed *)
| ATimeout                   (* the select's timer fired *)
| ACancel.                   (* the handshake's context was cancelled (load wait / worker) *)

Inductive label :=
| LThread (t : tid) (a : act)
| LArrive (t : tid) (n : name)       (* a new handshake for n *)
| LTick (d : Z)
| LStoreDel (n : name)               (* environment: storage cleaner *)
| LStorePut (n : name) (c : cert)    (* environment: another instance stores a bundle *)
| LEvict (n : name) (c : cert)       (* environment: cache eviction / removal *)
| LCacheSet (n : name) (c : cert).   (* environment: the cached certificate of generation [gen c] changes state
                                        (its OCSP status becomes Revoked, it ages) *)

Definition guard (b : bool) (s : option state) : option state := if b then s else None.

Definition is_none {A} (o : option A) : bool := match o with None => true | _ => false end.

(** one step of goroutine t *)
Definition thread_step (s : state) (t : tid) (th : thread) (a : act) : option state :=
  let n := t_name th in
  let go p := Some (set_thr s t (set_pc th p)) in
  let go_in s' p := Some (set_thr s' t (set_pc th p)) in
  match t_pc th, a with
  | PStart load, AStep _ =>
      match lookup (cache s n) with
      | Some c =>
          if load then Some (set_thr s t (set_ctx (set_pc th (PMaint c)) (CtxHit c)))
          else go (PRet (RCert c))
      | None => go (PLoadReg load)
      end
  | PLoadReg load, AStep _ =>
      match lmap s n with
      | Some ch =>
          (* the registered channel is this goroutine's own (it came back here after waiting for
             an obtain / renewal): it does not wait on itself [fix 29c65de] *)
          if match t_ld th with Some own => Nat.eqb own ch | None => false end
          then go (PGate1 load)
          else go (PLoadWait ch (now s))
      | None =>
          Some (set_thr (reg_l s n) t (set_ld (set_pc th (PGate1 load)) (Some (nextc s))))
      end
  | PLoadWait ch since, AWake =>
      guard (closed s ch) (Some (set_thr s t (set_waited (set_pc th (PStart false)) (Some ch))))
  | PLoadWait ch since, ATimeout => guard (since + t_load_wait <=? now s) (go (PRet RErr))
  | PLoadWait ch since, ACancel => go (PRet RErr)
  | PGate1 load, AGate allow =>
      if allow then (if load then go PLoad else go (PRet RErr)) else go (PRet RErr)
  | PLoad, AStep _ =>
      match store s n with
      | Some c0 =>
          let c := unrevoked c0 in
          Some (set_thr (set_cache s n (cache_add c (cache s n))) t
                        (set_ctx (set_pc th (PMaint c)) (CtxLoaded c)))
      | None => go PObtReg
      end
  | PMaint c, AStep _ =>
      if revoked c then go (PRenReg c)
      else if needs_renew c then
        (if is_none (store s n) then go (PGate2 c) else go (PRenReg c))
      else go (PRet (RCert c))
  | PGate2 c, AGate allow =>
      if allow then go PObtReg
      else go_in (set_cache s n (cache_del c (cache s n))) (PRet RErr)
  | PObtReg, AStep _ =>
      match omap s n with
      | Some ch => go (PObtWait ch (now s))
      | None => Some (set_thr (reg_o s n) t (set_pc th (PObtain (nextc s) (now s))))
      end
  | PObtWait ch since, AWake =>
      guard (closed s ch) (Some (set_thr s t (set_waited (set_pc th (PStart false)) (Some ch))))
  | PObtWait ch since, ATimeout => guard (since + t_obtain_wait <=? now s) (go (PRet RErr))
  | PObtain ch started, AStep _ =>
      (* ObtainCertAsync is a no-op when the bundle exists by now *)
      guard (negb (is_none (store s n))) (go (PObtLoad ch))
  | PObtain ch started, AIssue o =>
      guard (is_none (store s n))
        match o with
        | OOk => go_in (bump_fresh (set_store s n (Some (Cert (fresh s) Valid false)))) (PObtLoad ch)
        | _ => go (PObtUnblock ch RErr)
        end
  | PObtain ch started, ACancel => go (PObtUnblock ch RErr)   (* the caller's context, or its 180 s deadline *)
  | PObtLoad ch, AStep _ =>
      match store s n with
      | Some c0 =>
          let c := unrevoked c0 in
          go_in (set_cache s n (cache_add c (cache s n))) (PObtUnblock ch (RCert c))
      | None => go (PObtUnblock ch RErr)
      end
  | PObtUnblock ch r, AStep _ => go_in (rel_o s n ch) (PRet r)
  | PRenReg c, AStep b =>
      match omap s n with
      | Some ch =>
          if negb (expired c) && negb (revoked c) then go (PRet (RCert c))
          else go (PRenWait ch (now s))
      | None =>
          let ch := nextc s in
          if expired c then Some (set_thr (reg_o s n) t (set_pc th (PRenGate ch c false (now s))))
          else
            guard (negb (Nat.eqb b t) && is_none (thr s b))
              (Some (set_thr (set_thr (reg_o s n) t (set_pc th (PRet (RCert c))))
                             b (Thread n (PRenGate ch c true (now s)) None CtxNone None)))
      end
  | PRenWait ch since, AWake =>
      guard (closed s ch) (Some (set_thr s t (set_waited (set_pc th (PStart false)) (Some ch))))
  | PRenWait ch since, ATimeout => guard (since + t_renew_wait <=? now s) (go (PRet RErr))
  | PRenGate ch c bg st, AGate allow =>
      if allow then go (PRenLoad ch c bg st)
      else go_in (set_cache s n (cache_del c (cache s n))) (PRenUnblock ch c RErr bg)
  | PRenLoad ch c bg st, AStep _ =>
      match store s n with
      | None =>
          if revoked c then go_in (set_cache s n (cache_del c (cache s n))) (PRenUnblock ch c (RCertErr c) bg)
          else go (PRenUnblock ch c RErr bg)
      | Some s0 =>
          if needs_renew s0 || revoked c then go (PRenIssue ch c bg st) else go (PRenReload ch c bg)
      end
  | PRenIssue ch c bg st, AIssue o =>
      match o with
      | OOk => go_in (bump_fresh (set_store s n (Some (Cert (fresh s) Valid false)))) (PRenReload ch c bg)
      | _ =>
          if revoked c then go_in (set_cache s n (cache_del c (cache s n))) (PRenUnblock ch c (RCertErr c) bg)
          else go (PRenUnblock ch c RErr bg)
      end
  | PRenIssue ch c bg st, ACancel =>
      (* a foreground worker runs under the caller's context (90 s deadline at most); a background
         worker under context.Background with the 5 min deadline only *)
      guard (negb bg || (st + t_renew_bg_ctx <=? now s))
        (if revoked c then go_in (set_cache s n (cache_del c (cache s n))) (PRenUnblock ch c (RCertErr c) bg)
         else go (PRenUnblock ch c RErr bg))
  | PRenReload ch c bg, AStep _ =>
      match store s n with
      | Some s0 =>
          let c' := unrevoked s0 in
          go_in (set_cache s n (cache_add c' (cache_del c (cache s n)))) (PRenUnblock ch c (RCert c') bg)
      | None => go (PRenUnblock ch c RErr bg)
      end
  | PRenUnblock ch c r bg, AStep _ =>
      (* a background goroutine just ends (it never holds a load channel) *)
      go_in (rel_o s n ch) (if bg && is_none (t_ld th) then PExit else PRet r)
  | PRet r, AStep _ =>
      match t_ld th with
      | Some ch => Some (set_thr (rel_l s n ch) t (set_ld (set_pc th (PDone (final_res (t_ctx th) r))) None))
      | None => go (PDone (final_res (t_ctx th) r))
      end
  | _, _ => None
  end.

Definition step (s : state) (l : label) : option state :=
  match l with
  | LThread t a => match thr s t with Some th => thread_step s t th a | None => None end
  | LArrive t n =>
      guard (is_none (thr s t)) (Some (set_thr s t (Thread n (PStart true) None CtxNone None)))
  | LTick d => guard (0 <=? d) (Some (tick s d))
  | LStoreDel n => Some (set_store s n None)
  | LStorePut n c => Some (set_store s n (Some c))
  | LEvict n c => Some (set_cache s n (cache_del c (cache s n)))
  | LCacheSet n c => Some (set_cache s n (map (fun x => if cert_eqb x c then c else x) (cache s n)))
  end.

Fixpoint run (s : state) (ls : list label) : option state :=
  match ls with
  | [] => Some s
  | l :: r => match step s l with Some s' => run s' r | None => None end
  end.

Definition init (cache0 : name -> list cert) (store0 : name -> option cert) (fresh0 : nat) : state :=
  State (fun _ => None) (fun _ => None) (fun _ => false) O cache0 store0 (fun _ => None) 0 fresh0.

(** ** vocabulary of the theorems *)

(** the channel a goroutine waits on *)
Definition waits_on (p : pc) : option chan :=
  match p with
  | PLoadWait ch _ | PObtWait ch _ | PRenWait ch _ => Some ch
  | _ => None
  end.
(** the obtain-map channel a goroutine owns (it registered it and has not released it yet) *)
Definition owns_o (p : pc) : option chan :=
  match p with
  | PObtain ch _ | PObtLoad ch | PObtUnblock ch _
  | PRenGate ch _ _ _ | PRenLoad ch _ _ _ | PRenIssue ch _ _ _ | PRenReload ch _ _ | PRenUnblock ch _ _ _ => Some ch
  | _ => None
  end.
Definition finished (p : pc) : bool := match p with PDone _ | PExit => true | _ => false end.

(** ** macro steps for the lock-step correspondence: the harness holds goroutines at "gates"
    (DecisionFunc, the existence check of handshakeMaintenance, first read of the name's bundle,
    Issuer.Issue) and lets everything else run *)
Definition at_gate (s : state) (th : thread) : bool :=
  match t_pc th with
  | PGate1 _ | PGate2 _ | PLoad | PObtLoad _
  | PRenGate _ _ _ _ | PRenLoad _ _ _ _ | PRenIssue _ _ _ _ | PRenReload _ _ _ => true
  | PObtain _ _ => is_none (store s (t_name th))
  | PMaint c => needs_renew c && negb (revoked c)   (* the storage existence check of renewIfNecessary *)
  | _ => false
  end.

(** the step a goroutine takes on its own when it is not held at a gate *)
Definition auto_act (s : state) (th : thread) (b : tid) : option act :=
  if at_gate s th then None
  else match t_pc th with
       | PLoadWait ch _ | PObtWait ch _ | PRenWait ch _ => if closed s ch then Some AWake else None
       | PDone _ | PExit => None
       | _ => Some (AStep b)
       end.

(** run goroutine t until it stops (gate, unsatisfied wait, end) *)
Fixpoint run_thread (fuel : nat) (s : state) (t : tid) (b : tid) : state :=
  match fuel with
  | O => s
  | S f =>
      match thr s t with
      | Some th =>
          match auto_act s th b with
          | Some a => match thread_step s t th a with
                      | Some s' => run_thread f s' t b
                      | None => s
                      end
          | None => s
          end
      | None => s
      end
  end.

(** all goroutines, in the given order, round after round *)
Fixpoint settle (rounds : nat) (s : state) (order : list tid) (b : tid) : state :=
  match rounds with
  | O => s
  | S r => settle r (fold_left (fun st t => run_thread 40 st t b) order s) order b
  end.
