(** Correspondence for C13: lock-step runs of 2-6 real handshake goroutines.  The harness holds
    goroutines at gates (DecisionFunc, first read of the name's bundle, Issuer.Issue), releases
    one at a time with a chosen outcome, waits until every goroutine is provably blocked again
    (at a gate, in one of the three waiting selects, or finished) and records where each one is and
    which names the two wait maps hold.  The model replays the same releases ([settle]) and must
    be in the same positions; independently, [spec_ok] judges the implementation's observations. *)
From Coq Require Import List NArith ZArith Bool Lia.
From CM Require Import Lib.Wire Gen.Consts SingleFlight.Model.
Import ListNotations.
Open Scope Z_scope.

(** where a goroutine is, as the harness can see it *)
Inductive pos :=
| AtDecision | AtLoad | AtIssue | AtExists
| WaitLoad | WaitObtain | WaitRenew
| DoneCert (g : nat) | DoneEmpty | DoneErr | Exited
| Running.     (* never observed at quiescence *)

Definition pos_eqb (a b : pos) : bool :=
  match a, b with
  | AtDecision, AtDecision | AtLoad, AtLoad | AtIssue, AtIssue | AtExists, AtExists
  | WaitLoad, WaitLoad | WaitObtain, WaitObtain | WaitRenew, WaitRenew
  | DoneEmpty, DoneEmpty | DoneErr, DoneErr | Exited, Exited | Running, Running => true
  | DoneCert g, DoneCert h => Nat.eqb g h
  | _, _ => false
  end.

Definition pos_of (s : state) (th : thread) : pos :=
  match t_pc th with
  | PGate1 _ | PGate2 _ | PRenGate _ _ _ _ => AtDecision
  | PLoad | PObtLoad _ | PRenLoad _ _ _ _ | PRenReload _ _ _ => AtLoad
  | PRenIssue _ _ _ _ => AtIssue
  | PMaint _ => if at_gate s th then AtExists else Running
  | PObtain _ _ => if at_gate s th then AtIssue else Running
  | PLoadWait _ _ => WaitLoad
  | PObtWait _ _ => WaitObtain
  | PRenWait _ _ => WaitRenew
  | PDone (RCert c) => DoneCert (gen c)
  | PDone REmpty => DoneEmpty
  | PDone _ => DoneErr
  | PExit => Exited
  | _ => Running
  end.

Definition is_wait (p : pos) : bool := match p with WaitLoad | WaitObtain | WaitRenew => true | _ => false end.
Definition is_gate (p : pos) : bool := match p with AtDecision | AtLoad | AtIssue | AtExists => true | _ => false end.
Definition is_done (p : pos) : bool :=
  match p with DoneCert _ | DoneEmpty | DoneErr | Exited => true | _ => false end.

(** one macro step of the harness and what it saw afterwards *)
Inductive mlabel :=
| MArrive (t : tid) (n : name)
| MRelease (t : tid) (a : act)
| MSetCert (n : name) (c : cert)      (* the harness changes the state of a cached certificate (revokes it) *)
| MEvictCert (n : name) (c : cert).   (* the harness removes a certificate from the cache (Cache.Remove: what a
                                         capacity eviction or RemoveManaged does), typically the one under renewal *)

Record seen := Seen {
  s_pos : list (tid * name * pos);   (* every goroutine so far *)
  s_lmap : list name;                (* names in certLoadWaitChans *)
  s_omap : list name                 (* names in obtainCertWaitChans *)
}.

Record mstep := MStep { m_label : mlabel; m_spawn : tid; m_order : list tid; m_seen : seen }.

Definition apply_label (s : state) (l : mlabel) : option state :=
  match l with
  | MArrive t n => step s (LArrive t n)
  | MRelease t a => step s (LThread t a)
  | MSetCert n c => step s (LCacheSet n c)
  | MEvictCert n c => step s (LEvict n c)
  end.

Definition names_in (m : name -> option chan) (names : list name) : list name :=
  filter (fun n => match m n with Some _ => true | None => false end) names.

Fixpoint nat_list_eqb (a b : list nat) : bool :=
  match a, b with
  | [], [] => true
  | x :: a', y :: b' => Nat.eqb x y && nat_list_eqb a' b'
  | _, _ => false
  end.

Definition agree (s : state) (names : list name) (o : seen) : bool :=
  forallb (fun tnp => match tnp with
                      | (t, n, p) => match thr s t with
                                     | Some th => Nat.eqb (t_name th) n && pos_eqb (pos_of s th) p
                                     | None => false
                                     end
                      end) (s_pos o) &&
  nat_list_eqb (names_in (lmap s) names) (s_lmap o) &&
  nat_list_eqb (names_in (omap s) names) (s_omap o).

Fixpoint replay (s : state) (names : list name) (ms : list mstep) : bool :=
  match ms with
  | [] => true
  | m :: r =>
      match apply_label s (m_label m) with
      | None => false
      | Some s1 =>
          let s2 := settle 6 s1 (m_order m) (m_spawn m) in
          agree s2 names (m_seen m) && replay s2 names r
      end
  end.

(** ** the specification, on the implementation's observations and the harness's own choices *)

Definition count {A} (f : A -> bool) (l : list A) : nat := length (filter f l).
Definition of_name (n : name) (x : tid * name * pos) : bool := Nat.eqb (snd (fst x)) n.
Definition mem_nat (n : nat) (l : list nat) : bool := existsb (Nat.eqb n) l.

(** at one quiescent point *)
Definition point_ok (names : list name) (o : seen) : bool :=
  forallb (fun n =>
    let ps := map snd (filter (of_name n) (s_pos o)) in
    (* at most one goroutine per name is at the issuer, and none is blocked anywhere else than in
       the three waiting selects (e.g. on the storage lock behind another worker) *)
    (count (fun p => match p with AtIssue => true | _ => false end) ps <=? 1)%nat &&
    negb (existsb (fun p => match p with Running => true | _ => false end) ps) &&
    (* no handshake has returned the empty certificate (no chain / no private key) with a nil error *)
    negb (existsb (fun p => match p with DoneEmpty => true | _ => false end) ps) &&
    (* a goroutine waits only on a channel that is still registered ... *)
    (negb (existsb (fun p => match p with WaitLoad => true | _ => false end) ps) || mem_nat n (s_lmap o)) &&
    (negb (existsb (fun p => match p with WaitObtain | WaitRenew => true | _ => false end) ps) || mem_nat n (s_omap o)) &&
    (* ... and somebody who is not waiting is there to release it (nobody is left hanging) *)
    (negb (existsb is_wait ps) || existsb is_gate ps) &&
    (* a registration has a live goroutine behind it *)
    (negb (mem_nat n (s_lmap o) || mem_nat n (s_omap o)) || existsb (fun p => negb (is_done p)) ps))
  names.

(** scenario flags sent by the harness: what the name's certificate was at the start *)
Record scen := Scen {
  sc_serve_current : bool;    (* cached, in the renewal window, unexpired, unrevoked, bundle in storage *)
  sc_expired : bool;          (* cached and expired, bundle in storage *)
  sc_old_gen : nat;           (* generation of the initially cached certificate *)
  sc_name : name              (* the name it is for *)
}.

Definition label_is_bad (l : mlabel) : bool :=
  match l with
  | MRelease _ (AGate false) | MRelease _ (AIssue OFail) | MRelease _ (AIssue OCancel) | MRelease _ ACancel => true
  | _ => false
  end.

(** a failure chosen by the harness, or its removal of a certificate from the cache: after either,
    "everybody is served the current certificate at once" can no longer be expected *)
Definition label_disturbs (l : mlabel) : bool :=
  label_is_bad l || match l with MEvictCert _ _ => true | _ => false end.

(** the goroutine a label acts on *)
Definition label_tid (l : mlabel) : tid := match l with MArrive t _ | MRelease t _ => t | MSetCert _ _ | MEvictCert _ _ => O end.
Definition name_of (o : seen) (t : tid) : option name :=
  match find (fun x => Nat.eqb (fst (fst x)) t) (s_pos o) with Some x => Some (snd (fst x)) | None => None end.

(** over the whole run; [arrived] = the handshake goroutines so far (not the background ones),
    [waited] = those that have been seen waiting, [wflag] = for each goroutine that has been seen
    waiting: has an attempt for the scenario's name been denied / failed / been cancelled since it was
    first seen waiting *)
Fixpoint run_ok (sc : scen) (names : list name) (bad_before : bool) (arrived waited : list tid)
                (wflag oflag : list (tid * bool)) (issued : list name) (ms : list mstep) : bool :=
  match ms with
  | [] => true
  | m :: r =>
      let o := m_seen m in
      let bad := bad_before || label_disturbs (m_label m) in
      let bad_here := label_is_bad (m_label m) &&
                      match name_of o (label_tid (m_label m)) with Some n => Nat.eqb n (sc_name sc) | None => true end in
      let arrived' := match m_label m with MArrive t _ => t :: arrived | _ => arrived end in
      let now_waiting := map (fun x => fst (fst x)) (filter (fun x => is_wait (snd x)) (s_pos o)) in
      let waited' := now_waiting ++ waited in
      let wflag1 := map (fun tb => (fst tb, snd tb || bad_here)) wflag in
      let wflag' := map (fun t => (t, false)) (filter (fun t => negb (mem_nat t (map fst wflag1))) now_waiting) ++ wflag1 in
      (* the same for the goroutines seen waiting on the obtain map (for an obtain / a renewal) *)
      let now_owaiting := map (fun x => fst (fst x))
                              (filter (fun x => match snd x with WaitObtain | WaitRenew => true | _ => false end) (s_pos o)) in
      let oflag1 := map (fun tb => (fst tb, snd tb || bad_here)) oflag in
      let oflag' := map (fun t => (t, false)) (filter (fun t => negb (mem_nat t (map fst oflag1))) now_owaiting) ++ oflag1 in
      (* names for which the issuer has delivered a certificate that has not been revoked since *)
      let issued' :=
        match m_label m with
        | MRelease t (AIssue OOk) => match name_of o t with Some n => n :: issued | None => issued end
        | MSetCert n _ => filter (fun x => negb (Nat.eqb x n)) issued
        | _ => issued
        end in
      point_ok names o &&
      (* at most one performs the work, the issuer is asked once per renewal: once it has delivered
         for a name, nobody is at the issuer for that name again (the certificate in storage is not
         due: renewCert re-checks under its lock) until that certificate is revoked in turn *)
      forallb (fun x => match snd x with AtIssue => negb (mem_nat (snd (fst x)) issued') | _ => true end) (s_pos o) &&
      (* the others wait for the worker and then use what it left: a goroutine that has waited
         never goes to storage or to the issuer itself afterwards (it re-enters with loading off) *)
      forallb (fun x => negb (mem_nat (fst (fst x)) waited) ||
                        match snd x with AtLoad | AtIssue => false | _ => true end) (s_pos o) &&
      (* while an unexpired certificate is being renewed and nothing has been denied or failed:
         every handshake for the name has been answered with a certificate by the time things come
         to rest — it neither waits nor is it held up by any policy / issuer call or bundle read (the
         harness may hold it at the existence check of its own maintenance: storage latency) *)
      (negb (sc_serve_current sc) || bad ||
       forallb (fun x => negb (mem_nat (fst (fst x)) arrived') ||
                         match snd x with DoneCert _ | AtExists => true | _ => false end)
               (filter (of_name (sc_name sc)) (s_pos o))) &&
      (* an expired certificate is not served while its renewal can still succeed, and the others
         get the new certificate: a handshake answered with the initially cached, expired certificate
         has waited, and since it was first seen waiting an attempt for the name has been denied,
         has failed or was cancelled — never after a wait during which every attempt succeeded *)
      (negb (sc_expired sc) ||
       forallb (fun x => match snd x with
                         | DoneCert g =>
                             negb (Nat.eqb g (sc_old_gen sc)) ||
                             existsb (fun tb => Nat.eqb (fst tb) (fst (fst x)) && snd tb) wflag'
                         | _ => true
                         end)
               (filter (of_name (sc_name sc)) (s_pos o))) &&
      (* the waiters of a successful attempt find its result: a handshake for the name that has been
         seen waiting for an obtain / a renewal ends with an error only if an attempt for the name has been denied, has failed or
         was cancelled since it was first seen waiting — whatever happened to the cache meanwhile (the
         worker's reload inserts the new certificate also when the old one has been evicted) *)
      forallb (fun x => match snd x with
                        | DoneErr =>
                            negb (mem_nat (fst (fst x)) (map fst oflag')) ||
                            existsb (fun tb => Nat.eqb (fst tb) (fst (fst x)) && snd tb) oflag'
                        | _ => true
                        end)
              (filter (of_name (sc_name sc)) (s_pos o)) &&
      run_ok sc names bad arrived' waited' wflag' oflag' issued' r
  end.

(** at the end: everybody finished, both maps empty *)
Definition end_ok (ms : list mstep) : bool :=
  match last (map Some ms) None with
  | Some m => forallb (fun x => is_done (snd x)) (s_pos (m_seen m)) &&
              match s_lmap (m_seen m), s_omap (m_seen m) with [], [] => true | _, _ => false end
  | None => true
  end.

(** one shared renewal that completes: in the serve-current scenario (cached certificate due,
    unexpired, unrevoked, bundle in storage), when every goroutine has finished, nothing was denied,
    failed or cancelled by the harness, and a handshake for the name has arrived, then the issuer has
    delivered: the background renewal is not tied to the handshake that started it (whose context
    is cancelled as soon as it returns) *)
Definition delivered_ok (sc : scen) (ms : list mstep) : bool :=
  negb (sc_serve_current sc) ||
  existsb (fun m => label_disturbs (m_label m)) ms ||
  negb (existsb (fun m => match m_label m with MArrive _ n => Nat.eqb n (sc_name sc) | _ => false end) ms) ||
  existsb (fun m => match m_label m with MRelease _ (AIssue OOk) => true | _ => false end) ms.

Definition spec_ok (sc : scen) (names : list name) (complete : bool) (ms : list mstep) : bool :=
  run_ok sc names false [] [] [] [] [] ms && (negb complete || (end_ok ms && delivered_ok sc ms)).

(** ** wire decoding *)
Definition get_cls : dec cls :=
  (t <- get_n ;; match t with 0%N => ret Valid | 1%N => ret Due | 2%N => ret Expired | _ => fun _ => None end).
Definition get_cert_w : dec cert := (g <- get_nat ;; c <- get_cls ;; r <- get_bool ;; ret (Cert g c r)).
Definition get_act : dec act :=
  (t <- get_n ;;
   match t with
   | 1%N => b <- get_bool ;; ret (AGate b)
   | 2%N => o <- get_n ;; ret (AIssue (match o with 0%N => OOk | 1%N => OFail | _ => OCancel end))
   | 3%N => ret (AStep O)
   | 4%N => ret ACancel
   | _ => fun _ => None
   end).
Definition get_pos : dec pos :=
  (t <- get_n ;;
   match t with
   | 0%N => ret AtDecision | 1%N => ret AtLoad | 2%N => ret AtIssue
   | 3%N => ret WaitLoad | 4%N => ret WaitObtain | 5%N => ret WaitRenew
   | 6%N => g <- get_nat ;; ret (DoneCert g)
   | 7%N => ret DoneEmpty | 8%N => ret DoneErr | 9%N => ret Exited
   | 11%N => ret AtExists
   | _ => ret Running
   end).
Definition get_mlabel : dec mlabel :=
  (t <- get_n ;;
   match t with
   | 0%N => i <- get_nat ;; n <- get_nat ;; ret (MArrive i n)
   | 1%N => i <- get_nat ;; a <- get_act ;; ret (MRelease i a)
   | 2%N => n <- get_nat ;; c <- get_cert_w ;; ret (MSetCert n c)
   | 3%N => n <- get_nat ;; c <- get_cert_w ;; ret (MEvictCert n c)
   | _ => fun _ => None
   end).
Definition get_seen : dec seen :=
  (ps <- get_list (get_pair (get_pair get_nat get_nat) get_pos) ;;
   l <- get_list get_nat ;; o <- get_list get_nat ;; ret (Seen ps l o)).
Definition get_mstep : dec mstep :=
  (l <- get_mlabel ;; b <- get_nat ;; ord <- get_list get_nat ;; o <- get_seen ;; ret (MStep l b ord o)).

Fixpoint assoc_nat {A} (l : list (nat * A)) (k : nat) : option A :=
  match l with
  | [] => None
  | (x, v) :: r => if Nat.eqb x k then Some v else assoc_nat r k
  end.

Record ccase := CCase {
  k_scen : scen; k_names : list name; k_complete : bool;
  k_cache : list (name * list cert); k_store : list (name * cert); k_fresh : nat;
  k_steps : list mstep }.

Definition get_case : dec ccase :=
  (sv <- get_bool ;; ex <- get_bool ;; og <- get_nat ;; names <- get_list get_nat ;; comp <- get_bool ;;
   ca <- get_list (get_pair get_nat (get_list get_cert_w)) ;;
   so <- get_list (get_pair get_nat get_cert_w) ;; fr <- get_nat ;;
   ms <- get_list get_mstep ;;
   ret (CCase (Scen sv ex og O) names comp ca so fr ms)).

Definition init_of (c : ccase) : state :=
  init (fun n => match assoc_nat (k_cache c) n with Some l => l | None => [] end)
       (assoc_nat (k_store c)) (k_fresh c).

Definition check_line (l : list Z) : Z :=
  match decode get_case l with
  | Some c => code (replay (init_of c) (k_names c) (k_steps c))
                   (spec_ok (k_scen c) (k_names c) (k_complete c) (k_steps c))
  | None => code_decode_error
  end.

(** diagnostics: after each macro step, the model's position code of every goroutine the harness
    listed (same numbering as the wire), then -1, the load-map names, -2, the obtain-map names, -3 *)
Definition pos_code (p : pos) : list Z :=
  match p with
  | AtDecision => [0] | AtLoad => [1] | AtIssue => [2]
  | WaitLoad => [3] | WaitObtain => [4] | WaitRenew => [5]
  | DoneCert g => [6; Z.of_nat g] | DoneEmpty => [7] | DoneErr => [8] | Exited => [9] | Running => [10]
  | AtExists => [11]
  end.
Fixpoint explain_steps (s : state) (names : list name) (ms : list mstep) : list Z :=
  match ms with
  | [] => []
  | m :: r =>
      match apply_label s (m_label m) with
      | None => [-9]
      | Some s1 =>
          let s2 := settle 6 s1 (m_order m) (m_spawn m) in
          flat_map (fun tnp => match thr s2 (fst (fst tnp)) with
                               | Some th => pos_code (pos_of s2 th)
                               | None => [-8]
                               end) (s_pos (m_seen m)) ++
          [-1] ++ map Z.of_nat (names_in (lmap s2) names) ++ [-2] ++ map Z.of_nat (names_in (omap s2) names) ++ [-3] ++
          explain_steps s2 names r
      end
  end.
Definition explain_line (l : list Z) : list Z :=
  match decode get_case l with
  | Some c => explain_steps (init_of c) (k_names c) (k_steps c)
  | None => []
  end.
