(** The reverse-mapping name ([rev_name], = dns.ReverseAddr on the address bytes) is injective:
    different addresses never share a TLS-ALPN-01 challenge key. *)
From Coq Require Import Lia.
From CM Require Import Lib.Str Challenge.Model.
Open Scope N_scope.

Definition bytes (b : list N) : Prop := Forall (fun x => x < 256) b.

Definition range256 : list N := map N.of_nat (seq 0 256).
Lemma in_range256 x : x < 256 -> In x range256.
Proof.
  intros H. unfold range256. rewrite <- (N2Nat.id x). apply in_map. apply in_seq. lia.
Qed.

(** facts about [dec3] and [hexd] below 256 / 16, by exhaustive evaluation *)
Lemma dec3_table :
  forallb (fun x => forallb (fun c => negb (c =? 46)) (dec3 x) &&
                    forallb (fun y => implb (str_eqb (dec3 x) (dec3 y)) (x =? y)) range256) range256 = true.
Proof. vm_compute. reflexivity. Qed.

Lemma dec3_nodot x : x < 256 -> forall c, In c (dec3 x) -> c <> 46.
Proof.
  intros Hx c Hc. pose proof dec3_table as T. rewrite forallb_forall in T.
  specialize (T x (in_range256 x Hx)). apply andb_true_iff in T. destruct T as [T _].
  rewrite forallb_forall in T. specialize (T c Hc). apply negb_true_iff in T. apply N.eqb_neq in T. exact T.
Qed.
Lemma dec3_inj x y : x < 256 -> y < 256 -> dec3 x = dec3 y -> x = y.
Proof.
  intros Hx Hy E. pose proof dec3_table as T. rewrite forallb_forall in T.
  specialize (T x (in_range256 x Hx)). apply andb_true_iff in T. destruct T as [_ T].
  rewrite forallb_forall in T. specialize (T y (in_range256 y Hy)).
  rewrite E, (proj2 (str_eqb_eq _ _) eq_refl) in T. cbn in T. apply N.eqb_eq. exact T.
Qed.

(** splitting at the first dot *)
Fixpoint span_dot (s : str) : str * str :=
  match s with
  | [] => ([], [])
  | c :: r => if c =? 46 then ([], r) else let '(a, b) := span_dot r in (c :: a, b)
  end.
Lemma span_dot_app l r : (forall c, In c l -> c <> 46) -> span_dot (l ++ 46 :: r) = (l, r).
Proof.
  induction l as [|c l IH]; intros H; cbn [app span_dot].
  - rewrite N.eqb_refl. reflexivity.
  - destruct (N.eqb_spec c 46) as [E|_]; [exfalso; exact (H c (or_introl eq_refl) E)|].
    rewrite IH by (intros c' Hc'; apply H; right; exact Hc'). reflexivity.
Qed.

Lemma v4_label_inj x y r1 r2 : x < 256 -> y < 256 ->
  v4_label x ++ r1 = v4_label y ++ r2 -> x = y /\ r1 = r2.
Proof.
  intros Hx Hy E. unfold v4_label in E. rewrite <- !app_assoc in E. cbn [app] in E.
  apply (f_equal span_dot) in E.
  rewrite (span_dot_app _ _ (dec3_nodot x Hx)), (span_dot_app _ _ (dec3_nodot y Hy)) in E.
  injection E; intros E2 E1. split; [exact (dec3_inj x y Hx Hy E1)|exact E2].
Qed.

Lemma v4_concat_inj l1 : forall l2 t, bytes l1 -> bytes l2 -> length l1 = length l2 ->
  concat (map v4_label l1) ++ t = concat (map v4_label l2) ++ t -> l1 = l2.
Proof.
  induction l1 as [|x l1 IH]; intros [|y l2] t B1 B2 L E; try discriminate; [reflexivity|].
  cbn [map concat] in E. rewrite <- !app_assoc in E.
  inversion B1 as [|? ? Hx B1']; inversion B2 as [|? ? Hy B2']; subst.
  destruct (v4_label_inj x y _ _ Hx Hy E) as [-> E'].
  f_equal. apply (IH l2 t B1' B2'); [cbn in L; lia|exact E'].
Qed.

Lemma hexd_inj a b : a < 16 -> b < 16 -> hexd a = hexd b -> a = b.
Proof.
  unfold hexd. intros Ha Hb. destruct (N.ltb_spec a 10), (N.ltb_spec b 10); lia.
Qed.

Lemma v6_concat_inj l1 : forall l2 t, bytes l1 -> bytes l2 -> length l1 = length l2 ->
  concat (map v6_labels l1) ++ t = concat (map v6_labels l2) ++ t -> l1 = l2.
Proof.
  induction l1 as [|x l1 IH]; intros [|y l2] t B1 B2 L E; try discriminate; [reflexivity|].
  cbn [map concat v6_labels app] in E.
  inversion B1 as [|? ? Hx B1']; inversion B2 as [|? ? Hy B2']; subst.
  injection E; intros E' Ehi Elo.
  assert (x mod 16 = y mod 16) as Em.
  { apply hexd_inj; [apply N.mod_lt; lia|apply N.mod_lt; lia|exact Elo]. }
  assert (x / 16 = y / 16) as Ed.
  { apply hexd_inj; [apply N.div_lt_upper_bound; lia|apply N.div_lt_upper_bound; lia|exact Ehi]. }
  assert (x = y) as -> by (rewrite (N.div_mod x 16), (N.div_mod y 16) by lia; rewrite Em, Ed; reflexivity).
  f_equal. apply (IH l2 t B1' B2'); [cbn in L; lia|exact E'].
Qed.

Lemma rev_inj {A} (a b : list A) : rev a = rev b -> a = b.
Proof. intros H. rewrite <- (rev_involutive a), <- (rev_involutive b), H. reflexivity. Qed.
Lemma bytes_rev b : bytes b -> bytes (rev b).
Proof. unfold bytes. intros H. apply Forall_forall. intros x Hx. apply in_rev in Hx. rewrite Forall_forall in H. exact (H x Hx). Qed.

(** the two suffixes differ seven characters from the end ('r' of in-addr vs '6' of ip6) *)
Lemma suffixes_differ a b : a ++ s_in_addr_arpa <> b ++ s_ip6_arpa.
Proof.
  intros E. apply (f_equal (@rev N)) in E. rewrite !rev_app_distr in E.
  cbn [rev s_in_addr_arpa s_ip6_arpa app] in E. injection E. intros. discriminate.
Qed.

Theorem rev_name_injective b1 b2 n : bytes b1 -> bytes b2 ->
  rev_name b1 = Some n -> rev_name b2 = Some n -> b1 = b2.
Proof.
  intros B1 B2 H1 H2. unfold rev_name in *.
  destruct (Nat.eq_dec (length b1) 4) as [L1|N1].
  - rewrite L1 in H1. injection H1; intros <-.
    destruct (Nat.eq_dec (length b2) 4) as [L2|N2].
    + rewrite L2 in H2. injection H2; intros E.
      symmetry in E. apply rev_inj.
      apply (v4_concat_inj _ _ s_in_addr_arpa (bytes_rev _ B1) (bytes_rev _ B2)); [rewrite !rev_length; lia|exact E].
    + destruct (Nat.eq_dec (length b2) 16) as [L2|N3].
      * rewrite L2 in H2. injection H2; intros E. exfalso. symmetry in E. exact (suffixes_differ _ _ E).
      * exfalso. destruct (length b2) as [|[|[|[|[|[|[|[|[|[|[|[|[|[|[|[|[|k]]]]]]]]]]]]]]]]]; try discriminate; lia.
  - destruct (Nat.eq_dec (length b1) 16) as [L1|N1'].
    + rewrite L1 in H1. injection H1; intros <-.
      destruct (Nat.eq_dec (length b2) 4) as [L2|N2].
      * rewrite L2 in H2. injection H2; intros E. exfalso. exact (suffixes_differ _ _ E).
      * destruct (Nat.eq_dec (length b2) 16) as [L2|N3].
        -- rewrite L2 in H2. injection H2; intros E. symmetry in E.
           apply rev_inj. apply (v6_concat_inj _ _ s_ip6_arpa (bytes_rev _ B1) (bytes_rev _ B2)); [rewrite !rev_length; lia|exact E].
        -- exfalso. destruct (length b2) as [|[|[|[|[|[|[|[|[|[|[|[|[|[|[|[|[|k]]]]]]]]]]]]]]]]]; try discriminate; lia.
    + exfalso. destruct (length b1) as [|[|[|[|[|[|[|[|[|[|[|[|[|[|[|[|[|k]]]]]]]]]]]]]]]]]; try discriminate; lia.
Qed.

(** a reverse-mapping name ends with the dot that [challenge_key] strips *)
Lemma rev_name_ends_dot b n : rev_name b = Some n -> exists m, n = m ++ [46].
Proof.
  unfold rev_name. intros H.
  destruct (length b) as [|[|[|[|[|[|[|[|[|[|[|[|[|[|[|[|[|k]]]]]]]]]]]]]]]]]; try discriminate;
    injection H; intros <-.
  - exists (concat (map v4_label (rev b)) ++ removelast s_in_addr_arpa). rewrite <- app_assoc. reflexivity.
  - exists (concat (map v6_labels (rev b)) ++ removelast s_ip6_arpa). rewrite <- app_assoc. reflexivity.
Qed.

(** two TLS-ALPN-01 challenges for IP identifiers with the same key are for the same address *)
Theorem ip_challenge_key_injective c1 c2 b1 b2 :
  c_type c1 = TTlsAlpn -> c_type c2 = TTlsAlpn -> c_is_ip c1 = true -> c_is_ip c2 = true ->
  bytes b1 -> bytes b2 -> c_rev c1 = rev_name b1 -> c_rev c2 = rev_name b2 ->
  c_rev c1 <> None -> c_rev c2 <> None ->
  challenge_key c1 = challenge_key c2 -> b1 = b2.
Proof.
  intros T1 T2 I1 I2 B1 B2 R1 R2 N1 N2. unfold challenge_key. rewrite T1, T2, I1, I2.
  destruct (c_rev c1) as [n1|] eqn:E1; [|congruence]. destruct (c_rev c2) as [n2|] eqn:E2; [|congruence].
  intros K. symmetry in R1, R2.
  destruct (rev_name_ends_dot _ _ R1) as [m1 ->]. destruct (rev_name_ends_dot _ _ R2) as [m2 ->].
  rewrite !removelast_last in K. subst m2. exact (rev_name_injective b1 b2 _ B1 B2 R1 R2).
Qed.
