(** Correspondence for C15: a case is a history of Present/CleanUp calls made on the real
    solvers (plus storage faults), the resulting memory / storage as observed through the hooks,
    one request (HTTP or ClientHello) and what the real handler / GetCertificate did with it.
    [check_line] compares the model's state and answer with the observation and, independently,
    evaluates the specification ([http_spec] / [alpn_spec]) on the observation. *)
From CM Require Import Lib.Str Lib.Wire Gen.Consts Safe.Model Challenge.Assoc Challenge.Model.
Open Scope N_scope.

Inductive query :=
| QHttp (disabled load_fault : bool) (r : hreq) (obs : option str)
| QHello (load_fault : bool) (sni : str) (protos : list str) (obs : alpn_res).

Record case := Case {
  k_lt : list (N * N); k_st : list N; k_ft : list (N * N);
  k_issuers : list str;
  k_ops : list cop;
  k_mem : list (str * bool);       (* observed activeChallenges: key, data != nil *)
  k_store : list str;              (* observed storage keys *)
  k_query : query
}.

Definition get_ctype : dec ctype :=
  (t <- get_n ;; ret (match t with 0 => THttp | 1 => TTlsAlpn | 2 => TDns | _ => TOther end)).
Definition get_chal : dec chal :=
  (t <- get_ctype ;; tok <- get_str ;; ka <- get_str ;; ip <- get_bool ;; id <- get_str ;;
   ipb <- get_opt get_str ;; ret (Chal t tok ka ip id (rev_of_ip ipb))).
Definition get_place : dec place :=
  (t <- get_n ;; ret (match t with 0 => WLocal | 1 => WRemote | _ => WMem end)).
Definition get_op : dec cop :=
  (t <- get_n ;;
   match t with
   | 0 => w <- get_place ;; j <- get_nat ;; c <- get_chal ;; ret (Present w j c)
   | 1 => w <- get_place ;; j <- get_nat ;; c <- get_chal ;; ret (Clean w j c)
   | 2 => j <- get_nat ;; nm <- get_str ;; v <- get_n ;;
          ret (Tamper j nm (match v with 0 => None | 1 => Some SCorrupt | _ => Some SEmpty end))
   | _ => ret Ask
   end).
Definition get_query : dec query :=
  (t <- get_n ;;
   match t with
   | 0 => d <- get_bool ;; lf <- get_bool ;; m <- get_str ;; p <- get_str ;; h <- get_str ;;
          o <- get_opt get_str ;; ret (QHttp d lf (HReq m p h) o)
   | _ => lf <- get_bool ;; sni <- get_str ;; pr <- get_list get_str ;; cls <- get_n ;;
          oc <- get_opt get_chal ;;
          ret (QHello lf sni pr (match cls, oc with
                                 | 0, Some c => AChal c
                                 | 1, _ => AErr
                                 | 2, _ => ANormal
                                 | _, _ => AChal (Chal TOther [] [] false [] None)   (* unclassifiable: agrees with nothing *)
                                 end))
   end).
Definition get_case : dec case :=
  (lt <- get_list (get_pair get_n get_n) ;; st <- get_list get_n ;; ft <- get_list (get_pair get_n get_n) ;;
   iss <- get_list get_str ;; ops <- get_list get_op ;;
   m <- get_list (get_pair get_str get_bool) ;; s <- get_list get_str ;; q <- get_query ;;
   ret (Case lt st ft iss ops m s q)).

Section Run.
  Variable c : case.
  Let lower := tbl_lower (k_lt c).
  Let is_space := tbl_space (k_st c).
  Let sf := safe lower is_space.
  Let feq := tbl_feq (k_ft c).
  Let iss := k_issuers c.

  Definition final : cstate := run sf iss (k_ops c).

  Definition alpn_res_eqb (a b : alpn_res) : bool :=
    match a, b with
    | AChal x, AChal y => chal_eqb x y
    | AErr, AErr | ANormal, ANormal => true
    | _, _ => false
    end.
  Definition opt_str_eqb (a b : option str) : bool := ostr_eqb a b.

  (** set equality of duplicate-free lists *)
  Definition same_set {A} (eqb : A -> A -> bool) (a b : list A) : bool :=
    Nat.eqb (length a) (length b) && forallb (fun x => existsb (eqb x) b) a.

  Definition model_mem : list (str * bool) := map (fun e => (fst e, snd (snd e))) (mem final).
  Definition model_store : list str :=
    map (fun e => challenge_tokens_key lower is_space (fst (fst e)) (snd (fst e))) (store final).
  Definition pair_eqb (a b : str * bool) : bool := str_eqb (fst a) (fst b) && Bool.eqb (snd a) (snd b).

  Definition state_agrees : bool :=
    same_set pair_eqb model_mem (k_mem c) && same_set str_eqb model_store (k_store c).

  Definition answer_agrees : bool :=
    match k_query c with
    | QHttp d lf r o => opt_str_eqb (http_handle sf feq iss d lf final r) o
    | QHello lf sni pr o => alpn_res_eqb (alpn_get sf feq iss lf final sni pr) o
    end.

  Definition spec_ok : bool :=
    match k_query c with
    | QHttp d lf r o => http_spec sf feq iss (k_ops c) d lf r o
    | QHello lf sni pr o => alpn_spec sf feq iss (k_ops c) lf sni pr o
    end.
End Run.

Definition check_line (l : list Z) : Z :=
  match decode get_case l with
  | Some c => code (state_agrees c && answer_agrees c) (spec_ok c)
  | None => code_decode_error
  end.

(** diagnostics: [state_agrees; answer_agrees; spec_ok; wf; #pending; answer tag; answer body/keyauth] *)
Definition explain_line (l : list Z) : list Z :=
  match decode get_case l with
  | Some c =>
      let sf := safe (tbl_lower (k_lt c)) (tbl_space (k_st c)) in
      let b2z (b : bool) : Z := if b then 1%Z else 0%Z in
      [b2z (state_agrees c); b2z (answer_agrees c); b2z (spec_ok c);
       b2z (wf sf (k_issuers c) (k_ops c)); Z.of_nat (length (pending (k_ops c)))] ++
      match k_query c with
      | QHttp d lf r _ =>
          match http_handle sf (tbl_feq (k_ft c)) (k_issuers c) d lf (final c) r with
          | Some b => 1%Z :: put_str b
          | None => [0%Z]
          end
      | QHello lf sni pr _ =>
          match alpn_get sf (tbl_feq (k_ft c)) (k_issuers c) lf (final c) sni pr with
          | AChal x => 10%Z :: put_str (c_keyauth x)
          | AErr => [11%Z]
          | ANormal => [12%Z]
          end
      end ++ (99%Z :: concat (map put_str (model_store c)))
  | None => []
  end.
