(** What the Challenge model hard-codes about the shape of the code, stated against the facts the
    translator reads from the source on every run (harness/cmd/consts/c16.go, item emitC15Order).
    If the code changes shape, this file stops compiling and the check reports it. *)
From CM Require Import Lib.Str Gen.Consts Challenge.Model.

(** [solve_http] / [looks_like_challenge] compare the method with "GET" ([m_get] is the translated
    constant); [solve_http] is the conjunction path == , EqualFold(challengeHost(Host), ident),
    method == and nothing else *)
Example tie_http : m_get = c15_http_method /\ c15_solve_conjuncts = [0; 1; 2]%nat.
Proof. split; reflexivity. Qed.

(** [alpn_branch]: exactly one offered protocol *)
Example tie_alpn : c15_alpn_protos_len = 1%nat.
Proof. reflexivity. Qed.

(** [challenge_key]: identifier type "ip" (the harness sends [c_is_ip] = (type == "ip")), the
    reverse name loses exactly its last character ([removelast]) *)
Example tie_key : c15_ip_ident_type = [105; 112] /\ c15_key_strips = 1%nat.
Proof. split; reflexivity. Qed.

(** [get_challenge_info]: memory first, then the issuers in order *)
Example tie_lookup : c15_lookup_order = [0; 1]%nat.
Proof. reflexivity. Qed.
