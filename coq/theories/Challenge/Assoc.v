(** Association lists with a boolean key equality: the finite maps of the Challenge and
    Solvers models (Go maps / storage key spaces).  [aset] removes older bindings of the key,
    so a key is bound at most once in any list built from [] by [aset]/[adel]. *)
From Coq Require Import List Bool.
Import ListNotations.

Section Assoc.
  Context {K V : Type}.
  Variable eqb : K -> K -> bool.
  Hypothesis eqb_spec : forall a b, eqb a b = true <-> a = b.

  Fixpoint aget (k : K) (l : list (K * V)) : option V :=
    match l with
    | [] => None
    | (k', v) :: r => if eqb k' k then Some v else aget k r
    end.
  Definition adel (k : K) (l : list (K * V)) : list (K * V) :=
    filter (fun p => negb (eqb (fst p) k)) l.
  Definition aset (k : K) (v : V) (l : list (K * V)) : list (K * V) := (k, v) :: adel k l.

  Lemma eqb_refl k : eqb k k = true.
  Proof. apply eqb_spec; reflexivity. Qed.
  Lemma eqb_neq a b : a <> b -> eqb a b = false.
  Proof. intros H. destruct (eqb a b) eqn:E; [apply eqb_spec in E; contradiction|reflexivity]. Qed.

  Lemma aget_adel_same k l : aget k (adel k l) = None.
  Proof.
    induction l as [|[k' v] r IH]; cbn; [reflexivity|].
    destruct (eqb k' k) eqn:E; cbn; [exact IH|]. rewrite E. exact IH.
  Qed.
  Lemma aget_adel_other k k' l : k <> k' -> aget k' (adel k l) = aget k' l.
  Proof.
    intros Hne. induction l as [|[k0 v] r IH]; cbn; [reflexivity|].
    destruct (eqb k0 k) eqn:E; cbn.
    - apply eqb_spec in E; subst k0. rewrite (eqb_neq _ _ Hne). exact IH.
    - destruct (eqb k0 k'); [reflexivity|exact IH].
  Qed.
  Lemma aget_aset_same k v l : aget k (aset k v l) = Some v.
  Proof. cbn. rewrite eqb_refl. reflexivity. Qed.
  Lemma aget_aset_other k k' v l : k <> k' -> aget k' (aset k v l) = aget k' l.
  Proof. intros Hne. cbn. rewrite (eqb_neq _ _ Hne). apply aget_adel_other; exact Hne. Qed.

  Lemma aget_adel_some k k' l v : aget k' (adel k l) = Some v -> k <> k' /\ aget k' l = Some v.
  Proof.
    intros H. assert (Hne : k <> k').
    { intros ->. rewrite aget_adel_same in H. discriminate. }
    split; [exact Hne|]. rewrite aget_adel_other in H; assumption.
  Qed.

  Lemma aget_in k l v : aget k l = Some v -> In (k, v) l.
  Proof.
    induction l as [|[k' v'] r IH]; cbn; [discriminate|].
    destruct (eqb k' k) eqn:E.
    - apply eqb_spec in E; subst. intros H; injection H; intros ->. left; reflexivity.
    - intros H; right; exact (IH H).
  Qed.
  Lemma aget_none_not_in k l : aget k l = None -> forall v, ~ In (k, v) l.
  Proof.
    induction l as [|[k' v'] r IH]; cbn; [intros _ v []|].
    destruct (eqb k' k) eqn:E; [discriminate|].
    intros H v [Heq|Hin].
    - injection Heq; intros _ ->. rewrite eqb_refl in E. discriminate.
    - exact (IH H v Hin).
  Qed.
  Lemma adel_in k l p : In p (adel k l) -> In p l /\ fst p <> k.
  Proof.
    unfold adel. rewrite filter_In. intros [H1 H2]. split; [exact H1|].
    intros Hk. rewrite Hk, eqb_refl in H2. discriminate.
  Qed.
  (** emptiness: a map with no binding at all *)
  Lemma aget_all_none l : (forall k, aget k l = None) -> l = [].
  Proof.
    destruct l as [|[k v] r]; [reflexivity|]. intros H. specialize (H k). cbn in H.
    rewrite eqb_refl in H. discriminate.
  Qed.
End Assoc.
