(** Proofs about the Challenge model (C15). *)
From Coq Require Import ZifyBool ZifyN.
From CM Require Import Lib.Str Gen.Consts Challenge.Assoc Challenge.Model.

(** * Boolean equalities *)
Lemma str_eqb_refl s : str_eqb s s = true.
Proof. apply str_eqb_eq; reflexivity. Qed.
Lemma str_eqb_false a b : str_eqb a b = false <-> a <> b.
Proof.
  split.
  - intros H E. apply str_eqb_eq in E. congruence.
  - intros H. destruct (str_eqb a b) eqn:E; [apply str_eqb_eq in E; contradiction|reflexivity].
Qed.

Lemma ctype_eqb_spec a b : ctype_eqb a b = true <-> a = b.
Proof. destruct a, b; cbn; split; congruence. Qed.
Lemma ostr_eqb_spec a b : ostr_eqb a b = true <-> a = b.
Proof.
  destruct a as [x|], b as [y|]; cbn; try (split; congruence).
  rewrite str_eqb_eq. split; congruence.
Qed.
Lemma chal_eqb_spec a b : chal_eqb a b = true <-> a = b.
Proof.
  destruct a as [t1 k1 a1 i1 d1 r1], b as [t2 k2 a2 i2 d2 r2]. unfold chal_eqb; cbn.
  rewrite !andb_true_iff, ctype_eqb_spec, !str_eqb_eq, Bool.eqb_true_iff, ostr_eqb_spec.
  split.
  - intros (((((-> & ->) & ->) & ->) & ->) & ->). reflexivity.
  - intros H; injection H; intros; subst; repeat split; reflexivity.
Qed.
Lemma place_eqb_spec a b : place_eqb a b = true <-> a = b.
Proof. destruct a, b; cbn; split; congruence. Qed.
Lemma pent_eqb_spec a b : pent_eqb a b = true <-> a = b.
Proof.
  destruct a as [[w1 j1] c1], b as [[w2 j2] c2]. unfold pent_eqb; cbn.
  rewrite !andb_true_iff, place_eqb_spec, Nat.eqb_eq, chal_eqb_spec.
  split; [intros ((-> & ->) & ->); reflexivity | intros H; injection H; intros; subst; auto].
Qed.
Lemma skey_eqb_spec a b : skey_eqb a b = true <-> a = b.
Proof.
  destruct a as [a1 a2], b as [b1 b2]. unfold skey_eqb; cbn.
  rewrite andb_true_iff, !str_eqb_eq. split; [intros [-> ->]; reflexivity | intros H; injection H; auto].
Qed.

Lemma equal_fold_refl feq : (forall x, feq x x = true) -> forall s, equal_fold feq s s = true.
Proof. intros H s; induction s as [|x s IH]; cbn; [reflexivity|]. rewrite H, IH. reflexivity. Qed.

Lemma has_prefix_app p s : has_prefix p (p ++ s) = true.
Proof.
  unfold has_prefix. destruct (strip_prefix p (p ++ s)) eqn:E; [reflexivity|].
  assert (H : strip_prefix p (p ++ s) = Some s) by (apply strip_prefix_spec; reflexivity). congruence.
Qed.

(** * NoDup of images *)
Lemma nodup_map_inj {A B} (f : A -> B) l a b :
  NoDup (map f l) -> In a l -> In b l -> f a = f b -> a = b.
Proof.
  induction l as [|x l IH]; cbn; [intros _ []|].
  intros Hnd Ha Hb Hf. inversion Hnd as [|? ? Hnin Hnd']; subst.
  destruct Ha as [->|Ha], Hb as [->|Hb]; try reflexivity.
  - exfalso. apply Hnin. rewrite Hf. apply in_map; exact Hb.
  - exfalso. apply Hnin. rewrite <- Hf. apply in_map; exact Ha.
  - exact (IH Hnd' Ha Hb Hf).
Qed.
Lemma nodup_map_filter {A B} (f : A -> B) (g : A -> bool) l : NoDup (map f l) -> NoDup (map f (filter g l)).
Proof.
  induction l as [|x l IH]; cbn; [auto|]. intros Hnd. inversion Hnd as [|? ? Hnin Hnd']; subst.
  destruct (g x); cbn; [constructor|]; auto.
  intros Hin. apply Hnin. apply in_map_iff in Hin. destruct Hin as [y [Hy Hin]].
  apply filter_In in Hin. apply in_map_iff. exists y. tauto.
Qed.

Section Sys.
  Variable sf : str -> str.
  Variable feq : N -> N -> bool.
  Variable issuers : list str.

  Notation step := (step sf issuers).
  Notation run := (run sf issuers).
  Notation ikof := (ikof issuers).
  Notation tkey := (tkey sf).
  Notation mget := (aget str_eqb).
  Notation sget := (aget skey_eqb).
  Notation ginfo := (get_challenge_info sf feq issuers).

  Definition kof (e : pent) : str := sf (challenge_key (snd e)).

  (** ** What is in memory / storage comes from a pending challenge (no discipline needed) *)
  Definition Sound (s : cstate) (p : list pent) : Prop :=
    (forall k c d, mget k (mem s) = Some (c, d) ->
       k = challenge_key c /\ exists w j, has_mem w = true /\ In (w, j, c) p) /\
    (forall k c, sget k (store s) = Some (SChal c) ->
       exists w j, has_store w = true /\ In (w, j, c) p /\ k = tkey (ikof j) (challenge_key c)).

  Lemma sound_init : Sound cinit [].
  Proof. split; cbn; intros; discriminate. Qed.

  Lemma filter_keep (p : list pent) e e0 : In e p -> e <> e0 ->
    In e (filter (fun x => negb (pent_eqb x e0)) p).
  Proof.
    intros Hin Hne. apply filter_In. split; [exact Hin|].
    destruct (pent_eqb e e0) eqn:E; [apply pent_eqb_spec in E; contradiction|reflexivity].
  Qed.

  Lemma sound_step s p o : Sound s p -> Sound (step s o) (pstep p o).
  Proof.
    intros [HM HS]. unfold Sound. destruct o as [w j c|w j c|j nm v|]; cbn [Model.step pstep mem store]; [| | |exact (conj HM HS)].
    - (* Present *) split.
      + intros k c' d. destruct (has_mem w) eqn:Hw.
        * destruct (list_eq_dec N.eq_dec (challenge_key c) k) as [<-|Hne].
          -- rewrite (aget_aset_same str_eqb str_eqb_eq). intros H; injection H; intros _ <-.
             split; [reflexivity|]. exists w, j. split; [exact Hw|left; reflexivity].
          -- rewrite (aget_aset_other str_eqb str_eqb_eq) by exact Hne. intros H.
             destruct (HM _ _ _ H) as [Hk (w' & j' & Hw' & Hin)]. split; [exact Hk|].
             exists w', j'. split; [exact Hw'|right; exact Hin].
        * intros H. destruct (HM _ _ _ H) as [Hk (w' & j' & Hw' & Hin)]. split; [exact Hk|].
          exists w', j'. split; [exact Hw'|right; exact Hin].
      + intros k c'. destruct (has_store w) eqn:Hw.
        * destruct (skey_eqb (tkey (ikof j) (challenge_key c)) k) eqn:E.
          -- apply skey_eqb_spec in E; subst k. rewrite (aget_aset_same skey_eqb skey_eqb_spec).
             intros H; injection H; intros <-. exists w, j. repeat split; [exact Hw|left; reflexivity].
          -- assert (Hne : tkey (ikof j) (challenge_key c) <> k).
             { intros <-. rewrite (eqb_refl skey_eqb skey_eqb_spec) in E. discriminate. }
             rewrite (aget_aset_other skey_eqb skey_eqb_spec) by exact Hne. intros H.
             destruct (HS _ _ H) as (w' & j' & Hw' & Hin & Hk). exists w', j'. repeat split; auto. right; exact Hin.
        * intros H. destruct (HS _ _ H) as (w' & j' & Hw' & Hin & Hk). exists w', j'. repeat split; auto. right; exact Hin.
    - (* Clean *) split.
      + intros k c' d H.
        assert (Hold : mget k (mem s) = Some (c', d) /\ (has_mem w = true -> challenge_key c <> k)).
        { destruct (has_mem w); [|split; [exact H|discriminate]].
          apply (aget_adel_some str_eqb str_eqb_eq) in H. destruct H as [Hne H]. split; [exact H|intros _; exact Hne]. }
        destruct Hold as [Hold Hne]. destruct (HM _ _ _ Hold) as [Hk (w' & j' & Hw' & Hin)].
        split; [exact Hk|]. exists w', j'. split; [exact Hw'|]. apply filter_keep; [exact Hin|].
        intros Heq; injection Heq; intros -> -> ->. apply (Hne Hw'). symmetry; exact Hk.
      + intros k c' H.
        assert (Hold : sget k (store s) = Some (SChal c') /\ (has_store w = true -> tkey (ikof j) (challenge_key c) <> k)).
        { destruct (has_store w); [|split; [exact H|discriminate]].
          apply (aget_adel_some skey_eqb skey_eqb_spec) in H. destruct H as [Hne H]. split; [exact H|intros _; exact Hne]. }
        destruct Hold as [Hold Hne]. destruct (HS _ _ Hold) as (w' & j' & Hw' & Hin & Hk).
        exists w', j'. repeat split; auto. apply filter_keep; [exact Hin|].
        intros Heq; injection Heq; intros -> -> ->. apply (Hne Hw'). symmetry; exact Hk.
    - (* Tamper *) split; [exact HM|].
      intros k c'. destruct v as [[c0| |]|].
      + apply HS.
      + destruct (skey_eqb (tkey (ikof j) nm) k) eqn:E.
        * apply skey_eqb_spec in E; subst k. rewrite (aget_aset_same skey_eqb skey_eqb_spec). discriminate.
        * assert (Hne : tkey (ikof j) nm <> k) by (intros <-; rewrite (eqb_refl skey_eqb skey_eqb_spec) in E; discriminate).
          rewrite (aget_aset_other skey_eqb skey_eqb_spec) by exact Hne. apply HS.
      + destruct (skey_eqb (tkey (ikof j) nm) k) eqn:E.
        * apply skey_eqb_spec in E; subst k. rewrite (aget_aset_same skey_eqb skey_eqb_spec). discriminate.
        * assert (Hne : tkey (ikof j) nm <> k) by (intros <-; rewrite (eqb_refl skey_eqb skey_eqb_spec) in E; discriminate).
          rewrite (aget_aset_other skey_eqb skey_eqb_spec) by exact Hne. apply HS.
      + intros H. apply (aget_adel_some skey_eqb skey_eqb_spec) in H. destruct H as [_ H]. apply HS; exact H.
  Qed.

  Lemma sound_fold ops : forall s p, Sound s p -> Sound (fold_left step ops s) (fold_left (pstep) ops p).
  Proof. induction ops as [|o ops IH]; intros s p H; cbn; [exact H|]. apply IH, sound_step, H. Qed.

  Lemma sound_run ops : Sound (run ops) (pending ops).
  Proof. apply sound_fold, sound_init. Qed.

  (** ** getChallengeInfo only ever returns a pending challenge whose key matches the identifier *)
  Lemma first_stored_some s iks ident v :
    first_stored sf s iks ident = Some v -> exists ik, In ik iks /\ sget (tkey ik ident) (store s) = Some v.
  Proof.
    induction iks as [|ik r IH]; cbn; [discriminate|].
    destruct (sget (tkey ik ident) (store s)) as [v'|] eqn:E.
    - intros H; injection H; intros <-. exists ik. split; [left; reflexivity|exact E].
    - intros H. destruct (IH H) as [ik' [Hin Hg]]. exists ik'. split; [right; exact Hin|exact Hg].
  Qed.

  Lemma ginfo_sound s p lf ident c : Sound s p -> ginfo s lf ident = Some c ->
    (exists w j, In (w, j, c) p) /\ (ident = challenge_key c \/ equal_fold feq (challenge_key c) ident = true).
  Proof.
    intros [HM HS]. unfold get_challenge_info.
    destruct (mget ident (mem s)) as [[c' d]|] eqn:Em.
    - intros H; injection H; intros ->. destruct (HM _ _ _ Em) as [Hk (w & j & _ & Hin)].
      split; [exists w, j; exact Hin|left; exact Hk].
    - destruct lf; [discriminate|].
      destruct (first_stored sf s issuers ident) as [[c'| |]|] eqn:Ef; try discriminate.
      destruct (equal_fold feq (challenge_key c') ident) eqn:Eq; [|discriminate].
      intros H; injection H; intros ->.
      destruct (first_stored_some _ _ _ _ Ef) as [ik [_ Hg]].
      destruct (HS _ _ Hg) as (w & j & _ & Hin & _). split; [exists w, j; exact Hin|right; exact Eq].
  Qed.

  (** ** C15, first sentence: who gets challenge material *)
  Theorem http_only_exact ops disabled lf r b :
    http_handle sf feq issuers disabled lf (run ops) r = Some b ->
    disabled = false /\ h_method r = m_get /\
    exists w j c, In (w, j, c) (pending ops) /\
      h_path r = acme_http_challenge_base_path ++ [c_slash] ++ c_token c /\
      equal_fold feq (challenge_host (h_host r)) (c_ident c) = true /\
      b = c_keyauth c.
  Proof.
    unfold http_handle. destruct disabled; [discriminate|].
    destruct (looks_like_challenge r) eqn:El; cbn [negb]; [|discriminate].
    destruct (ginfo (run ops) lf (challenge_host (h_host r))) as [c|] eqn:Eg; [|discriminate].
    unfold solve_http.
    destruct (str_eqb (h_path r) (resource_path c)) eqn:Ep; cbn [andb]; [|discriminate].
    destruct (equal_fold feq (challenge_host (h_host r)) (c_ident c)) eqn:Eh; cbn [andb]; [|discriminate].
    destruct (str_eqb (h_method r) m_get) eqn:Emeth; [|discriminate].
    intros H; injection H; intros <-.
    destruct (ginfo_sound _ _ _ _ _ (sound_run ops) Eg) as [(w & j & Hin) _].
    split; [reflexivity|]. split; [apply str_eqb_eq; exact Emeth|].
    exists w, j, c. repeat split; auto. apply str_eqb_eq in Ep. exact Ep.
  Qed.

  Theorem http_other_requests_untouched disabled lf s r :
    disabled = true \/ h_method r <> m_get \/ has_prefix acme_http_challenge_base_path (h_path r) = false ->
    http_handle sf feq issuers disabled lf s r = None.
  Proof.
    unfold http_handle, looks_like_challenge. intros [->|[H|H]]; [reflexivity| |].
    - destruct disabled; [reflexivity|]. apply str_eqb_false in H. rewrite H. reflexivity.
    - destruct disabled; [reflexivity|]. rewrite H, andb_false_r. reflexivity.
  Qed.

  Theorem alpn_only_acme ops lf sni protos c :
    alpn_get sf feq issuers lf (run ops) sni protos = AChal c ->
    protos = [acme_tls1_protocol] /\ sni <> [] /\
    (exists w j, In (w, j, c) (pending ops)) /\
    (sni = challenge_key c \/ equal_fold feq (challenge_key c) sni = true).
  Proof.
    unfold alpn_get. destruct (alpn_branch sni protos) eqn:Eb; [|discriminate].
    destruct (ginfo (run ops) lf sni) as [c'|] eqn:Eg; [|discriminate].
    intros H; injection H; intros ->.
    unfold alpn_branch in Eb. apply andb_true_iff in Eb. destruct Eb as [E1 E2].
    destruct (ginfo_sound _ _ _ _ _ (sound_run ops) Eg) as [Hp Hk].
    split.
    - destruct protos as [|p [|q r]]; try discriminate. apply str_eqb_eq in E2. subst; reflexivity.
    - split; [destruct sni; [discriminate|discriminate]|]. split; assumption.
  Qed.

  Theorem alpn_other_hellos_untouched lf s sni protos :
    sni = [] \/ protos <> [acme_tls1_protocol] -> alpn_get sf feq issuers lf s sni protos = ANormal.
  Proof.
    unfold alpn_get, alpn_branch. intros [->|H]; [reflexivity|].
    destruct protos as [|p [|q r]]; try (rewrite andb_false_r; reflexivity).
    destruct (str_eqb p acme_tls1_protocol) eqn:E; [|rewrite andb_false_r; reflexivity].
    apply str_eqb_eq in E. subst p. contradiction.
  Qed.

  (** ** "for exactly as long as pending": under the discipline, pending implies visible *)
  Definition Live (s : cstate) (p : list pent) : Prop :=
    (forall w j c, In (w, j, c) p -> has_mem w = true -> exists d, mget (challenge_key c) (mem s) = Some (c, d)) /\
    (forall w j c, In (w, j, c) p -> has_store w = true ->
       sget (tkey (ikof j) (challenge_key c)) (store s) = Some (SChal c) /\ In (ikof j) issuers) /\
    (forall k v, sget k (store s) = Some v -> exists c, v = SChal c) /\
    NoDup (map kof p).

  Lemma live_init : Live cinit [].
  Proof. repeat split; cbn; intros; try contradiction; try discriminate. constructor. Qed.

  Lemma fresh_key_spec p c : fresh_key sf p c = true -> ~ In (sf (challenge_key c)) (map kof p).
  Proof.
    unfold fresh_key. rewrite forallb_forall. intros H Hin. apply in_map_iff in Hin.
    destruct Hin as [e [He Hin]]. specialize (H e Hin). unfold kof in He. rewrite He, str_eqb_refl in H. discriminate.
  Qed.

  Lemma tkey_neq ik ik' a b : sf a <> sf b -> tkey ik a <> tkey ik' b.
  Proof. unfold Model.tkey. intros H E. injection E; intros. contradiction. Qed.

  Lemma live_step s p o : Live s p -> wf_from sf issuers p [o] = true -> Live (step s o) (pstep p o).
  Proof.
    intros (LM & LS & LV & ND). cbn [wf_from]. destruct o as [w j c|w j c|j nm v|]; [| |discriminate|intros _; exact (conj LM (conj LS (conj LV ND)))].
    - (* Present *)
      rewrite !andb_true_iff. intros [[Hfresh Hj] _].
      pose proof (fresh_key_spec _ _ Hfresh) as Hnin.
      assert (Hother : forall w' j' c', In (w', j', c') p -> sf (challenge_key c') <> sf (challenge_key c)).
      { intros w' j' c' Hin E. apply Hnin. rewrite <- E. apply (in_map kof p (w', j', c')). exact Hin. }
      unfold Live. cbn [Model.step pstep mem store]. repeat split.
      + intros w' j' c' [Heq|Hin] Hw'.
        * injection Heq; intros <- <- <-. rewrite Hw'. eexists. apply (aget_aset_same str_eqb str_eqb_eq).
        * destruct (LM _ _ _ Hin Hw') as [d Hd]. exists d. destruct (has_mem w); [|exact Hd].
          rewrite (aget_aset_other str_eqb str_eqb_eq); [exact Hd|].
          intros E. apply (Hother _ _ _ Hin). rewrite E. reflexivity.
      + destruct H as [Heq|Hin].
        * injection Heq; intros <- <- <-. rewrite H0. apply (aget_aset_same skey_eqb skey_eqb_spec).
        * destruct (LS _ _ _ Hin H0) as [Hg _]. destruct (has_store w); [|exact Hg].
          rewrite (aget_aset_other skey_eqb skey_eqb_spec); [exact Hg|].
          apply tkey_neq. intros E. apply (Hother _ _ _ Hin). symmetry; exact E.
      + destruct H as [Heq|Hin].
        * injection Heq; intros <- <- <-. rewrite H0 in Hj. cbn in Hj. apply Nat.ltb_lt in Hj.
          apply nth_In. exact Hj.
        * apply (LS _ _ _ Hin H0).
      + intros k v. destruct (has_store w); [|apply LV].
        destruct (skey_eqb (tkey (ikof j) (challenge_key c)) k) eqn:E.
        * apply skey_eqb_spec in E; subst k. rewrite (aget_aset_same skey_eqb skey_eqb_spec).
          intros H; injection H; intros <-. eexists; reflexivity.
        * assert (Hne : tkey (ikof j) (challenge_key c) <> k) by (intros <-; rewrite (eqb_refl skey_eqb skey_eqb_spec) in E; discriminate).
          rewrite (aget_aset_other skey_eqb skey_eqb_spec) by exact Hne. apply LV.
      + cbn [map]. constructor; [exact Hnin|exact ND].
    - (* Clean *)
      rewrite !andb_true_iff. intros [Hex _]. apply existsb_exists in Hex. destruct Hex as [e [Hein He]].
      apply pent_eqb_spec in He. subst e.
      assert (Hother : forall w' j' c', In (w', j', c') (filter (fun x => negb (pent_eqb x (w, j, c))) p) ->
                 In (w', j', c') p /\ sf (challenge_key c') <> sf (challenge_key c)).
      { intros w' j' c' Hin. apply filter_In in Hin. destruct Hin as [Hin Hne]. split; [exact Hin|].
        intros E. assert (Heq : (w', j', c') = (w, j, c)) by (apply (nodup_map_inj kof p); auto).
        apply pent_eqb_spec in Heq. rewrite Heq in Hne. discriminate. }
      unfold Live. cbn [Model.step pstep mem store]. repeat split.
      + intros w' j' c' Hin Hw'. destruct (Hother _ _ _ Hin) as [Hin' Hne].
        destruct (LM _ _ _ Hin' Hw') as [d Hd]. exists d. destruct (has_mem w); [|exact Hd].
        rewrite (aget_adel_other str_eqb str_eqb_eq); [exact Hd|]. intros E. apply Hne. rewrite E. reflexivity.
      + destruct (Hother _ _ _ H) as [Hin' Hne]. destruct (LS _ _ _ Hin' H0) as [Hg _].
        destruct (has_store w); [|exact Hg].
        rewrite (aget_adel_other skey_eqb skey_eqb_spec); [exact Hg|]. apply tkey_neq. intros E; apply Hne; symmetry; exact E.
      + destruct (Hother _ _ _ H) as [Hin' _]. apply (LS _ _ _ Hin' H0).
      + intros k v. destruct (has_store w); [|apply LV]. intros H.
        apply (aget_adel_some skey_eqb skey_eqb_spec) in H. destruct H as [_ H]. exact (LV _ _ H).
      + apply nodup_map_filter. exact ND.
  Qed.

  Lemma wf_from_cons p o ops : wf_from sf issuers p (o :: ops) = true ->
    wf_from sf issuers p [o] = true /\ wf_from sf issuers (pstep p o) ops = true.
  Proof.
    cbn [wf_from]. destruct o as [w j c|w j c|j nm v|]; [| |discriminate|].
    - rewrite !andb_true_iff. intros [[H1 H2] H3]. repeat split; assumption.
    - rewrite !andb_true_iff. intros [H1 H2]. repeat split; assumption.
    - intros H. split; [reflexivity|exact H].
  Qed.

  Lemma live_fold ops : forall s p, Live s p -> wf_from sf issuers p ops = true ->
    Live (fold_left step ops s) (fold_left pstep ops p).
  Proof.
    induction ops as [|o ops IH]; intros s p HL Hwf; cbn [fold_left]; [exact HL|].
    destruct (wf_from_cons _ _ _ Hwf) as [H1 H2]. apply IH; [apply live_step; assumption|exact H2].
  Qed.

  Lemma live_run ops : wf sf issuers ops = true -> Live (run ops) (pending ops).
  Proof. intros H. apply live_fold; [apply live_init|exact H]. Qed.

  Lemma first_stored_found s iks ident c :
    (forall ik v, In ik iks -> sget (tkey ik ident) (store s) = Some v -> v = SChal c) ->
    (exists ik, In ik iks /\ sget (tkey ik ident) (store s) = Some (SChal c)) ->
    first_stored sf s iks ident = Some (SChal c).
  Proof.
    induction iks as [|ik r IH]; intros Hall [ik0 [Hin Hg]]; [destruct Hin|]. cbn.
    destruct (sget (tkey ik ident) (store s)) as [v|] eqn:E.
    - rewrite (Hall ik v (or_introl eq_refl) E). reflexivity.
    - apply IH.
      + intros ik' v Hin' Hg'. apply (Hall ik' v); [right; exact Hin'|exact Hg'].
      + destruct Hin as [->|Hin]; [congruence|]. exists ik0. split; assumption.
  Qed.

  Hypothesis feq_refl : forall x, feq x x = true.

  (** the spelling [h] of the identifier finds the pending challenge, from memory or from storage *)
  Lemma ginfo_live s p w j c h :
    Sound s p -> Live s p -> In (w, j, c) p -> finds sf feq w h c = true -> ginfo s false h = Some c.
  Proof.
    intros [HM HS] (LM & LS & LV & ND) Hin Hf.
    assert (Hsf : sf h = sf (challenge_key c)).
    { unfold finds in Hf. apply orb_true_iff in Hf. destruct Hf as [Hf|Hf].
      - apply str_eqb_eq in Hf. rewrite Hf. reflexivity.
      - rewrite !andb_true_iff in Hf. destruct Hf as [[_ Hf] _]. apply str_eqb_eq in Hf. exact Hf. }
    unfold get_challenge_info. destruct (mget h (mem s)) as [[c' d]|] eqn:Em.
    - destruct (HM _ _ _ Em) as [Hk (w' & j' & Hw' & Hin')].
      assert (Heq : (w', j', c') = (w, j, c)).
      { apply (nodup_map_inj kof p); auto. unfold kof; cbn [snd]. rewrite <- Hk. exact Hsf. }
      injection Heq; intros -> _ _. reflexivity.
    - assert (Hst : has_store w = true /\ equal_fold feq (challenge_key c) h = true).
      { unfold finds in Hf. apply orb_true_iff in Hf. destruct Hf as [Hf|Hf].
        - apply str_eqb_eq in Hf. subst h. split; [|apply equal_fold_refl; exact feq_refl].
          destruct (has_mem w) eqn:Hw; [|destruct w; try discriminate; reflexivity].
          destruct (LM _ _ _ Hin Hw) as [d Hd]. congruence.
        - rewrite !andb_true_iff in Hf. tauto. }
      destruct Hst as [Hw Heq]. destruct (LS _ _ _ Hin Hw) as [Hg Hik].
      assert (Hfs : first_stored sf s issuers h = Some (SChal c)).
      { apply first_stored_found.
        - intros ik v _ Hv. destruct (LV _ _ Hv) as [c' ->]. f_equal.
          destruct (HS _ _ Hv) as (w' & j' & _ & Hin' & Hk).
          assert (Hpe : (w', j', c') = (w, j, c)).
          { apply (nodup_map_inj kof p); auto. unfold kof; cbn [snd].
            unfold Model.tkey in Hk. injection Hk; intros Hk2 _. rewrite <- Hk2. exact Hsf. }
          injection Hpe; auto.
        - exists (ikof j). split; [exact Hik|]. unfold Model.tkey in *. rewrite Hsf. exact Hg. }
      rewrite Hfs, Heq. reflexivity.
  Qed.

  Theorem http_answered_while_pending ops w j c r :
    wf sf issuers ops = true -> In (w, j, c) (pending ops) ->
    http_matches feq r c = true -> finds sf feq w (challenge_host (h_host r)) c = true ->
    http_handle sf feq issuers false false (run ops) r = Some (c_keyauth c).
  Proof.
    intros Hwf Hin Hm Hf. unfold http_matches in Hm. rewrite !andb_true_iff in Hm. destruct Hm as [[Hmeth Hpath] Hhost].
    unfold http_handle, looks_like_challenge. rewrite Hmeth. apply str_eqb_eq in Hpath.
    assert (Hpre : has_prefix acme_http_challenge_base_path (h_path r) = true).
    { rewrite Hpath. unfold resource_path. apply has_prefix_app. }
    rewrite Hpre. cbn [andb negb].
    rewrite (ginfo_live _ _ _ _ _ _ (sound_run ops) (live_run ops Hwf) Hin Hf).
    unfold solve_http. rewrite Hpath, str_eqb_refl, Hhost, Hmeth. reflexivity.
  Qed.

  Theorem alpn_answered_while_pending ops w j c sni :
    wf sf issuers ops = true -> In (w, j, c) (pending ops) -> sni <> [] ->
    finds sf feq w sni c = true ->
    alpn_get sf feq issuers false (run ops) sni [acme_tls1_protocol] = AChal c.
  Proof.
    intros Hwf Hin Hne Hf. unfold alpn_get, alpn_branch. rewrite str_eqb_refl.
    destruct sni as [|x sni]; [contradiction|]. cbn [negb andb].
    rewrite (ginfo_live _ _ _ _ _ _ (sound_run ops) (live_run ops Hwf) Hin Hf). reflexivity.
  Qed.

  (** after its clean-up a challenge is no longer pending (so, by the "only" theorems, it is no
      longer answered) *)
  Lemma pending_app ops o : pending (ops ++ [o]) = pstep (pending ops) o.
  Proof. unfold pending. rewrite fold_left_app. reflexivity. Qed.
  Theorem cleaned_not_pending ops w j c : ~ In (w, j, c) (pending (ops ++ [Clean w j c])).
  Proof.
    rewrite pending_app. cbn [pstep]. intros H. apply filter_In in H. destruct H as [_ H].
    rewrite (proj2 (pent_eqb_spec _ _) eq_refl) in H. discriminate.
  Qed.

  (** ** The boolean specification holds of the model (so a failure of [http_spec] / [alpn_spec]
      on an observation of the implementation is a failure of the property) *)
  Theorem http_spec_holds ops disabled lf r :
    http_spec sf feq issuers ops disabled lf r (http_handle sf feq issuers disabled lf (run ops) r) = true.
  Proof.
    unfold http_spec. apply andb_true_iff. split.
    - destruct (http_handle sf feq issuers disabled lf (run ops) r) as [b|] eqn:E; [|reflexivity].
      destruct (http_only_exact _ _ _ _ _ E) as (-> & Hm & w & j & c & Hin & Hp & Hh & ->).
      cbn [negb andb]. apply existsb_exists. exists (w, j, c). split; [exact Hin|]. cbn [snd].
      unfold http_matches, resource_path. rewrite Hm, Hp, Hh, !str_eqb_refl. reflexivity.
    - destruct (wf sf issuers ops) eqn:Hwf; [|reflexivity]. cbn [negb orb].
      destruct disabled; [reflexivity|]. destruct lf; [reflexivity|]. cbn [orb].
      apply forallb_forall. intros [[w j] c] Hin.
      destruct (http_matches feq r c && finds sf feq w (challenge_host (h_host r)) c) eqn:E; [|reflexivity].
      cbn [negb orb]. apply andb_true_iff in E. destruct E as [E1 E2].
      rewrite (http_answered_while_pending _ _ _ _ _ Hwf Hin E1 E2). apply str_eqb_refl.
  Qed.

  Theorem alpn_spec_holds ops lf sni protos :
    alpn_spec sf feq issuers ops lf sni protos (alpn_get sf feq issuers lf (run ops) sni protos) = true.
  Proof.
    unfold alpn_spec. apply andb_true_iff. split.
    - destruct (alpn_get sf feq issuers lf (run ops) sni protos) as [c| |] eqn:E.
      + destruct (alpn_only_acme _ _ _ _ _ E) as (-> & Hs & (w & j & Hin) & Hk).
        apply andb_true_iff. split.
        * unfold alpn_branch. rewrite str_eqb_refl. destruct sni; [contradiction|reflexivity].
        * apply existsb_exists. exists (w, j, c). split; [exact Hin|]. cbn [snd].
          rewrite (proj2 (chal_eqb_spec c c) eq_refl). cbn [andb].
          destruct Hk as [->|Hk]; [rewrite str_eqb_refl; reflexivity|rewrite Hk; apply orb_true_r].
      + unfold alpn_get in E. destruct (alpn_branch sni protos); [reflexivity|discriminate].
      + unfold alpn_get in E. destruct (alpn_branch sni protos); [|reflexivity].
        destruct (ginfo (run ops) lf sni); discriminate.
    - destruct (wf sf issuers ops) eqn:Hwf; [|reflexivity]. cbn [negb orb].
      destruct lf; [reflexivity|]. cbn [orb].
      destruct (alpn_branch sni protos) eqn:Eb; [|reflexivity]. cbn [negb orb].
      apply forallb_forall. intros [[w j] c] Hin.
      destruct (finds sf feq w sni c) eqn:Ef; [|reflexivity]. cbn [negb orb].
      unfold alpn_branch in Eb. apply andb_true_iff in Eb. destruct Eb as [E1 E2].
      destruct protos as [|p [|q rr]]; try discriminate. apply str_eqb_eq in E2. subst p.
      assert (Hne : sni <> []) by (destruct sni; [discriminate|discriminate]).
      rewrite (alpn_answered_while_pending _ _ _ _ _ Hwf Hin Hne Ef). cbn.
      apply chal_eqb_spec. reflexivity.
  Qed.
End Sys.

(** * hostOnly / challengeHost facts used to read the theorems *)
Lemma contains_false_not_in c s : contains c s = false -> ~ In c s.
Proof.
  unfold contains. intros H Hin. assert (existsb (N.eqb c) s = true).
  { apply existsb_exists. exists c. split; [exact Hin|apply N.eqb_refl]. } congruence.
Qed.

Lemma last_index_none c s : contains c s = false -> last_index_of c s = None.
Proof.
  unfold contains. induction s as [|x s IH]; cbn; [reflexivity|].
  rewrite orb_false_iff. intros [H1 H2]. rewrite (IH H2). rewrite N.eqb_sym, H1. reflexivity.
Qed.

(** a Host without any colon is compared as it is *)
Lemma challenge_host_plain h : contains c_colon h = false -> challenge_host h = h.
Proof.
  intros H. unfold challenge_host, host_only, split_host_port. rewrite (last_index_none _ _ H).
  destruct h as [|x r]; [reflexivity|]. rewrite H, andb_false_r. reflexivity.
Qed.

Section Readable.
  Variable sf : str -> str.
  Variable feq : N -> N -> bool.
  Variable issuers : list str.
  Hypothesis feq_refl : forall x, feq x x = true.

  (** the validation request as a CA sends it, host spelled exactly as the identifier (after
      [challengeHost]), is answered by this node for every pending challenge — whether this
      process or another instance presented it *)
  Theorem any_node_answers_while_pending ops w j c r :
    wf sf issuers ops = true -> In (w, j, c) (pending ops) ->
    h_method r = m_get ->
    h_path r = acme_http_challenge_base_path ++ [c_slash] ++ c_token c ->
    challenge_host (h_host r) = c_ident c -> challenge_key c = c_ident c ->
    http_handle sf feq issuers false false (run sf issuers ops) r = Some (c_keyauth c).
  Proof.
    intros Hwf Hin Hm Hp Hh Hk. apply (http_answered_while_pending sf feq issuers feq_refl ops w j c r Hwf Hin).
    - unfold http_matches, resource_path. rewrite Hm, Hp, Hh, !str_eqb_refl. cbn [andb].
      apply equal_fold_refl; exact feq_refl.
    - unfold finds. rewrite Hh, Hk, str_eqb_refl. reflexivity.
  Qed.

  Theorem any_node_presents_cert_while_pending ops w j c :
    wf sf issuers ops = true -> In (w, j, c) (pending ops) -> challenge_key c <> [] ->
    alpn_get sf feq issuers false (run sf issuers ops) (challenge_key c) [acme_tls1_protocol] = AChal c.
  Proof.
    intros Hwf Hin Hne. apply (alpn_answered_while_pending sf feq issuers feq_refl ops w j c _ Hwf Hin Hne).
    unfold finds. rewrite str_eqb_refl. reflexivity.
  Qed.

  (** key material that belongs to no pending challenge (never presented, or cleaned up) is not
      handed out, whatever the request *)
  Theorem not_served_unless_pending ops disabled lf r ka :
    (forall w j c, In (w, j, c) (pending ops) -> c_keyauth c <> ka) ->
    http_handle sf feq issuers disabled lf (run sf issuers ops) r <> Some ka.
  Proof.
    intros Hno H. destruct (http_only_exact sf feq issuers _ _ _ _ _ H) as (_ & _ & w & j & c & Hin & _ & _ & Hb).
    apply (Hno w j c Hin). symmetry; exact Hb.
  Qed.
  Theorem cert_not_presented_unless_pending ops lf sni protos c :
    (forall w j, ~ In (w, j, c) (pending ops)) ->
    alpn_get sf feq issuers lf (run sf issuers ops) sni protos <> AChal c.
  Proof.
    intros Hno H. destruct (alpn_only_acme sf feq issuers _ _ _ _ _ H) as (_ & _ & (w & j & Hin) & _).
    exact (Hno w j Hin).
  Qed.
End Readable.

(** * The Host forms of the property text, for all hosts and ports *)
Lemma contains_app c a b : contains c (a ++ b) = contains c a || contains c b.
Proof. unfold contains. apply existsb_app. Qed.
Lemma contains_cons c x s : contains c (x :: s) = (c =? x) || contains c s.
Proof. reflexivity. Qed.

Lemma last_index_app_sep c a b : contains c b = false ->
  last_index_of c (a ++ c :: b) = Some (length a).
Proof.
  intros Hb. induction a as [|x a IH]; cbn [app last_index_of length].
  - rewrite (last_index_none _ _ Hb), N.eqb_refl. reflexivity.
  - rewrite IH. reflexivity.
Qed.
Lemma last_index_some_app c a b i : last_index_of c b = Some i -> last_index_of c (a ++ b) = Some (length a + i)%nat.
Proof.
  intros Hb. induction a as [|x a IH]; cbn [app last_index_of length]; [exact Hb|]. rewrite IH. reflexivity.
Qed.
Lemma index_of_app_sep c a b : contains c a = false -> index_of c (a ++ c :: b) = Some (length a).
Proof.
  induction a as [|x a IH]; cbn [app index_of length]; intros Ha.
  - rewrite N.eqb_refl. reflexivity.
  - rewrite contains_cons in Ha. apply orb_false_iff in Ha. destruct Ha as [H1 H2].
    rewrite N.eqb_sym, H1, (IH H2). reflexivity.
Qed.
Lemma firstn_app_exact {A} (a b : list A) : firstn (length a) (a ++ b) = a.
Proof. induction a as [|x a IH]; cbn; [destruct b; reflexivity|rewrite IH; reflexivity]. Qed.
Lemma skipn_app_exact {A} (a b : list A) : skipn (length a) (a ++ b) = b.
Proof. induction a as [|x a IH]; cbn; [reflexivity|exact IH]. Qed.
Lemma ends_with_snoc c s : ends_with c (s ++ [c]) = true.
Proof. unfold ends_with. rewrite rev_app_distr. cbn. apply N.eqb_refl. Qed.

Definition plain (s : str) : Prop :=
  contains c_colon s = false /\ contains c_lbr s = false /\ contains c_rbr s = false.
Definition nobr (s : str) : Prop := contains c_lbr s = false /\ contains c_rbr s = false.

Lemma head_not_lbr s : contains c_lbr s = false -> match s with x :: _ => x =? c_lbr | [] => false end = false.
Proof.
  destruct s as [|x s]; [reflexivity|]. rewrite contains_cons. intros H. apply orb_false_iff in H.
  destruct H as [H _]. rewrite N.eqb_sym. exact H.
Qed.

Lemma challenge_host_nobracket h : contains c_lbr h = false ->
  (match h with
   | x :: r => if (x =? c_lbr) && ends_with c_rbr h && contains c_colon h then removelast r else h
   | [] => h
   end) = h.
Proof. intros H. destruct h as [|x r]; [reflexivity|]. pose proof (head_not_lbr _ H) as Hx. cbn in Hx. rewrite Hx. reflexivity. Qed.

(** "host:port" *)
Lemma split_host_port_plain h p : plain h -> plain p ->
  split_host_port (h ++ c_colon :: p) = Some (h, p).
Proof.
  intros (Hc & Hl & Hr) (Pc & Pl & Pr). unfold split_host_port.
  rewrite (last_index_app_sep c_colon h p Pc).
  assert (Hhd : match h ++ c_colon :: p with x :: _ => x =? c_lbr | [] => false end = false).
  { apply head_not_lbr. rewrite contains_app, contains_cons, Hl, Pl. reflexivity. }
  destruct (h ++ c_colon :: p) as [|x rest] eqn:E; [destruct h; discriminate|]. rewrite Hhd. rewrite <- E.
  rewrite firstn_app_exact, Hc.
  rewrite !contains_app, !contains_cons, Hl, Pl, Hr, Pr. cbn [orb N.eqb c_lbr c_rbr c_colon Pos.eqb].
  replace (S (length h)) with (length (h ++ [c_colon])) by (rewrite app_length; cbn; lia).
  replace (h ++ c_colon :: p) with ((h ++ [c_colon]) ++ p) by (rewrite <- app_assoc; reflexivity).
  rewrite skipn_app_exact. reflexivity.
Qed.
Theorem challenge_host_port h p : plain h -> plain p -> challenge_host (h ++ c_colon :: p) = h.
Proof.
  intros Hh Hp. unfold challenge_host, host_only. rewrite (split_host_port_plain h p Hh Hp).
  apply challenge_host_nobracket. apply Hh.
Qed.

(** "[v6]" without port: brackets removed (the case an ACME server sends for an IPv6 identifier) *)
Theorem challenge_host_bracket h : nobr h -> contains c_colon h = true ->
  challenge_host (c_lbr :: h ++ [c_rbr]) = h.
Proof.
  intros (Hl & Hr) Hc. unfold challenge_host, host_only.
  assert (Hsp : split_host_port (c_lbr :: h ++ [c_rbr]) = None).
  { unfold split_host_port. destruct (last_index_of c_colon (c_lbr :: h ++ [c_rbr])) as [i|]; [|reflexivity].
    cbn [N.eqb c_lbr Pos.eqb]. change (c_lbr :: h ++ [c_rbr]) with ((c_lbr :: h) ++ c_rbr :: []).
    rewrite index_of_app_sep by (rewrite contains_cons, Hr; reflexivity).
    rewrite app_length. cbn [length]. replace (S (length h) + 1)%nat with (S (S (length h))) by lia.
    rewrite Nat.eqb_refl. reflexivity. }
  rewrite Hsp. cbn [N.eqb c_lbr Pos.eqb andb].
  change (c_lbr :: h ++ [c_rbr]) with ((c_lbr :: h) ++ [c_rbr]). rewrite ends_with_snoc.
  rewrite contains_app, contains_cons, Hc. cbn [orb andb N.eqb c_colon c_lbr Pos.eqb].
  apply removelast_last.
Qed.

(** "[v6]:port" *)
Theorem challenge_host_bracket_port h p : nobr h -> plain p ->
  challenge_host (c_lbr :: h ++ c_rbr :: c_colon :: p) = h.
Proof.
  intros (Hl & Hr) (Pc & Pl & Pr). unfold challenge_host, host_only.
  assert (Hsp : split_host_port (c_lbr :: h ++ c_rbr :: c_colon :: p) = Some (h, p)).
  { set (hp := c_lbr :: h ++ c_rbr :: c_colon :: p).
    assert (F1 : last_index_of c_colon hp = Some (S (S (length h)))).
    { unfold hp. replace (c_lbr :: h ++ c_rbr :: c_colon :: p) with ((c_lbr :: h ++ [c_rbr]) ++ c_colon :: p)
        by (cbn; rewrite <- app_assoc; reflexivity).
      rewrite (last_index_app_sep c_colon _ p Pc). f_equal. cbn [length]. rewrite app_length. cbn. lia. }
    assert (F2 : index_of c_rbr hp = Some (S (length h))).
    { unfold hp. change (c_lbr :: h ++ c_rbr :: c_colon :: p) with ((c_lbr :: h) ++ c_rbr :: c_colon :: p).
      rewrite index_of_app_sep by (rewrite contains_cons, Hr; reflexivity). reflexivity. }
    assert (F3 : Nat.eqb (S (S (length h))) (length hp) = false).
    { apply Nat.eqb_neq. unfold hp. cbn [length]. rewrite app_length. cbn [length]. lia. }
    assert (F4 : skipn 1 hp = h ++ c_rbr :: c_colon :: p) by reflexivity.
    assert (F5 : skipn (S (S (length h))) hp = c_colon :: p).
    { unfold hp. rewrite skipn_cons.
      replace (S (length h)) with (length (h ++ [c_rbr])) by (rewrite app_length; cbn; lia).
      replace (h ++ c_rbr :: c_colon :: p) with ((h ++ [c_rbr]) ++ c_colon :: p) by (rewrite <- app_assoc; reflexivity).
      apply skipn_app_exact. }
    assert (F6 : skipn (S (S (S (length h)))) hp = p).
    { unfold hp. rewrite skipn_cons.
      replace (S (S (length h))) with (length (h ++ [c_rbr; c_colon])) by (rewrite app_length; cbn; lia).
      replace (h ++ c_rbr :: c_colon :: p) with ((h ++ [c_rbr; c_colon]) ++ p) by (rewrite <- app_assoc; reflexivity).
      apply skipn_app_exact. }
    unfold split_host_port. rewrite F1. unfold hp at 1. cbn [N.eqb c_lbr Pos.eqb]. fold hp.
    rewrite F2, F3, Nat.eqb_refl, F4, F5, F6.
    replace (S (length h) - 1)%nat with (length h) by lia. rewrite firstn_app_exact.
    rewrite contains_app, !contains_cons, Hl, Pl, Pr. reflexivity. }
  rewrite Hsp. apply challenge_host_nobracket. exact Hl.
Qed.

(** * strings.EqualFold on ASCII: equality up to letter case *)
Lemma tbl_feq_nil x y : tbl_feq [] x y = (ascii_lower x =? ascii_lower y).
Proof.
  unfold tbl_feq, ascii_lower. cbn [existsb]. rewrite orb_false_r.
  destruct (is_upper_ascii x) eqn:Ux, (is_upper_ascii y) eqn:Uy; unfold is_upper_ascii in *; lia.
Qed.
Theorem equal_fold_ascii a b : equal_fold (tbl_feq []) a b = true <-> map ascii_lower a = map ascii_lower b.
Proof.
  revert b. induction a as [|x a IH]; intros [|y b]; cbn [equal_fold map]; try (split; [discriminate|discriminate]).
  - split; reflexivity.
  - rewrite andb_true_iff, tbl_feq_nil, N.eqb_eq, IH. split.
    + intros [-> ->]. reflexivity.
    + intros H; injection H; auto.
Qed.
