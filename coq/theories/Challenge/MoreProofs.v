(** C15, statements the monitor checks through particular histories, proved for all of them:
    a clean-up ends the challenge whatever the embedded solver reports; requests served in the
    middle of a history (answered or not) never change what later requests get; an acme-tls/1
    hello without SNI takes the normal certificate path. *)
From CM Require Import Lib.Str Gen.Consts Challenge.Assoc Challenge.Model Challenge.Proofs.

Definition not_ask (o : cop) : bool := match o with Ask => false | _ => true end.

Section Sys.
  Variable sf : str -> str.
  Variable feq : N -> N -> bool.
  Variable issuers : list str.

  Notation step := (step sf issuers).
  Notation run := (run sf issuers).

  (** CleanUp has no outcome in the model: whether the embedded solver's clean-up (token Delete,
      listener, wrapped solver) reports an error or not, the memory entry and the token are gone *)
  Theorem clean_forgets s w j c :
    (has_mem w = true -> aget str_eqb (challenge_key c) (mem (step s (Clean w j c))) = None) /\
    (has_store w = true ->
       aget skey_eqb (tkey sf (ikof issuers j) (challenge_key c)) (store (step s (Clean w j c))) = None).
  Proof.
    split; intros H; cbn [step mem store]; rewrite H.
    - apply (aget_adel_same str_eqb).
    - apply (aget_adel_same skey_eqb).
  Qed.

  (** a request that was served (or refused) leaves no trace: histories with and without the
      [Ask] steps end in the same state, with the same pending challenges and the same discipline *)
  Lemma fold_no_asks ops : forall s, fold_left step (filter not_ask ops) s = fold_left step ops s.
  Proof. induction ops as [|o r IH]; intros s; cbn; [reflexivity|]. destruct o; cbn; apply IH. Qed.
  Lemma pending_no_asks ops : forall p, fold_left pstep (filter not_ask ops) p = fold_left pstep ops p.
  Proof. induction ops as [|o r IH]; intros p; cbn; [reflexivity|]. destruct o; cbn; apply IH. Qed.
  Lemma wf_no_asks ops : forall p, wf_from sf issuers p (filter not_ask ops) = wf_from sf issuers p ops.
  Proof.
    induction ops as [|o r IH]; intros p; [reflexivity|]. destruct o; cbn [filter not_ask wf_from]; rewrite ?IH; reflexivity.
  Qed.

  Theorem asks_never_matter ops :
    run (filter not_ask ops) = run ops /\ pending (filter not_ask ops) = pending ops /\
    wf sf issuers (filter not_ask ops) = wf sf issuers ops /\
    (forall disabled lf r, http_handle sf feq issuers disabled lf (run ops) r =
                           http_handle sf feq issuers disabled lf (run (filter not_ask ops)) r) /\
    (forall lf sni protos, alpn_get sf feq issuers lf (run ops) sni protos =
                           alpn_get sf feq issuers lf (run (filter not_ask ops)) sni protos).
  Proof.
    assert (R : run (filter not_ask ops) = run ops) by apply fold_no_asks.
    repeat split; [exact R|apply pending_no_asks|apply wf_no_asks|intros; rewrite R; reflexivity|intros; rewrite R; reflexivity].
  Qed.

  (** asking BEFORE anybody presented changes nothing either: the challenge presented afterwards
      is found (no negative caching) — the state is the one of the history without the questions *)
  Corollary ask_before_present ops1 ops2 : run (ops1 ++ Ask :: ops2) = run (ops1 ++ ops2).
  Proof.
    unfold Model.run. rewrite !fold_left_app. reflexivity.
  Qed.

  (** an acme-tls/1 hello WITHOUT a server name is not a challenge handshake: normal path *)
  Theorem no_sni_hello_normal lf s protos : alpn_get sf feq issuers lf s [] protos = ANormal.
  Proof. reflexivity. Qed.
End Sys.
