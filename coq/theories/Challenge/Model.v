(** Model of the challenge-answering side of certmagic (C15):
      httphandlers.go  HandleHTTPChallenge / LooksLikeHTTPChallenge / distributedHTTPChallengeSolver /
                       solveHTTPChallenge / challengeHost,   certificates.go hostOnly (net.SplitHostPort)
      handshake.go     TLS-ALPN branch of GetCertificateWithContext, getTLSALPNChallengeCert
      config.go        getChallengeInfo (memory first, then shared storage, identifier check)
      solvers.go       challengeKey, activeChallenges (solverWrapper), challenge_tokens/<id>.json
                       (distributedSolver) as far as they decide what a request sees.
    Executable definitions only.  Strings are code points (Lib.Str). *)
From CM Require Import Lib.Str Gen.Consts Challenge.Assoc.

(** * Challenges *)
Inductive ctype := THttp | TTlsAlpn | TDns | TOther.

Record chal := Chal {
  c_type : ctype;
  c_token : str;
  c_keyauth : str;
  c_is_ip : bool;          (* Identifier.Type == "ip" *)
  c_ident : str;           (* Identifier.Value *)
  c_rev : option str       (* dns.ReverseAddr(Identifier.Value) when it succeeds (with trailing '.'):
                              [rev_of_ip] of the identifier's address bytes *)
}.

Definition ctype_eqb (a b : ctype) : bool :=
  match a, b with
  | THttp, THttp | TTlsAlpn, TTlsAlpn | TDns, TDns | TOther, TOther => true
  | _, _ => false
  end.
Definition ostr_eqb (a b : option str) : bool :=
  match a, b with
  | Some x, Some y => str_eqb x y
  | None, None => true
  | _, _ => false
  end.
Definition chal_eqb (a b : chal) : bool :=
  ctype_eqb (c_type a) (c_type b) && str_eqb (c_token a) (c_token b) &&
  str_eqb (c_keyauth a) (c_keyauth b) && Bool.eqb (c_is_ip a) (c_is_ip b) &&
  str_eqb (c_ident a) (c_ident b) && ostr_eqb (c_rev a) (c_rev b).

(** solvers.go challengeKey: the identifier, except for an IP identifier under TLS-ALPN-01,
    whose key is the reverse-lookup name without the trailing dot *)
Definition challenge_key (c : chal) : str :=
  match c_type c, c_is_ip c, c_rev c with
  | TTlsAlpn, true, Some r => removelast r
  | _, _, _ => c_ident c
  end.

(** * dns.ReverseAddr: the reverse-mapping name of an address given by its bytes (4: IPv4 and
    IPv4-mapped IPv6, 16: IPv6), with the trailing dot.  RFC 1035 3.5 / RFC 3596 2.5; RFC 8738 6
    makes it the SNI of a TLS-ALPN-01 validation of an IP identifier. *)
Definition digit (d : N) : N := 48 + d.
Definition dec3 (n : N) : str :=
  if n <? 10 then [digit n]
  else if n <? 100 then [digit (n / 10); digit (n mod 10)]
  else [digit (n / 100); digit ((n / 10) mod 10); digit (n mod 10)].
Definition hexd (d : N) : N := if d <? 10 then 48 + d else 87 + d.
Definition s_in_addr_arpa : str := [105; 110; 45; 97; 100; 100; 114; 46; 97; 114; 112; 97; 46].
Definition s_ip6_arpa : str := [105; 112; 54; 46; 97; 114; 112; 97; 46].
Definition v4_label (x : N) : str := dec3 x ++ [46].
Definition v6_labels (x : N) : str := [hexd (x mod 16); 46; hexd (x / 16); 46].
Definition rev_name (b : list N) : option str :=
  match length b with
  | 4%nat => Some (concat (map v4_label (rev b)) ++ s_in_addr_arpa)
  | 16%nat => Some (concat (map v6_labels (rev b)) ++ s_ip6_arpa)
  | _ => None
  end.
(** the oracle field [c_rev] of a challenge whose identifier has the address bytes [ip] *)
Definition rev_of_ip (ip : option (list N)) : option str :=
  match ip with Some b => rev_name b | None => None end.

(** * net.SplitHostPort, hostOnly, challengeHost *)
Definition c_colon : N := 58.
Definition c_lbr : N := 91.
Definition c_rbr : N := 93.

Fixpoint index_of (c : N) (s : str) : option nat :=
  match s with
  | [] => None
  | x :: r => if x =? c then Some O else option_map S (index_of c r)
  end.
Fixpoint last_index_of (c : N) (s : str) : option nat :=
  match s with
  | [] => None
  | x :: r => match last_index_of c r with
              | Some i => Some (S i)
              | None => if x =? c then Some O else None
              end
  end.
Definition contains (c : N) (s : str) : bool := existsb (N.eqb c) s.

(** [Some (host, port)] or [None] for every error return of net.SplitHostPort *)
Definition split_host_port (hp : str) : option (str * str) :=
  match last_index_of c_colon hp with
  | None => None                                            (* missing port *)
  | Some i =>
      match hp with
      | x :: _ =>
          if x =? c_lbr then
            match index_of c_rbr hp with
            | None => None                                  (* missing ']' *)
            | Some e =>
                if Nat.eqb (S e) (length hp) then None      (* missing port *)
                else if Nat.eqb (S e) i then
                  let host := firstn (e - 1) (skipn 1 hp) in
                  if contains c_lbr (skipn 1 hp) then None  (* unexpected '[' *)
                  else if contains c_rbr (skipn (S e) hp) then None   (* unexpected ']' *)
                  else Some (host, skipn (S i) hp)
                else None                                   (* too many colons / missing port *)
            end
          else
            let host := firstn i hp in
            if contains c_colon host then None              (* too many colons *)
            else if contains c_lbr hp then None
            else if contains c_rbr hp then None
            else Some (host, skipn (S i) hp)
      | [] => None
      end
  end.

Definition host_only (hp : str) : str :=
  match split_host_port hp with Some (h, _) => h | None => hp end.

Definition ends_with (c : N) (s : str) : bool :=
  match rev s with x :: _ => x =? c | [] => false end.

(** httphandlers.go challengeHost: port removed; brackets of a port-less IPv6 literal removed *)
Definition challenge_host (hp : str) : str :=
  let h := host_only hp in
  match h with
  | x :: r => if (x =? c_lbr) && ends_with c_rbr h && contains c_colon h then removelast r else h
  | [] => h
  end.

(** * strings.EqualFold, rune-wise over an oracle for simple case folding of two code points *)
Section Fold.
  Variable feq : N -> N -> bool.
  Fixpoint equal_fold (a b : str) : bool :=
    match a, b with
    | [], [] => true
    | x :: a', y :: b' => feq x y && equal_fold a' b'
    | _, _ => false
    end.
End Fold.

(** table-driven instance: exact below 128, observed pairs otherwise (emitted with the case) *)
Definition tbl_feq (tbl : list (N * N)) (x y : N) : bool :=
  (x =? y) ||
  ((x <? 128) && (y <? 128) && (ascii_lower x =? ascii_lower y) &&
   (is_upper_ascii x || is_upper_ascii y)) ||
  existsb (fun p => ((fst p =? x) && (snd p =? y)) || ((fst p =? y) && (snd p =? x))) tbl.

(** * State: the answering process's challenge memory and the shared token store *)
Inductive sval := SChal (c : chal) | SCorrupt | SEmpty.
(** a token key is [acme/<safe issuer key>/challenge_tokens/<safe name>.json]; it is modelled by
    its two sanitized components (C11 proves the key string is made of exactly these) *)
Definition skey := (str * str)%type.
Definition skey_eqb (a b : skey) : bool := str_eqb (fst a) (fst b) && str_eqb (snd a) (snd b).

Record cstate := CState {
  mem : list (str * (chal * bool));      (* activeChallenges: key -> (challenge, data != nil) *)
  store : list (skey * sval)             (* challenge token files *)
}.
Definition cinit : cstate := CState [] [].

(** who holds the challenge: this process through the full solver stack (memory + storage),
    another instance (storage only is visible here), or this process through a solver that is not
    distributed (memory only: the DNS-01 configuration) *)
Inductive place := WLocal | WRemote | WMem.
Definition has_mem (w : place) : bool := match w with WRemote => false | _ => true end.
Definition has_store (w : place) : bool := match w with WMem => false | _ => true end.
Definition place_eqb (a b : place) : bool :=
  match a, b with WLocal, WLocal | WRemote, WRemote | WMem, WMem => true | _, _ => false end.

Inductive cop :=
| Present (w : place) (j : nat) (c : chal)       (* j: index of the presenting issuer in Config.Issuers *)
| Clean (w : place) (j : nat) (c : chal)
| Tamper (j : nat) (name : str) (v : option sval)  (* storage fault: file corrupted / emptied / removed *)
| Ask.   (* this process served some request (HTTP or ClientHello): the handlers only read the
            challenge memory and the storage, so answering leaves the state as it is *)

Section Sys.
  Variable sf : str -> str.            (* KeyBuilder.Safe *)
  Variable feq : N -> N -> bool.       (* simple case folding *)
  Variable issuers : list str.         (* IssuerKey() of Config.Issuers, in order *)

  Definition ikof (j : nat) : str := nth j issuers [].
  Definition tkey (ik name : str) : skey := (sf ik, sf name).

  Definition is_alpn (c : chal) : bool := match c_type c with TTlsAlpn => true | _ => false end.

  Definition step (s : cstate) (o : cop) : cstate :=
    match o with
    | Present w j c =>
        CState (if has_mem w then aset str_eqb (challenge_key c) (c, is_alpn c && place_eqb w WLocal) (mem s) else mem s)
               (if has_store w then aset skey_eqb (tkey (ikof j) (challenge_key c)) (SChal c) (store s) else store s)
    | Clean w j c =>
        CState (if has_mem w then adel str_eqb (challenge_key c) (mem s) else mem s)
               (if has_store w then adel skey_eqb (tkey (ikof j) (challenge_key c)) (store s) else store s)
    | Tamper j name v =>
        CState (mem s)
               (match v with
                | Some (SChal _) => store s          (* not a fault: ignored *)
                | Some x => aset skey_eqb (tkey (ikof j) name) x (store s)
                | None => adel skey_eqb (tkey (ikof j) name) (store s)
                end)
    | Ask => s
    end.
  Definition run (ops : list cop) : cstate := fold_left step ops cinit.

  (** ** config.go getChallengeInfo *)
  Fixpoint first_stored (s : cstate) (iks : list str) (ident : str) : option sval :=
    match iks with
    | [] => None
    | ik :: r => match aget skey_eqb (tkey ik ident) (store s) with
                 | Some v => Some v
                 | None => first_stored s r ident
                 end
    end.

  Definition get_challenge_info (s : cstate) (load_fault : bool) (ident : str) : option chal :=
    match aget str_eqb ident (mem s) with
    | Some (c, _) => Some c
    | None =>
        if load_fault then None
        else match first_stored s issuers ident with
             | Some (SChal c) => if equal_fold feq (challenge_key c) ident then Some c else None
             | _ => None
             end
    end.

  (** ** httphandlers.go *)
  Record hreq := HReq { h_method : str; h_path : str; h_host : str }.
  Definition m_get : str := c15_http_method.   (* "GET": translated from the comparisons with http.MethodGet *)
  Definition resource_path (c : chal) : str := acme_http_challenge_base_path ++ [c_slash] ++ c_token c.

  Definition looks_like_challenge (r : hreq) : bool :=
    str_eqb (h_method r) m_get && has_prefix acme_http_challenge_base_path (h_path r).

  Definition solve_http (r : hreq) (c : chal) : option str :=
    if str_eqb (h_path r) (resource_path c) &&
       equal_fold feq (challenge_host (h_host r)) (c_ident c) &&
       str_eqb (h_method r) m_get
    then Some (c_keyauth c) else None.

  (** [Some body]: the challenge handler wrote the body; [None]: the wrapped handler ran *)
  Definition http_handle (disabled load_fault : bool) (s : cstate) (r : hreq) : option str :=
    if disabled then None
    else if negb (looks_like_challenge r) then None
    else match get_challenge_info s load_fault (challenge_host (h_host r)) with
         | Some c => solve_http r c
         | None => None
         end.

  (** ** handshake.go, TLS-ALPN branch *)
  Inductive alpn_res := AChal (c : chal) | AErr | ANormal.
  Definition alpn_branch (sni : str) (protos : list str) : bool :=
    negb (match sni with [] => true | _ => false end) &&
    match protos with [p] => str_eqb p acme_tls1_protocol | _ => false end.
  Definition alpn_get (load_fault : bool) (s : cstate) (sni : str) (protos : list str) : alpn_res :=
    if alpn_branch sni protos then
      match get_challenge_info s load_fault sni with Some c => AChal c | None => AErr end
    else ANormal.

  (** * Vocabulary of the specification: which challenges are pending after a history *)
  Definition pent := (place * nat * chal)%type.
  Definition pent_eqb (a b : pent) : bool :=
    place_eqb (fst (fst a)) (fst (fst b)) && Nat.eqb (snd (fst a)) (snd (fst b)) && chal_eqb (snd a) (snd b).
  Definition pstep (p : list pent) (o : cop) : list pent :=
    match o with
    | Present w j c => (w, j, c) :: p
    | Clean w j c => filter (fun e => negb (pent_eqb e (w, j, c))) p
    | Tamper _ _ _ => p
    | Ask => p
    end.
  Definition pending (ops : list cop) : list pent := fold_left pstep ops [].

  (** discipline under which "answered while pending" is claimed: no storage tampering, a
      challenge is only presented while no pending challenge has the same sanitized key
      (certmagic serialises orders per identifier cluster-wide, C01), and only what is pending
      is cleaned up (acmez: CleanUp follows Present) *)
  Definition fresh_key (p : list pent) (c : chal) : bool :=
    forallb (fun e => negb (str_eqb (sf (challenge_key (snd e))) (sf (challenge_key c)))) p.
  Fixpoint wf_from (p : list pent) (ops : list cop) : bool :=
    match ops with
    | [] => true
    | o :: r =>
        match o with
        | Present w j c => fresh_key p c && (negb (has_store w) || Nat.ltb j (length issuers)) && wf_from (pstep p o) r
        | Clean w j c => existsb (pent_eqb (w, j, c)) p && wf_from (pstep p o) r
        | Tamper _ _ _ => false
        | Ask => wf_from p r
        end
    end.
  Definition wf (ops : list cop) : bool := wf_from [] ops.

  (** the request that validates [c] as the CA sends it, up to the spelling [h] of the host *)
  Definition http_matches (r : hreq) (c : chal) : bool :=
    str_eqb (h_method r) m_get && str_eqb (h_path r) (resource_path c) &&
    equal_fold feq (challenge_host (h_host r)) (c_ident c).
  (** the spelling [h] finds the challenge: exactly its key, or (through storage) any spelling
      with the same sanitized form that folds to the key *)
  Definition finds (w : place) (h : str) (c : chal) : bool :=
    str_eqb h (challenge_key c) ||
    (has_store w && str_eqb (sf h) (sf (challenge_key c)) && equal_fold feq (challenge_key c) h).

  (** ** boolean specification, evaluated on an observation [obs] of the implementation *)
  Definition http_spec (ops : list cop) (disabled load_fault : bool) (r : hreq) (obs : option str) : bool :=
    let p := pending ops in
    (* only the exact request gets key material, and it gets the right one *)
    match obs with
    | Some b => negb disabled && existsb (fun e => http_matches r (snd e) && str_eqb b (c_keyauth (snd e))) p
    | None => true
    end &&
    (* a pending challenge is answered by this node whoever initiated it *)
    (negb (wf ops) || disabled || load_fault ||
     forallb (fun e : pent => let '(w, j, c) := e in
                negb (http_matches r c && finds w (challenge_host (h_host r)) c) ||
                match obs with Some b => str_eqb b (c_keyauth c) | None => false end) p).

  Definition alpn_obs_ok (c : chal) (obs : alpn_res) : bool :=
    match obs with AChal c' => chal_eqb c' c | _ => false end.
  Definition alpn_spec (ops : list cop) (load_fault : bool) (sni : str) (protos : list str) (obs : alpn_res) : bool :=
    let p := pending ops in
    match obs with
    | AChal c => alpn_branch sni protos &&
                 existsb (fun e => chal_eqb (snd e) c &&
                                   (str_eqb sni (challenge_key c) || equal_fold feq (challenge_key c) sni)) p
    | AErr => alpn_branch sni protos
    | ANormal => negb (alpn_branch sni protos)
    end &&
    (negb (wf ops) || load_fault || negb (alpn_branch sni protos) ||
     forallb (fun e : pent => let '(w, j, c) := e in negb (finds w sni c) || alpn_obs_ok c obs) p).
End Sys.
