(** C03: the run-time monitor [Lookup.Check.spec_lookup] holds of what the model answers, on
    every cache satisfying the C12 invariant. *)
From CM Require Import Lib.Str Lib.Wire Gen.Consts Cache.Model Cache.AMapFacts Cache.Proofs Cache.Check
  Lookup.Model Lookup.Proofs Lookup.ProofsX Lookup.Check.
From Coq Require Import Arith.
Open Scope nat_scope.
Arguments count_str : simpl never.

(** the observation corresponding to a model result *)
Definition obs_of (c : lcase) (r : result) : obs :=
  match r with
  | RErr => OErr
  | ROk x => OCert (c_hash x) (known_complete c (c_hash x))
  end.

Lemma first_listed_some s cands m : first_listed s cands = Some m ->
  exists pre post : list name, cands = pre ++ m :: post /\ Forall (fun m' => idx s m' = []) pre /\ idx s m <> [].
Proof.
  unfold first_listed. induction cands as [|a r IH]; cbn [find]; [discriminate|].
  destruct (is_nil (idx s a)) eqn:E; cbn [negb].
  - intros H. destruct (IH H) as (pre & post & -> & Hpre & Hm). exists (a :: pre), post.
    repeat split; [|exact Hm]. constructor; [apply is_nil_true; exact E | exact Hpre].
  - intros H; injection H as <-. exists [], r. repeat split; [constructor|].
    intros H. rewrite H in E. discriminate.
Qed.
Lemma first_listed_none s cands : first_listed s cands = None -> Forall (fun m' => idx s m' = []) cands.
Proof.
  unfold first_listed. induction cands as [|a r IH]; cbn [find]; [constructor|].
  destruct (is_nil (idx s a)) eqn:E; cbn [negb]; [|discriminate].
  intros H. constructor; [apply is_nil_true; exact E | apply IH; exact H].
Qed.

Section Spec.
  Variable lower : N -> N.
  Variable is_space : N -> bool.
  Variable names_of : hash -> list name.
  Variable c : lcase.
  Let s := l_state c.
  Let supf := supf c.
  Let validf := validf c.
  Let goodb := fun h => supf h && validf h.
  Notation Inv := (Inv names_of (l_cap c)).
  Notation normalize := (normalize lower is_space).
  Notation hello_name := (hello_name lower is_space).

  Hypothesis HI : Inv s.
  (** every cached certificate and every certificate in storage is complete (chain and key) *)
  Hypothesis Hcomplete : forall h x, alookup h (cache s) = Some x -> at_complete (attr_get (l_attrs c) h) = true.
  (** the Names of a cached certificate are the names its leaf carries *)
  Hypothesis Hnames : forall h x, alookup h (cache s) = Some x -> at_names (attr_get (l_attrs c) h) = c_names x.
  Hypothesis Hstored : forall k x, alookup k (x_storage (l_envx c)) = Some x ->
    alookup (c_hash (sd_cert x)) (l_stored_complete c) = Some true.

  Lemma matching_hash_in_idx m x : In x (get_all_matching_certs s m) -> In (c_hash x) (idx s m).
  Proof.
    unfold get_all_matching_certs. intros H. apply in_map_iff in H. destruct H as (h & <- & Hin).
    assert (Hc : (0 < count_str h (idx s m))%nat) by (apply count_str_In; exact Hin).
    rewrite (inv_count _ _ s HI) in Hc. destruct (amem h (cache s)) eqn:Em; [|lia].
    apply amem_alookup in Em. destruct Em as [x Ex]. unfold cache_get. rewrite Ex.
    destruct (inv_cert _ _ s HI h x Ex) as (-> & _). exact Hin.
  Qed.
  Lemma idx_hash_matching m h : In h (idx s m) ->
    exists x, In x (get_all_matching_certs s m) /\ c_hash x = h.
  Proof.
    intros Hin. exists (cache_get s h). split; [unfold get_all_matching_certs; apply in_map; exact Hin|].
    assert (Hc : (0 < count_str h (idx s m))%nat) by (apply count_str_In; exact Hin).
    rewrite (inv_count _ _ s HI) in Hc. destruct (amem h (cache s)) eqn:Em; [|lia].
    apply amem_alookup in Em. destruct Em as [x Ex]. unfold cache_get. rewrite Ex.
    destruct (inv_cert _ _ s HI h x Ex) as (-> & _). reflexivity.
  Qed.

  (** what comes out of the cache is listed under the name it was found by, and is a supported
      unexpired certificate if one is listed there *)
  Lemma selected_ok m x : select_cert supf validf s m = Some x ->
    alookup (c_hash x) (cache s) = Some x /\
    listed_under s (c_hash x) m = true /\ really_names c (c_hash x) m = true /\
    (negb (existsb goodb (idx s m)) || goodb (c_hash x)) = true /\
    (negb (existsb supf (idx s m)) || supf (c_hash x)) = true.
  Proof.
    intros Hs. destruct (select_some supf validf names_of (l_cap c) s m x HI Hs) as (Hc & Hm & Hin & Hg).
    assert (H2 : mem_str m (c_names x) = true) by (apply mem_str_In; exact Hm).
    split; [exact Hc|]. split; [|split; [|split]].
    - unfold listed_under. rewrite Hc.
      assert (H1 : mem_str (c_hash x) (idx s m) = true) by (apply mem_str_In, matching_hash_in_idx; exact Hin).
      rewrite H1, H2. reflexivity.
    - unfold really_names. rewrite (Hnames _ _ Hc). exact H2.
    - destruct (existsb goodb (idx s m)) eqn:E; [|reflexivity]. cbn [negb orb].
      apply existsb_exists in E. destruct E as (h & Hh & Hgood).
      destruct (idx_hash_matching m h Hh) as (x' & Hx' & <-).
      unfold goodb in *. apply andb_true_iff in Hgood.
      destruct Hg as [G1 G2]; [exists x'; split; [exact Hx' | exact Hgood]|].
      rewrite G1, G2. reflexivity.
    - destruct (existsb supf (idx s m)) eqn:E; [|reflexivity]. cbn [negb orb].
      apply existsb_exists in E. destruct E as (h & Hh & Hsup).
      destruct (idx_hash_matching m h Hh) as (x' & Hx' & <-).
      unfold Model.select_cert in Hs. eapply default_select_sup; eauto.
  Qed.

  Lemma complete_of_cached x : alookup (c_hash x) (cache s) = Some x -> known_complete c (c_hash x) = true.
  Proof. intros H. unfold known_complete. fold s. rewrite H. eapply Hcomplete; eauto. Qed.

  Lemma complete_of_loaded cap0 (x : stored) :
    load_ok lower is_space cap0 s (l_cfg c) (l_ip c) (l_envx c) x -> known_complete c (c_hash (sd_cert x)) = true.
  Proof.
    intros (nm & _ & _ & _ & Hl). apply load_from_storage_key in Hl. destruct Hl as [k Hk].
    unfold known_complete. fold s. destruct (alookup (c_hash (sd_cert x)) (cache s)) as [y|] eqn:E.
    - eapply Hcomplete; eauto.
    - rewrite (Hstored k x Hk). reflexivity.
  Qed.

  Lemma loaded_ok_of_load (x : stored) :
    load_ok lower is_space (l_cap c) s (l_cfg c) (l_ip c) (l_envx c) x -> sd_servable x = true ->
    loaded_ok lower is_space c (c_hash (sd_cert x)) = true.
  Proof.
    intros (nm & Hn & Hq & Ha & Hl) Hfr. unfold loaded_ok. fold s. rewrite Ha, Hn, Hq, Hl, Hfr, str_eqb_refl. reflexivity.
  Qed.

  (** the names tried for a match decide when the selector accepts one of them *)
  Lemma matched_decides sel m x :
    first_sel sel s (match_names lower is_space c) = Some (m, x) ->
    from_cache_x lower is_space sel (l_conn c) s (l_cfg c) (l_sni c) (l_ip c) = Some (x, true, m).
  Proof.
    unfold match_names, Model.from_cache_x. destruct (is_nil (normalize (l_sni c))).
    - destruct (l_conn c); cbn [first_sel]; [|discriminate].
      destruct (sel s (l_ip c)); [|discriminate]. intros H; injection H as <- <-. reflexivity.
    - intros ->. reflexivity.
  Qed.
  Lemma unmatched_defaults sel x b v :
    first_sel sel s (match_names lower is_space c) = None ->
    from_cache_x lower is_space sel (l_conn c) s (l_cfg c) (l_sni c) (l_ip c) = Some (x, b, v) ->
    b = false /\
    ((is_nil (normalize (l_sni c)) = true /\ is_nil (default_name (l_cfg c)) = false /\
      v = normalize (default_name (l_cfg c)) /\ sel s v = Some x) \/
     (is_nil (fallback_name (l_cfg c)) = false /\ v = normalize (fallback_name (l_cfg c)) /\ sel s v = Some x)).
  Proof.
    unfold match_names, Model.from_cache_x, try_fallback_x. destruct (is_nil (normalize (l_sni c))).
    - assert (Hnone : first_sel sel s (if l_conn c then [l_ip c] else []) = None ->
                      (if l_conn c then sel s (l_ip c) else None) = None).
      { destruct (l_conn c); cbn [first_sel]; [|reflexivity]. destruct (sel s (l_ip c)); [discriminate | reflexivity]. }
      intros Hfs. rewrite (Hnone Hfs).
      destruct (is_nil (default_name (l_cfg c))).
      + destruct (is_nil (fallback_name (l_cfg c))); [discriminate|].
        destruct (sel s (normalize (fallback_name (l_cfg c)))) eqn:E; [|discriminate].
        intros H; injection H as <- <- <-. split; [reflexivity|]. right. auto.
      + destruct (sel s (normalize (default_name (l_cfg c)))) eqn:Ed.
        * intros H; injection H as <- <- <-. split; [reflexivity|]. left. auto.
        * destruct (is_nil (fallback_name (l_cfg c))); [discriminate|].
          destruct (sel s (normalize (fallback_name (l_cfg c)))) eqn:E; [|discriminate].
          intros H; injection H as <- <- <-. split; [reflexivity|]. right. auto.
    - intros ->. destruct (is_nil (fallback_name (l_cfg c))); [discriminate|].
      destruct (sel s (normalize (fallback_name (l_cfg c)))) eqn:E; [|discriminate].
      intros H; injection H as <- <- <-. split; [reflexivity|]. right. auto.
  Qed.

  (** ---- an error only when nothing is available ---- *)
  Lemma from_cache_none sel conn :
    from_cache_x lower is_space sel conn s (l_cfg c) (l_sni c) (l_ip c) = None ->
    ((is_nil (normalize (l_sni c)) && negb (is_nil (default_name (l_cfg c)))) = true ->
       sel s (normalize (default_name (l_cfg c))) = None) /\
    (negb (is_nil (fallback_name (l_cfg c))) = true -> sel s (normalize (fallback_name (l_cfg c))) = None).
  Proof.
    unfold Model.from_cache_x, try_fallback_x. destruct (is_nil (normalize (l_sni c))).
    - destruct (if conn then sel s (l_ip c) else None); [discriminate|].
      destruct (is_nil (default_name (l_cfg c))); cbn [negb andb].
      + destruct (is_nil (fallback_name (l_cfg c))); cbn [negb]; [intros _; split; discriminate|].
        destruct (sel s (normalize (fallback_name (l_cfg c)))); [discriminate|]. intros _. split; [discriminate | reflexivity].
      + destruct (sel s (normalize (default_name (l_cfg c)))); [discriminate|].
        destruct (is_nil (fallback_name (l_cfg c))); cbn [negb]; [intros _; split; [reflexivity | discriminate]|].
        destruct (sel s (normalize (fallback_name (l_cfg c)))); [discriminate|]. intros _. split; reflexivity.
    - destruct (first_sel sel s (normalize (l_sni c) :: wildcard_candidates (normalize (l_sni c)))) as [[m x]|]; [discriminate|].
      cbn [andb]. destruct (is_nil (fallback_name (l_cfg c))); cbn [negb]; [intros _; split; discriminate|].
      destruct (sel s (normalize (fallback_name (l_cfg c)))); [discriminate|]. intros _. split; [discriminate | reflexivity].
  Qed.

  Lemma error_ok_model post :
    lookup_x lower is_space (self c) (l_conn c) s (l_cap c) (l_cfg c) (l_sni c) (l_ip c) (l_envx c) = (RErr, post) ->
    error_ok lower is_space c = true.
  Proof.
    unfold Model.lookup_x, error_ok, name_bad, loadable, sel_some. fold s.
    set (sel := self c). intros H.
    destruct (hello_name (l_cfg c) (l_ip c) (x_idna (l_envx c))) as [nm|] eqn:En.
    2:{ reflexivity. }
    destruct (subject_qualifies is_space nm) eqn:Eq; cbn [negb orb]; [|reflexivity].
    destruct (from_cache_x lower is_space sel (l_conn c) s (l_cfg c) (l_sni c) (l_ip c)) as [[[c0 b] v]|] eqn:Ef.
    - exfalso. destruct b; [discriminate|]. cbn [negb] in H.
      destruct (if almost_full (l_cap c) (length (cache s)) then load_from_storage (x_storage (l_envx c)) (x_broken (l_envx c)) nm else None) as [x|];
        [cbv zeta in H; destruct (sd_servable x); discriminate | discriminate].
    - destruct (from_cache_none sel (l_conn c) Ef) as [Hd Hf]. cbn [negb] in H.
      apply negb_true_iff. apply orb_false_iff. split; [apply orb_false_iff; split|].
      + destruct (is_nil (normalize (l_sni c)) && negb (is_nil (default_name (l_cfg c)))) eqn:E; [|reflexivity].
        rewrite (Hd eq_refl). reflexivity.
      + destruct (negb (is_nil (fallback_name (l_cfg c)))) eqn:E; [|reflexivity].
        rewrite (Hf eq_refl). reflexivity.
      + destruct (almost_full (l_cap c) (length (cache s))); [|reflexivity]. cbn [andb].
        destruct (load_from_storage (x_storage (l_envx c)) (x_broken (l_envx c)) nm) as [x|]; [|reflexivity].
        cbv zeta in H. destruct (sd_servable x); [discriminate | reflexivity].
  Qed.

  (** ---- default policy ---- *)
  Lemma first_listed_first_sel (cands : list name) :
    match first_listed s cands with
    | Some m => exists x, first_sel (select_cert supf validf) s cands = Some (m, x) /\ select_cert supf validf s m = Some x
    | None => first_sel (select_cert supf validf) s cands = None
    end.
  Proof.
    destruct (first_listed s cands) as [m|] eqn:E.
    - apply first_listed_some in E. destruct E as (pre & post & -> & Hpre & Hm).
      exact (first_select_first supf validf s pre m post Hpre Hm).
    - apply first_listed_none in E. apply (first_select_none supf validf). exact E.
  Qed.

  Lemma spec_default : l_policy c = PDefault ->
    spec_lookup_x_o lower is_space c (obs_of c (fst (run_lookup_x lower is_space c))) = true.
  Proof.
    intros Hp.
    assert (Hself : self c = select_cert supf validf) by (unfold self; rewrite Hp; reflexivity).
    unfold spec_lookup_x_o, run_lookup_x. rewrite Hp, Hself.
    fold s. change (Check.supf c) with supf. change (Check.validf c) with validf.
    set (sel := select_cert supf validf).
    destruct (lookup_x lower is_space sel (l_conn c) s (l_cap c) (l_cfg c) (l_sni c) (l_ip c) (l_envx c)) as [r post] eqn:Err.
    cbn [fst snd].
    pose proof (first_listed_first_sel (match_names lower is_space c)) as Hfl.
    destruct (first_listed s (match_names lower is_space c)) as [m|].
    - (* a preferred name is listed: it decides *)
      destruct Hfl as (x & Hfs & Hs).
      pose proof (matched_decides sel m x Hfs) as Hf. unfold lookup_x in Err. rewrite Hf in Err.
      injection Err as <- _. cbn [obs_of].
      destruct (selected_ok m x Hs) as (Hc & Hl & Hrn & Hg & Hsp).
      unfold goodb in Hg. rewrite (complete_of_cached x Hc), Hl, Hrn, Hg, Hsp. reflexivity.
    - (* nothing listed under a preferred name *)
      destruct r as [|x]; cbn [obs_of].
      { assert (Hs2 : sel = self c) by (unfold sel; symmetry; exact Hself).
        rewrite Hs2 in Err. exact (error_ok_model post Err). }
      destruct (lookup_x_cases _ _ _ _ _ _ _ _ _ _ _ _ Err) as [(b & v & Hf)|(x0 & Hlo & Hfr & -> & _)].
      + destruct (unmatched_defaults sel x b v Hfl Hf) as (_ & [(Hn & Hd & -> & Hs)|(Hfb & -> & Hs)]).
        * destruct (selected_ok _ x Hs) as (Hc & Hl & Hrn & _ & _).
          rewrite (complete_of_cached x Hc), Hn, Hd, Hl, Hrn. reflexivity.
        * destruct (selected_ok _ x Hs) as (Hc & Hl & Hrn & _ & _).
          rewrite (complete_of_cached x Hc), Hfb, Hl, Hrn. cbn [negb andb]. rewrite orb_true_r. reflexivity.
      + rewrite (complete_of_loaded _ x0 Hlo), (loaded_ok_of_load x0 Hlo Hfr). cbn [andb].
        rewrite !orb_true_r. reflexivity.
  Qed.

  (** ---- a custom selector ---- *)
  Lemma spec_custom : l_policy c <> PDefault ->
    spec_lookup_x_o lower is_space c (obs_of c (fst (run_lookup_x lower is_space c))) = true.
  Proof.
    intros Hp. unfold spec_lookup_x_o, run_lookup_x.
    fold s.
    set (sel := self c) in *.
    destruct (lookup_x lower is_space sel (l_conn c) s (l_cap c) (l_cfg c) (l_sni c) (l_ip c) (l_envx c)) as [r post] eqn:Err.
    cbn [fst snd].
    assert (Hcase : match l_policy c with PDefault => False | _ => True end) by (destruct (l_policy c); [congruence | exact I ..]).
    assert (Hgoal :
      match obs_of c r with
      | OEmpty => false
      | OErr => forallb (fun v => match sel s v with Some _ => false | None => true end) (match_names lower is_space c) &&
                error_ok lower is_space c
      | OCert h complete =>
          complete && known_complete c h &&
          match first_sel sel s (match_names lower is_space c) with
          | Some (_, x) => str_eqb (c_hash x) h && amem h (cache s)
          | None =>
              (is_nil (normalize (l_sni c)) && negb (is_nil (default_name (l_cfg c))) &&
                 sel_is c (normalize (default_name (l_cfg c))) h && amem h (cache s)) ||
              (negb (is_nil (fallback_name (l_cfg c))) &&
                 sel_is c (normalize (fallback_name (l_cfg c))) h && amem h (cache s)) ||
              loaded_ok lower is_space c h
          end
      end = true).
    { destruct r as [|x]; cbn [obs_of].
      - (* an error: no name tried for a match was accepted *)
        destruct (first_sel sel s (match_names lower is_space c)) as [[m x]|] eqn:Efs.
        + apply matched_decides in Efs. unfold lookup_x in Err. rewrite Efs in Err. discriminate.
        + apply andb_true_iff. split; [|exact (error_ok_model post Err)].
          apply (first_sel_none sel) in Efs. apply forallb_forall. intros v Hv.
          rewrite Forall_forall in Efs. rewrite (Efs v Hv). reflexivity.
      - destruct (first_sel sel s (match_names lower is_space c)) as [[m x']|] eqn:Efs.
        + pose proof (matched_decides sel m x' Efs) as Hf. unfold lookup_x in Err. rewrite Hf in Err.
          injection Err as <- _.
          assert (Hc : alookup (c_hash x') (cache s) = Some x').
          { apply first_sel_some in Efs. destruct Efs as (_ & _ & _ & _ & Hs).
            eapply (sel_policy_in_cache (Check.supf c) (Check.validf c) names_of (l_cap c)); eauto. }
          rewrite (complete_of_cached x' Hc), str_eqb_refl. cbn [andb].
          apply amem_alookup. eauto.
        + destruct (lookup_x_cases _ _ _ _ _ _ _ _ _ _ _ _ Err) as [(b & v & Hf)|(x0 & Hl & Hfr & -> & _)].
          * destruct (unmatched_defaults sel x b v Efs Hf) as (_ & [(Hn & Hd & -> & Hs)|(Hfb & -> & Hs)]).
            -- assert (Hc : alookup (c_hash x) (cache s) = Some x)
                 by (eapply (sel_policy_in_cache (Check.supf c) (Check.validf c) names_of (l_cap c)); eauto).
               assert (Hm : amem (c_hash x) (cache s) = true) by (apply amem_alookup; eauto).
               rewrite (complete_of_cached x Hc), Hn, Hd, Hm. unfold sel_is. fold s. fold sel. rewrite Hs, str_eqb_refl.
               reflexivity.
            -- assert (Hc : alookup (c_hash x) (cache s) = Some x)
                 by (eapply (sel_policy_in_cache (Check.supf c) (Check.validf c) names_of (l_cap c)); eauto).
               assert (Hm : amem (c_hash x) (cache s) = true) by (apply amem_alookup; eauto).
               rewrite (complete_of_cached x Hc), Hfb, Hm. unfold sel_is. fold s. fold sel. rewrite Hs, str_eqb_refl.
               cbn [negb andb]. rewrite orb_true_r. reflexivity.
          * rewrite (complete_of_loaded _ x0 Hl), (loaded_ok_of_load x0 Hl Hfr). cbn [andb].
            rewrite !orb_true_r. reflexivity. }
    destruct (l_policy c); [destruct Hcase | exact Hgoal ..].
  Qed.

  (** the matched answer is among what AllMatchingCertificates reports *)
  Theorem spec_amc_x_of_model :
    spec_amc_x_o lower is_space c (obs_of c (fst (run_lookup_x lower is_space c))) (amc_of lower is_space c) = true.
  Proof.
    unfold spec_amc_x_o, run_lookup_x. destruct (l_policy c) eqn:Hp; try reflexivity.
    assert (Hself : self c = select_cert supf validf) by (unfold self; rewrite Hp; reflexivity).
    rewrite Hself. fold s. set (sel := select_cert supf validf).
    destruct (lookup_x lower is_space sel (l_conn c) s (l_cap c) (l_cfg c) (l_sni c) (l_ip c) (l_envx c)) as [r post] eqn:Err.
    cbn [fst]. destruct r as [|x]; cbn [obs_of]; [reflexivity|].
    pose proof (first_listed_first_sel (match_names lower is_space c)) as Hfl.
    destruct (first_listed s (match_names lower is_space c)) as [m|]; [|reflexivity].
    destruct Hfl as (x' & Hfs & Hs).
    pose proof (matched_decides sel m x' Hfs) as Hf. unfold lookup_x in Err. rewrite Hf in Err.
    injection Err as <- _.
    destruct (is_nil (normalize (l_sni c))) eqn:En; [reflexivity|]. cbn [orb].
    apply mem_str_In. unfold amc_of. apply in_map. fold s. unfold all_matching. apply in_flat_map.
    exists m. split.
    - apply first_sel_some in Hfs. destruct Hfs as (pre & post' & Hc & _ & _).
      unfold match_names in Hc. rewrite En in Hc. unfold name in *. rewrite Hc. apply in_or_app. right. left. reflexivity.
    - destruct (select_some supf validf names_of (l_cap c) s m x' HI Hs) as (_ & _ & Hin & _). exact Hin.
  Qed.

  Theorem spec_lookup_x_of_model :
    spec_lookup_x_o lower is_space c (obs_of c (fst (run_lookup_x lower is_space c))) = true.
  Proof.
    destruct (l_policy c) eqn:Ep; [apply spec_default; exact Ep | apply spec_custom; congruence ..].
  Qed.

  (** ---- the whole of GetCertificate ---- *)
  Lemma run_lookup_pre : pre_branch c = true -> run_lookup lower is_space c = (RErr, s).
  Proof.
    unfold pre_branch, run_lookup, get_certificate. intros H. destruct (l_abort c); [reflexivity|].
    cbn [orb] in H. rewrite H. reflexivity.
  Qed.
  Lemma run_lookup_nopre : pre_branch c = false -> run_lookup lower is_space c = run_lookup_x lower is_space c.
  Proof.
    unfold pre_branch, run_lookup, get_certificate, run_lookup_x. intros H. apply orb_false_iff in H.
    destruct H as [-> ->]. reflexivity.
  Qed.

  Theorem spec_lookup_of_model :
    spec_lookup_o lower is_space c (obs_of c (fst (run_lookup lower is_space c))) = true.
  Proof.
    unfold spec_lookup_o. destruct (pre_branch c) eqn:E.
    - rewrite (run_lookup_pre E). reflexivity.
    - rewrite (run_lookup_nopre E). apply spec_lookup_x_of_model.
  Qed.
  Theorem spec_amc_of_model :
    spec_amc_o lower is_space c (obs_of c (fst (run_lookup lower is_space c))) (amc_of lower is_space c) = true.
  Proof.
    unfold spec_amc_o. destruct (pre_branch c) eqn:E; [reflexivity|].
    rewrite (run_lookup_nopre E). apply spec_amc_x_of_model.
  Qed.
End Spec.

(** ---- the cache clauses of the monitor ---- *)
Lemma amap_eqb_refl_l {V} (veq : V -> V -> bool) (m : amap V) :
  (forall v, veq v v = true) -> NoDup (akeys m) -> amap_eqb veq m m = true.
Proof.
  intros Hrefl Hnd. unfold amap_eqb. rewrite Nat.eqb_refl. cbn [andb].
  apply forallb_forall. intros [k v] Hin. cbn [fst snd].
  rewrite (In_alookup m k v Hnd Hin). apply Hrefl.
Qed.

Theorem spec_cache_x_of_model lower is_space c :
  let nm := names_of_pool (Check.case_certs c) in
  Inv nm (l_cap c) (l_state c) ->
  (forall k x, alookup k (x_storage (l_envx c)) = Some x -> wf_cert nm (sd_cert x)) ->
  spec_cache_x_p c (snd (run_lookup_x lower is_space c)) = true.
Proof.
  intros nm HI Hst. unfold spec_cache_x_p. fold nm. cbv zeta.
  apply andb_true_iff; split; [apply andb_true_iff; split|].
  - apply inv_b_complete. exact HI.
  - apply inv_b_complete. unfold run_lookup_x. apply lookup_x_inv; assumption.
  - destruct (almost_full (l_cap c) (length (cache (l_state c)))) eqn:Ea; [reflexivity|]. cbn [orb].
    unfold run_lookup_x. rewrite lookup_x_unchanged by exact Ea.
    unfold state_eqb. apply andb_true_iff. split; apply amap_eqb_refl_l.
    + intros v. apply cert_eqb_eq. reflexivity.
    + apply (inv_nodup _ _ _ HI).
    + intros v. apply strs_eqb_eq. reflexivity.
    + apply (inv_nodup_idx _ _ _ HI).
Qed.

Theorem spec_cache_of_model lower is_space c :
  let nm := names_of_pool (Check.case_certs c) in
  Inv nm (l_cap c) (l_state c) ->
  (forall k x, alookup k (x_storage (l_envx c)) = Some x -> wf_cert nm (sd_cert x)) ->
  spec_cache_p c (snd (run_lookup lower is_space c)) = true.
Proof.
  intros nm HI Hst. unfold spec_cache_p. destruct (pre_branch c) eqn:E.
  - assert (Hr : run_lookup lower is_space c = (RErr, l_state c)).
    { unfold pre_branch in E. unfold run_lookup, get_certificate. destruct (l_abort c); [reflexivity|].
      cbn [orb] in E. rewrite E. reflexivity. }
    rewrite Hr. cbn [snd negb orb].
    assert (Heq : state_eqb (l_state c) (l_state c) = true).
    { unfold state_eqb. apply andb_true_iff. split; apply amap_eqb_refl_l.
      - intros v. apply cert_eqb_eq. reflexivity.
      - apply (inv_nodup _ _ _ HI).
      - intros v. apply strs_eqb_eq. reflexivity.
      - apply (inv_nodup_idx _ _ _ HI). }
    rewrite Heq, andb_true_r. unfold spec_cache_x_p. fold nm. cbv zeta. rewrite Heq, orb_true_r, andb_true_r.
    rewrite (inv_b_complete _ _ _ _ _ HI). reflexivity.
  - assert (Hr : run_lookup lower is_space c = run_lookup_x lower is_space c).
    { unfold pre_branch in E. apply orb_false_iff in E. destruct E as [E1 E2].
      unfold run_lookup, get_certificate, run_lookup_x. rewrite E1, E2. reflexivity. }
    rewrite Hr. cbn [negb orb]. rewrite andb_true_r. apply spec_cache_x_of_model; assumption.
Qed.
