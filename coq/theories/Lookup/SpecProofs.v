(** C03: the run-time monitor [Lookup.Check.spec_lookup] holds of what the model answers, on
    every cache satisfying the C12 invariant. *)
From CM Require Import Lib.Str Lib.Wire Gen.Consts Cache.Model Cache.AMapFacts Cache.Proofs
  Lookup.Model Lookup.Proofs Lookup.Check.
From Coq Require Import Arith.
Open Scope nat_scope.
Arguments count_str : simpl never.

Definition with_obs (c : lcase) (o : obs) : lcase :=
  LCase (l_cap c) (l_state c) (l_attrs c) (l_cfg c) (l_sni c) (l_ip c) (l_env c) (l_loaded_complete c) o.

(** the observation corresponding to a model result *)
Definition obs_of (c : lcase) (r : result) : obs :=
  match r with
  | RErr => OErr
  | ROk x => OCert (c_hash x)
               (match alookup (c_hash x) (cache (l_state c)) with
                | Some _ => at_complete (attr_get (l_attrs c) (c_hash x))
                | None => l_loaded_complete c
                end)
  end.

Lemma first_listed_some s cands m : first_listed s cands = Some m ->
  exists pre post : list name, cands = pre ++ m :: post /\ Forall (fun m' => idx s m' = []) pre /\ idx s m <> [].
Proof.
  unfold first_listed. induction cands as [|a r IH]; cbn [find]; [discriminate|].
  destruct (is_nil (idx s a)) eqn:E; cbn [negb].
  - intros H. destruct (IH H) as (pre & post & -> & Hpre & Hm). exists (a :: pre), post.
    repeat split; [|exact Hm]. constructor; [apply is_nil_true; exact E | exact Hpre].
  - intros H; injection H as <-. exists [], r. repeat split; [constructor|].
    intros H. rewrite H in E. discriminate.
Qed.
Lemma first_listed_none s cands : first_listed s cands = None -> Forall (fun m' => idx s m' = []) cands.
Proof.
  unfold first_listed. induction cands as [|a r IH]; cbn [find]; [constructor|].
  destruct (is_nil (idx s a)) eqn:E; cbn [negb]; [|discriminate].
  intros H. constructor; [apply is_nil_true; exact E | apply IH; exact H].
Qed.

Section Spec.
  Variable lower : N -> N.
  Variable is_space : N -> bool.
  Variable names_of : hash -> list name.
  Variable c : lcase.
  Let s := l_state c.
  Let supf := fun h => at_sup (attr_get (l_attrs c) h).
  Let validf := fun h => at_valid (attr_get (l_attrs c) h).
  Let goodb := fun h => supf h && validf h.
  Notation Inv := (Inv names_of (l_cap c)).
  Notation normalize := (normalize lower is_space).

  Hypothesis HI : Inv s.
  Hypothesis Hcomplete : forall h x, alookup h (cache s) = Some x -> at_complete (attr_get (l_attrs c) h) = true.
  Hypothesis Hloaded : forall lc, loaded (l_env c) = Some lc -> l_loaded_complete c = true.

  Lemma matching_hash_in_idx m x : In x (get_all_matching_certs s m) -> In (c_hash x) (idx s m).
  Proof.
    unfold get_all_matching_certs. intros H. apply in_map_iff in H. destruct H as (h & <- & Hin).
    assert (Hc : (0 < count_str h (idx s m))%nat) by (apply count_str_In; exact Hin).
    rewrite (inv_count _ _ s HI) in Hc. destruct (amem h (cache s)) eqn:Em; [|lia].
    apply amem_alookup in Em. destruct Em as [x Ex]. unfold cache_get. rewrite Ex.
    destruct (inv_cert _ _ s HI h x Ex) as (-> & _). exact Hin.
  Qed.
  Lemma idx_hash_matching m h : In h (idx s m) ->
    exists x, In x (get_all_matching_certs s m) /\ c_hash x = h.
  Proof.
    intros Hin. exists (cache_get s h). split; [unfold get_all_matching_certs; apply in_map; exact Hin|].
    assert (Hc : (0 < count_str h (idx s m))%nat) by (apply count_str_In; exact Hin).
    rewrite (inv_count _ _ s HI) in Hc. destruct (amem h (cache s)) eqn:Em; [|lia].
    apply amem_alookup in Em. destruct Em as [x Ex]. unfold cache_get. rewrite Ex.
    destruct (inv_cert _ _ s HI h x Ex) as (-> & _). reflexivity.
  Qed.

  (** what comes out of the cache is listed under the name it was found by, and is a supported
      unexpired certificate if one is listed there *)
  Lemma selected_ok m x : select_cert supf validf s m = Some x ->
    alookup (c_hash x) (cache s) = Some x /\ listed_under s (c_hash x) m = true /\
    (negb (existsb goodb (idx s m)) || goodb (c_hash x)) = true.
  Proof.
    intros Hs. destruct (select_some supf validf names_of (l_cap c) s m x HI Hs) as (Hc & Hm & Hin & Hg).
    split; [exact Hc|]. split.
    - unfold listed_under. rewrite Hc. apply andb_true_iff. split; apply mem_str_In; [|exact Hm].
      apply matching_hash_in_idx. exact Hin.
    - destruct (existsb goodb (idx s m)) eqn:E; [|reflexivity]. cbn [negb orb].
      apply existsb_exists in E. destruct E as (h & Hh & Hgood).
      destruct (idx_hash_matching m h Hh) as (x' & Hx' & <-).
      unfold goodb in *. apply andb_true_iff in Hgood.
      destruct Hg as [G1 G2]; [exists x'; split; [exact Hx' | exact Hgood]|].
      rewrite G1, G2. reflexivity.
  Qed.

  Lemma complete_of_cached x : alookup (c_hash x) (cache s) = Some x ->
    match alookup (c_hash x) (cache (l_state c)) with
    | Some _ => at_complete (attr_get (l_attrs c) (c_hash x))
    | None => l_loaded_complete c
    end = true.
  Proof. intros H. fold s. rewrite H. eapply Hcomplete; eauto. Qed.

  Theorem spec_lookup_of_model :
    spec_lookup lower is_space (with_obs c (obs_of c (run_lookup lower is_space c))) = true.
  Proof.
    unfold spec_lookup, run_lookup. cbn [with_obs l_state l_sni l_attrs l_obs l_cfg l_cap l_env l_ip].
    fold s supf validf goodb.
    unfold match_names. cbn [with_obs l_sni l_ip].
    set (n := normalize (l_sni c)).
    set (r := lookup lower is_space supf validf s (l_cap c) (l_cfg c) (l_sni c) (l_ip c) (l_env c)).
    destruct (first_listed s (if is_nil n then [l_ip c] else n :: wildcard_candidates n)) as [m|] eqn:Efl.
    - (* a preferred name is listed: it decides *)
      assert (Hr : exists x, r = ROk x /\ select_cert supf validf s m = Some x).
      { apply first_listed_some in Efl. destruct Efl as (pre & post & Hc & Hpre & Hm).
        destruct (is_nil n) eqn:En.
        - apply is_nil_true in En. destruct pre as [|p pre]; cbn [app] in Hc.
          + injection Hc as <- _. destruct (from_cache_ip lower is_space supf validf s (l_cfg c) (l_sni c) (l_ip c) En Hm) as (x & Hf & Hs).
            exists x. split; [|exact Hs]. unfold r, lookup. rewrite Hf. reflexivity.
          + injection Hc as _ Hc. destruct pre; discriminate.
        - apply is_nil_false in En.
          destruct (from_cache_matched_first lower is_space supf validf s (l_cfg c) (l_sni c) (l_ip c) pre m post En Hc Hpre Hm) as (x & Hf & Hs).
          exists x. split; [|exact Hs]. unfold r, lookup. rewrite Hf. reflexivity. }
      destruct Hr as (x & -> & Hs). cbn [obs_of].
      destruct (selected_ok m x Hs) as (Hc & Hl & Hg).
      unfold goodb, supf, validf in Hg. rewrite (complete_of_cached x Hc), Hl, Hg. reflexivity.
    - (* nothing listed under a preferred name *)
      apply first_listed_none in Efl.
      destruct r as [|x] eqn:Er; cbn [obs_of]; [reflexivity|].
      unfold r in Er. destruct (lookup_cases _ _ _ _ _ _ _ _ _ _ _ Er) as [(b & v & Hf)|(Ha & Hl & Hne & Hq & _)].
      + apply from_cache_some in Hf.
        destruct Hf as [x m pre post Hn Hc Hpre Hs|x Hn Hs|x Hn Hip Hd Hs|x Hnone Hfb Hs].
        * exfalso. fold n in Hn, Hc. apply is_nil_false in Hn. rewrite Hn in Efl.
          unfold name in *. rewrite Hc in Efl. apply Forall_app in Efl. destruct Efl as [_ Efl].
          inversion Efl as [|? ? Hm _]; subst. apply (proj2 (select_none supf validf s _)) in Hm. congruence.
        * exfalso. fold n in Hn. rewrite Hn in Efl. cbn [is_nil] in Efl.
          inversion Efl as [|? ? Hm _]; subst. apply (proj2 (select_none supf validf s _)) in Hm. congruence.
        * fold n in Hn. destruct (selected_ok _ x Hs) as (Hc & Hl & _).
          rewrite (complete_of_cached x Hc), Hn, Hl. cbn [is_nil andb].
          apply is_nil_false in Hd. rewrite Hd. reflexivity.
        * destruct (selected_ok _ x Hs) as (Hc & Hl & _).
          rewrite (complete_of_cached x Hc), Hl. apply is_nil_false in Hfb. rewrite Hfb.
          cbn [negb andb]. rewrite orb_true_r. reflexivity.
      + fold s in Ha. rewrite Ha, Hl, str_eqb_refl. cbn [andb]. rewrite !orb_true_r, andb_true_r.
        destruct (alookup (c_hash x) (cache (l_state c))) as [y|] eqn:E.
        * eapply Hcomplete. fold s in E. exact E.
        * eapply Hloaded; eauto.
  Qed.
End Spec.
