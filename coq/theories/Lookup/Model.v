(** Model of the certificate lookup of a handshake (handshake.go, default selection policy,
    on-demand TLS off): normalizedName, getCertificateFromCache, selectCert,
    DefaultCertificateSelector, the tail of getCertDuringHandshake, and MatchWildcard
    (certificates.go).  The cache is a [Cache.Model.state]; by C12 every state the cache
    operations can reach satisfies [Cache.Proofs.Inv].  Executable definitions only. *)
From CM Require Import Lib.Str Gen.Consts Cache.Model.
Open Scope N_scope.

(** unicode.ToLower / unicode.IsSpace: exact below 128, by observed table above *)
Definition tbl_lower (tbl : list (N * N)) (c : N) : N :=
  if c <? 128 then ascii_lower c else
  match find (fun p => fst p =? c) tbl with Some p => snd p | None => c end.
Definition tbl_space (tbl : list N) (c : N) : bool :=
  if c <? 128 then ascii_space c else existsb (N.eqb c) tbl.

Record config := Config {
  default_name : str;      (* Config.DefaultServerName *)
  fallback_name : str      (* Config.FallbackServerName *)
}.

(** what the non-cache part of the handshake contributes (observed on the implementation):
    getNameFromClientHello failed (IDNA); SubjectQualifiesForCert(name); the certificate that
    loadCertFromStorage yields when the cache is almost full (None: nothing loadable) *)
Record env := Env {
  name_err : bool;
  qualifies : bool;
  loaded : option cert
}.

Inductive result :=
| RErr                      (* non-nil error *)
| ROk (c : cert).           (* this certificate, nil error *)

Section Lookup.
  Variable lower : N -> N.
  Variable is_space : N -> bool.
  (** per (ClientHello, certificate) and per instant: hello.SupportsCertificate(cert) == nil;
      now within [NotBefore, expiresAt(leaf)) *)
  Variable sup : hash -> bool.
  Variable valid : hash -> bool.

  Definition trim (s : str) : str := rev (dropwhile is_space (rev (dropwhile is_space s))).
  (** normalizedName: strings.ToLower(strings.TrimSpace(serverName)) *)
  Definition normalize (s : str) : str := map lower (trim s).

  (** the loop of DefaultCertificateSelector: first supported unexpired, else last supported,
      else the first choice *)
  Fixpoint sel_loop (best : cert) (choices : list cert) : cert :=
    match choices with
    | [] => best
    | c :: r =>
        if sup (c_hash c) then (if valid (c_hash c) then c else sel_loop c r)
        else sel_loop best r
    end.
  Definition default_select (choices : list cert) : option cert :=
    match choices with
    | [] => None                         (* "no certificates available" *)
    | [c] => Some c                      (* fast path: whatever it is *)
    | c :: _ => Some (sel_loop c choices)
    end.
  (** selectCert with CertSelection == nil *)
  Definition select_cert (s : state) (n : name) : option cert :=
    default_select (get_all_matching_certs s n).

  Fixpoint first_select (s : state) (cands : list name) : option (name * cert) :=
    match cands with
    | [] => None
    | m :: r => match select_cert s m with Some c => Some (m, c) | None => first_select s r end
    end.

  (** getCertificateFromCache: (certificate, matched, the index name it was found under);
      matched = false means "defaulted" *)
  Definition try_fallback (s : state) (cfg : config) : option (cert * bool * name) :=
    if is_nil (fallback_name cfg) then None
    else let f := normalize (fallback_name cfg) in
         match select_cert s f with Some c => Some (c, false, f) | None => None end.

  Definition from_cache (s : state) (cfg : config) (sni localip : str) : option (cert * bool * name) :=
    let n := normalize sni in
    if is_nil n then
      match select_cert s localip with          (* hello.Conn != nil: prefer the local IP *)
      | Some c => Some (c, true, localip)
      | None =>
          match (if is_nil (default_name cfg) then None
                 else let d := normalize (default_name cfg) in
                      match select_cert s d with Some c => Some (c, false, d) | None => None end) with
          | Some r => Some r
          | None => try_fallback s cfg
          end
      end
    else
      match first_select s (n :: wildcard_candidates n) with   (* exact, then progressive wildcards *)
      | Some (m, c) => Some (c, true, m)
      | None => try_fallback s cfg
      end.

  (** cacheAlmostFull (the factor comes from the source through Gen.Consts) *)
  Definition almost_full (cap size : nat) : bool :=
    (0 <? cap)%nat && (almost_full_num * cap <=? almost_full_den * size)%nat.

  (** Config.GetCertificate -> getCertDuringHandshake with OnDemand == nil, no Managers *)
  Definition lookup (s : state) (cap : nat) (cfg : config) (sni localip : str) (e : env) : result :=
    match from_cache s cfg sni localip with
    | Some (c, true, _) => ROk c
    | other =>
        if name_err e then RErr                       (* getNameFromClientHello *)
        else if negb (qualifies e) then RErr          (* checkIfCertShouldBeObtained *)
        else match (if almost_full cap (length (cache s)) then loaded e else None) with
             | Some c => ROk c                        (* loadCertFromStorage succeeded *)
             | None => match other with
                       | Some (c, _, _) => ROk c      (* defaulted *)
                       | None => RErr                 (* "no certificate available" *)
                       end
             end
    end.

  (** MatchWildcard(subject, wildcard) *)
  Fixpoint mw_prefixes (done todo : list str) : list (list str) :=
    match todo with
    | [] => []
    | l :: r =>
        if is_nil l then mw_prefixes (done ++ [l]) r          (* invalid label: skipped, kept *)
        else let done' := done ++ [[c_star]] in (done' ++ r) :: mw_prefixes done' r
    end.
  Definition match_wildcard (subject wildcard : str) : bool :=
    let s := map lower subject in
    let w := map lower wildcard in
    if str_eqb s w then true
    else if negb (existsb (N.eqb c_star) w) then false
    else existsb (str_eqb w) (map (join_with c_dot) (mw_prefixes [] (split_on c_dot s))).
End Lookup.

(** ================================================================================
    Extension: custom selection policies (Config.CertSelection), SubjectQualifiesForCert,
    getNameFromClientHello's choice of the name, loadCertFromStorage and the effect of the
    almost-full branch on the cache.  [lookup_x] subsumes [lookup] (see [Proofs.lookup_x_default]).
    ================================================================================ *)
From CM Require Import Lib.QualSteps.

(** SubjectQualifiesForCert: the conjuncts read from the source (Gen.Consts.qualify_conds,
    translator item of C02), interpreted in order *)
Section Qual.
  Variable is_space : N -> bool.
  Fixpoint contains (a s : str) : bool :=
    has_prefix a s || match s with [] => false | _ :: r => contains a r end.
  Definition has_suffix (p s : str) : bool := has_prefix (rev p) (rev s).
  Definition q_eval (s : str) (q : qcond) : bool :=
    match q with
    | QNonBlank => negb (forallb is_space s)
    | QNotPrefix p => negb (has_prefix p s)
    | QNotSuffix p => negb (has_suffix p s)
    | QOnlyIf a b c => negb (contains a s) || has_prefix b s || str_eqb s c
    | QNoneOf cs => negb (existsb (fun c => existsb (N.eqb c) cs) s)
    end.
  Definition subject_qualifies (s : str) : bool := forallb (q_eval s) qualify_conds.
End Qual.

(** the selection policies the harness can configure: none (DefaultCertificateSelector), or a
    CertSelection double choosing by hash order, optionally among the supported unexpired
    choices only, or refusing every choice *)
Inductive policy := PDefault | PMin | PMax | PGoodMin | PRefuse.

Fixpoint str_ltb (a b : str) : bool :=
  match a, b with
  | _, [] => false
  | [], _ :: _ => true
  | x :: a', y :: b' => (x <? y) || ((x =? y) && str_ltb a' b')
  end.
Definition pick_by (better : hash -> hash -> bool) (l : list cert) : option cert :=
  fold_left (fun acc c => match acc with
                          | None => Some c
                          | Some b => if better (c_hash c) (c_hash b) then Some c else Some b
                          end) l None.

(** selectCert hands the custom selector the certificates listed under the name, or -- when
    there are none -- ALL cached certificates (getAllCerts) *)
Definition choices_for (s : state) (n : name) : list cert :=
  let ch := get_all_matching_certs s n in if is_nil ch then map snd (cache s) else ch.

Section Policy.
  Variable sup valid : hash -> bool.
  Definition custom_pick (p : policy) (l : list cert) : option cert :=
    match p with
    | PDefault => None
    | PMin => pick_by str_ltb l
    | PMax => pick_by (fun a b => str_ltb b a) l
    | PGoodMin => pick_by str_ltb (filter (fun c => sup (c_hash c) && valid (c_hash c)) l)
    | PRefuse => None
    end.
  (** selectCert *)
  Definition sel_policy (p : policy) (s : state) (n : name) : option cert :=
    match p with
    | PDefault => select_cert sup valid s n
    | _ => custom_pick p (choices_for s n)
    end.
End Policy.

(** a certificate resource in storage: the certificate as CacheManagedCertificate would cache it;
    [sd_fresh]: not due for renewal (handshakeMaintenance returns it as it is); [sd_servable]: not
    expired (fresh implies servable).  A stored certificate that is due cannot be renewed with
    on-demand TLS off and is removed from the cache again: at once if it has expired (then it is
    not served), by the background renewal goroutine if it is still valid (it is served) *)
Record stored := Stored { sd_cert : cert; sd_fresh : bool; sd_servable : bool }.

(** what the environment contributes: idna.Lookup.ToASCII(TrimSpace(ServerName)) (None: error),
    the certificate resources in storage by the name they are stored under, and the eviction
    victim the implementation drew if the load had to make room *)
Record envx := EnvX {
  x_idna : option str;
  x_storage : amap stored;
  x_broken : list name;          (* names whose resources cannot be read (a storage error other than "not found") *)
  x_victim : option hash
}.

(** loadCertFromStorage: the exact name, else -- only if the exact name does not exist
    (fs.ErrNotExist), not on any other storage error -- the name with its first label replaced by "*" *)
Definition star_first (n : name) : name :=
  join_with c_dot (match split_on c_dot n with [] => [] | _ :: r => [c_star] :: r end).
Definition load_from_storage (st : amap stored) (broken : list name) (n : name) : option stored :=
  match alookup n st with
  | Some x => Some x
  | None => if mem_str n broken then None
            else if mem_str (star_first n) broken then None else alookup (star_first n) st
  end.

Definition defaulted_result (o : option (cert * bool * name)) : result :=
  match o with Some (c, _, _) => ROk c | None => RErr end.

Section LookupX.
  Variable lower : N -> N.
  Variable is_space : N -> bool.
  (** selectCert, whatever the policy *)
  Variable sel : state -> name -> option cert.

  Fixpoint first_sel (s : state) (cands : list name) : option (name * cert) :=
    match cands with
    | [] => None
    | m :: r => match sel s m with Some c => Some (m, c) | None => first_sel s r end
    end.

  Definition try_fallback_x (s : state) (cfg : config) : option (cert * bool * name) :=
    if is_nil (fallback_name cfg) then None
    else let f := normalize lower is_space (fallback_name cfg) in
         match sel s f with Some c => Some (c, false, f) | None => None end.

  (** [conn]: hello.Conn != nil (a ClientHelloInfo made by crypto/tls always has one; without it the
      local IP is not tried and getNameFromClientHello's last resort is the empty string) *)
  Definition from_cache_x (conn : bool) (s : state) (cfg : config) (sni localip : str) : option (cert * bool * name) :=
    let n := normalize lower is_space sni in
    if is_nil n then
      match (if conn then sel s localip else None) with
      | Some c => Some (c, true, localip)
      | None =>
          match (if is_nil (default_name cfg) then None
                 else let d := normalize lower is_space (default_name cfg) in
                      match sel s d with Some c => Some (c, false, d) | None => None end) with
          | Some r => Some r
          | None => try_fallback_x s cfg
          end
      end
    else
      match first_sel s (n :: wildcard_candidates n) with
      | Some (m, c) => Some (c, true, m)
      | None => try_fallback_x s cfg
      end.

  (** getNameFromClientHello *)
  Definition hello_name (cfg : config) (localip : str) (idna : option str) : option str :=
    match idna with
    | None => None
    | Some n => Some (if is_nil n
                      then (if is_nil (default_name cfg) then localip
                            else normalize lower is_space (default_name cfg))
                      else n)
    end.

  (** Config.GetCertificate -> getCertDuringHandshake (OnDemand == nil, no Managers): the answer
      and the cache afterwards *)
  Definition lookup_x (conn : bool) (s : state) (cap : nat) (cfg : config) (sni localip : str) (e : envx) : result * state :=
    match from_cache_x conn s cfg sni localip with
    | Some (c, true, _) => (ROk c, s)
    | other =>
        match hello_name cfg localip (x_idna e) with
        | None => (RErr, s)                                        (* getNameFromClientHello *)
        | Some nm =>
            if negb (subject_qualifies is_space nm) then (RErr, s) (* checkIfCertShouldBeObtained *)
            else match (if almost_full cap (length (cache s))
                        then load_from_storage (x_storage e) (x_broken e) nm else None) with
                 | Some x =>                                       (* CacheManagedCertificate *)
                     let s1 := add_cert cap (sd_cert x) (x_victim e) s in
                     let s2 := if sd_fresh x then s1 else remove_cert (sd_cert x) s1 in
                     if sd_servable x then (ROk (sd_cert x), s2)
                     else (defaulted_result other, s2)
                 | None => (defaulted_result other, s)
                 end
        end
    end.

  (** Config.GetCertificateWithContext: an event handler may abort the handshake
      ("tls_get_certificate"); a ClientHello with a server name whose only ALPN protocol is
      "acme-tls/1" (the literal comes from the source: Gen.Consts.acme_tls1_protocol) asks for the
      TLS-ALPN challenge certificate -- here: no challenge is in progress, which is an error, never
      a certificate of the cache; everything else is [lookup_x] *)
  Definition acme_tls_alpn (sni : str) (protos : list str) : bool :=
    negb (is_nil sni) && strs_eqb protos [acme_tls1_protocol].
  Definition get_certificate (abort : bool) (protos : list str)
             (conn : bool) (s : state) (cap : nat) (cfg : config) (sni localip : str) (e : envx) : result * state :=
    if abort then (RErr, s)
    else if acme_tls_alpn sni protos then (RErr, s)
    else lookup_x conn s cap cfg sni localip e.

  (** the environment of [lookup] that corresponds to an extended one *)
  Definition env_of (cfg : config) (localip : str) (e : envx) : env :=
    match hello_name cfg localip (x_idna e) with
    | None => Env true false None
    | Some nm => Env false (subject_qualifies is_space nm)
                   (match load_from_storage (x_storage e) (x_broken e) nm with
                    | Some x => if sd_servable x then Some (sd_cert x) else None
                    | None => None end)
    end.
End LookupX.

(** reference semantics of "covers": the name itself, or the name with its k >= 1 leftmost
    labels each replaced by "*" *)
Definition labels (n : name) : list str := split_on c_dot n.
Definition star_k (k : nat) (n : name) : name :=
  join_with c_dot (repeat [c_star] k ++ skipn k (labels n)).
Definition covers (san n : name) : Prop :=
  san = n \/ exists k, (1 <= k <= length (labels n))%nat /\ san = star_k k n.
Definition covers_b (san n : name) : bool :=
  str_eqb san n || existsb (fun k => str_eqb san (star_k k n)) (seq 1 (length (labels n))).
