(** Model of the certificate lookup of a handshake (handshake.go, default selection policy,
    on-demand TLS off): normalizedName, getCertificateFromCache, selectCert,
    DefaultCertificateSelector, the tail of getCertDuringHandshake, and MatchWildcard
    (certificates.go).  The cache is a [Cache.Model.state]; by C12 every state the cache
    operations can reach satisfies [Cache.Proofs.Inv].  Executable definitions only. *)
From CM Require Import Lib.Str Gen.Consts Cache.Model.
Open Scope N_scope.

(** unicode.ToLower / unicode.IsSpace: exact below 128, by observed table above *)
Definition tbl_lower (tbl : list (N * N)) (c : N) : N :=
  if c <? 128 then ascii_lower c else
  match find (fun p => fst p =? c) tbl with Some p => snd p | None => c end.
Definition tbl_space (tbl : list N) (c : N) : bool :=
  if c <? 128 then ascii_space c else existsb (N.eqb c) tbl.

Record config := Config {
  default_name : str;      (* Config.DefaultServerName *)
  fallback_name : str      (* Config.FallbackServerName *)
}.

(** what the non-cache part of the handshake contributes (observed on the implementation):
    getNameFromClientHello failed (IDNA); SubjectQualifiesForCert(name); the certificate that
    loadCertFromStorage yields when the cache is almost full (None: nothing loadable) *)
Record env := Env {
  name_err : bool;
  qualifies : bool;
  loaded : option cert
}.

Inductive result :=
| RErr                      (* non-nil error *)
| ROk (c : cert).           (* this certificate, nil error *)

Section Lookup.
  Variable lower : N -> N.
  Variable is_space : N -> bool.
  (** per (ClientHello, certificate) and per instant: hello.SupportsCertificate(cert) == nil;
      now within [NotBefore, expiresAt(leaf)) *)
  Variable sup : hash -> bool.
  Variable valid : hash -> bool.

  Definition trim (s : str) : str := rev (dropwhile is_space (rev (dropwhile is_space s))).
  (** normalizedName: strings.ToLower(strings.TrimSpace(serverName)) *)
  Definition normalize (s : str) : str := map lower (trim s).

  (** the loop of DefaultCertificateSelector: first supported unexpired, else last supported,
      else the first choice *)
  Fixpoint sel_loop (best : cert) (choices : list cert) : cert :=
    match choices with
    | [] => best
    | c :: r =>
        if sup (c_hash c) then (if valid (c_hash c) then c else sel_loop c r)
        else sel_loop best r
    end.
  Definition default_select (choices : list cert) : option cert :=
    match choices with
    | [] => None                         (* "no certificates available" *)
    | [c] => Some c                      (* fast path: whatever it is *)
    | c :: _ => Some (sel_loop c choices)
    end.
  (** selectCert with CertSelection == nil *)
  Definition select_cert (s : state) (n : name) : option cert :=
    default_select (get_all_matching_certs s n).

  Fixpoint first_select (s : state) (cands : list name) : option (name * cert) :=
    match cands with
    | [] => None
    | m :: r => match select_cert s m with Some c => Some (m, c) | None => first_select s r end
    end.

  (** getCertificateFromCache: (certificate, matched, the index name it was found under);
      matched = false means "defaulted" *)
  Definition try_fallback (s : state) (cfg : config) : option (cert * bool * name) :=
    if is_nil (fallback_name cfg) then None
    else let f := normalize (fallback_name cfg) in
         match select_cert s f with Some c => Some (c, false, f) | None => None end.

  Definition from_cache (s : state) (cfg : config) (sni localip : str) : option (cert * bool * name) :=
    let n := normalize sni in
    if is_nil n then
      match select_cert s localip with          (* hello.Conn != nil: prefer the local IP *)
      | Some c => Some (c, true, localip)
      | None =>
          match (if is_nil (default_name cfg) then None
                 else let d := normalize (default_name cfg) in
                      match select_cert s d with Some c => Some (c, false, d) | None => None end) with
          | Some r => Some r
          | None => try_fallback s cfg
          end
      end
    else
      match first_select s (n :: wildcard_candidates n) with   (* exact, then progressive wildcards *)
      | Some (m, c) => Some (c, true, m)
      | None => try_fallback s cfg
      end.

  (** cacheAlmostFull (the factor comes from the source through Gen.Consts) *)
  Definition almost_full (cap size : nat) : bool :=
    (0 <? cap)%nat && (almost_full_num * cap <=? almost_full_den * size)%nat.

  (** Config.GetCertificate -> getCertDuringHandshake with OnDemand == nil, no Managers *)
  Definition lookup (s : state) (cap : nat) (cfg : config) (sni localip : str) (e : env) : result :=
    match from_cache s cfg sni localip with
    | Some (c, true, _) => ROk c
    | other =>
        if name_err e then RErr                       (* getNameFromClientHello *)
        else if negb (qualifies e) then RErr          (* checkIfCertShouldBeObtained *)
        else match (if almost_full cap (length (cache s)) then loaded e else None) with
             | Some c => ROk c                        (* loadCertFromStorage succeeded *)
             | None => match other with
                       | Some (c, _, _) => ROk c      (* defaulted *)
                       | None => RErr                 (* "no certificate available" *)
                       end
             end
    end.

  (** MatchWildcard(subject, wildcard) *)
  Fixpoint mw_prefixes (done todo : list str) : list (list str) :=
    match todo with
    | [] => []
    | l :: r =>
        if is_nil l then mw_prefixes (done ++ [l]) r          (* invalid label: skipped, kept *)
        else let done' := done ++ [[c_star]] in (done' ++ r) :: mw_prefixes done' r
    end.
  Definition match_wildcard (subject wildcard : str) : bool :=
    let s := map lower subject in
    let w := map lower wildcard in
    if str_eqb s w then true
    else if negb (existsb (N.eqb c_star) w) then false
    else existsb (str_eqb w) (map (join_with c_dot) (mw_prefixes [] (split_on c_dot s))).
End Lookup.

(** reference semantics of "covers": the name itself, or the name with its k >= 1 leftmost
    labels each replaced by "*" *)
Definition labels (n : name) : list str := split_on c_dot n.
Definition star_k (k : nat) (n : name) : name :=
  join_with c_dot (repeat [c_star] k ++ skipn k (labels n)).
Definition covers (san n : name) : Prop :=
  san = n \/ exists k, (1 <= k <= length (labels n))%nat /\ san = star_k k n.
Definition covers_b (san n : name) : bool :=
  str_eqb san n || existsb (fun k => str_eqb san (star_k k n)) (seq 1 (length (labels n))).
