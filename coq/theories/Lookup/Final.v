(** C03, final round: the remaining monitor clauses proved of the model (SubjectQualifiesForCert's
    documented rule, MatchWildcard's reference semantics, the whole [check_case] on what the model
    answers), the local-IP clause for IPv4 addresses in their 16-byte (IPv4-mapped) form, and what
    exactly "exact preferred over wildcard" guarantees when the exact-name certificates are unusable. *)
From CM Require Import Lib.Str Lib.Wire Lib.QualSteps Gen.Consts Cache.Model Cache.AMapFacts Cache.Proofs Cache.Check
  Lookup.Model Lookup.Proofs Lookup.ProofsX Lookup.Check Lookup.SpecProofs.
From Coq Require Import Arith.
Open Scope nat_scope.

(** ---- SubjectQualifiesForCert: the conjuncts read from the source = the documented rule ---- *)
Lemma has_prefix_single a s : has_prefix [a] s = match s with c :: _ => N.eqb a c | [] => false end.
Proof.
  unfold has_prefix. destruct s as [|c r]; cbn [strip_prefix]; [reflexivity|].
  destruct (N.eqb a c); reflexivity.
Qed.
Lemma contains_single a s : contains [a] s = existsb (N.eqb a) s.
Proof.
  induction s as [|c r IH]; cbn [contains existsb].
  - rewrite has_prefix_single. reflexivity.
  - rewrite has_prefix_single, IH. reflexivity.
Qed.

Theorem subject_qualifies_is_documented_rule is_space s :
  subject_qualifies is_space s = qual_spec is_space s.
Proof.
  unfold subject_qualifies. rewrite qualify_conds_today. unfold qual_spec.
  cbn [forallb q_eval]. rewrite contains_single.
  change reject_chars_ref with reject_chars.
  destruct (negb (forallb is_space s)); destruct (negb (has_prefix [46%N] s));
    destruct (negb (has_suffix [46%N] s));
    destruct (negb (existsb (N.eqb 42) s) || has_prefix [42%N; 46%N] s || str_eqb s [42%N]);
    destruct (negb (existsb (fun c => existsb (N.eqb c) reject_chars) s)); reflexivity.
Qed.

(** ---- MatchWildcard: the monitor clause holds of the model ---- *)
Theorem spec_match_of_model lower a b : spec_match lower a b (match_wildcard lower a b) = true.
Proof.
  unfold spec_match, has_empty_label.
  destruct (existsb is_nil (labels (map lower a))) eqn:E; [reflexivity|].
  pose proof (match_wildcard_covers lower a b E) as H.
  destruct (match_wildcard lower a b) eqn:Em; destruct (covers_b (map lower b) (map lower a)) eqn:Ec; try reflexivity.
  - exfalso. assert (Hc : covers (map lower b) (map lower a)) by (apply H; reflexivity).
    apply covers_b_spec in Hc. congruence.
  - exfalso. apply covers_b_spec in Ec. apply H in Ec. discriminate.
Qed.

(** ---- the whole of [check_case] on what the model answers: code 0 for every kind of case ---- *)
Definition complete_case (lower : N -> N) (is_space : N -> bool) (c : lcase) : lcase :=
  LCase (l_cap c) (l_state c) (l_attrs c) (l_cfg c) (l_sni c) (l_ip c) (l_conn c) (l_abort c) (l_protos c)
        (l_policy c) (l_envx c) (l_stored_complete c)
        (obs_of c (fst (run_lookup lower is_space c))) (snd (run_lookup lower is_space c))
        (amc_of lower is_space c).

Lemma state_eqb_refl_l names_of cap s : Inv names_of cap s -> state_eqb s s = true.
Proof.
  intros HI. unfold state_eqb. apply andb_true_iff. split; apply amap_eqb_refl_l.
  - intros v. apply cert_eqb_eq. reflexivity.
  - apply (inv_nodup _ _ _ HI).
  - intros v. apply strs_eqb_eq. reflexivity.
  - apply (inv_nodup_idx _ _ _ HI).
Qed.

Lemma run_lookup_inv lower is_space names_of c :
  Inv names_of (l_cap c) (l_state c) ->
  (forall k x, alookup k (x_storage (l_envx c)) = Some x -> wf_cert names_of (sd_cert x)) ->
  Inv names_of (l_cap c) (snd (run_lookup lower is_space c)).
Proof.
  intros HI Hst. unfold run_lookup, get_certificate.
  destruct (l_abort c); [exact HI|]. destruct (acme_tls_alpn (l_sni c) (l_protos c)); [exact HI|].
  apply lookup_x_inv; assumption.
Qed.

Theorem check_lookup_of_model lt st c :
  let lower := tbl_lower lt in
  let is_space := tbl_space st in
  let nm := names_of_pool (Check.case_certs c) in
  Inv nm (l_cap c) (l_state c) ->
  (forall h x, alookup h (cache (l_state c)) = Some x -> at_complete (attr_get (l_attrs c) h) = true) ->
  (forall h x, alookup h (cache (l_state c)) = Some x -> at_names (attr_get (l_attrs c) h) = c_names x) ->
  (forall k x, alookup k (x_storage (l_envx c)) = Some x ->
     alookup (c_hash (sd_cert x)) (l_stored_complete c) = Some true) ->
  (forall k x, alookup k (x_storage (l_envx c)) = Some x -> wf_cert nm (sd_cert x)) ->
  check_case (KLookup lt st (complete_case lower is_space c)) = 0%Z.
Proof.
  intros lower is_space nm HI Hcomp Hnames Hstored Hwf.
  unfold check_case. fold lower is_space.
  change (run_lookup lower is_space (complete_case lower is_space c)) with (run_lookup lower is_space c).
  destruct (run_lookup lower is_space c) as [r post] eqn:Er.
  assert (Hpost : Inv nm (l_cap c) post).
  { pose proof (run_lookup_inv lower is_space nm c HI Hwf) as H. rewrite Er in H. exact H. }
  assert (H1 : result_eqb r (l_obs (complete_case lower is_space c)) = true).
  { cbn [complete_case l_obs]. rewrite Er. cbn [fst]. destruct r as [|x]; cbn [obs_of result_eqb]; [reflexivity|].
    apply str_eqb_eq. reflexivity. }
  assert (H2 : state_eqb post (l_post (complete_case lower is_space c)) = true).
  { cbn [complete_case l_post]. rewrite Er. cbn [snd]. eapply state_eqb_refl_l; eauto. }
  assert (H3 : strs_eqb (amc_of lower is_space (complete_case lower is_space c)) (l_amc (complete_case lower is_space c)) = true).
  { apply strs_eqb_eq. reflexivity. }
  assert (H4 : spec_lookup_o lower is_space (complete_case lower is_space c) (l_obs (complete_case lower is_space c)) = true).
  { exact (spec_lookup_of_model lower is_space nm c HI Hcomp Hnames Hstored). }
  assert (H5 : spec_cache_p (complete_case lower is_space c) (l_post (complete_case lower is_space c)) = true).
  { exact (spec_cache_of_model lower is_space c HI Hwf). }
  assert (H6 : spec_amc_o lower is_space (complete_case lower is_space c) (l_obs (complete_case lower is_space c))
                 (l_amc (complete_case lower is_space c)) = true).
  { exact (spec_amc_of_model lower is_space nm c HI). }
  rewrite H1, H2, H3, H4, H5, H6. reflexivity.
Qed.

Theorem check_other_kinds_of_model :
  (forall lt a b, check_case (KMatch lt a b (match_wildcard (tbl_lower lt) a b)) = 0%Z) /\
  (forall lt st s, check_case (KNorm lt st s (normalize (tbl_lower lt) (tbl_space st) s)) = 0%Z) /\
  (forall st s, check_case (KQual st s (subject_qualifies (tbl_space st) s)) = 0%Z) /\
  (forall lt st d ip i, check_case (KName lt st d ip i (hello_name (tbl_lower lt) (tbl_space st) (Config d []) ip i)) = 0%Z).
Proof.
  repeat split; intros; unfold check_case.
  - rewrite spec_match_of_model. destruct (match_wildcard (tbl_lower lt) a b); reflexivity.
  - assert (H : str_eqb (normalize (tbl_lower lt) (tbl_space st) s) (normalize (tbl_lower lt) (tbl_space st) s) = true)
      by (apply str_eqb_eq; reflexivity).
    rewrite H. reflexivity.
  - rewrite <- subject_qualifies_is_documented_rule.
    destruct (subject_qualifies (tbl_space st) s); reflexivity.
  - destruct (hello_name (tbl_lower lt) (tbl_space st) (Config d []) ip i) as [a|]; [|reflexivity].
    assert (H : str_eqb a a = true) by (apply str_eqb_eq; reflexivity). rewrite H. reflexivity.
Qed.

(** ---- the local IP of a connection, textually: IPv4 in dotted form whatever the byte length ---- *)
(** net.IP is a byte slice of length 4 or 16; an IPv4 address may come in either form (the 16-byte
    form is ::ffff:a.b.c.d).  [ip_text] is net.IP.String for the IPv4 cases; [text6] stands for the
    textual form of every other 16-byte address. *)
Definition digit (n : nat) : N := N.of_nat (48 + n).
Definition dec3 (b : nat) : str :=        (* decimal of a byte 0..255, no leading zeros *)
  if b <? 10 then [digit b]
  else if b <? 100 then [digit (b / 10); digit (b mod 10)]
  else [digit (b / 100); digit ((b / 10) mod 10); digit (b mod 10)].
Definition dotted (a b c d : nat) : str := dec3 a ++ c_dot :: dec3 b ++ c_dot :: dec3 c ++ c_dot :: dec3 d.
Definition v4mapped (a b c d : nat) : list nat := [0;0;0;0;0;0;0;0;0;0;255;255;a;b;c;d].
Definition ip_text (text6 : list nat -> str) (ip : list nat) : str :=
  match ip with
  | [a; b; c; d] => dotted a b c d
  | [0;0;0;0;0;0;0;0;0;0;255;255;a;b;c;d] => dotted a b c d
  | _ => text6 ip
  end.

Lemma ip_text_v4 text6 a b c d : ip_text text6 [a; b; c; d] = dotted a b c d.
Proof. unfold ip_text. destruct a, b, c, d; reflexivity. Qed.
Theorem ip_text_v4mapped text6 a b c d : ip_text text6 (v4mapped a b c d) = ip_text text6 [a; b; c; d].
Proof. rewrite ip_text_v4. reflexivity. Qed.

(** hence the lookup -- in particular the preference for the local IP's certificate without SNI --
    does not depend on the byte length the connection reports its IPv4 address in *)
Theorem lookup_same_for_v4mapped lower is_space sel conn s cap cfg sni e text6 a b c d :
  lookup_x lower is_space sel conn s cap cfg sni (ip_text text6 (v4mapped a b c d)) e =
  lookup_x lower is_space sel conn s cap cfg sni (ip_text text6 [a; b; c; d]) e.
Proof. rewrite ip_text_v4mapped. reflexivity. Qed.

Theorem ip_preferred_v4mapped lower is_space sup valid names_of cap s cfg sni e text6 a b c d :
  Inv names_of cap s -> normalize lower is_space sni = [] -> idx s (dotted a b c d) <> [] ->
  exists x, fst (lookup_x lower is_space (select_cert sup valid) true s cap cfg sni (ip_text text6 (v4mapped a b c d)) e) = ROk x /\
            In (dotted a b c d) (c_names x) /\ In x (get_all_matching_certs s (dotted a b c d)).
Proof.
  intros HI Hn Hm. rewrite ip_text_v4mapped, ip_text_v4, lookup_x_default.
  destruct (ip_preferred_without_sni lower is_space sup valid names_of cap s cfg sni (dotted a b c d)
              (env_of lower is_space cfg (dotted a b c d) e) HI Hn Hm) as (x & Hl & Hin & Hg & _).
  exists x. auto.
Qed.

(** ---- what "exact preferred over wildcard" guarantees when the exact-name certificates are
    unusable: the selector only ever sees the certificates listed under the exact name, so the answer
    is one of them -- expired or unsupported as they may be -- even if a certificate listed under a
    wildcard candidate is supported and unexpired ---- *)
Theorem exact_preferred_even_if_unusable lower is_space sup valid names_of cap s cfg sni ip e w cw :
  Inv names_of cap s ->
  let n := normalize lower is_space sni in
  n <> [] -> idx s n <> [] ->
  (forall c, In c (get_all_matching_certs s n) -> ~ good sup valid c) ->
  In w (wildcard_candidates n) -> In cw (get_all_matching_certs s w) -> good sup valid cw ->
  exists c, lookup lower is_space sup valid s cap cfg sni ip e = ROk c /\
            In c (get_all_matching_certs s n) /\ ~ good sup valid c.
Proof.
  intros HI n Hn Hm Hbad _ _ _.
  destruct (exact_preferred lower is_space sup valid names_of cap s cfg sni ip e HI Hn Hm) as (c & Hl & _ & Hin).
  exists c. split; [exact Hl|]. split; [exact Hin | apply Hbad; exact Hin].
Qed.

(** ... whereas the wildcard certificate is chosen only when the exact name is not listed at all *)
Theorem wildcard_only_if_exact_unlisted lower is_space sup valid names_of cap s cfg sni ip e c :
  Inv names_of cap s ->
  let n := normalize lower is_space sni in
  n <> [] -> lookup lower is_space sup valid s cap cfg sni ip e = ROk c ->
  alookup (c_hash c) (cache s) = Some c -> ~ In n (c_names c) ->
  idx s n = [].
Proof.
  intros HI n Hn Hl Hc Hnot. destruct (idx s n) eqn:E; [reflexivity|]. exfalso.
  destruct (exact_preferred lower is_space sup valid names_of cap s cfg sni ip e HI Hn) as (c' & Hl' & Hin' & _).
  { fold n. rewrite E. discriminate. }
  rewrite Hl in Hl'. injection Hl' as <-. exact (Hnot Hin').
Qed.

(** ---- the property at the level of Config.GetCertificate, on every cache that any history of
    cache operations (adds, removals, replacements, write-backs, SetOptions, queries, scans, Stop)
    AND earlier handshakes can produce ---- *)
Section Reachable.
  Variable names_of : hash -> list name.

  (** a handshake, as a step of the history: the cache afterwards (capacity unchanged) *)
  Definition after_handshake lower is_space sel abort protos conn (d : dstate) cfg sni ip e : dstate :=
    DSt (d_cap d) (snd (get_certificate lower is_space sel abort protos conn (d_st d) (d_cap d) cfg sni ip e)).

  Inductive reachable : dstate -> Prop :=
  | reach_init cap : reachable (dinit cap)
  | reach_op d o : reachable d -> wf_dop names_of o -> reachable (dstep d o)
  | reach_handshake d lower is_space sel abort protos conn cfg sni ip e :
      reachable d ->
      (forall k x, alookup k (x_storage e) = Some x -> wf_cert names_of (sd_cert x)) ->
      reachable (after_handshake lower is_space sel abort protos conn d cfg sni ip e).

  Theorem reachable_inv d : reachable d -> DInv names_of d.
  Proof.
    induction 1 as [cap|d o _ IH Hwf|d lower is_space sel abort protos conn cfg sni ip e _ IH Hst].
    - apply dinv_init.
    - apply dstep_inv; assumption.
    - unfold DInv, after_handshake, get_certificate. cbn [d_cap d_st].
      destruct abort; [exact IH|]. destruct (acme_tls_alpn sni protos); [exact IH|].
      apply lookup_x_inv; assumption.
  Qed.

  (** F: on every reachable cache, GetCertificate (default policy) answers with an error, or with a
      certificate really in the cache that covers the server name / lists the local IP (no SNI) / the
      default name (no SNI) / the fallback name, or -- the cache being almost full -- with a stored
      certificate that covers the requested name *)
  Theorem get_certificate_sound_reachable d lower is_space sup valid abort protos conn cfg sni ip e c s' :
    reachable d -> storage_wf (x_storage e) ->
    get_certificate lower is_space (select_cert sup valid) abort protos conn (d_st d) (d_cap d) cfg sni ip e = (ROk c, s') ->
    let n := normalize lower is_space sni in
    (alookup (c_hash c) (cache (d_st d)) = Some c /\
     ((n <> [] /\ exists san, In san (c_names c) /\ covers san n) \/
      (n = [] /\ conn = true /\ In ip (c_names c)) \/
      (n = [] /\ default_name cfg <> [] /\ In (normalize lower is_space (default_name cfg)) (c_names c)) \/
      (fallback_name cfg <> [] /\ In (normalize lower is_space (fallback_name cfg)) (c_names c)))) \/
    (almost_full (d_cap d) (length (cache (d_st d))) = true /\
     exists nm x, hello_name lower is_space cfg ip (x_idna e) = Some nm /\
                  subject_qualifies is_space nm = true /\
                  load_from_storage (x_storage e) (x_broken e) nm = Some x /\ sd_servable x = true /\ c = sd_cert x /\
                  exists san, In san (c_names c) /\ covers san nm).
  Proof.
    intros Hr Hwf H. pose proof (reachable_inv d Hr) as HI. unfold DInv in HI.
    unfold get_certificate in H. destruct abort; [discriminate|].
    destruct (acme_tls_alpn sni protos); [discriminate|].
    eapply lookup_x_sound; eauto.
  Qed.
End Reachable.

(** ---- "an error if and only if no certificate is available", in model terms, any policy ---- *)
Definition servable_load (cap : nat) (s : state) (e : envx) (nm : name) : bool :=
  almost_full cap (length (cache s)) &&
  match load_from_storage (x_storage e) (x_broken e) nm with Some x => sd_servable x | None => false end.

Theorem lookup_x_error_iff lower is_space sel conn s cap cfg sni ip e :
  fst (lookup_x lower is_space sel conn s cap cfg sni ip e) = RErr <->
  (forall c v, from_cache_x lower is_space sel conn s cfg sni ip <> Some (c, true, v)) /\
  match hello_name lower is_space cfg ip (x_idna e) with
  | None => True                                                   (* the IDNA conversion failed *)
  | Some nm => subject_qualifies is_space nm = false \/             (* the name does not qualify *)
               (from_cache_x lower is_space sel conn s cfg sni ip = None /\   (* no default, no fallback *)
                servable_load cap s e nm = false)                  (* and nothing to load *)
  end.
Proof.
  unfold lookup_x, servable_load.
  destruct (from_cache_x lower is_space sel conn s cfg sni ip) as [[[c0 b] v]|] eqn:Ef.
  - destruct b.
    + cbn [fst]. split; [discriminate|]. intros [H _]. exfalso. eapply H; reflexivity.
    + destruct (hello_name lower is_space cfg ip (x_idna e)) as [nm|]; cbn [fst].
      2:{ split; [intros _; split; [intros c' v'; congruence | exact I] | reflexivity]. }
      destruct (subject_qualifies is_space nm); cbn [negb fst].
      2:{ split; [intros _; split; [intros c' v'; congruence | left; reflexivity] | reflexivity]. }
      split.
      * intros H. exfalso.
        destruct (almost_full cap (length (cache s))); [|discriminate].
        destruct (load_from_storage (x_storage e) (x_broken e) nm) as [x|]; [|discriminate].
        cbv zeta in H. destruct (sd_servable x); discriminate.
      * intros [_ [H|[H _]]]; discriminate.
  - destruct (hello_name lower is_space cfg ip (x_idna e)) as [nm|]; cbn [fst].
    2:{ split; [intros _; split; [intros c' v'; congruence | exact I] | reflexivity]. }
    destruct (subject_qualifies is_space nm); cbn [negb fst].
    2:{ split; [intros _; split; [intros c' v'; congruence | left; reflexivity] | reflexivity]. }
    destruct (almost_full cap (length (cache s))); cbn [andb].
    + destruct (load_from_storage (x_storage e) (x_broken e) nm) as [x|].
      * cbv zeta. destruct (sd_servable x); cbn [fst defaulted_result].
        -- split; [discriminate|]. intros [_ [H|[_ H]]]; discriminate.
        -- split; [intros _; split; [intros c' v'; congruence | right; split; reflexivity] | reflexivity].
      * cbn [fst defaulted_result]. split; [intros _; split; [intros c' v'; congruence | right; split; reflexivity] | reflexivity].
    + cbn [fst defaulted_result]. split; [intros _; split; [intros c' v'; congruence | right; split; reflexivity] | reflexivity].
Qed.

(** a stored certificate that is due for renewal but still valid is served, and is not in the cache
    afterwards (with on-demand TLS off nobody may renew it: the background renewal removes it) *)
Theorem due_certificate_served_then_gone lower is_space sel conn s cap cfg sni ip e x c s' :
  lookup_x lower is_space sel conn s cap cfg sni ip e = (ROk c, s') ->
  (forall c' v, from_cache_x lower is_space sel conn s cfg sni ip <> Some (c', true, v)) ->
  load_ok lower is_space cap s cfg ip e x -> sd_servable x = true -> sd_fresh x = false ->
  c = sd_cert x /\ amem (c_hash c) (cache s') = false.
Proof.
  intros H Hnm (nm & Hn & Hq & Ha & Hl) Hsv Hfr. unfold lookup_x in H. rewrite Hn, Hq, Ha, Hl in H. cbv zeta in H.
  rewrite Hsv, Hfr in H. cbn [negb] in H.
  destruct (from_cache_x lower is_space sel conn s cfg sni ip) as [[[c0 b] v]|] eqn:Ef.
  - destruct b; [exfalso; eapply Hnm; reflexivity|]. injection H as <- <-. split; [reflexivity|].
    cbn [remove_cert cache]. rewrite amem_adelete, str_eqb_refl. reflexivity.
  - injection H as <- <-. split; [reflexivity|].
    cbn [remove_cert cache]. rewrite amem_adelete, str_eqb_refl. reflexivity.
Qed.

(** GetCertificate as a whole leaves the cache alone unless it is almost full *)
Theorem get_certificate_touches_only_when_almost_full lower is_space sel abort protos conn s cap cfg sni ip e :
  almost_full cap (length (cache s)) = false ->
  snd (get_certificate lower is_space sel abort protos conn s cap cfg sni ip e) = s.
Proof.
  intros H. unfold get_certificate. destruct abort; [reflexivity|].
  destruct (acme_tls_alpn sni protos); [reflexivity|]. apply lookup_x_unchanged. exact H.
Qed.

(** for an ordinary ClientHello made by crypto/tls, GetCertificate with the default policy is
    [lookup]: every statement about [lookup] is a statement about GetCertificate *)
Theorem get_certificate_is_lookup lower is_space sup valid protos s cap cfg sni ip e :
  acme_tls_alpn sni protos = false ->
  fst (get_certificate lower is_space (select_cert sup valid) false protos true s cap cfg sni ip e) =
  lookup lower is_space sup valid s cap cfg sni ip (env_of lower is_space cfg ip e).
Proof. intros H. unfold get_certificate. rewrite H. apply lookup_x_default. Qed.
