(** C03: properties of the lookup model, on top of the cache invariant of C12. *)
From CM Require Import Lib.Str Gen.Consts Cache.Model Cache.AMapFacts Cache.Proofs Lookup.Model.
From Coq Require Import Arith.
Open Scope nat_scope.

(** ---- wildcard candidates are exactly the "leftmost k labels replaced" names ---- *)
Lemma star_prefixes_spec todo : forall done x,
  In x (star_prefixes done todo) <->
  exists j, 1 <= j <= length todo /\ x = done ++ repeat [c_star] j ++ skipn j todo.
Proof.
  induction todo as [|l r IH]; intros done x; cbn [star_prefixes length].
  - split; [intros [] | intros (j & Hj & _); lia].
  - cbn [In]. rewrite IH. split.
    + intros [<-|(j & Hj & ->)].
      * exists 1. split; [lia|]. cbn. rewrite <- app_assoc. reflexivity.
      * exists (S j). split; [lia|]. cbn [repeat skipn]. rewrite <- app_assoc. reflexivity.
    + intros (j & Hj & ->). destruct j as [|[|j]]; [lia| |].
      * left. cbn. rewrite <- app_assoc. reflexivity.
      * right. exists (S j). split; [lia|]. cbn [repeat skipn]. rewrite <- app_assoc. reflexivity.
Qed.

Theorem candidates_spec n m :
  In m (wildcard_candidates n) <-> exists k, 1 <= k <= length (labels n) /\ m = star_k k n.
Proof.
  unfold wildcard_candidates, star_k, labels. rewrite in_map_iff. split.
  - intros (x & <- & Hx). apply star_prefixes_spec in Hx. destruct Hx as (j & Hj & ->). eauto.
  - intros (k & Hk & ->). eexists. split; [reflexivity|]. apply star_prefixes_spec. eauto.
Qed.

Theorem candidates_cover n m : In m (n :: wildcard_candidates n) <-> covers m n.
Proof.
  unfold covers. cbn [In]. rewrite candidates_spec. split; (intros [H|H]; [left; congruence | right; exact H]).
Qed.

Lemma covers_b_spec san n : covers_b san n = true <-> covers san n.
Proof.
  unfold covers_b, covers. rewrite orb_true_iff, str_eqb_eq, existsb_exists. split.
  - intros [H|(k & Hk & E)]; [left; exact H | right]. apply in_seq in Hk. apply str_eqb_eq in E.
    exists k. split; [lia | exact E].
  - intros [H|(k & Hk & E)]; [left; exact H | right]. exists k. split; [apply in_seq; lia|].
    apply str_eqb_eq. exact E.
Qed.

(** ---- MatchWildcard ---- *)
Lemma mw_prefixes_nonempty todo : forall done,
  existsb is_nil todo = false -> mw_prefixes done todo = star_prefixes done todo.
Proof.
  induction todo as [|l r IH]; intros done H; cbn [mw_prefixes star_prefixes]; [reflexivity|].
  cbn [existsb] in H. apply orb_false_iff in H. destruct H as [Hl Hr]. rewrite Hl, IH by assumption.
  reflexivity.
Qed.

Lemma join_star_head rest : In c_star (join_with c_dot ([c_star] :: rest)).
Proof. destruct rest; cbn; auto. Qed.

Lemma existsb_star w : existsb (N.eqb c_star) w = true <-> In c_star w.
Proof.
  rewrite existsb_exists. split.
  - intros (x & Hx & E). apply N.eqb_eq in E. subst. exact Hx.
  - intros H. exists c_star. split; [exact H | apply N.eqb_refl].
Qed.

Theorem match_wildcard_covers lower subject wildcard :
  existsb is_nil (labels (map lower subject)) = false ->
  (match_wildcard lower subject wildcard = true <-> covers (map lower wildcard) (map lower subject)).
Proof.
  intros Hne. unfold match_wildcard.
  set (s := map lower subject) in *. set (w := map lower wildcard).
  destruct (str_eqb_spec s w) as [E|E].
  - split; [intros _; left; congruence | reflexivity].
  - rewrite mw_prefixes_nonempty by exact Hne. fold (wildcard_candidates s).
    destruct (existsb (N.eqb c_star) w) eqn:Es; cbn [negb].
    + rewrite existsb_exists. split.
      * intros (m & Hm & Em). apply str_eqb_eq in Em. subst m.
        apply candidates_cover. right. exact Hm.
      * intros Hc. apply candidates_cover in Hc. destruct Hc as [Hc|Hc]; [congruence|].
        exists w. split; [exact Hc | apply str_eqb_refl].
    + split; [discriminate|]. intros [Hc|(k & Hk & Hc)]; [congruence|]. exfalso.
      assert (Hin : In c_star w).
      { rewrite Hc. unfold star_k. destruct k as [|k]; [lia|]. cbn [repeat app]. apply join_star_head. }
      apply existsb_star in Hin. congruence.
Qed.

(** ---- DefaultCertificateSelector ---- *)
Section Select.
  Variable sup valid : hash -> bool.
  Definition good (c : cert) : Prop := sup (c_hash c) = true /\ valid (c_hash c) = true.

  Lemma sel_loop_In l : forall best, sel_loop sup valid best l = best \/ In (sel_loop sup valid best l) l.
  Proof.
    induction l as [|c r IH]; intros best; cbn [sel_loop]; [auto|].
    destruct (sup (c_hash c)).
    - destruct (valid (c_hash c)); [right; left; reflexivity|].
      destruct (IH c) as [H|H]; [right; left; congruence | right; right; exact H].
    - destruct (IH best) as [H|H]; [left; exact H | right; right; exact H].
  Qed.

  Lemma sel_loop_good l : forall best,
    (exists c, In c l /\ good c) -> good (sel_loop sup valid best l).
  Proof.
    induction l as [|c r IH]; intros best (c' & Hin & Hg); [destruct Hin|].
    cbn [sel_loop]. destruct (sup (c_hash c)) eqn:Es.
    - destruct (valid (c_hash c)) eqn:Ev; [split; assumption|].
      apply IH. destruct Hin as [<-|Hin]; [destruct Hg; congruence | eauto].
    - apply IH. destruct Hin as [<-|Hin]; [destruct Hg; congruence | eauto].
  Qed.

  (** if any supported certificate is among the choices, a supported one is chosen *)
  Lemma sel_loop_sup_best l : forall best,
    sup (c_hash best) = true -> sup (c_hash (sel_loop sup valid best l)) = true.
  Proof.
    induction l as [|c r IH]; intros best Hb; cbn [sel_loop]; [exact Hb|].
    destruct (sup (c_hash c)) eqn:Es; [|apply IH; exact Hb].
    destruct (valid (c_hash c)); [exact Es | apply IH; exact Es].
  Qed.
  Lemma sel_loop_sup l : forall best,
    (exists c, In c l /\ sup (c_hash c) = true) -> sup (c_hash (sel_loop sup valid best l)) = true.
  Proof.
    induction l as [|c r IH]; intros best (c' & Hin & Hs); [destruct Hin|].
    cbn [sel_loop]. destruct (sup (c_hash c)) eqn:Es.
    - destruct (valid (c_hash c)); [exact Es | apply sel_loop_sup_best; exact Es].
    - apply IH. destruct Hin as [Heq|Hin]; [subst c'; congruence | eauto].
  Qed.

  Lemma default_select_cases l c : default_select sup valid l = Some c ->
    l = [c] \/ exists a b r, l = a :: b :: r /\ c = sel_loop sup valid a l.
  Proof.
    destruct l as [|a [|b r]]; intros H.
    - discriminate.
    - left. cbn in H. congruence.
    - right. exists a, b, r. split; [reflexivity|].
      change (Some (sel_loop sup valid a (a :: b :: r)) = Some c) in H. congruence.
  Qed.
  Lemma default_select_In l c : default_select sup valid l = Some c -> In c l.
  Proof.
    intros H. destruct (default_select_cases l c H) as [->|(a & b & r & -> & ->)]; [left; reflexivity|].
    destruct (sel_loop_In (a :: b :: r) a) as [E|E]; [rewrite E; left; reflexivity | exact E].
  Qed.
  Lemma default_select_none l : default_select sup valid l = None <-> l = [].
  Proof. destruct l as [|a [|b r]]; cbn; split; congruence. Qed.
  Lemma default_select_good l c :
    default_select sup valid l = Some c -> (exists c', In c' l /\ good c') -> good c.
  Proof.
    intros H Hex. destruct (default_select_cases l c H) as [->|(a & b & r & -> & ->)].
    - destruct Hex as (c' & [<-|[]] & Hg). exact Hg.
    - apply sel_loop_good. exact Hex.
  Qed.
  (** ... and a supported one (expired if need be) whenever one of the choices is supported *)
  Lemma default_select_sup l c :
    default_select sup valid l = Some c -> (exists c', In c' l /\ sup (c_hash c') = true) -> sup (c_hash c) = true.
  Proof.
    intros H Hex. destruct (default_select_cases l c H) as [->|(a & b & r & -> & ->)].
    - destruct Hex as (c' & [<-|[]] & Hs). exact Hs.
    - apply sel_loop_sup. exact Hex.
  Qed.
End Select.

(** ---- lookup on a cache satisfying the invariant ---- *)
Section Lookup.
  Variable lower : N -> N.
  Variable is_space : N -> bool.
  Variable sup valid : hash -> bool.
  Variable names_of : hash -> list name.
  Variable cap : nat.
  Notation Inv := (Inv names_of cap).
  Notation normalize := (normalize lower is_space).
  Notation select_cert := (select_cert sup valid).
  Notation first_select := (first_select sup valid).
  Notation from_cache := (from_cache lower is_space sup valid).
  Notation lookup := (lookup lower is_space sup valid).
  Notation good := (good sup valid).

  Lemma matching_nil s m : get_all_matching_certs s m = [] <-> idx s m = [].
  Proof. unfold get_all_matching_certs. destruct (idx s m); cbn; split; congruence. Qed.

  Lemma select_none s m : select_cert s m = None <-> idx s m = [].
  Proof. unfold Model.select_cert. rewrite default_select_none. apply matching_nil. Qed.

  (** what selectCert returns is a cached certificate listing the name, and a supported
      unexpired one whenever there is one among the certificates listed under the name *)
  Lemma select_some s m c : Inv s -> select_cert s m = Some c ->
    alookup (c_hash c) (cache s) = Some c /\ In m (c_names c) /\
    In c (get_all_matching_certs s m) /\
    ((exists c', In c' (get_all_matching_certs s m) /\ good c') -> good c).
  Proof.
    intros HI H. unfold Model.select_cert in H. pose proof (default_select_In _ _ _ _ H) as Hin.
    destruct (proj1 (lookup_exact names_of cap s HI m c) Hin) as [Hc Hm].
    split; [exact Hc|]. split; [exact Hm|]. split; [exact Hin|]. apply (default_select_good _ _ _ _ H).
  Qed.

  Lemma first_select_some s cands m c : first_select s cands = Some (m, c) ->
    exists pre post : list name, cands = pre ++ m :: post /\ Forall (fun m' => idx s m' = []) pre /\
                     select_cert s m = Some c.
  Proof.
    induction cands as [|a r IH]; cbn [Model.first_select]; [discriminate|].
    destruct (select_cert s a) as [c0|] eqn:E.
    - intros H; injection H as <- <-. exists [], r. repeat split; [constructor | exact E].
    - intros H. destruct (IH H) as (pre & post & -> & Hpre & Hs).
      exists (a :: pre), post. repeat split; [|exact Hs]. constructor; [apply select_none; exact E | exact Hpre].
  Qed.
  Lemma first_select_none s cands : first_select s cands = None <-> Forall (fun m' => idx s m' = []) cands.
  Proof.
    induction cands as [|a r IH]; cbn [Model.first_select]; [split; [constructor | reflexivity]|].
    destruct (select_cert s a) as [c0|] eqn:E.
    - split; [discriminate|]. intros H. inversion H as [|? ? Ha _]; subst.
      apply select_none in Ha. congruence.
    - rewrite IH. apply select_none in E. split; [intros H; constructor; assumption|].
      intros H; inversion H; assumption.
  Qed.
  (** the first candidate with a non-empty index entry decides *)
  Lemma first_select_first s (pre : list name) (m : name) (post : list name) :
    Forall (fun m' => idx s m' = []) pre -> idx s m <> [] ->
    exists c, first_select s (pre ++ m :: post) = Some (m, c) /\ select_cert s m = Some c.
  Proof.
    intros Hpre Hm. induction Hpre as [|a pre Ha _ IH]; cbn [app Model.first_select].
    - destruct (select_cert s m) as [c|] eqn:E; [eauto|]. apply select_none in E. congruence.
    - apply select_none in Ha. rewrite Ha. exact IH.
  Qed.

  (** how a certificate came out of getCertificateFromCache *)
  Inductive via_ok (s : state) (cfg : config) (sni localip : str) : cert -> bool -> name -> Prop :=
  | via_match c (m : name) (pre post : list name) :
      normalize sni <> [] ->
      normalize sni :: wildcard_candidates (normalize sni) = pre ++ m :: post ->
      Forall (fun m' => idx s m' = []) pre ->
      select_cert s m = Some c -> via_ok s cfg sni localip c true m
  | via_ip c :
      normalize sni = [] -> select_cert s localip = Some c -> via_ok s cfg sni localip c true localip
  | via_default c :
      normalize sni = [] -> idx s localip = [] -> default_name cfg <> [] ->
      select_cert s (normalize (default_name cfg)) = Some c ->
      via_ok s cfg sni localip c false (normalize (default_name cfg))
  | via_fallback c :
      (if is_nil (normalize sni) then idx s localip = []
       else Forall (fun m' => idx s m' = []) (normalize sni :: wildcard_candidates (normalize sni))) ->
      fallback_name cfg <> [] ->
      select_cert s (normalize (fallback_name cfg)) = Some c ->
      via_ok s cfg sni localip c false (normalize (fallback_name cfg)).

  Lemma is_nil_false {A} (l : list A) : is_nil l = false <-> l <> [].
  Proof. destruct l; cbn; split; congruence. Qed.

  Lemma try_fallback_some s cfg c b v :
    try_fallback lower is_space sup valid s cfg = Some (c, b, v) ->
    b = false /\ v = normalize (fallback_name cfg) /\ fallback_name cfg <> [] /\
    select_cert s (normalize (fallback_name cfg)) = Some c.
  Proof.
    unfold try_fallback. destruct (is_nil (fallback_name cfg)) eqn:E; [discriminate|].
    apply is_nil_false in E.
    destruct (select_cert s (normalize (fallback_name cfg))) as [c0|] eqn:Es; [|discriminate].
    intros H; injection H as <- <- <-. auto.
  Qed.

  Lemma from_cache_some s cfg sni ip c b v :
    from_cache s cfg sni ip = Some (c, b, v) -> via_ok s cfg sni ip c b v.
  Proof.
    unfold Model.from_cache. destruct (is_nil (normalize sni)) eqn:En.
    - apply is_nil_true in En.
      destruct (select_cert s ip) as [c0|] eqn:Eip.
      + intros H; injection H as <- <- <-. apply via_ip; assumption.
      + apply select_none in Eip.
        destruct (is_nil (default_name cfg)) eqn:Ed.
        * intros H. apply try_fallback_some in H. destruct H as (-> & -> & Hf & Hs).
          apply via_fallback; [rewrite En; exact Eip | exact Hf | exact Hs].
        * apply is_nil_false in Ed.
          destruct (select_cert s (normalize (default_name cfg))) as [c0|] eqn:Esd.
          -- intros H; injection H as <- <- <-. apply via_default; assumption.
          -- intros H. apply try_fallback_some in H. destruct H as (-> & -> & Hf & Hs).
             apply via_fallback; [rewrite En; exact Eip | exact Hf | exact Hs].
    - pose proof En as En'. apply is_nil_false in En'.
      destruct (first_select s (normalize sni :: wildcard_candidates (normalize sni))) as [[m c0]|] eqn:Ef.
      + intros H; injection H as <- <- <-.
        destruct (first_select_some _ _ _ _ Ef) as (pre & post & Hc & Hpre & Hs).
        eapply via_match; eauto.
      + intros H. apply try_fallback_some in H. destruct H as (-> & -> & Hf & Hs).
        apply via_fallback; [rewrite En; apply first_select_none; exact Ef | exact Hf | exact Hs].
  Qed.

  (** from_cache never finds nothing while a preferred name is listed *)
  Lemma from_cache_matched_first s cfg sni ip (pre : list name) (m : name) (post : list name) :
    normalize sni <> [] ->
    normalize sni :: wildcard_candidates (normalize sni) = pre ++ m :: post ->
    Forall (fun m' => idx s m' = []) pre -> idx s m <> [] ->
    exists c, from_cache s cfg sni ip = Some (c, true, m) /\ select_cert s m = Some c.
  Proof.
    intros Hn Hc Hpre Hm. unfold Model.from_cache. apply is_nil_false in Hn. rewrite Hn, Hc.
    destruct (first_select_first s pre m post Hpre Hm) as (c & Hfs & Hs). exists c. rewrite Hfs. auto.
  Qed.
  Lemma from_cache_ip s cfg sni ip :
    normalize sni = [] -> idx s ip <> [] ->
    exists c, from_cache s cfg sni ip = Some (c, true, ip) /\ select_cert s ip = Some c.
  Proof.
    intros Hn Hm. unfold Model.from_cache. rewrite Hn. cbn [is_nil].
    destruct (select_cert s ip) as [c|] eqn:E; [eauto|]. apply select_none in E. congruence.
  Qed.

  (** the tail of getCertDuringHandshake *)
  Lemma lookup_cases s cfg sni ip e c :
    lookup s cap cfg sni ip e = ROk c ->
    (exists b v, from_cache s cfg sni ip = Some (c, b, v)) \/
    (almost_full cap (length (cache s)) = true /\ loaded e = Some c /\
     name_err e = false /\ qualifies e = true /\
     forall c' v, from_cache s cfg sni ip <> Some (c', true, v)).
  Proof.
    unfold Model.lookup.
    destruct (from_cache s cfg sni ip) as [[[c0 b] v]|] eqn:Ef.
    - destruct b.
      + intros H; injection H as <-. left; eauto.
      + destruct (name_err e); [discriminate|]. destruct (qualifies e); cbn [negb]; [|discriminate].
        destruct (almost_full cap (length (cache s))).
        * destruct (loaded e) as [lc|].
          -- intros H; injection H as <-. right. repeat split; try reflexivity. intros c' v'; congruence.
          -- intros H; injection H as <-. left; eauto.
        * intros H; injection H as <-. left; eauto.
    - destruct (name_err e); [discriminate|]. destruct (qualifies e); cbn [negb]; [|discriminate].
      destruct (almost_full cap (length (cache s))); [|discriminate].
      destruct (loaded e) as [lc|]; [|discriminate].
      intros H; injection H as <-. right. repeat split; try reflexivity. intros c' v'; congruence.
  Qed.

  (** F lookup_sound *)
  Theorem lookup_sound s cfg sni ip e c :
    Inv s -> lookup s cap cfg sni ip e = ROk c ->
    (alookup (c_hash c) (cache s) = Some c /\
     ((normalize sni <> [] /\ exists san, In san (c_names c) /\ covers san (normalize sni)) \/
      (normalize sni = [] /\ In ip (c_names c)) \/
      (normalize sni = [] /\ default_name cfg <> [] /\ In (normalize (default_name cfg)) (c_names c)) \/
      (fallback_name cfg <> [] /\ In (normalize (fallback_name cfg)) (c_names c)))) \/
    (almost_full cap (length (cache s)) = true /\ loaded e = Some c /\
     name_err e = false /\ qualifies e = true).
  Proof.
    intros HI H. destruct (lookup_cases _ _ _ _ _ _ H) as [(b & v & Hf)|(Ha & Hl & Hn & Hq & _)]; [left | right; auto].
    apply from_cache_some in Hf. destruct Hf as [c m pre post Hn Hc Hpre Hs|c Hn Hs|c Hn Hip Hd Hs|c Hnone Hfb Hs];
      destruct (select_some _ _ _ HI Hs) as (Hcached & Hlisted & _ & _); (split; [exact Hcached|]).
    - left. split; [exact Hn|]. exists m. split; [exact Hlisted|]. apply candidates_cover.
      unfold name in *. rewrite Hc. apply in_or_app. right. left. reflexivity.
    - right. left. auto.
    - right. right. left. auto.
    - right. right. right. auto.
  Qed.

  (** exact_preferred, in the general form: the first name in the order "exact, *.b.c, *.*.c, ..."
      that is listed in the index decides; the answer is one of the certificates listed under it *)
  Theorem first_listed_wins s cfg sni ip e (pre : list name) (m : name) (post : list name) :
    Inv s -> normalize sni <> [] ->
    normalize sni :: wildcard_candidates (normalize sni) = pre ++ m :: post ->
    Forall (fun m' => idx s m' = []) pre -> idx s m <> [] ->
    exists c, lookup s cap cfg sni ip e = ROk c /\ In c (get_all_matching_certs s m) /\
              In m (c_names c) /\
              ((exists c', In c' (get_all_matching_certs s m) /\ good c') -> good c).
  Proof.
    intros HI Hn Hc Hpre Hm.
    destruct (from_cache_matched_first s cfg sni ip pre m post Hn Hc Hpre Hm) as (c & Hf & Hs).
    exists c. unfold Model.lookup. rewrite Hf. split; [reflexivity|].
    destruct (select_some _ _ _ HI Hs) as (_ & Hl & Hin & Hg). auto.
  Qed.

  Theorem exact_preferred s cfg sni ip e :
    Inv s -> normalize sni <> [] -> idx s (normalize sni) <> [] ->
    exists c, lookup s cap cfg sni ip e = ROk c /\ In (normalize sni) (c_names c) /\
              In c (get_all_matching_certs s (normalize sni)).
  Proof.
    intros HI Hn Hm.
    destruct (first_listed_wins s cfg sni ip e [] (normalize sni) (wildcard_candidates (normalize sni)) HI Hn eq_refl (Forall_nil _) Hm)
      as (c & Hl & Hin & Hnm & _). eauto.
  Qed.

  (** ip_preferred_without_sni *)
  Theorem ip_preferred_without_sni s cfg sni ip e :
    Inv s -> normalize sni = [] -> idx s ip <> [] ->
    exists c, lookup s cap cfg sni ip e = ROk c /\ In ip (c_names c) /\
              In c (get_all_matching_certs s ip) /\
              ((exists c', In c' (get_all_matching_certs s ip) /\ good c') -> good c).
  Proof.
    intros HI Hn Hm. destruct (from_cache_ip s cfg sni ip Hn Hm) as (c & Hf & Hs).
    exists c. unfold Model.lookup. rewrite Hf. split; [reflexivity|].
    destruct (select_some _ _ _ HI Hs) as (_ & Hl & Hin & Hg). auto.
  Qed.

  (** unexpired_supported_preferred: whatever name the answer was found under, if the
      certificates listed under that name include a supported unexpired one, the answer is
      supported and unexpired *)
  Theorem unexpired_supported_preferred s cfg sni ip c b v :
    Inv s -> from_cache s cfg sni ip = Some (c, b, v) ->
    In c (get_all_matching_certs s v) /\
    ((exists c', In c' (get_all_matching_certs s v) /\ good c') -> good c).
  Proof.
    intros HI Hf. apply from_cache_some in Hf.
    destruct Hf as [c m pre post Hn Hc Hpre Hs|c Hn Hs|c Hn Hip Hd Hs|c Hnone Hfb Hs];
      destruct (select_some _ _ _ HI Hs) as (_ & _ & Hin & Hg); auto.
  Qed.

  (** an error only when no preferred name is listed *)
  Theorem error_only_if_unlisted s cfg sni ip e :
    Inv s -> lookup s cap cfg sni ip e = RErr ->
    if is_nil (normalize sni) then idx s ip = []
    else Forall (fun m' => idx s m' = []) (normalize sni :: wildcard_candidates (normalize sni)).
  Proof.
    intros HI H. destruct (is_nil (normalize sni)) eqn:En.
    - apply is_nil_true in En. destruct (idx s ip) eqn:E; [reflexivity|].
      destruct (from_cache_ip s cfg sni ip En) as (c & Hf & _); [congruence|].
      unfold Model.lookup in H. rewrite Hf in H. discriminate.
    - apply is_nil_false in En. apply first_select_none.
      destruct (first_select s (normalize sni :: wildcard_candidates (normalize sni))) as [[m c]|] eqn:Ef; [|reflexivity].
      unfold Model.lookup, Model.from_cache in H. apply is_nil_false in En. rewrite En, Ef in H. discriminate.
  Qed.
End Lookup.
