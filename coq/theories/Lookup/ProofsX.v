(** C03: the extended lookup model [lookup_x] -- any selection policy (Config.CertSelection),
    SubjectQualifiesForCert, getNameFromClientHello, loadCertFromStorage and the effect of the
    almost-full branch on the cache. *)
From CM Require Import Lib.Str Lib.QualSteps Gen.Consts Cache.Model Cache.AMapFacts Cache.Proofs
  Lookup.Model Lookup.Proofs.
From Coq Require Import Arith.
Open Scope nat_scope.

(** ---- [lookup_x] with the default policy is [lookup] ---- *)
Lemma from_cache_x_default lower is_space sup valid s cfg sni ip :
  from_cache_x lower is_space (select_cert sup valid) true s cfg sni ip =
  from_cache lower is_space sup valid s cfg sni ip.
Proof. reflexivity. Qed.

Theorem lookup_x_default lower is_space sup valid s cap cfg sni ip e :
  fst (lookup_x lower is_space (select_cert sup valid) true s cap cfg sni ip e) =
  lookup lower is_space sup valid s cap cfg sni ip (env_of lower is_space cfg ip e).
Proof.
  unfold lookup_x, lookup, env_of. rewrite from_cache_x_default.
  destruct (from_cache lower is_space sup valid s cfg sni ip) as [[[c b] v]|];
    [destruct b; [reflexivity|]|];
    (destruct (hello_name lower is_space cfg ip (x_idna e)) as [nm|]; cbn [name_err qualifies loaded fst]; [|reflexivity];
     destruct (subject_qualifies is_space nm); cbn [negb fst]; [|reflexivity];
     destruct (almost_full cap (length (cache s))); [|reflexivity];
     destruct (load_from_storage (x_storage e) (x_broken e) nm) as [x|]; [|reflexivity];
     cbv zeta; destruct (sd_servable x); reflexivity).
Qed.

Lemma load_from_storage_key st br nm x : load_from_storage st br nm = Some x -> exists k, alookup k st = Some x.
Proof.
  unfold load_from_storage. destruct (alookup nm st) as [y|] eqn:E.
  - intros H; injection H as <-. eauto.
  - destruct (mem_str nm br); [discriminate|]. destruct (mem_str (star_first nm) br); [discriminate|]. eauto.
Qed.

(** ---- the order in which names are offered to selectCert, whatever the policy ---- *)
Section Generic.
  Variable lower : N -> N.
  Variable is_space : N -> bool.
  Variable sel : state -> name -> option cert.
  Notation normalize := (normalize lower is_space).
  Notation from_cache_x := (from_cache_x lower is_space sel).
  Notation lookup_x := (lookup_x lower is_space sel).

  Lemma first_sel_some s cands m c : first_sel sel s cands = Some (m, c) ->
    exists pre post : list name, cands = pre ++ m :: post /\ Forall (fun m' => sel s m' = None) pre /\ sel s m = Some c.
  Proof.
    induction cands as [|a r IH]; cbn [first_sel]; [discriminate|].
    destruct (sel s a) as [c0|] eqn:E.
    - intros H; injection H as <- <-. exists [], r. repeat split; [constructor | exact E].
    - intros H. destruct (IH H) as (pre & post & -> & Hpre & Hs).
      exists (a :: pre), post. repeat split; [|exact Hs]. constructor; [exact E | exact Hpre].
  Qed.
  Lemma first_sel_none s cands : first_sel sel s cands = None <-> Forall (fun m' => sel s m' = None) cands.
  Proof.
    induction cands as [|a r IH]; cbn [first_sel]; [split; [constructor | reflexivity]|].
    destruct (sel s a) as [c0|] eqn:E.
    - split; [discriminate|]. intros H. inversion H as [|? ? Ha _]; subst. congruence.
    - rewrite IH. split; [intros H; constructor; assumption | intros H; inversion H; assumption].
  Qed.

  (** the names tried, in order, each with the "matched" flag its success carries
      (false = "defaulted": the configured default or fallback name) *)
  Definition tried (conn : bool) (cfg : config) (sni ip : str) : list (name * bool) :=
    let n := normalize sni in
    (if is_nil n
     then (if conn then [(ip, true)] else []) ++
          (if is_nil (default_name cfg) then [] else [(normalize (default_name cfg), false)])
     else map (fun m => (m, true)) (n :: wildcard_candidates n)) ++
    (if is_nil (fallback_name cfg) then [] else [(normalize (fallback_name cfg), false)]).

  Fixpoint first_tried (s : state) (l : list (name * bool)) : option (cert * bool * name) :=
    match l with
    | [] => None
    | (v, b) :: r => match sel s v with Some c => Some (c, b, v) | None => first_tried s r end
    end.

  Lemma first_tried_matched s (l : list name) rest :
    first_tried s (map (fun m => (m, true)) l ++ rest) =
    match first_sel sel s l with Some (m, c) => Some (c, true, m) | None => first_tried s rest end.
  Proof.
    induction l as [|a l IH]; cbn [map app first_tried first_sel]; [reflexivity|].
    destruct (sel s a); [reflexivity | exact IH].
  Qed.

  (** F: getCertificateFromCache = the first name, in that order, that selectCert accepts *)
  Theorem from_cache_x_first_tried conn s cfg sni ip :
    from_cache_x conn s cfg sni ip = first_tried s (tried conn cfg sni ip).
  Proof.
    unfold Model.from_cache_x, tried, try_fallback_x.
    destruct (is_nil (normalize sni)).
    - assert (H : forall rest, first_tried s ((if conn then [(ip, true)] else []) ++ rest) =
                  match (if conn then sel s ip else None) with
                  | Some c => Some (c, true, ip) | None => first_tried s rest end).
      { intros rest. destruct conn; cbn [app first_tried]; [destruct (sel s ip)|]; reflexivity. }
      rewrite <- app_assoc, H. destruct (if conn then sel s ip else None); [reflexivity|].
      destruct (is_nil (default_name cfg)); cbn [app first_tried].
      + destruct (is_nil (fallback_name cfg)); cbn [first_tried]; [reflexivity|].
        destruct (sel s (normalize (fallback_name cfg))); reflexivity.
      + destruct (sel s (normalize (default_name cfg))); [reflexivity|].
        destruct (is_nil (fallback_name cfg)); cbn [first_tried]; [reflexivity|].
        destruct (sel s (normalize (fallback_name cfg))); reflexivity.
    - rewrite first_tried_matched.
      destruct (first_sel sel s (normalize sni :: wildcard_candidates (normalize sni))) as [[m c]|]; [reflexivity|].
      destruct (is_nil (fallback_name cfg)); cbn [first_tried]; [reflexivity|].
      destruct (sel s (normalize (fallback_name cfg))); reflexivity.
  Qed.

  Lemma first_tried_some s l c b v : first_tried s l = Some (c, b, v) ->
    exists pre post, l = pre ++ (v, b) :: post /\ Forall (fun p => sel s (fst p) = None) pre /\ sel s v = Some c.
  Proof.
    induction l as [|[a ab] l IH]; cbn [first_tried]; [discriminate|].
    destruct (sel s a) as [c0|] eqn:E.
    - intros H; injection H as <- <- <-. exists [], l. repeat split; [constructor | exact E].
    - intros H. destruct (IH H) as (pre & post & -> & Hpre & Hs).
      exists ((a, ab) :: pre), post. repeat split; [|exact Hs]. constructor; [exact E | exact Hpre].
  Qed.
  Lemma first_tried_none s l : first_tried s l = None <-> Forall (fun p => sel s (fst p) = None) l.
  Proof.
    induction l as [|[a ab] l IH]; cbn [first_tried]; [split; [constructor | reflexivity]|].
    destruct (sel s a) as [c0|] eqn:E.
    - split; [discriminate|]. intros H. inversion H as [|? ? Ha _]; subst. cbn in Ha. congruence.
    - rewrite IH. split; [intros H; constructor; assumption | intros H; inversion H; assumption].
  Qed.

  (** ---- the tail of getCertDuringHandshake ---- *)
  Notation from_cache_c := (Model.from_cache_x lower is_space sel).
  Definition load_ok (cap : nat) (s : state) (cfg : config) (ip : str) (e : envx) (x : stored) : Prop :=
    exists nm, hello_name lower is_space cfg ip (x_idna e) = Some nm /\
               subject_qualifies is_space nm = true /\
               almost_full cap (length (cache s)) = true /\
               load_from_storage (x_storage e) (x_broken e) nm = Some x.

  Lemma lookup_x_cases conn s cap cfg sni ip e c s' :
    lookup_x conn s cap cfg sni ip e = (ROk c, s') ->
    (exists b v, from_cache_x conn s cfg sni ip = Some (c, b, v)) \/
    (exists x, load_ok cap s cfg ip e x /\ sd_servable x = true /\ c = sd_cert x /\
               s' = (if sd_fresh x then add_cert cap c (x_victim e) s
                     else remove_cert c (add_cert cap c (x_victim e) s)) /\
               forall c' v, from_cache_x conn s cfg sni ip <> Some (c', true, v)).
  Proof.
    unfold Model.lookup_x.
    destruct (from_cache_x conn s cfg sni ip) as [[[c0 b] v]|] eqn:Ef.
    - destruct b.
      + intros H; injection H as <- <-. left; eauto.
      + destruct (hello_name lower is_space cfg ip (x_idna e)) as [nm|] eqn:En; [|discriminate].
        destruct (subject_qualifies is_space nm) eqn:Eq; cbn [negb]; [|discriminate].
        destruct (almost_full cap (length (cache s))) eqn:Ea.
        * destruct (load_from_storage (x_storage e) (x_broken e) nm) as [x|] eqn:El.
          -- cbv zeta. destruct (sd_servable x) eqn:Efr.
             ++ intros H; injection H as <- <-. right. exists x. split; [exists nm; auto|].
                split; [exact Efr|]. split; [reflexivity|]. split; [reflexivity|]. intros c' v'; congruence.
             ++ cbn [defaulted_result]. intros H; injection H as <- _. left; eauto.
          -- cbn [defaulted_result]. intros H; injection H as <- _. left; eauto.
        * cbn [defaulted_result]. intros H; injection H as <- _. left; eauto.
    - destruct (hello_name lower is_space cfg ip (x_idna e)) as [nm|] eqn:En; [|discriminate].
      destruct (subject_qualifies is_space nm) eqn:Eq; cbn [negb]; [|discriminate].
      destruct (almost_full cap (length (cache s))) eqn:Ea; [|discriminate].
      destruct (load_from_storage (x_storage e) (x_broken e) nm) as [x|] eqn:El; [|discriminate].
      cbv zeta. destruct (sd_servable x) eqn:Efr; [|discriminate].
      intros H; injection H as <- <-. right. exists x. split; [exists nm; auto|].
      split; [exact Efr|]. split; [reflexivity|]. split; [reflexivity|]. intros c' v'; congruence.
  Qed.

  (** what a lookup does to the cache: nothing, or -- only when the cache is almost full and a
      certificate for the name is in storage -- it caches that certificate (evicting if necessary),
      and removes it again if it cannot be maintained *)
  Lemma lookup_x_post conn s cap cfg sni ip e :
    snd (lookup_x conn s cap cfg sni ip e) = s \/
    exists x, load_ok cap s cfg ip e x /\
      snd (lookup_x conn s cap cfg sni ip e) =
      (if sd_fresh x then add_cert cap (sd_cert x) (x_victim e) s
       else remove_cert (sd_cert x) (add_cert cap (sd_cert x) (x_victim e) s)).
  Proof.
    unfold Model.lookup_x.
    set (other := from_cache_x conn s cfg sni ip).
    assert (Hmain :
      snd (match hello_name lower is_space cfg ip (x_idna e) with
           | None => (RErr, s)
           | Some nm =>
               if negb (subject_qualifies is_space nm) then (RErr, s)
               else match (if almost_full cap (length (cache s)) then load_from_storage (x_storage e) (x_broken e) nm else None) with
                    | Some x => let s1 := add_cert cap (sd_cert x) (x_victim e) s in
                                let s2 := if sd_fresh x then s1 else remove_cert (sd_cert x) s1 in
                                if sd_servable x then (ROk (sd_cert x), s2)
                                else (defaulted_result other, s2)
                    | None => (defaulted_result other, s)
                    end
           end) = s \/
      exists x, load_ok cap s cfg ip e x /\
        snd (match hello_name lower is_space cfg ip (x_idna e) with
           | None => (RErr, s)
           | Some nm =>
               if negb (subject_qualifies is_space nm) then (RErr, s)
               else match (if almost_full cap (length (cache s)) then load_from_storage (x_storage e) (x_broken e) nm else None) with
                    | Some x => let s1 := add_cert cap (sd_cert x) (x_victim e) s in
                                let s2 := if sd_fresh x then s1 else remove_cert (sd_cert x) s1 in
                                if sd_servable x then (ROk (sd_cert x), s2)
                                else (defaulted_result other, s2)
                    | None => (defaulted_result other, s)
                    end
           end) =
        (if sd_fresh x then add_cert cap (sd_cert x) (x_victim e) s
         else remove_cert (sd_cert x) (add_cert cap (sd_cert x) (x_victim e) s))).
    { destruct (hello_name lower is_space cfg ip (x_idna e)) as [nm|] eqn:En; [|left; reflexivity].
      destruct (subject_qualifies is_space nm) eqn:Eq; cbn [negb]; [|left; reflexivity].
      destruct (almost_full cap (length (cache s))) eqn:Ea; [|left; reflexivity].
      destruct (load_from_storage (x_storage e) (x_broken e) nm) as [x|] eqn:El; [|left; reflexivity].
      right. exists x. split; [exists nm; auto|]. cbv zeta. destruct (sd_servable x); destruct (sd_fresh x); reflexivity. }
    destruct other as [[[c0 b] v]|]; [destruct b; [left; reflexivity | exact Hmain] | exact Hmain].
  Qed.

  Lemma lookup_x_unchanged conn s cap cfg sni ip e :
    almost_full cap (length (cache s)) = false -> snd (lookup_x conn s cap cfg sni ip e) = s.
  Proof.
    intros Ha. destruct (lookup_x_post conn s cap cfg sni ip e) as [H|(x & (nm & _ & _ & Ha' & _) & _)]; [exact H | congruence].
  Qed.

  (** the cache invariant of C12 survives every lookup *)
  Theorem lookup_x_inv names_of conn s cap cfg sni ip e :
    Inv names_of cap s ->
    (forall k x, alookup k (x_storage e) = Some x -> wf_cert names_of (sd_cert x)) ->
    Inv names_of cap (snd (lookup_x conn s cap cfg sni ip e)).
  Proof.
    intros HI Hst. destruct (lookup_x_post conn s cap cfg sni ip e) as [->|(x & (nm & _ & _ & _ & Hl) & ->)]; [exact HI|].
    assert (Hwf : wf_cert names_of (sd_cert x)).
    { apply load_from_storage_key in Hl. destruct Hl as [k Hk]. eapply Hst; eauto. }
    destruct (sd_fresh x).
    - apply add_cert_inv; assumption.
    - apply remove_copy_inv; [apply add_cert_inv; assumption|]. left. apply Hwf.
  Qed.
End Generic.

(** ---- what is loaded from storage covers the name ---- *)
Lemma split_on_nonnil sep s : split_on sep s <> [].
Proof.
  destruct s as [|c r]; cbn; [discriminate|].
  destruct (N.eqb c sep); [discriminate|]. destruct (split_on sep r); discriminate.
Qed.

Lemma star_first_star_k n : star_first n = star_k 1 n /\ 1 <= length (labels n).
Proof.
  unfold star_first, star_k, labels. pose proof (split_on_nonnil c_dot n) as H.
  destruct (split_on c_dot n) as [|l r]; [congruence|]. cbn. split; [reflexivity | lia].
Qed.

(** storage holds every certificate under one of its own names (C06) *)
Definition storage_wf (st : amap stored) : Prop :=
  forall k x, alookup k st = Some x -> In k (c_names (sd_cert x)).

Theorem loaded_covers st br nm x :
  storage_wf st -> load_from_storage st br nm = Some x ->
  exists san, In san (c_names (sd_cert x)) /\ covers san nm.
Proof.
  intros Hwf H. unfold load_from_storage in H. destruct (alookup nm st) as [y|] eqn:E.
  - injection H as <-. exists nm. split; [eapply Hwf; eauto | left; reflexivity].
  - destruct (mem_str nm br); [discriminate|]. destruct (mem_str (star_first nm) br); [discriminate|].
    exists (star_first nm). split; [eapply Hwf; eauto|]. right. exists 1.
    destruct (star_first_star_k nm) as [-> Hl]. split; [lia | reflexivity].
Qed.

(** ---- custom selection policies ---- *)
Lemma pick_by_In better l c : pick_by better l = Some c -> In c l.
Proof.
  unfold pick_by.
  assert (H : forall acc, fold_left (fun acc c => match acc with
                          | None => Some c
                          | Some b => if better (c_hash c) (c_hash b) then Some c else Some b
                          end) l acc = Some c -> acc = Some c \/ In c l).
  { induction l as [|x r IH]; intros acc; cbn [fold_left]; [auto|].
    intros H. apply IH in H. destruct H as [H|H]; [|right; right; exact H].
    destruct acc as [b|].
    - destruct (better (c_hash x) (c_hash b)); [injection H as <-; right; left; reflexivity | left; exact H].
    - injection H as <-. right; left; reflexivity. }
  intros Hp. destruct (H None Hp) as [H0|H0]; [discriminate | exact H0].
Qed.

Lemma pick_by_none better l : pick_by better l = None <-> l = [].
Proof.
  unfold pick_by. split; [|intros ->; reflexivity].
  assert (H : forall l acc, acc <> None -> fold_left (fun acc c => match acc with
                          | None => Some c
                          | Some b => if better (c_hash c) (c_hash b) then Some c else Some b
                          end) l acc <> None).
  { clear l. induction l as [|x r IH]; intros acc Hacc; cbn [fold_left]; [exact Hacc|].
    apply IH. destruct acc as [b|]; [destruct (better _ _); discriminate | discriminate]. }
  destruct l as [|x r]; [reflexivity|]. cbn [fold_left]. intros Hn. exfalso.
  apply (H r (Some x)); [discriminate | exact Hn].
Qed.

Section Policy.
  Variable sup valid : hash -> bool.
  Variable names_of : hash -> list name.
  Variable cap : nat.
  Notation Inv := (Inv names_of cap).

  Lemma custom_pick_In p l c : custom_pick sup valid p l = Some c -> In c l.
  Proof.
    destruct p; cbn [custom_pick]; try discriminate; intros H; apply pick_by_In in H; try exact H.
    apply filter_In in H. tauto.
  Qed.

  (** the selector double that accepts only supported unexpired choices answers with one *)
  Lemma custom_pick_good l c : custom_pick sup valid PGoodMin l = Some c -> good sup valid c.
  Proof.
    cbn [custom_pick]. intros H. apply pick_by_In, filter_In in H. destruct H as [_ H].
    apply andb_true_iff in H. exact H.
  Qed.

  Lemma choices_in_cache s n c : Inv s -> In c (choices_for s n) ->
    alookup (c_hash c) (cache s) = Some c.
  Proof.
    intros HI. unfold choices_for. destruct (is_nil (get_all_matching_certs s n)).
    - intros H. apply in_map_iff in H. destruct H as ([k c0] & <- & Hin). cbn [snd].
      apply In_alookup in Hin; [|apply (inv_nodup _ _ s HI)].
      destruct (inv_cert _ _ s HI k c0 Hin) as (-> & _). exact Hin.
    - intros H. apply (lookup_exact names_of cap s HI) in H. tauto.
  Qed.

  (** the choices a custom selector is offered: the certificates listed under the name; all
      cached certificates only when none is *)
  Lemma choices_for_listed s n : idx s n <> [] -> choices_for s n = get_all_matching_certs s n.
  Proof.
    intros H. unfold choices_for. destruct (get_all_matching_certs s n) eqn:E; [|reflexivity].
    apply matching_nil in E. congruence.
  Qed.

  (** F: whatever the policy, what selectCert yields is a certificate of the cache *)
  Theorem sel_policy_in_cache p s n c : Inv s -> sel_policy sup valid p s n = Some c ->
    alookup (c_hash c) (cache s) = Some c.
  Proof.
    intros HI H. destruct p; cbn [sel_policy] in H;
      try (apply custom_pick_In in H; eapply choices_in_cache; eauto).
    apply (select_some sup valid names_of cap s n c HI) in H. tauto.
  Qed.

  (** F custom_selector_scope: with a custom selector the answer is an error, or the certificate
      the selector chose for the first name -- in the order local IP / exact, wildcards ...,
      default, fallback -- for which it accepted a choice, offered the certificates listed under
      that name or else all cached ones: a certificate of the cache; or it is the certificate
      just loaded from storage *)
  Theorem custom_selector_scope lower is_space p conn s cfg sni ip e c s' :
    Inv s ->
    lookup_x lower is_space (sel_policy sup valid p) conn s cap cfg sni ip e = (ROk c, s') ->
    (alookup (c_hash c) (cache s) = Some c /\
     exists pre v b post, tried lower is_space conn cfg sni ip = pre ++ (v, b) :: post /\
       Forall (fun q => sel_policy sup valid p s (fst q) = None) pre /\
       sel_policy sup valid p s v = Some c /\
       (p <> PDefault -> In c (choices_for s v))) \/
    (exists x, load_ok lower is_space cap s cfg ip e x /\ sd_servable x = true /\ c = sd_cert x).
  Proof.
    intros HI H. apply lookup_x_cases in H. destruct H as [(b & v & Hf)|(x & Hl & Hfr & Hc & _)]; [left | right; eauto].
    rewrite from_cache_x_first_tried in Hf. apply first_tried_some in Hf.
    destruct Hf as (pre & post & Ht & Hpre & Hs). split; [eapply sel_policy_in_cache; eauto|].
    exists pre, v, b, post. repeat split; try assumption.
    intros Hp. destruct p; cbn [sel_policy] in Hs; try congruence; eapply custom_pick_In; eauto.
  Qed.
End Policy.

(** ---- the default policy: soundness with the loaded certificate covering the name ---- *)
Section DefaultX.
  Variable lower : N -> N.
  Variable is_space : N -> bool.
  Variable sup valid : hash -> bool.
  Variable names_of : hash -> list name.
  Variable cap : nat.
  Notation Inv := (Inv names_of cap).
  Notation normalize := (normalize lower is_space).
  Notation lookup_d := (lookup_x lower is_space (select_cert sup valid)).

  (** F lookup_sound, complete form: the answer is an error, or a certificate really in the cache
      that lists a name covering the server name / the local IP (no SNI) / the default name (no SNI)
      / the fallback name; or the certificate loaded from storage in the almost-full branch, which
      lists a name covering the (IDNA form of the) requested name, exactly or with its first label
      replaced by "*" *)
  Theorem lookup_x_sound conn s cfg sni ip e c s' :
    Inv s -> storage_wf (x_storage e) ->
    lookup_d conn s cap cfg sni ip e = (ROk c, s') ->
    (alookup (c_hash c) (cache s) = Some c /\
     ((normalize sni <> [] /\ exists san, In san (c_names c) /\ covers san (normalize sni)) \/
      (normalize sni = [] /\ conn = true /\ In ip (c_names c)) \/
      (normalize sni = [] /\ default_name cfg <> [] /\ In (normalize (default_name cfg)) (c_names c)) \/
      (fallback_name cfg <> [] /\ In (normalize (fallback_name cfg)) (c_names c)))) \/
    (almost_full cap (length (cache s)) = true /\
     exists nm x, hello_name lower is_space cfg ip (x_idna e) = Some nm /\
                  subject_qualifies is_space nm = true /\
                  load_from_storage (x_storage e) (x_broken e) nm = Some x /\ sd_servable x = true /\ c = sd_cert x /\
                  exists san, In san (c_names c) /\ covers san nm).
  Proof.
    intros HI Hwf H.
    apply lookup_x_cases in H. destruct H as [(b & v & Hf)|(x & (nm & Hn & Hq & Ha & Hl) & Hfr & Hc & _)].
    - left. rewrite from_cache_x_first_tried in Hf. apply first_tried_some in Hf.
      destruct Hf as (pre & post & Ht & _ & Hs).
      destruct (select_some _ _ _ _ _ _ _ HI Hs) as (Hcached & Hlisted & _ & _). split; [exact Hcached|].
      assert (Hin : In (v, b) (tried lower is_space conn cfg sni ip))
        by (rewrite Ht; apply in_or_app; right; left; reflexivity).
      unfold tried in Hin. apply in_app_or in Hin. destruct Hin as [Hin|Hin].
      + destruct (is_nil (normalize sni)) eqn:En.
        * apply is_nil_true in En. apply in_app_or in Hin. destruct Hin as [Hin|Hin].
          -- destruct conn; [|destruct Hin]. destruct Hin as [Heq|[]]. injection Heq as <- <-.
             right; left. auto.
          -- destruct (is_nil (default_name cfg)) eqn:Ed; [destruct Hin|]. destruct Hin as [Heq|[]].
             injection Heq as <- <-. right; right; left. apply is_nil_false in Ed. auto.
        * apply is_nil_false in En. apply in_map_iff in Hin. destruct Hin as (m & Heq & Hm).
          injection Heq as <- <-. left. split; [exact En|]. exists m. split; [exact Hlisted|].
          apply candidates_cover. exact Hm.
      + destruct (is_nil (fallback_name cfg)) eqn:Ef; [destruct Hin|]. destruct Hin as [Heq|[]].
        injection Heq as <- <-. right; right; right. apply is_nil_false in Ef. auto.
    - right. split; [exact Ha|]. exists nm, x. repeat split; try assumption.
      subst c. eapply loaded_covers; eauto.
  Qed.

  (** a lookup changes the cache only in the almost-full branch *)
  Theorem lookup_x_touches_only_when_almost_full conn s cfg sni ip e :
    almost_full cap (length (cache s)) = false -> snd (lookup_d conn s cap cfg sni ip e) = s.
  Proof. apply lookup_x_unchanged. Qed.
End DefaultX.

(** ---- SubjectQualifiesForCert: what the conjuncts read from the source say today is the
    documented rule (if the translator reads something else, this stops checking) ---- *)
Definition reject_chars_ref : str :=
  [40; 41; 91; 93; 123; 125; 60; 62; 32; 9; 10; 34; 92; 33; 64; 35; 36; 37; 94; 38; 124; 59; 39; 43; 61]%N.
Lemma qualify_conds_today :
  qualify_conds = [QNonBlank; QNotPrefix [46%N]; QNotSuffix [46%N];
                   QOnlyIf [42%N] [42%N; 46%N] [42%N]; QNoneOf reject_chars_ref].
Proof. reflexivity. Qed.

(** a name that does not qualify is refused unless the cache has a match: no default, no fallback *)
Theorem unqualified_refused lower is_space sel conn s cap cfg sni ip e nm :
  hello_name lower is_space cfg ip (x_idna e) = Some nm -> subject_qualifies is_space nm = false ->
  (forall c v, from_cache_x lower is_space sel conn s cfg sni ip <> Some (c, true, v)) ->
  lookup_x lower is_space sel conn s cap cfg sni ip e = (RErr, s).
Proof.
  intros Hn Hq Hnm. unfold lookup_x. rewrite Hn, Hq. cbn [negb].
  destruct (from_cache_x lower is_space sel conn s cfg sni ip) as [[[c b] v]|] eqn:E; [|reflexivity].
  destruct b; [|reflexivity]. exfalso. eapply Hnm; reflexivity.
Qed.
