(** Correspondence for C03.  Case kinds: 0 = one Config.GetCertificate call on a real cache
    (inputs: both cache maps as snapshotted, the per-certificate oracle attributes, the
    configuration, the ClientHello's server name, the connection's local IP, what the non-cache
    part contributed; observation: error / certificate (hash, completeness) / empty certificate
    with nil error); 1 = one MatchWildcard call; 2 = one normalizedName call. *)
From CM Require Import Lib.Str Lib.Wire Gen.Consts Cache.Model Cache.Check Lookup.Model.
Open Scope N_scope.

Inductive obs :=
| OErr
| OCert (h : hash) (complete : bool)
| OEmpty.                                   (* Certificate{} with a nil error *)

(** per cached certificate: hello.SupportsCertificate, within its validity now, chain and key
    present, and the subject names the LEAF really carries (as the harness issued it -- not the
    Names certmagic derived from it) *)
Record attr := Attr { at_sup : bool; at_valid : bool; at_complete : bool; at_names : list name }.

Record lcase := LCase {
  l_cap : nat;
  l_state : state;                 (* both cache maps before the call *)
  l_attrs : amap attr;
  l_cfg : config;
  l_sni : str;
  l_ip : str;
  l_conn : bool;                   (* hello.Conn != nil *)
  l_abort : bool;                  (* the "tls_get_certificate" event handler returns an error *)
  l_protos : list str;             (* hello.SupportedProtos *)
  l_policy : policy;               (* Config.CertSelection: none, or one of the harness doubles *)
  l_envx : envx;                   (* IDNA form of the server name, storage content, eviction victim *)
  l_stored_complete : amap bool;   (* per stored certificate (by hash): chain and key present *)
  l_obs : obs;
  l_post : state;                  (* both cache maps after the call *)
  l_amc : list hash                (* Cache.AllMatchingCertificates(normalised server name), before the call *)
}.

Inductive case :=
| KLookup (ltbl : list (N * N)) (stbl : list N) (c : lcase)
| KMatch (ltbl : list (N * N)) (subject wildcard : str) (o : bool)
| KNorm (ltbl : list (N * N)) (stbl : list N) (s o : str)
| KQual (stbl : list N) (s : str) (o : bool)
| KName (ltbl : list (N * N)) (stbl : list N) (dflt ip : str) (idna : option str) (o : option str).

Definition attr_get (a : amap attr) (h : hash) : attr :=
  match alookup h a with Some x => x | None => Attr false false false [] end.

Definition result_eqb (r : result) (o : obs) : bool :=
  match r, o with
  | RErr, OErr => true
  | ROk c, OCert h _ => str_eqb (c_hash c) h
  | _, _ => false
  end.

Section Run.
  Variable lower : N -> N.
  Variable is_space : N -> bool.

  Definition supf (c : lcase) : hash -> bool := fun h => at_sup (attr_get (l_attrs c) h).
  Definition validf (c : lcase) : hash -> bool := fun h => at_valid (attr_get (l_attrs c) h).
  Definition self (c : lcase) : state -> name -> option cert := sel_policy (supf c) (validf c) (l_policy c).

  Definition run_lookup_x (c : lcase) : result * state :=
    lookup_x lower is_space (self c) (l_conn c) (l_state c) (l_cap c) (l_cfg c) (l_sni c) (l_ip c) (l_envx c).

  (** the index names tried for a match, in order of preference *)
  Definition match_names (c : lcase) : list name :=
    let n := normalize lower is_space (l_sni c) in
    if is_nil n then (if l_conn c then [l_ip c] else []) else n :: wildcard_candidates n.
  Definition first_listed (s : state) (cands : list name) : option name :=
    find (fun m => negb (is_nil (idx s m))) cands.

  Definition listed_under (s : state) (h : hash) (m : name) : bool :=
    mem_str h (idx s m) &&
    match alookup h (cache s) with Some c => mem_str m (c_names c) | None => false end.
  (** ... and the leaf of the answer really carries that name *)
  Definition really_names (c : lcase) (h : hash) (m : name) : bool :=
    mem_str m (at_names (attr_get (l_attrs c) h)).

  (** the certificate just loaded from storage: only when the cache is almost full, for the name
      of the ClientHello (which must qualify), found under that name or under the name with its
      first label replaced by "*", and still valid (if it is due for renewal it is served all the same and removed afterwards) *)
  Definition loaded_ok (c : lcase) (h : hash) : bool :=
    almost_full (l_cap c) (length (cache (l_state c))) &&
    match hello_name lower is_space (l_cfg c) (l_ip c) (x_idna (l_envx c)) with
    | Some nm =>
        subject_qualifies is_space nm &&
        match load_from_storage (x_storage (l_envx c)) (x_broken (l_envx c)) nm with
        | Some x => sd_servable x && str_eqb (c_hash (sd_cert x)) h
        | None => false
        end
    | None => false
    end.

  (** the name the ClientHello asks for is unusable: its IDNA conversion fails or it does not qualify *)
  Definition name_bad (c : lcase) : bool :=
    match hello_name lower is_space (l_cfg c) (l_ip c) (x_idna (l_envx c)) with
    | Some nm => negb (subject_qualifies is_space nm)
    | None => true
    end.
  (** a certificate for that name can be loaded from storage (cache almost full, stored, still valid) *)
  Definition loadable (c : lcase) : bool :=
    almost_full (l_cap c) (length (cache (l_state c))) &&
    match hello_name lower is_space (l_cfg c) (l_ip c) (x_idna (l_envx c)) with
    | Some nm => match load_from_storage (x_storage (l_envx c)) (x_broken (l_envx c)) nm with
                 | Some x => sd_servable x | None => false end
    | None => false
    end.
  Definition sel_some (c : lcase) (v : name) : bool :=
    match self c (l_state c) v with Some _ => true | None => false end.
  (** "an error if and only if no certificate is available": nothing matched, and the name is
      unusable or neither the default name (no SNI) nor the fallback name yields a certificate and
      none can be loaded *)
  Definition error_ok (c : lcase) : bool :=
    let n := normalize lower is_space (l_sni c) in
    let dflt := is_nil n && negb (is_nil (default_name (l_cfg c))) in
    let fb := negb (is_nil (fallback_name (l_cfg c))) in
    name_bad c ||
    negb ((dflt && sel_some c (normalize lower is_space (default_name (l_cfg c)))) ||
          (fb && sel_some c (normalize lower is_space (fallback_name (l_cfg c)))) ||
          loadable c).

  Definition sel_is (c : lcase) (v : name) (h : hash) : bool :=
    match self c (l_state c) v with Some x => str_eqb (c_hash x) h | None => false end.

  (** "complete" of the answer as observed must also be what was recorded for that certificate *)
  Definition known_complete (c : lcase) (h : hash) : bool :=
    match alookup h (cache (l_state c)) with
    | Some _ => at_complete (attr_get (l_attrs c) h)
    | None => match alookup h (l_stored_complete c) with Some b => b | None => false end
    end.

  (** the property, evaluated on an observation *)
  Definition spec_lookup_x_o (c : lcase) (o : obs) : bool :=
    let s := l_state c in
    let n := normalize lower is_space (l_sni c) in
    let good h := supf c h && validf c h in
    let dflt := is_nil n && negb (is_nil (default_name (l_cfg c))) in
    let fb := negb (is_nil (fallback_name (l_cfg c))) in
    match l_policy c with
    | PDefault =>
        match o with
        | OEmpty => false                                         (* never empty with a nil error *)
        | OErr => match first_listed s (match_names c) with       (* a listed name is never refused *)
                  | Some _ => false | None => error_ok c end
        | OCert h complete =>
            complete && known_complete c h &&
            match first_listed s (match_names c) with
            | Some m =>
                (* exact before wildcard, fewer wildcard labels first; local IP when there is no SNI;
                   among the certificates listed under that name a supported unexpired one *)
                listed_under s h m && really_names c h m && (negb (existsb good (idx s m)) || good h) &&
                (negb (existsb (supf c) (idx s m)) || supf c h)       (* else a supported (expired) one *)
            | None =>
                (* a certificate that does not cover the name: only the default name's (no SNI), the
                   fallback name's, or the one just loaded from storage when the cache is almost full *)
                (dflt && listed_under s h (normalize lower is_space (default_name (l_cfg c))) &&
                   really_names c h (normalize lower is_space (default_name (l_cfg c)))) ||
                (fb && listed_under s h (normalize lower is_space (fallback_name (l_cfg c))) &&
                   really_names c h (normalize lower is_space (fallback_name (l_cfg c)))) ||
                loaded_ok c h
            end
        end
    | _ =>
        (* a custom selector: the first tried name for which it accepts one of the choices it is
           offered (the certificates listed under the name, or all cached ones) decides *)
        match o with
        | OEmpty => false
        | OErr => forallb (fun v => match self c s v with Some _ => false | None => true end) (match_names c) &&
                  error_ok c
        | OCert h complete =>
            complete && known_complete c h &&
            match first_sel (self c) s (match_names c) with
            | Some (_, x) => str_eqb (c_hash x) h && amem h (cache s)
            | None =>
                (dflt && sel_is c (normalize lower is_space (default_name (l_cfg c))) h && amem h (cache s)) ||
                (fb && sel_is c (normalize lower is_space (fallback_name (l_cfg c))) h && amem h (cache s)) ||
                loaded_ok c h
            end
        end
    end.



  (** the two public views agree: with the default policy a matched answer (server name given) is
      one of the certificates Cache.AllMatchingCertificates reports for the normalised name *)
  Definition spec_amc_x_o (c : lcase) (o : obs) (amc : list hash) : bool :=
    match l_policy c, o with
    | PDefault, OCert h _ =>
        match first_listed (l_state c) (match_names c) with
        | Some _ => is_nil (normalize lower is_space (l_sni c)) || mem_str h amc
        | None => true
        end
    | _, _ => true
    end.
  Definition amc_of (c : lcase) : list hash :=
    map c_hash (all_matching (l_state c) (normalize lower is_space (l_sni c))).

  (** the cache around the call: the C12 invariant holds before and after, within capacity, and
      only the almost-full branch touches it *)
  Definition case_certs (c : lcase) : list cert :=
    map snd (cache (l_state c)) ++ map (fun kv => sd_cert (snd kv)) (x_storage (l_envx c)).
  Definition spec_cache_x_p (c : lcase) (post : state) : bool :=
    let nm := names_of_pool (case_certs c) in
    let bn := dedup (flat_map c_names (case_certs c)) in
    let bh := dedup ([] :: map c_hash (case_certs c)) in
    let ok st := inv_b nm (l_cap c) (state_names bn st) (state_hashes bh st) st in
    ok (l_state c) && ok post &&
    (almost_full (l_cap c) (length (cache (l_state c))) || state_eqb (l_state c) post).


  (** ---- the whole of GetCertificate: the two branches before the lookup ---- *)
  Definition pre_branch (c : lcase) : bool := l_abort c || acme_tls_alpn (l_sni c) (l_protos c).
  Definition run_lookup (c : lcase) : result * state :=
    get_certificate lower is_space (self c) (l_abort c) (l_protos c) (l_conn c) (l_state c) (l_cap c)
                    (l_cfg c) (l_sni c) (l_ip c) (l_envx c).
  (** an aborted handshake and a TLS-ALPN challenge handshake without a challenge in progress must
      fail (never a certificate of the cache) and leave the cache alone *)
  Definition spec_lookup_o (c : lcase) (o : obs) : bool :=
    if pre_branch c then match o with OErr => true | _ => false end else spec_lookup_x_o c o.
  Definition spec_amc_o (c : lcase) (o : obs) (amc : list hash) : bool :=
    pre_branch c || spec_amc_x_o c o amc.
  Definition spec_cache_p (c : lcase) (post : state) : bool :=
    spec_cache_x_p c post && (negb (pre_branch c) || state_eqb (l_state c) post).
End Run.

(** MatchWildcard's specification: with lower-cased arguments it is [covers] -- for subjects
    without an empty label (an empty label is "invalid" for MatchWildcard: it is skipped and kept,
    so that "a..b" matches "*..*"; no claim is made there, only the model is compared) *)
Definition has_empty_label (n : name) : bool := existsb is_nil (labels n).
Definition spec_match (lower : N -> N) (subject wildcard : str) (o : bool) : bool :=
  let s := map lower subject in
  let w := map lower wildcard in
  if has_empty_label s then true else Bool.eqb o (covers_b w s).

(** SubjectQualifiesForCert's documented rule, with fixed constants (the model evaluates the
    conjuncts the translator read from the source) *)
Definition reject_chars : str :=
  [40; 41; 91; 93; 123; 125; 60; 62; 32; 9; 10; 34; 92; 33; 64; 35; 36; 37; 94; 38; 124; 59; 39; 43; 61].
Definition qual_spec (is_space : N -> bool) (s : str) : bool :=
  negb (forallb is_space s) &&
  negb (has_prefix [46] s) && negb (has_suffix [46] s) &&
  (negb (existsb (N.eqb 42) s) || has_prefix [42; 46] s || str_eqb s [42]) &&
  negb (existsb (fun c => existsb (N.eqb c) reject_chars) s).

(** ---- wire ---- *)
Definition get_attr : dec attr :=
  (s <- get_bool ;; v <- get_bool ;; c <- get_bool ;; n <- get_list get_str ;; ret (Attr s v c n))%Z.
Definition get_obs : dec obs :=
  (t <- get_z ;;
   if t =? 0 then ret OErr
   else if t =? 1 then h <- get_str ;; c <- get_bool ;; ret (OCert h c)
   else if t =? 2 then ret OEmpty
   else (fun _ => None))%Z.
Definition get_tbls : dec (list (N * N) * list N) :=
  (lt <- get_list (get_pair get_n get_n) ;; st <- get_list get_n ;; ret (lt, st))%Z.
Definition get_policy : dec policy :=
  (t <- get_z ;;
   if t =? 0 then ret PDefault else if t =? 1 then ret PMin else if t =? 2 then ret PMax
   else if t =? 3 then ret PGoodMin else if t =? 4 then ret PRefuse else (fun _ => None))%Z.
(** a storage entry: the name it is stored under, the certificate, fresh?, servable?, complete? *)
Definition get_stored : dec (str * stored * (str * bool)) :=
  (n <- get_str ;; c <- get_cert ;; f <- get_bool ;; sv <- get_bool ;; k <- get_bool ;;
   ret (n, Stored c f sv, (c_hash c, k)))%Z.
Definition get_case : dec case :=
  (k <- get_z ;;
   if k =? 0 then
     t <- get_tbls ;;
     cap <- get_nat ;; s <- get_state ;; at_ <- get_list (get_pair get_str get_attr) ;;
     d <- get_str ;; f <- get_str ;; sni <- get_str ;; ip <- get_str ;; conn <- get_bool ;;
     ab <- get_bool ;; pr <- get_list get_str ;;
     pol <- get_policy ;; idna <- get_opt get_str ;; st <- get_list get_stored ;;
     br <- get_list get_str ;; v <- get_opt get_str ;; o <- get_obs ;; post <- get_state ;;
     amc <- get_list get_str ;;
     ret (KLookup (fst t) (snd t)
            (LCase cap s at_ (Config d f) sni ip conn ab pr pol (EnvX idna (map fst st) br v) (map snd st) o post amc))
   else if k =? 1 then
     lt <- get_list (get_pair get_n get_n) ;; a <- get_str ;; b <- get_str ;; o <- get_bool ;;
     ret (KMatch lt a b o)
   else if k =? 2 then
     t <- get_tbls ;; s <- get_str ;; o <- get_str ;; ret (KNorm (fst t) (snd t) s o)
   else if k =? 3 then
     st <- get_list get_n ;; s <- get_str ;; o <- get_bool ;; ret (KQual st s o)
   else if k =? 4 then
     t <- get_tbls ;; d <- get_str ;; ip <- get_str ;; i <- get_opt get_str ;; o <- get_opt get_str ;;
     ret (KName (fst t) (snd t) d ip i o)
   else (fun _ => None))%Z.

Definition check_case (k : case) : Z :=
  match k with
  | KLookup lt st c =>
      let lower := tbl_lower lt in
      let is_space := tbl_space st in
      let (r, post) := run_lookup lower is_space c in
      code (result_eqb r (l_obs c) && state_eqb post (l_post c) && strs_eqb (amc_of lower is_space c) (l_amc c))
           (spec_lookup_o lower is_space c (l_obs c) && spec_cache_p c (l_post c) &&
            spec_amc_o lower is_space c (l_obs c) (l_amc c))
  | KMatch lt a b o =>
      let lower := tbl_lower lt in
      code (Bool.eqb (match_wildcard lower a b) o) (spec_match lower a b o)
  | KNorm lt st s o =>
      code (str_eqb (normalize (tbl_lower lt) (tbl_space st) s) o) true
  | KQual st s o =>
      code (Bool.eqb (subject_qualifies (tbl_space st) s) o) (Bool.eqb (qual_spec (tbl_space st) s) o)
  | KName lt st d ip i o =>
      (* getNameFromClientHello: the IDNA form computed by the harness with x/net/idna, else the
         normalised default name, else the local IP; an IDNA error is an error *)
      let m := hello_name (tbl_lower lt) (tbl_space st) (Config d []) ip i in
      let eq := match m, o with
                | None, None => true | Some a, Some b => str_eqb a b | _, _ => false end in
      code eq eq
  end.

Definition check_line (l : list Z) : Z :=
  match decode get_case l with
  | Some k => check_case k
  | None => code_decode_error
  end.

(** diagnostics: kind 0: [tag; hash...] of the model's result; kind 1: model's boolean *)
Definition explain_line (l : list Z) : list Z :=
  match decode get_case l with
  | Some (KLookup lt st c) =>
      (match fst (run_lookup (tbl_lower lt) (tbl_space st) c) with
       | RErr => [0%Z]
       | ROk x => 1%Z :: put_str (c_hash x)
       end) ++
      [(-1)%Z; if state_eqb (snd (run_lookup (tbl_lower lt) (tbl_space st) c)) (l_post c) then 0%Z else 1%Z;
       if spec_lookup_o (tbl_lower lt) (tbl_space st) c (l_obs c) then 0%Z else 2%Z;
       if spec_cache_p c (l_post c) then 0%Z else 2%Z;
       Z.of_nat (length (cache (snd (run_lookup (tbl_lower lt) (tbl_space st) c))))]
  | Some (KMatch lt a b o) => [if match_wildcard (tbl_lower lt) a b then 1%Z else 0%Z]
  | Some (KNorm lt st s o) => put_str (normalize (tbl_lower lt) (tbl_space st) s)
  | Some (KName lt st d ip i o) =>
      match hello_name (tbl_lower lt) (tbl_space st) (Config d []) ip i with
      | Some a => 1%Z :: put_str a | None => [0%Z] end
  | Some (KQual st s o) => [if subject_qualifies (tbl_space st) s then 1%Z else 0%Z;
                            if qual_spec (tbl_space st) s then 1%Z else 0%Z]
  | None => []
  end.
