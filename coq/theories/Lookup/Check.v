(** Correspondence for C03.  Case kinds: 0 = one Config.GetCertificate call on a real cache
    (inputs: both cache maps as snapshotted, the per-certificate oracle attributes, the
    configuration, the ClientHello's server name, the connection's local IP, what the non-cache
    part contributed; observation: error / certificate (hash, completeness) / empty certificate
    with nil error); 1 = one MatchWildcard call; 2 = one normalizedName call. *)
From CM Require Import Lib.Str Lib.Wire Gen.Consts Cache.Model Lookup.Model.
Open Scope N_scope.

Inductive obs :=
| OErr
| OCert (h : hash) (complete : bool)
| OEmpty.                                   (* Certificate{} with a nil error *)

Record attr := Attr { at_sup : bool; at_valid : bool; at_complete : bool }.

Record lcase := LCase {
  l_cap : nat;
  l_state : state;
  l_attrs : amap attr;
  l_cfg : config;
  l_sni : str;
  l_ip : str;
  l_env : env;
  l_loaded_complete : bool;
  l_obs : obs
}.

Inductive case :=
| KLookup (ltbl : list (N * N)) (stbl : list N) (c : lcase)
| KMatch (ltbl : list (N * N)) (subject wildcard : str) (o : bool)
| KNorm (ltbl : list (N * N)) (stbl : list N) (s o : str).

Definition attr_get (a : amap attr) (h : hash) : attr :=
  match alookup h a with Some x => x | None => Attr false false false end.

Definition result_eqb (r : result) (o : obs) : bool :=
  match r, o with
  | RErr, OErr => true
  | ROk c, OCert h _ => str_eqb (c_hash c) h
  | _, _ => false
  end.

Section Run.
  Variable lower : N -> N.
  Variable is_space : N -> bool.

  Definition run_lookup (c : lcase) : result :=
    lookup lower is_space (fun h => at_sup (attr_get (l_attrs c) h)) (fun h => at_valid (attr_get (l_attrs c) h))
           (l_state c) (l_cap c) (l_cfg c) (l_sni c) (l_ip c) (l_env c).

  (** the index names tried for a match, in order of preference *)
  Definition match_names (c : lcase) : list name :=
    let n := normalize lower is_space (l_sni c) in
    if is_nil n then [l_ip c] else n :: wildcard_candidates n.
  Definition first_listed (s : state) (cands : list name) : option name :=
    find (fun m => negb (is_nil (idx s m))) cands.

  Definition listed_under (s : state) (h : hash) (m : name) : bool :=
    mem_str h (idx s m) &&
    match alookup h (cache s) with Some c => mem_str m (c_names c) | None => false end.

  (** the property, evaluated on an observation *)
  Definition spec_lookup (c : lcase) : bool :=
    let s := l_state c in
    let n := normalize lower is_space (l_sni c) in
    let good h := at_sup (attr_get (l_attrs c) h) && at_valid (attr_get (l_attrs c) h) in
    match l_obs c with
    | OEmpty => false                                         (* never empty with a nil error *)
    | OErr => match first_listed s (match_names c) with       (* a listed name is never refused *)
              | Some _ => false | None => true end
    | OCert h complete =>
        complete &&
        match first_listed s (match_names c) with
        | Some m =>
            (* exact before wildcard, fewer wildcard labels first; local IP when there is no SNI;
               among the certificates listed under that name a supported unexpired one *)
            listed_under s h m && (negb (existsb good (idx s m)) || good h)
        | None =>
            (* a certificate that does not cover the name: only the default name's (no SNI), the
               fallback name's, or the one just loaded from storage when the cache is almost full *)
            (is_nil n && negb (is_nil (default_name (l_cfg c))) &&
               listed_under s h (normalize lower is_space (default_name (l_cfg c)))) ||
            (negb (is_nil (fallback_name (l_cfg c))) &&
               listed_under s h (normalize lower is_space (fallback_name (l_cfg c)))) ||
            (almost_full (l_cap c) (length (cache s)) &&
               match loaded (l_env c) with Some lc => str_eqb (c_hash lc) h | None => false end)
        end
    end.
End Run.

(** MatchWildcard's specification: with lower-cased arguments it is [covers] -- for subjects
    without an empty label (an empty label is "invalid" for MatchWildcard: it is skipped and kept,
    so that "a..b" matches "*..*"; no claim is made there, only the model is compared) *)
Definition has_empty_label (n : name) : bool := existsb is_nil (labels n).
Definition spec_match (lower : N -> N) (subject wildcard : str) (o : bool) : bool :=
  let s := map lower subject in
  let w := map lower wildcard in
  if has_empty_label s then true else Bool.eqb o (covers_b w s).

(** ---- wire ---- *)
Definition get_cert : dec cert :=
  (h <- get_str ;; ns <- get_list get_str ;; m <- get_bool ;; i <- get_str ;;
   t <- get_list get_str ;; o <- get_z ;; a <- get_str ;; ret (Cert h ns m i t o a))%Z.
Definition get_state : dec state :=
  (c <- get_list (get_pair get_str get_cert) ;;
   i <- get_list (get_pair get_str (get_list get_str)) ;; ret (St c i))%Z.
Definition get_attr : dec attr :=
  (s <- get_bool ;; v <- get_bool ;; c <- get_bool ;; ret (Attr s v c))%Z.
Definition get_obs : dec obs :=
  (t <- get_z ;;
   if t =? 0 then ret OErr
   else if t =? 1 then h <- get_str ;; c <- get_bool ;; ret (OCert h c)
   else if t =? 2 then ret OEmpty
   else (fun _ => None))%Z.
Definition get_tbls : dec (list (N * N) * list N) :=
  (lt <- get_list (get_pair get_n get_n) ;; st <- get_list get_n ;; ret (lt, st))%Z.
Definition get_case : dec case :=
  (k <- get_z ;;
   if k =? 0 then
     t <- get_tbls ;;
     cap <- get_nat ;; s <- get_state ;; at_ <- get_list (get_pair get_str get_attr) ;;
     d <- get_str ;; f <- get_str ;; sni <- get_str ;; ip <- get_str ;;
     ne <- get_bool ;; q <- get_bool ;; ld <- get_opt get_cert ;; lc <- get_bool ;;
     o <- get_obs ;;
     ret (KLookup (fst t) (snd t) (LCase cap s at_ (Config d f) sni ip (Env ne q ld) lc o))
   else if k =? 1 then
     lt <- get_list (get_pair get_n get_n) ;; a <- get_str ;; b <- get_str ;; o <- get_bool ;;
     ret (KMatch lt a b o)
   else if k =? 2 then
     t <- get_tbls ;; s <- get_str ;; o <- get_str ;; ret (KNorm (fst t) (snd t) s o)
   else (fun _ => None))%Z.

Definition check_case (k : case) : Z :=
  match k with
  | KLookup lt st c =>
      let lower := tbl_lower lt in
      let is_space := tbl_space st in
      code (result_eqb (run_lookup lower is_space c) (l_obs c))
           (spec_lookup lower is_space c &&
            match l_obs c, loaded (l_env c) with      (* oracle: what was loaded is complete *)
            | OCert h _, Some lc => negb (str_eqb (c_hash lc) h) || l_loaded_complete c
            | _, _ => true end)
  | KMatch lt a b o =>
      let lower := tbl_lower lt in
      code (Bool.eqb (match_wildcard lower a b) o) (spec_match lower a b o)
  | KNorm lt st s o =>
      code (str_eqb (normalize (tbl_lower lt) (tbl_space st) s) o) true
  end.

Definition check_line (l : list Z) : Z :=
  match decode get_case l with
  | Some k => check_case k
  | None => code_decode_error
  end.

(** diagnostics: kind 0: [tag; hash...] of the model's result; kind 1: model's boolean *)
Definition explain_line (l : list Z) : list Z :=
  match decode get_case l with
  | Some (KLookup lt st c) =>
      match run_lookup (tbl_lower lt) (tbl_space st) c with
      | RErr => [0%Z]
      | ROk x => 1%Z :: put_str (c_hash x)
      end
  | Some (KMatch lt a b o) => [if match_wildcard (tbl_lower lt) a b then 1%Z else 0%Z]
  | Some (KNorm lt st s o) => put_str (normalize (tbl_lower lt) (tbl_space st) s)
  | None => []
  end.
