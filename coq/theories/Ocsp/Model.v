(** Executable model of certmagic's OCSP stapling (C14): [stapleOCSP] / [getOCSPForCert] /
    [checkOCSPResponse] / [freshOCSP] (ocsp.go), one pass of [Cache.updateOCSPStaples] with the
    revocation reaction [forceRenew] (maintain.go), and caching a certificate
    ([makeCertificateWithOCSP] + [cacheCertificate], certificates.go).

    Definitions only (no proofs), so that the model still runs when a proof breaks.

    External code is an oracle: a byte string is a [blob] = an identity plus what
    [ocsp.ParseResponse(bytes, nil)] makes of it ([b_parse]); [r_sig] says whether
    [ocsp.ParseResponse(bytes, issuer)] accepts the same bytes (x/crypto v0.36: identical parsing
    plus a signature check against the issuer or a delegate signed by the issuer; the serial
    number is NOT compared with anything). Times are [Z] nanoseconds since the Unix epoch; Go's
    zero [time.Time] is [zero_time]. *)
From Coq Require Import List ZArith Bool Lia.
From CM Require Import Gen.Consts.   (* ocsp_fresh_divisor, ocsp_short_lifetime: read from /repo *)
Import ListNotations.
Open Scope Z_scope.

(** * The shape of the code this model follows

    One boolean per comparison (with its direction), guard and statement order that the
    definitions below hard-code, computed from the source of /repo by the translator on every run
    (harness/cmd/consts/c14.go). [Proofs.code_shape] proves the conjunction, so the development
    stops checking as soon as the code loses this shape. *)
Definition ocsp_code_shape : bool :=
  ocsp_tie_serial && ocsp_tie_this_after_now && ocsp_tie_next_not_before && ocsp_tie_rc_is_delegate &&
  ocsp_tie_rc_validity && ocsp_tie_rc_eku && ocsp_tie_disabled && ocsp_tie_chain_issuer &&
  ocsp_tie_reuse_cond && ocsp_tie_ask_cond && ocsp_tie_check_all && ocsp_tie_overlong &&
  ocsp_tie_good_only && ocsp_tie_persist_new_only && ocsp_tie_order && ocsp_tie_fresh_cap &&
  ocsp_tie_fresh_before && ocsp_tie_tick_skip_expired && ocsp_tie_tick_skip_fresh &&
  ocsp_tie_tick_writeback && ocsp_tie_force_renew && ocsp_tie_hs_due && ocsp_tie_hs_renew &&
  ocsp_tie_manage_renew && ocsp_tie_renew_evict.

(** * Data *)

Inductive status := Good | Revoked | Unknown.

Definition status_eqb (a b : status) : bool :=
  match a, b with Good, Good | Revoked, Revoked | Unknown, Unknown => true | _, _ => false end.

(** the certificate embedded in a response (RFC 6960 4.2.2.2): the responder's own *)
Record rcert := RC {
  rc_na : Z;               (* NotAfter *)
  rc_nb : Z;               (* NotBefore *)
  rc_eku : bool;           (* ExtKeyUsage contains id-kp-OCSPSigning *)
  rc_issuer : bool         (* it is the leaf's issuer itself (leaf.CheckSignatureFrom accepts it) *)
}.

Record resp := Resp {
  r_status : status;
  r_serial : Z;            (* CertID.SerialNumber of the single response *)
  r_this : Z;              (* ThisUpdate *)
  r_next : Z;              (* NextUpdate; [zero_time] when absent *)
  r_rc : option rcert;     (* embedded responder certificate, if any *)
  r_sig : bool             (* ParseResponse(bytes, issuer) accepts these bytes: signed by the
                              issuer, or by the embedded certificate which the issuer signed *)
}.

Definition r_rcna (r : resp) : option Z :=
  match r_rc r with Some rc => Some (rc_na rc) | None => None end.

Record blob := Blob { b_id : Z; b_parse : option resp }.

Record cert := Cert {
  c_id : Z;                (* identity (hash of the chain) *)
  c_name : Z;              (* its (single) subject name *)
  c_serial : Z;
  c_expiry : Z;            (* expiresAt(leaf) = NotAfter truncated to the second + 1 s *)
  c_life : Z;              (* Lifetime() = expiresAt(leaf) - NotBefore *)
  c_url : bool;            (* a responder can be asked: OCSP URL present and not disabled by an
                              override, issuer certificate in the bundle *)
  c_chain : bool           (* the chain handed to certmagic contains the issuer certificate *)
}.

(** short-lived certificates (Lifetime() < 7 days): responder errors are not reported *)
Definition c_short (c : cert) : bool := c_life c <? ocsp_short_lifetime.

(** year 1, January 1, 00:00:00 UTC in Unix nanoseconds *)
Definition zero_time : Z := -62135596800000000000.
Definition min_dur : Z := -9223372036854775808.
Definition max_dur : Z := 9223372036854775807.

(** [time.Time.Sub] saturates at the int64 range of [time.Duration] *)
Definition sub_sat (a b : Z) : Z := Z.max min_dur (Z.min max_dur (a - b)).

(** Go's integer division truncates toward zero *)
Definition half (d : Z) : Z := Z.quot d ocsp_fresh_divisor.

(** [freshOCSP]: before the middle of the validity period, which ends at NextUpdate or at the
    embedded responder certificate's NotAfter, whichever is earlier *)
Definition refresh_time (r : resp) : Z :=
  let nu := match r_rcna r with
            | Some na => if na <? r_next r then na else r_next r
            | None => r_next r
            end in
  r_this r + half (sub_sat nu (r_this r)).
Definition fresh (now : Z) (r : resp) : bool := now <? refresh_time r.

(** [checkOCSPResponse]: the response is about this certificate and is current; a response
    without NextUpdate does not expire *)
Definition current (now : Z) (r : resp) : bool :=
  (r_this r <=? now) && ((r_next r =? zero_time) || (now <? r_next r)).
(** ... and, when signed by a delegated responder (an embedded certificate that is not the
    issuer itself), that certificate is valid now ([!now.Before(NotBefore) && !now.After(NotAfter)])
    and was issued for signing OCSP responses *)
Definition responder_ok (now : Z) (r : resp) : bool :=
  match r_rc r with
  | None => true
  | Some rc => rc_issuer rc || ((rc_nb rc <=? now) && (now <=? rc_na rc) && rc_eku rc)
  end.
Definition valid_for (c : cert) (now : Z) (r : resp) : bool :=
  (r_serial r =? c_serial c) && current now r && responder_ok now r.

(** [ocsp.ParseResponse(bytes, issuer)] *)
Definition parse_issuer (b : blob) : option resp :=
  match b_parse b with
  | Some r => if r_sig r then Some r else None
  | None => None
  end.

(** what [stapleOCSP] makes of a persisted staple: verified against the issuer, which must be in
    the chain; without it the persisted staple is not looked at *)
Definition stored_parse (c : cert) (b : blob) : option resp :=
  if c_chain c then parse_issuer b else None.

(** * One call of [stapleOCSP] *)

(** what the world does during the call *)
Inductive answer :=
| ARefused            (* connection refused: the responder sees nothing *)
| ADrop               (* request received, connection closed without an answer *)
| ABytes (b : blob).  (* a body (any HTTP status: the code does not look at it) *)

Record env := Env {
  e_ans : answer;
  e_load_err : bool;       (* Storage.Load of the staple fails *)
  e_store_err : bool;      (* Storage.Store of the staple fails *)
  e_del_err : bool         (* Storage.Delete of the staple fails *)
}.

(** OCSP-related part of a [Certificate]: [Certificate.OCSPStaple] and [Certificate.ocsp] *)
Record cstate := CS { cs_staple : option blob; cs_ocsp : option resp }.

Inductive sop := SLoad | SStore | SDelete.

Record result := Res {
  res_cs : cstate;
  res_store : option blob;   (* persisted staple afterwards *)
  res_contact : bool;        (* the responder was (tried to be) contacted *)
  res_seen : bool;           (* ... and saw a request *)
  res_err : bool;            (* stapleOCSP returned a non-nil error *)
  res_ops : list sop;        (* storage operations on the staple key, in order *)
  res_attached : bool        (* ghost: this call assigned Certificate.OCSPStaple *)
}.

(** tail of [stapleOCSP] once a parsed response is at hand *)
Definition finish (c : cert) (cs : cstate) (st : option blob) (ops : list sop)
    (contact seen got_new : bool) (b : blob) (r : resp) (e : env) (now : Z) : result :=
  if negb (valid_for c now r) then Res cs st contact seen true ops false
  else if c_expiry c <? r_next r then Res cs st contact seen true ops false
  else match r_status r with
       | Good =>
           if got_new then
             if e_store_err e
             then Res (CS (Some b) (Some r)) st contact seen true (ops ++ [SStore]) true
             else Res (CS (Some b) (Some r)) (Some b) contact seen false (ops ++ [SStore]) true
           else Res (CS (Some b) (Some r)) st contact seen false ops true
       | _ => Res (CS (cs_staple cs) (Some r)) st contact seen false ops false
       end.

(** responder could not give a usable answer: error, unless the certificate is short-lived *)
Definition no_answer (c : cert) (cs : cstate) (st : option blob) (ops : list sop)
    (contact seen : bool) : result :=
  Res cs st contact seen (negb (c_short c)) ops false.

(** [getOCSPForCert] and what follows it *)
Definition ask (c : cert) (cs : cstate) (st : option blob) (ops : list sop) (e : env) (now : Z)
    : result :=
  if negb (c_url c) then no_answer c cs st ops false false else
  match e_ans e with
  | ARefused => no_answer c cs st ops true false
  | ADrop => no_answer c cs st ops true true
  | ABytes b' =>
      match parse_issuer b' with
      | Some r' => finish c cs st ops true true true b' r' e now
      | None => no_answer c cs st ops true true
      end
  end.

Definition staple (disabled : bool) (c : cert) (cs : cstate) (st : option blob) (e : env)
    (now : Z) : result :=
  if disabled then Res cs st false false false [] false else
  match (if e_load_err e || negb (c_chain c) then None else st) with
  | Some b =>
      match stored_parse c b with
      | Some r =>
          if fresh now r && valid_for c now r
          then finish c cs st [SLoad] false false false b r e now   (* still fresh: reuse *)
          else ask c cs st [SLoad] e now
      | None =>
          (* corrupt (or not verifiable): delete it, then ask the responder *)
          ask c cs (if e_del_err e then st else None) [SLoad; SDelete] e now
      end
  | None => ask c cs st [SLoad] e now
  end.

(** * The cache, persisted staples, and histories *)

Record entry := Entry {
  en_cert : cert;
  en_managed : bool;
  en_cs : cstate;
  en_att : Z       (* ghost: the time of the call that assigned [cs_staple] *)
}.

Definition store := list (Z * blob).   (* certificate identity -> persisted staple *)

Fixpoint sget (id : Z) (s : store) : option blob :=
  match s with
  | [] => None
  | (k, b) :: r => if k =? id then Some b else sget id r
  end.
Fixpoint sdel (id : Z) (s : store) : store :=
  match s with
  | [] => []
  | (k, b) :: r => if k =? id then sdel id r else (k, b) :: sdel id r
  end.
Definition sset (id : Z) (v : option blob) (s : store) : store :=
  match v with
  | Some b => (id, b) :: sdel id s
  | None => sdel id s
  end.

Record sys := Sys { cache : list entry; stor : store }.

Definition has_cert (id : Z) (l : list entry) : bool :=
  existsb (fun en => c_id (en_cert en) =? id) l.

(** what one stapleOCSP call did, for the comparison with the implementation *)
Record call := Call { cl_cert : Z; cl_seen : bool; cl_err : bool; cl_ops : list sop }.
Definition call_of (c : cert) (r : result) : call := Call (c_id c) (res_seen r) (res_err r) (res_ops r).

Definition is_revoked (o : option resp) : bool :=
  match o with Some r => status_eqb (r_status r) Revoked | None => false end.

(** [certShouldBeForceRenewed] (certificates of the model always have a name) *)
Definition force_renew (managed : bool) (o : option resp) : bool := managed && is_revoked o.

(** outcome of [forceRenew] for a revoked managed certificate *)
Inductive renew_outcome :=
| RFail                          (* no replacement could be obtained *)
| ROk (newc : cert) (e : env)    (* renewed and reloaded: the new certificate is stapled (with
                                    world [e]) and replaces the old one *)
| RReloadFail.                   (* renewed, but the new certificate could not be loaded: the
                                    revoked one is removed all the same *)

(** [forceRenew] of a revoked managed certificate: what takes its place in the cache *)
Definition do_renew (disabled : bool) (now : Z) (rn : renew_outcome) (st : store)
    : list entry * store * list call :=
  match rn with
  | RFail => ([], st, [])
  | RReloadFail => ([], st, [])
  | ROk newc e =>
      let res := staple disabled newc (CS None None) (sget (c_id newc) st) e now in
      ([Entry newc true (res_cs res) now], sset (c_id newc) (res_store res) st, [call_of newc res])
  end.

(** one certificate's share of [updateOCSPStaples] *)
Definition tick_one (disabled : bool) (now : Z) (e : env) (rn : renew_outcome) (en : entry)
    (st : store) : list entry * store * list call :=
  let c := en_cert en in
  if c_expiry c <? now then ([en], st, [])                      (* cert.Expired() *)
  else if force_renew (en_managed en) (cs_ocsp (en_cs en)) then do_renew disabled now rn st
  else
    let still_fresh := match cs_ocsp (en_cs en) with
                       | Some r => negb (status_eqb (r_status r) Unknown) && fresh now r
                       | None => false
                       end in
    if still_fresh then ([en], st, [])
    else
      let res := staple disabled c (en_cs en) (sget (c_id c) st) e now in
      let st' := sset (c_id c) (res_store res) st in
      let cl := [call_of c res] in
      if res_err res then ([en], st', cl)
      else
        let last := match cs_ocsp (en_cs en) with Some r => r_next r | None => zero_time end in
        let en1 := match cs_ocsp (res_cs res) with
                   | Some r =>
                       if status_eqb (r_status r) Good &&
                          ((last =? zero_time) || negb (last =? r_next r))
                       then Entry c (en_managed en) (res_cs res)
                                  (if res_attached res then now else en_att en)
                       else en
                   | None => en
                   end in
        if force_renew (en_managed en) (cs_ocsp (res_cs res))
        then let '(l, s2, cl2) := do_renew disabled now rn st' in (l, s2, cl ++ cl2)
        else ([en1], st', cl).

(** the same certificate met by a handshake when certificates are managed on demand
    ([handshakeMaintenance], reached from [GetCertificate] for a managed certificate in the cache):
    the status is refreshed only if one is recorded and no longer fresh; whatever [stapleOCSP]
    left in its copy of the certificate is written back to the cache, error or not; a Revoked
    status (recorded or just learned) leads to [forceRenew]. (A handshake on an expired
    certificate renews it first: not part of this model, C05 / C13.) *)
Definition hs_one (disabled : bool) (now : Z) (e : env) (rn : renew_outcome) (en : entry)
    (st : store) : list entry * store * list call :=
  let c := en_cert en in
  if c_expiry c <? now then ([en], st, [])
  else if negb (en_managed en) then ([en], st, [])
  else
    let due := match cs_ocsp (en_cs en) with Some r => negb (fresh now r) | None => false end in
    if due then
      let res := staple disabled c (en_cs en) (sget (c_id c) st) e now in
      let st' := sset (c_id c) (res_store res) st in
      let cl := [call_of c res] in
      let en1 := Entry c (en_managed en) (res_cs res) (if res_attached res then now else en_att en) in
      if force_renew (en_managed en) (cs_ocsp (res_cs res))
      then let '(l, s2, cl2) := do_renew disabled now rn st' in (l, s2, cl ++ cl2)
      else ([en1], st', cl)
    else if force_renew (en_managed en) (cs_ocsp (en_cs en)) then do_renew disabled now rn st
    else ([en], st, []).

(** [manageOne] right after it has cached the certificate from storage: a Revoked status is
    acted upon at once *)
Definition manage_one (disabled : bool) (now : Z) (rn : renew_outcome) (en : entry) (st : store)
    : list entry * store * list call :=
  if c_expiry (en_cert en) <? now then ([en], st, [])
  else if force_renew (en_managed en) (cs_ocsp (en_cs en)) then do_renew disabled now rn st
  else ([en], st, []).

(** what the handshake that runs [hs_one] hands to the TLS stack: its copy of the certificate
    after the refresh, if there was one (also when that certificate is then replaced) *)
Definition hs_returned (disabled : bool) (now : Z) (e : env) (en : entry) (st : store) : cstate :=
  let c := en_cert en in
  if (c_expiry c <? now) || negb (en_managed en) then en_cs en
  else match cs_ocsp (en_cs en) with
       | Some r => if fresh now r then en_cs en
                   else res_cs (staple disabled c (en_cs en) (sget (c_id c) st) e now)
       | None => en_cs en
       end.

(** who looks at a cached certificate in one pass: the maintenance tick, a handshake, manageOne,
    or nobody *)
Inductive mkind := KTick | KHandshake | KManage | KSkip.

Definition maintain_one (k : mkind) (disabled : bool) (now : Z) (e : env) (rn : renew_outcome)
    (en : entry) (st : store) : list entry * store * list call :=
  match k with
  | KTick => tick_one disabled now e rn en st
  | KHandshake => hs_one disabled now e rn en st
  | KManage => manage_one disabled now rn en st
  | KSkip => ([en], st, [])
  end.

Fixpoint maintain (ks : Z -> mkind) (disabled : bool) (now : Z) (envs : Z -> env)
    (rns : Z -> renew_outcome) (l : list entry) (st : store) : list entry * store * list call :=
  match l with
  | [] => ([], st, [])
  | en :: r =>
      let id := c_id (en_cert en) in
      let '(l1, st1, cl1) := maintain_one (ks id) disabled now (envs id) (rns id) en st in
      let '(l2, st2, cl2) := maintain ks disabled now envs rns r st1 in
      (l1 ++ l2, st2, cl1 ++ cl2)
  end.

(** the periodic pass looks at every certificate *)
Definition tick : Z -> mkind := fun _ => KTick.

Inductive op :=
| OTamper (cid : Z) (v : option blob)        (* anything else writes/removes a persisted staple *)
| OCache (c : cert) (managed disabled : bool) (e : env) (now : Z)
      (* CacheUnmanagedCertificatePEMBytes / CacheManagedCertificate *)
| OMaintain (ks : Z -> mkind) (disabled : bool) (now : Z) (envs : Z -> env)
      (rns : Z -> renew_outcome)
      (* [ks = tick]: one tick of OCSPCheckInterval (updateOCSPStaples); one certificate
         [KHandshake], the others [KSkip]: a handshake for that certificate with on-demand
         management; one certificate [KManage]: the second half of manageOne *)
| ORestart.                                  (* new process: empty cache, same storage *)

Definition step (s : sys) (o : op) : sys * list call :=
  match o with
  | OTamper cid v => (Sys (cache s) (sset cid v (stor s)), [])
  | OCache c managed disabled e now =>
      let res := staple disabled c (CS None None) (sget (c_id c) (stor s)) e now in
      let cache' := if has_cert (c_id c) (cache s) then cache s
                    else cache s ++ [Entry c managed (res_cs res) now] in
      (Sys cache' (sset (c_id c) (res_store res) (stor s)), [call_of c res])
  | OMaintain ks disabled now envs rns =>
      let '(l, st, cl) := maintain ks disabled now envs rns (cache s) (stor s) in
      (Sys l st, cl)
  | ORestart => (Sys [] (stor s), [])
  end.

Fixpoint run (s : sys) (ops : list op) : sys :=
  match ops with
  | [] => s
  | o :: r => run (fst (step s o)) r
  end.

(** the certificate served for a name *)
Definition served (name : Z) (l : list entry) : option entry :=
  find (fun en => c_name (en_cert en) =? name) l.

(** * The specification, in boolean form (shared by the theorems and the runtime monitor) *)

(** [attach_ok c t b signed]: at time [t], [b] is a Good, current response for [c] whose validity
    ends no later than the certificate ([signed]: and it verifies against the issuer) *)
Definition attach_ok (c : cert) (t : Z) (need_sig : bool) (b : blob) : bool :=
  match b_parse b with
  | Some r =>
      status_eqb (r_status r) Good && (r_serial r =? c_serial c) && (r_this r <=? t) &&
      ((r_next r =? zero_time) || (t <? r_next r)) && (r_next r <=? c_expiry c) &&
      responder_ok t r && (negb need_sig || r_sig r)
  | None => false
  end.

Definition oz_eqb (a b : option Z) : bool :=
  match a, b with Some x, Some y => x =? y | None, None => true | _, _ => false end.
Definition orc_eqb (a b : option rcert) : bool :=
  match a, b with
  | Some x, Some y => (rc_na x =? rc_na y) && (rc_nb x =? rc_nb y) && Bool.eqb (rc_eku x) (rc_eku y) &&
                      Bool.eqb (rc_issuer x) (rc_issuer y)
  | None, None => true
  | _, _ => false
  end.
Definition resp_full_eqb (a b : resp) : bool :=
  status_eqb (r_status a) (r_status b) && (r_serial a =? r_serial b) && (r_this a =? r_this b) &&
  (r_next a =? r_next b) && orc_eqb (r_rc a) (r_rc b) && Bool.eqb (r_sig a) (r_sig b).
(** byte strings are equal: same identity (and then, of course, the same parse) *)
Definition blob_eqb (a b : blob) : bool :=
  (b_id a =? b_id b) &&
  match b_parse a, b_parse b with
  | Some x, Some y => resp_full_eqb x y
  | None, None => true
  | _, _ => false
  end.
Definition oblob_eqb (a b : option blob) : bool :=
  match a, b with
  | Some x, Some y => blob_eqb x y
  | None, None => true
  | _, _ => false
  end.

(** a persisted staple that stapleOCSP reuses *)
Definition reusable (c : cert) (now : Z) (st : option blob) : bool :=
  match st with
  | Some b => match stored_parse c b with Some r => fresh now r && valid_for c now r | None => false end
  | None => false
  end.
Definition corrupt (c : cert) (st : option blob) : bool :=
  c_chain c &&
  match st with
  | Some b => match stored_parse c b with Some _ => false | None => true end
  | None => false
  end.

(** ** Monitors for a single call *)

(** soundness: the staple is the one the certificate had, or a response that may be attached now *)
Definition call_sound (c : cert) (cs : cstate) (now : Z) (res : result) : bool :=
  match cs_staple (res_cs res) with
  | None => true
  | Some b => oblob_eqb (Some b) (cs_staple cs) || attach_ok c now true b
  end.

(** the same for what a handshake gets back: the staple the cached certificate had, or one that
    may be attached now *)
Definition ret_sound (c : cert) (pre_staple ret_staple : option blob) (now : Z) : bool :=
  match ret_staple with
  | None => true
  | Some b => oblob_eqb (Some b) pre_staple || attach_ok c now true b
  end.

(** a still-fresh persisted staple is reused without contacting the responder *)
Definition call_reuse (disabled : bool) (c : cert) (st : option blob) (e : env) (now : Z)
    (res : result) : bool :=
  negb (reusable c now st && negb (e_load_err e) && negb disabled) ||
  (negb (res_seen res) && negb (res_contact res) && oblob_eqb (res_store res) st &&
   match st with
   | Some b => negb (attach_ok c now false b) || oblob_eqb (cs_staple (res_cs res)) (Some b)
   | None => true
   end).

(** a corrupt persisted staple does not survive the call *)
Definition call_corrupt (disabled : bool) (c : cert) (st : option blob) (e : env) (res : result) : bool :=
  negb (corrupt c st && negb (e_load_err e) && negb (e_del_err e) && negb disabled) ||
  negb (oblob_eqb (res_store res) st).

(** what is persisted: nothing new, or the Good current response that was just stapled *)
Definition call_persist (c : cert) (st : option blob) (now : Z) (res : result) : bool :=
  oblob_eqb (res_store res) st ||
  match res_store res with
  | None => true
  | Some b => attach_ok c now true b && oblob_eqb (cs_staple (res_cs res)) (Some b)
  end.

Definition spec_call (disabled : bool) (c : cert) (cs : cstate) (st : option blob) (e : env)
    (now : Z) (res : result) : bool :=
  call_sound c cs now res && call_reuse disabled c st e now res &&
  call_corrupt disabled c st e res && call_persist c st now res.

(** ** Monitors for one step of a history: [pre] --op--> [post], with the calls made *)

Definition find_entry (id : Z) (l : list entry) : option entry :=
  find (fun en => c_id (en_cert en) =? id) l.
Definition find_call (id : Z) (l : list call) : option call :=
  find (fun cl => cl_cert cl =? id) l.

(** S3', across processes: [own] is the staple certmagic itself persisted for [c] earlier in the
    history (in this or in a previous process) and nobody touched since. While it is reusable,
    caching [c] does not make the responder see a request. (Of the model this holds because what
    it persists for [c] is what it later loads for [c]: [own = sget (c_id c) (stor pre)].) *)
Definition own_reuse (own : option blob) (c : cert) (disabled : bool) (e : env) (now : Z)
    (calls : list call) : bool :=
  negb (reusable c now own && negb (e_load_err e) && negb disabled) ||
  match find_call (c_id c) calls with Some cl => negb (cl_seen cl) | None => true end.

(** the staple of [en] was already attached to the same certificate in [pre] *)
Definition staple_kept (pre : list entry) (en : entry) : bool :=
  match find_entry (c_id (en_cert en)) pre with
  | Some en' => oblob_eqb (cs_staple (en_cs en)) (cs_staple (en_cs en'))
  | None => false
  end.

Definition op_time (o : op) : option Z :=
  match o with
  | OCache _ _ _ _ now => Some now
  | OMaintain _ _ now _ _ => Some now
  | _ => None
  end.

(** S1: every staple in the cache was there before or may be attached at the time of this step *)
Definition step_sound (pre : sys) (o : op) (post : sys) : bool :=
  forallb (fun en =>
    match cs_staple (en_cs en) with
    | None => true
    | Some b => staple_kept (cache pre) en ||
                match op_time o with
                | Some now => attach_ok (en_cert en) now true b
                | None => false
                end
    end) (cache post).

(** the call [cl] on certificate [c] (persisted staple [stv], world [e]) got a Revoked response
    that passed all checks *)
Definition learned_from (disabled : bool) (now : Z) (e : env) (stv : option blob) (c : cert)
    (cl : call) : bool :=
  negb disabled &&
  (if cl_seen cl
   then match e_ans e with
        | ABytes b => match parse_issuer b with
                      | Some r => status_eqb (r_status r) Revoked && valid_for c now r &&
                                  (r_next r <=? c_expiry c)
                      | None => false
                      end
        | _ => false
        end
   else match stv with
        | Some b => match stored_parse c b with
                    | Some r => negb (e_load_err e) && status_eqb (r_status r) Revoked &&
                                fresh now r && valid_for c now r && (r_next r <=? c_expiry c)
                    | None => false
                    end
        | None => false
        end).

(** the certificate of [en] is known to be revoked: recorded earlier, or learned in this pass *)
Definition learned_revoked (disabled : bool) (now : Z) (e : env) (pre : sys) (calls : list call)
    (en : entry) : bool :=
  let c := en_cert en in
  is_revoked (cs_ocsp (en_cs en)) ||
  match find_call (c_id c) calls with
  | None => false
  | Some cl => learned_from disabled now e (sget (c_id c) (stor pre)) c cl
  end.

(** what entitles (S2) / obliges (S5) a pass to take a managed certificate out of the cache, by
    the kind of visit: the tick acts on a recorded or a just learned revocation; manageOne on the
    recorded one (it asks nobody); a handshake on what its copy says after the refresh, if there
    was one; nobody else touches the certificate *)
Definition may_drop (k : mkind) (disabled : bool) (now : Z) (e : env) (pre : sys)
    (calls : list call) (en : entry) : bool :=
  match k with
  | KSkip => false
  | KManage => is_revoked (cs_ocsp (en_cs en))
  | _ => learned_revoked disabled now e pre calls en
  end.
Definition must_renew (k : mkind) (disabled : bool) (now : Z) (e : env) (pre : sys)
    (calls : list call) (en : entry) : bool :=
  match k with
  | KSkip => false
  | KManage => is_revoked (cs_ocsp (en_cs en))
  | KTick => learned_revoked disabled now e pre calls en
  | KHandshake =>
      match find_call (c_id (en_cert en)) calls with
      | None => is_revoked (cs_ocsp (en_cs en))
      | Some cl => learned_from disabled now e (sget (c_id (en_cert en)) (stor pre)) (en_cert en) cl
      end
  end.

(** S2: caching always succeeds, whatever the responder does; a pass drops a certificate only if
    it is managed and was reported revoked *)
Definition step_not_fatal (pre : sys) (o : op) (post : sys) (calls : list call) : bool :=
  match o with
  | OCache c _ _ _ _ => has_cert (c_id c) (cache post)
  | OMaintain ks disabled now envs _ =>
      forallb (fun en =>
        let id := c_id (en_cert en) in
        has_cert id (cache post) ||
        (en_managed en && may_drop (ks id) disabled now (envs id) pre calls en))
        (cache pre)
  | OTamper _ _ => forallb (fun en => has_cert (c_id (en_cert en)) (cache post)) (cache pre)
  | ORestart => true
  end.

(** S3: whoever has a reusable persisted staple is not the subject of a request *)
Definition step_reuse (pre : sys) (o : op) (post : sys) (calls : list call) : bool :=
  match o with
  | OCache c _ disabled e now =>
      negb (reusable c now (sget (c_id c) (stor pre)) && negb (e_load_err e) && negb disabled) ||
      (match find_call (c_id c) calls with Some cl => negb (cl_seen cl) | None => true end &&
       (has_cert (c_id c) (cache pre) ||
        match sget (c_id c) (stor pre), find_entry (c_id c) (cache post) with
        | Some b, Some en => negb (attach_ok c now false b) ||
                             oblob_eqb (cs_staple (en_cs en)) (Some b)
        | _, _ => false
        end))
  | OMaintain _ disabled now envs _ =>
      forallb (fun en =>
        let c := en_cert en in
        negb (reusable c now (sget (c_id c) (stor pre)) && negb (e_load_err (envs (c_id c))) &&
              negb disabled) ||
        match find_call (c_id c) calls with Some cl => negb (cl_seen cl) | None => true end)
        (cache pre)
  | _ => true
  end.

(** S4: a corrupt persisted staple that is looked at is removed (or replaced) *)
Definition step_corrupt (pre : sys) (o : op) (post : sys) (calls : list call) : bool :=
  let chk (c : cert) (disabled : bool) (e : env) :=
    negb (corrupt c (sget (c_id c) (stor pre)) && negb (e_load_err e) && negb (e_del_err e) &&
          negb disabled &&
          match find_call (c_id c) calls with Some _ => true | None => false end) ||
    negb (oblob_eqb (sget (c_id c) (stor post)) (sget (c_id c) (stor pre))) in
  match o with
  | OCache c _ disabled e _ => chk c disabled e
  | OMaintain _ disabled _ envs _ =>
      forallb (fun en => chk (en_cert en) disabled (envs (c_id (en_cert en)))) (cache pre)
  | _ => true
  end.

(** S5: a managed, unexpired certificate learned to be revoked is replaced, or leaves the cache *)
Definition step_revoked (pre : sys) (o : op) (post : sys) (calls : list call) : bool :=
  match o with
  | OMaintain ks disabled now envs rns =>
      forallb (fun en =>
        let c := en_cert en in
        negb (en_managed en && negb (c_expiry c <? now) &&
              must_renew (ks (c_id c)) disabled now (envs (c_id c)) pre calls en) ||
        match rns (c_id c) with
        | RFail => negb (has_cert (c_id c) (cache post))
        | ROk newc _ => negb (has_cert (c_id c) (cache post)) && has_cert (c_id newc) (cache post)
        | RReloadFail => negb (has_cert (c_id c) (cache post))
        end) (cache pre)
  | _ => true
  end.

(** S6: whatever a step persists under a key is a response that may be stapled now to the
    certificate the key belongs to; tampering is the environment's business *)
Definition step_persist (pre : sys) (o : op) (post : sys) : bool :=
  match o with
  | OTamper _ _ => true
  | ORestart => forallb (fun k => oblob_eqb (sget k (stor post)) (sget k (stor pre))) (map fst (stor post))
  | OCache c _ _ _ now =>
      forallb (fun k =>
        let a := sget k (stor post) in
        oblob_eqb a (sget k (stor pre)) ||
        match a with
        | Some b => (k =? c_id c) && attach_ok c now true b
        | None => true
        end) (map fst (stor post))
  | OMaintain _ _ now _ _ =>
      forallb (fun k =>
        let a := sget k (stor post) in
        oblob_eqb a (sget k (stor pre)) ||
        match a with
        | Some b => existsb (fun en => (c_id (en_cert en) =? k) && attach_ok (en_cert en) now true b)
                            (cache pre ++ cache post)
        | None => true
        end) (map fst (stor post))
  end.

Definition spec_step (pre : sys) (o : op) (post : sys) (calls : list call) : bool :=
  step_sound pre o post && step_not_fatal pre o post calls && step_reuse pre o post calls &&
  step_corrupt pre o post calls && step_revoked pre o post calls && step_persist pre o post.
