(** Further proofs about the OCSP model (final round): completeness (a Good in-date answer IS
    stapled), the currency clause at its exact boundaries, answers with nothing in them, the
    persisted staples of tamper-free histories, reuse across restarts after ANY history, and
    soundness of the monitor clauses of Check.v that Proofs.v does not cover ([returned],
    [ret_ok], [served_consistent], [check_call] as a whole). Proofs.v is left as it is (other
    developments import it). *)
From Coq Require Import List ZArith Bool Lia.
From CM Require Import Gen.Consts Ocsp.Model Ocsp.Proofs Ocsp.Check.
Import ListNotations.
Open Scope Z_scope.

(** * Completeness: what must be stapled is stapled *)

Theorem good_answer_stapled c cs st e now b r :
  c_url c = true -> reusable c now st = false ->
  e_ans e = ABytes b -> parse_issuer b = Some r -> r_status r = Good ->
  valid_for c now r = true -> r_next r <= c_expiry c ->
  let res := staple false c cs st e now in
  cs_staple (res_cs res) = Some b /\ cs_ocsp (res_cs res) = Some r /\ res_seen res = true /\
  (e_store_err e = false -> res_store res = Some b /\ res_err res = false).
Proof.
  intros U NR A P S V X.
  assert (Xb : (c_expiry c <? r_next r) = false) by (apply Z.ltb_ge; lia).
  assert (Hask : forall st1 ops, let res := ask c cs st1 ops e now in
     cs_staple (res_cs res) = Some b /\ cs_ocsp (res_cs res) = Some r /\ res_seen res = true /\
     (e_store_err e = false -> res_store res = Some b /\ res_err res = false)).
  { intros st1 ops. unfold ask. rewrite U, A, P. cbn [negb]. unfold finish. rewrite V, Xb, S. cbn [negb].
    destruct (e_store_err e); cbn; repeat split; auto; discriminate. }
  unfold staple. destruct (e_load_err e || negb (c_chain c)); [apply Hask|].
  destruct st as [b0|]; [|apply Hask]. unfold reusable in NR.
  destruct (stored_parse c b0) as [r0|]; [|apply Hask]. rewrite NR. apply Hask.
Qed.

(** * The currency clause [thisUpdate <= now < nextUpdate] at its edges *)

Theorem currency_at_boundaries c now r :
  r_serial r = c_serial c -> responder_ok now r = true ->
  (r_this r = now -> (r_next r = zero_time \/ now < r_next r) -> valid_for c now r = true) /\
  (r_next r = now -> now <> zero_time -> valid_for c now r = false) /\
  (now < r_this r -> valid_for c now r = false) /\
  (r_next r <> zero_time -> r_next r <= now -> valid_for c now r = false).
Proof.
  intros Ser RO. split; [|split; [|split]].
  - intros T N. apply valid_for_spec. split; [exact Ser|]. split; [lia|]. split; [exact N|exact RO].
  - intros N Z0. destruct (valid_for c now r) eqn:V; [|reflexivity]. exfalso.
    apply valid_for_spec in V. destruct V as (_ & _ & [E|L] & _); [congruence|lia].
  - intros T. destruct (valid_for c now r) eqn:V; [|reflexivity]. exfalso.
    apply valid_for_spec in V. destruct V as (_ & L & _). lia.
  - intros Z0 N. destruct (valid_for c now r) eqn:V; [|reflexivity]. exfalso.
    apply valid_for_spec in V. destruct V as (_ & _ & [E|L] & _); [congruence|lia].
Qed.

(** an answer that ends exactly now (or earlier), or begins after now, never changes the staple *)
Theorem out_of_date_answer_never_stapled dis c cs st e now b r :
  reusable c now st = false -> e_ans e = ABytes b -> b_parse b = Some r ->
  ((r_next r <> zero_time /\ r_next r <= now) \/ now < r_this r) ->
  cs_staple (res_cs (staple dis c cs st e now)) = cs_staple cs.
Proof.
  intros NR A P Bad. apply bad_answer_never_stapled; [exact NR|].
  intros b' r' A' P' (_ & _ & _ & T & N & _). rewrite A in A'. inversion A'; subst b'.
  rewrite P in P'. inversion P'; subst r'.
  destruct Bad as [(Z0 & L)|L]; [destruct N; [congruence|lia]|lia].
Qed.

(** ... and a persisted one in that state is not reused *)
Theorem out_of_date_persisted_not_reused c now b r :
  stored_parse c b = Some r ->
  ((r_next r <> zero_time /\ r_next r <= now) \/ now < r_this r) ->
  reusable c now (Some b) = false.
Proof.
  intros P Bad. unfold reusable. rewrite P.
  destruct (valid_for c now r) eqn:V; [|apply andb_false_r]. exfalso.
  apply valid_for_spec in V. destruct V as (_ & T & N & _).
  destruct Bad as [(Z0 & L)|L]; [destruct N; [congruence|lia]|lia].
Qed.

(** * Answers with nothing in them (empty body, white space, rubbish): never fatal *)

Theorem unusable_body_not_fatal dis c cs st e now b :
  e_ans e = ABytes b -> b_parse b = None -> reusable c now st = false ->
  let res := staple dis c cs st e now in
  res_cs res = cs /\ res_attached res = false /\ (res_err res = true -> c_short c = false).
Proof.
  intros A Pn NR.
  assert (PI : parse_issuer b = None) by (unfold parse_issuer; rewrite Pn; reflexivity).
  assert (Hask : forall st1 ops, let res := ask c cs st1 ops e now in
     res_cs res = cs /\ res_attached res = false /\ (res_err res = true -> c_short c = false)).
  { intros st1 ops. unfold ask. destruct (c_url c); cbn [negb].
    - rewrite A, PI. cbn. repeat split; auto. intros H. apply negb_true_iff in H. exact H.
    - cbn. repeat split; auto. intros H. apply negb_true_iff in H. exact H. }
  unfold staple. destruct dis; [cbn; repeat split; auto; discriminate|].
  destruct (e_load_err e || negb (c_chain c)); [apply Hask|].
  destruct st as [b0|]; [|apply Hask]. unfold reusable in NR.
  destruct (stored_parse c b0) as [r0|]; [|apply Hask]. rewrite NR. apply Hask.
Qed.

(** * Persisted staples of tamper-free histories *)

Definition blob_good (b : blob) : Prop :=
  exists r, b_parse b = Some r /\ r_sig r = true /\ r_status r = Good.
Definition store_good (s : store) : Prop := forall id b, sget id s = Some b -> blob_good b.

Lemma store_good_sset id v s :
  store_good s -> (forall b, v = Some b -> blob_good b) -> store_good (sset id v s).
Proof.
  intros H V id' b. destruct (Z.eq_dec id' id) as [->|N].
  - rewrite sget_sset_same. intros E. apply V. exact E.
  - rewrite sget_sset_other by exact N. apply H.
Qed.

Lemma staple_store_good dis c cs st e now :
  (forall b, st = Some b -> blob_good b) ->
  forall b, res_store (staple dis c cs st e now) = Some b -> blob_good b.
Proof.
  intros H b E.
  destruct (persisted_is_stapled dis c cs st e now) as [E1|[(E1 & _)|(b' & r & E1 & _ & _ & (P & G & _) & S)]].
  - apply H. rewrite <- E1. exact E.
  - rewrite E1 in E. discriminate.
  - rewrite E1 in E. inversion E; subst b'. exists r. auto.
Qed.

Lemma do_renew_store_good dis now rn st l st' cl :
  do_renew dis now rn st = (l, st', cl) -> store_good st -> store_good st'.
Proof.
  intros D S. destruct (do_renew_spec _ _ _ _ _ _ _ D) as [(_ & -> & _)|(newc & e & _ & H)]; [exact S|].
  cbn in H. destruct H as (_ & -> & _). apply store_good_sset; [exact S|].
  apply staple_store_good. intros b. apply S.
Qed.

Lemma maintain_one_store_good k dis now e rn en st l st' cl :
  maintain_one k dis now e rn en st = (l, st', cl) -> store_good st -> store_good st'.
Proof.
  intros M S. pose proof (maintain_one_shape k dis now e rn en st) as Sh. rewrite M in Sh.
  inversion Sh as [|l0 st0 cl0 X FR D|en1 l0 st2 cl2 X res stx H1 H2]; subst.
  - exact S.
  - eapply do_renew_store_good; eauto.
  - assert (Sx : store_good stx).
    { subst stx. apply store_good_sset; [exact S|]. apply staple_store_good. intros b. apply S. }
    destruct H2 as [(_ & _ & -> & _)|(_ & D)]; [exact Sx|]. eapply do_renew_store_good; eauto.
Qed.

Lemma maintain_store_good ks dis now envs rns : forall l st l' st' cl,
  maintain ks dis now envs rns l st = (l', st', cl) -> store_good st -> store_good st'.
Proof.
  induction l as [|en r IH]; intros st l' st' cl M S.
  - cbn in M. inversion M; subst. exact S.
  - cbn [maintain] in M.
    destruct (maintain_one (ks (c_id (en_cert en))) dis now (envs (c_id (en_cert en))) (rns (c_id (en_cert en))) en st) as [[l1 st1] cl1] eqn:M1.
    destruct (maintain ks dis now envs rns r st1) as [[l2 st2] cl2] eqn:M2.
    inversion M; subst. eapply IH; [exact M2|]. eapply maintain_one_store_good; eauto.
Qed.

(** nobody but certmagic writes persisted staples (or whoever does writes verified Good ones) *)
Definition op_clean (o : op) : Prop :=
  match o with OTamper _ (Some b) => blob_good b | _ => True end.

Lemma step_store_good s o : store_good (stor s) -> op_clean o -> store_good (stor (fst (step s o))).
Proof.
  intros S C. destruct o as [cid v|c m dis e now|ks dis now envs rns|]; cbn [step fst stor].
  - apply store_good_sset; [exact S|]. intros b ->. exact C.
  - apply store_good_sset; [exact S|]. apply staple_store_good. intros b. apply S.
  - destruct (maintain ks dis now envs rns (cache s) (stor s)) as [[l' st'] cl] eqn:M. cbn [fst stor].
    eapply maintain_store_good; eauto.
  - exact S.
Qed.

Theorem run_store_good : forall ops s,
  store_good (stor s) -> Forall op_clean ops -> store_good (stor (run s ops)).
Proof.
  induction ops as [|o r IH]; intros s S C; [exact S|]. cbn. inversion C; subst.
  apply IH; [apply step_store_good; assumption|assumption].
Qed.

(** * Reuse across a restart, after any history *)

Theorem reuse_across_restart ops s c m e now :
  let s1 := run s ops in
  reusable c now (sget (c_id c) (stor s1)) = true -> e_load_err e = false ->
  let st2 := step (fst (step s1 ORestart)) (OCache c m false e now) in
  (forall cl, In cl (snd st2) -> cl_seen cl = false) /\
  sget (c_id c) (stor (fst st2)) = sget (c_id c) (stor s1) /\
  (forall b, sget (c_id c) (stor s1) = Some b -> attach_ok c now false b = true ->
     exists en, cache (fst st2) = [en] /\ en_cert en = c /\ en_managed en = m /\
                cs_staple (en_cs en) = Some b).
Proof.
  intros s1 R L. cbn [step fst snd cache stor has_cert existsb app].
  destruct (reusable_inv _ _ _ R) as (b & r & Es & P & F & V). rewrite Es.
  destruct (fresh_persisted_reused c (CS None None) e now b r P F V L) as (_ & H2 & H3 & _ & H5).
  cbn zeta in *. repeat split.
  - intros cl [<-|[]]. cbn. exact H2.
  - rewrite sget_sset_same. exact H3.
  - intros b' Eb A. inversion Eb; subst b'. apply attach_ok_spec in A.
    destruct A as (r' & (P' & G & _ & _ & _ & X & _) & _).
    destruct (stored_parse_some _ _ _ P) as [Pb _]. assert (r' = r) by congruence. subst r'.
    destruct (H5 X) as (_ & _ & Hs). eexists. split; [reflexivity|]. cbn. auto.
Qed.

(** restarts keep what is persisted, however many of them *)
Lemma restart_keeps_store s : stor (fst (step s ORestart)) = stor s /\ cache (fst (step s ORestart)) = [].
Proof. split; reflexivity. Qed.

(** * Soundness of the monitor clauses of Check.v *)

Lemma status_eqb_refl a : status_eqb a a = true.
Proof. destruct a; reflexivity. Qed.

Lemma oresp_eqb_refl a : oresp_eqb a a = true.
Proof.
  destruct a as [r|]; [|reflexivity]. cbn. unfold resp_eqb.
  rewrite status_eqb_refl, !Z.eqb_refl. reflexivity.
Qed.

Lemma sops_eqb_refl l : list_eqb sop_eqb l l = true.
Proof. induction l as [|x r IH]; [reflexivity|]. cbn. rewrite IH. destruct x; reflexivity. Qed.

Lemma result_eqb_refl m : result_eqb m m = true.
Proof.
  unfold result_eqb, cstate_eqb.
  rewrite !oblob_eqb_refl, oresp_eqb_refl, !Bool.eqb_reflx, sops_eqb_refl. reflexivity.
Qed.

(** the whole single-call check, including [returned]: on what the model does (which never
    panics: [staple] is a total function) the verdict is "agrees, specification holds" *)
Theorem check_call_sound dis c cs st e now :
  check_call (CallCase dis c cs st e now (staple dis c cs st e now) false) = 0.
Proof.
  unfold check_call. cbn [cc_dis cc_cert cc_cs cc_st cc_env cc_now cc_obs cc_panic].
  rewrite result_eqb_refl, spec_call_holds. reflexivity.
Qed.

(** and a panic is never "agrees" nor "holds" *)
Theorem check_call_panic_reported dis c cs st e now obs :
  check_call (CallCase dis c cs st e now obs true) = 3.
Proof.
  unfold check_call, returned. cbn [cc_panic negb]. rewrite !andb_false_r. reflexivity.
Qed.

(** [ret_ok]: what the model hands to a handshake passes the monitor *)
Theorem ret_ok_sound pre o : ret_ok pre o (hs_expected pre o) = true.
Proof.
  destruct o as [cid v|c m dis e now|ks dis now envs rns|]; try reflexivity.
  unfold ret_ok, hs_expected.
  destruct (hs_entry pre (OMaintain ks dis now envs rns)) as [en|]; [|reflexivity].
  rewrite Z.eqb_refl. cbn [andb]. apply hs_returned_sound.
Qed.

Lemma ret_eqb_refl a : ret_eqb a a = true.
Proof.
  destruct a as [[c s]|]; [|reflexivity]. cbn. rewrite Z.eqb_refl, oblob_eqb_refl. reflexivity.
Qed.

(** [served_consistent]: the handshake's view computed from a cache agrees with that cache *)
Definition served_view (names : list Z) (l : list entry) : served_obs :=
  map (fun n => (n, match served n l with
                    | Some en => Some (c_id (en_cert en), cs_staple (en_cs en))
                    | None => None
                    end)) names.

Theorem served_consistent_sound names s :
  served_consistent s (served_view names (cache s)) = true.
Proof.
  unfold served_consistent, served_eqb, served_view. apply forallb_forall.
  intros p I. apply in_map_iff in I. destruct I as (n & <- & _). cbn [fst snd].
  destruct (served n (cache s)) as [en|]; [|reflexivity].
  rewrite Z.eqb_refl, oblob_eqb_refl. reflexivity.
Qed.

(** the cross-process monitor on a cache step of the model *)
Theorem own_reuse_step_sound s c m dis e now rt post sv :
  own_reuse_step (HStep (OCache c m dis e now) (sget (c_id c) (stor s)) rt false post
                        (snd (step s (OCache c m dis e now))) sv) = true.
Proof. unfold own_reuse_step. cbn [hs_op hs_own hs_calls]. apply own_reuse_holds. Qed.

(** * The history check on what the model does: every monitor clause holds at every step *)

(** the observation the model itself would produce for one operation (all its calls listed) *)
Definition model_hstep (names : list Z) (s : sys) (o : op) : hstep :=
  HStep o (match o with OCache c _ _ _ _ => sget (c_id c) (stor s) | _ => None end)
        (hs_expected s o) false (fst (step s o)) (snd (step s o))
        (served_view names (cache (fst (step s o)))).

Fixpoint model_hist (names : list Z) (s : sys) (ops : list op) : list hstep :=
  match ops with
  | [] => []
  | o :: r => model_hstep names s o :: model_hist names (fst (step s o)) r
  end.

Theorem hist_step_monitor_sound names s o :
  NoDup (ids (cache s)) -> op_wf s o ->
  let h := model_hstep names s o in
  spec_step s (hs_op h) (hs_post h) (hs_calls h) && served_consistent (hs_post h) (hs_served h) &&
  own_reuse_step h && ret_ok s (hs_op h) (hs_ret h) && returned (hs_panic h) = true.
Proof.
  intros N W h.
  change (hs_op h) with o. change (hs_post h) with (fst (step s o)).
  change (hs_calls h) with (snd (step s o)).
  change (hs_served h) with (served_view names (cache (fst (step s o)))).
  change (hs_ret h) with (hs_expected s o). change (hs_panic h) with false.
  rewrite (spec_step_holds s o N W), served_consistent_sound, ret_ok_sound. cbn [andb returned negb].
  rewrite andb_true_r. unfold own_reuse_step. subst h. unfold model_hstep. cbn [hs_op hs_own hs_calls].
  destruct o as [cid v|c m dis e now|ks dis now envs rns|]; try reflexivity.
  rewrite own_reuse_holds. reflexivity.
Qed.

(** every well-formed history of the model, of any length, with any mix of cache operations,
    ticks, handshakes, manageOne visits, foreign writes and RESTARTS, passes the specification
    half of the history check ([check_hist]: spec_step, served_consistent, own_reuse_step, ret_ok,
    returned at every step) *)
Theorem check_hist_spec_sound certs names : forall ops s a,
  NoDup (ids (cache s)) -> run_wf s ops ->
  snd (check_hist certs s (model_hist names s ops) a true) = true.
Proof.
  induction ops as [|o r IH]; intros s a N W; [reflexivity|].
  destruct W as [Wo Wr]. cbn [model_hist check_hist].
  destruct (step s (hs_op (model_hstep names s o))) as [mp mc].
  rewrite (hist_step_monitor_sound names s o N Wo). cbn [andb].
  change (hs_post (model_hstep names s o)) with (fst (step s o)).
  apply IH; [apply step_nodup; assumption|exact Wr].
Qed.
