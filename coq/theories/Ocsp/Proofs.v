(** Proofs about the OCSP model: one call of stapleOCSP (part 1), the cache / store system and
    histories (part 2), and the monitors of Model.v hold of the model (part 3). *)
From Coq Require Import List ZArith Bool Lia.
From CM Require Import Gen.Consts Ocsp.Model.
Import ListNotations.
Open Scope Z_scope.

(** the code of /repo has the shape the model follows (every flag is read from the source on
    every run; see Model.v) *)
Lemma code_shape : ocsp_code_shape = true.
Proof. reflexivity. Qed.

(** * Arithmetic of [freshOCSP] *)

Lemma quot_bounds k d : 0 < k ->
  (0 <= d -> 0 <= Z.quot d k <= d) /\ (d < 0 -> d <= Z.quot d k <= 0).
Proof.
  intros K.
  assert (P : forall x, 0 <= x -> 0 <= x / k <= x).
  { intros x X. split; [apply Z.div_pos; lia|]. apply Z.div_le_upper_bound; [lia|nia]. }
  split; intros H.
  - rewrite Z.quot_div_nonneg by lia. apply P. exact H.
  - assert (E : Z.quot d k = - ((- d) / k)).
    { replace d with (- (- d)) at 1 by lia. rewrite Z.quot_opp_l by lia.
      rewrite Z.quot_div_nonneg by lia. reflexivity. }
    rewrite E. specialize (P (- d)). lia.
Qed.

(** holds for whatever positive divisor freshOCSP uses (read from /repo by the translator) *)
Lemma fresh_divisor_pos : 0 < ocsp_fresh_divisor.
Proof. reflexivity. Qed.

Lemma half_nonneg d : 0 <= d -> 0 <= half d <= d.
Proof. apply (quot_bounds _ d fresh_divisor_pos). Qed.

Lemma half_neg d : d < 0 -> d <= half d <= 0.
Proof. apply (quot_bounds _ d fresh_divisor_pos). Qed.

(** the refresh time never lies beyond both ends of the validity period *)
Lemma refresh_time_bound r : refresh_time r <= Z.max (r_this r) (r_next r).
Proof.
  unfold refresh_time.
  set (nu := match r_rcna r with Some na => if na <? r_next r then na else r_next r | None => r_next r end).
  assert (Hnu : nu <= r_next r).
  { subst nu. destruct (r_rcna r) as [na|]; [|lia]. destruct (na <? r_next r) eqn:E; [apply Z.ltb_lt in E|]; lia. }
  unfold sub_sat, min_dur, max_dur.
  destruct (Z_lt_le_dec (nu - r_this r) 0) as [Hn|Hp].
  - pose proof (half_neg (Z.max (-9223372036854775808) (Z.min 9223372036854775807 (nu - r_this r)))) as H.
    lia.
  - pose proof (half_nonneg (Z.max (-9223372036854775808) (Z.min 9223372036854775807 (nu - r_this r)))) as H.
    lia.
Qed.

(** a fresh response that has begun has not ended *)
Lemma fresh_not_expired now r :
  fresh now r = true -> r_this r <= now -> now < r_next r.
Proof.
  unfold fresh. intros F T. apply Z.ltb_lt in F. pose proof (refresh_time_bound r). lia.
Qed.

(** * Part 1: one call *)

Lemma status_eqb_eq a b : status_eqb a b = true <-> a = b.
Proof. destruct a, b; cbn; split; congruence. Qed.

(** the property's requirement on a stapled response, as a proposition *)
Definition AttachOK (c : cert) (t : Z) (b : blob) (r : resp) : Prop :=
  b_parse b = Some r /\ r_status r = Good /\ r_serial r = c_serial c /\ r_this r <= t /\
  (r_next r = zero_time \/ t < r_next r) /\ r_next r <= c_expiry c /\ responder_ok t r = true.

Lemma attach_ok_spec c t s b :
  attach_ok c t s b = true <-> exists r, AttachOK c t b r /\ (s = true -> r_sig r = true).
Proof.
  unfold attach_ok, AttachOK. destruct (b_parse b) as [r|].
  - rewrite !andb_true_iff, !orb_true_iff, status_eqb_eq, !Z.eqb_eq, !Z.leb_le, Z.ltb_lt, negb_true_iff.
    split.
    + intros ((((((A & B) & C) & D) & E) & RO) & F). exists r. repeat split; try assumption.
      intros ->. destruct F; congruence.
    + intros (r' & (P & A & B & C & D & E & RO) & F). inversion P; subst r'.
      repeat split; try assumption. destruct s; [right; auto | left; reflexivity].
  - split; [discriminate|]. intros (r & (P & _) & _). discriminate.
Qed.

Lemma valid_for_spec c now r :
  valid_for c now r = true <->
  r_serial r = c_serial c /\ r_this r <= now /\ (r_next r = zero_time \/ now < r_next r) /\
  responder_ok now r = true.
Proof.
  unfold valid_for, current.
  rewrite !andb_true_iff, orb_true_iff, !Z.eqb_eq, Z.leb_le, Z.ltb_lt. tauto.
Qed.

Lemma parse_issuer_spec b r :
  parse_issuer b = Some r <-> b_parse b = Some r /\ r_sig r = true.
Proof.
  unfold parse_issuer. destruct (b_parse b) as [r'|]; [|split; [discriminate|intros [H _]; discriminate]].
  destruct (r_sig r') eqn:E; split.
  - intros H; inversion H; subst; auto.
  - intros [H _]; exact H.
  - discriminate.
  - intros [H S]. inversion H; subst. congruence.
Qed.

Lemma stored_parse_some c b r :
  stored_parse c b = Some r -> b_parse b = Some r /\ r_sig r = true /\ c_chain c = true.
Proof.
  unfold stored_parse. destruct (c_chain c); [|discriminate].
  intros H. apply parse_issuer_spec in H. tauto.
Qed.

(** what a call can be: it left the certificate's OCSP state alone, or it went through [finish]
    with a response that passed all checks *)
Inductive outcome (c : cert) (cs : cstate) (st : option blob) (e : env) (now : Z) (res : result) : Prop :=
| OutUntouched :
    res_cs res = cs -> res_attached res = false -> outcome c cs st e now res
| OutFetched b r :
    e_ans e = ABytes b -> b_parse b = Some r -> r_sig r = true -> c_url c = true ->
    valid_for c now r = true -> r_next r <= c_expiry c ->
    res_contact res = true -> res_seen res = true ->
    res_cs res = CS (match r_status r with Good => Some b | _ => cs_staple cs end) (Some r) ->
    res_attached res = status_eqb (r_status r) Good ->
    outcome c cs st e now res
| OutReused b r :
    st = Some b -> e_load_err e = false -> stored_parse c b = Some r -> fresh now r = true ->
    valid_for c now r = true -> r_next r <= c_expiry c ->
    res_contact res = false -> res_seen res = false -> res_store res = st -> res_err res = false ->
    res_cs res = CS (match r_status r with Good => Some b | _ => cs_staple cs end) (Some r) ->
    res_attached res = status_eqb (r_status r) Good ->
    outcome c cs st e now res.

Lemma finish_cases c cs st ops contact seen got b r e now :
  let res := finish c cs st ops contact seen got b r e now in
  (res_cs res = cs /\ res_store res = st /\ res_err res = true /\ res_attached res = false /\
   (valid_for c now r = false \/ c_expiry c < r_next r)) \/
  (valid_for c now r = true /\ r_next r <= c_expiry c /\
   res_cs res = CS (match r_status r with Good => Some b | _ => cs_staple cs end) (Some r) /\
   res_attached res = status_eqb (r_status r) Good /\
   res_contact res = contact /\ res_seen res = seen /\
   (res_store res = st \/ (res_store res = Some b /\ r_status r = Good /\ got = true)) /\
   (res_err res = true -> got = true /\ e_store_err e = true /\ r_status r = Good) /\
   (got = false -> res_store res = st /\ res_err res = false)).
Proof.
  unfold finish. destruct (valid_for c now r) eqn:V; cbn [negb].
  2:{ left. cbn. auto 6. }
  destruct (c_expiry c <? r_next r) eqn:X.
  { left. apply Z.ltb_lt in X. cbn. auto 6. }
  apply Z.ltb_ge in X. right. split; [reflexivity|]. split; [exact X|].
  destruct (r_status r) eqn:S; cbn.
  - destruct got; [destruct (e_store_err e) eqn:SE|]; cbn; repeat split; auto; try discriminate.
  - repeat split; auto; discriminate.
  - repeat split; auto; discriminate.
Qed.

Lemma ask_outcome c cs st0 st ops e now :
  outcome c cs st0 e now (ask c cs st ops e now).
Proof.
  unfold ask. destruct (c_url c) eqn:U; cbn [negb]; [|apply OutUntouched; reflexivity].
  destruct (e_ans e) as [| |b] eqn:A; try (apply OutUntouched; reflexivity).
  destruct (parse_issuer b) as [r|] eqn:P; [|apply OutUntouched; reflexivity].
  apply parse_issuer_spec in P. destruct P as [P S].
  destruct (finish_cases c cs st ops true true true b r e now) as [(H & _ & _ & Ha & _)|(V & X & H & Ha & Hc & Hs & _)].
  - apply OutUntouched; assumption.
  - eapply OutFetched; eauto.
Qed.

Theorem staple_outcome dis c cs st e now :
  outcome c cs st e now (staple dis c cs st e now).
Proof.
  unfold staple. destruct dis; [apply OutUntouched; reflexivity|].
  destruct (e_load_err e || negb (c_chain c)) eqn:L0; [apply ask_outcome|].
  apply orb_false_iff in L0. destruct L0 as [L _].
  destruct st as [b|]; [|apply ask_outcome].
  destruct (stored_parse c b) as [r|] eqn:P; [|apply ask_outcome].
  destruct (fresh now r && valid_for c now r) eqn:FV; [|apply ask_outcome].
  apply andb_true_iff in FV. destruct FV as [F V].
  destruct (finish_cases c cs (Some b) [SLoad] false false false b r e now)
    as [(H & _ & _ & Ha & _)|(_ & X & H & Ha & Hc & Hs & _ & _ & Hst)].
  - apply OutUntouched; assumption.
  - destruct (Hst eq_refl) as [Hs1 He]. eapply OutReused; eauto.
Qed.

(** F [staple_sound]: whatever the call leaves stapled is what was stapled before, or a Good
    response for this very certificate (serial), current now, not outliving the certificate;
    fetched responses are verified against the issuer, reused ones were fresh in storage *)
Theorem staple_sound dis c cs st e now b :
  cs_staple (res_cs (staple dis c cs st e now)) = Some b ->
  cs_staple cs = Some b \/
  exists r, AttachOK c now b r /\
    ((e_ans e = ABytes b /\ r_sig r = true /\ res_contact (staple dis c cs st e now) = true) \/
     (st = Some b /\ fresh now r = true /\ res_contact (staple dis c cs st e now) = false)) /\
    r_sig r = true.
Proof.
  intros H. destruct (staple_outcome dis c cs st e now) as [U _|b' r A P S _ V X Hc _ R _|b' r -> _ P F V X Hc _ _ _ R _].
  - left. rewrite <- U. exact H.
  - rewrite R in H. cbn in H. destruct (r_status r) eqn:St; [|left; exact H|left; exact H].
    inversion H; subst b'. right. exists r. apply valid_for_spec in V. destruct V as (V1 & V2 & V3 & V4).
    split; [repeat split; assumption|]. split; [left; auto|auto].
  - rewrite R in H. cbn in H. destruct (r_status r) eqn:St; [|left; exact H|left; exact H].
    inversion H; subst b'. right. exists r. apply valid_for_spec in V. destruct V as (V1 & V2 & V3 & V4).
    apply stored_parse_some in P. destruct P as (P & Sg & _).
    split; [repeat split; assumption|]. split; [right; auto|exact Sg].
Qed.

(** the same, read as "never": an answer that is not a verified, Good, current, not over-long
    response for this serial changes nothing on the certificate's staple, unless a reusable
    persisted staple takes its place *)
Theorem bad_answer_never_stapled dis c cs st e now :
  reusable c now st = false ->
  (forall b r, e_ans e = ABytes b -> b_parse b = Some r ->
     ~ (r_sig r = true /\ r_status r = Good /\ r_serial r = c_serial c /\ r_this r <= now /\
        (r_next r = zero_time \/ now < r_next r) /\ r_next r <= c_expiry c /\
        responder_ok now r = true)) ->
  cs_staple (res_cs (staple dis c cs st e now)) = cs_staple cs.
Proof.
  intros NR Bad.
  destruct (staple_outcome dis c cs st e now) as [U _|b r A P S _ V X _ _ R _|b r -> _ P F V _ _ _ _ _ _ _].
  - rewrite U. reflexivity.
  - rewrite R. cbn. destruct (r_status r) eqn:St; try reflexivity. exfalso.
    apply valid_for_spec in V. destruct V as (V1 & V2 & V3 & V4). apply (Bad b r A P). tauto.
  - exfalso. unfold reusable in NR. rewrite P, F, V in NR. discriminate.
Qed.

(** a response of status Revoked or Unknown is never stapled, wherever it comes from *)
Theorem only_good_stapled dis c cs st e now b r :
  cs_staple (res_cs (staple dis c cs st e now)) = Some b -> cs_staple cs <> Some b ->
  b_parse b = Some r -> r_status r = Good.
Proof.
  intros H N P. destruct (staple_sound dis c cs st e now b H) as [E|(r' & (P' & G & _) & _ & _)]; [contradiction|].
  congruence.
Qed.

(** [responder_failure_not_fatal], call level: when the responder cannot be reached or answers
    rubbish, the call changes nothing on the certificate (it only reports, or for short-lived
    certificates does not even report, an error) *)
Theorem responder_failure_leaves_cert_alone dis c cs st e now :
  reusable c now st = false ->
  match e_ans e with ABytes b => parse_issuer b = None | _ => True end ->
  res_cs (staple dis c cs st e now) = cs.
Proof.
  intros NR Bad.
  destruct (staple_outcome dis c cs st e now) as [U _|b r A P S _ _ _ _ _ _ _|b r -> _ P F V _ _ _ _ _ _ _].
  - exact U.
  - exfalso. rewrite A in Bad. assert (parse_issuer b = Some r) by (apply parse_issuer_spec; auto). congruence.
  - exfalso. unfold reusable in NR. rewrite P, F, V in NR. discriminate.
Qed.

(** F [fresh_persisted_reused_without_contact] *)
Theorem fresh_persisted_reused c cs e now b r :
  stored_parse c b = Some r -> fresh now r = true -> valid_for c now r = true -> e_load_err e = false ->
  let res := staple false c cs (Some b) e now in
  res_contact res = false /\ res_seen res = false /\ res_store res = Some b /\
  res_ops res = [SLoad] /\
  (r_next r <= c_expiry c -> res_err res = false /\ cs_ocsp (res_cs res) = Some r /\
     (r_status r = Good -> cs_staple (res_cs res) = Some b)).
Proof.
  intros P F V L. destruct (stored_parse_some _ _ _ P) as (_ & _ & Ch).
  unfold staple. rewrite L, Ch. cbn [orb negb]. rewrite P, F, V. cbn [andb].
  unfold finish. rewrite V. cbn [negb].
  destruct (c_expiry c <? r_next r) eqn:X.
  - apply Z.ltb_lt in X. cbn. repeat split; auto. all: intros; exfalso; lia.
  - destruct (r_status r) eqn:S; cbn; repeat split; auto; discriminate.
Qed.

(** F [corrupt_persisted_deleted] *)
Theorem corrupt_persisted_deleted c cs e now b :
  c_chain c = true -> stored_parse c b = None -> e_load_err e = false -> e_del_err e = false ->
  let res := staple false c cs (Some b) e now in
  In SDelete (res_ops res) /\
  (res_store res = None \/
   exists b' r', res_store res = Some b' /\ e_ans e = ABytes b' /\ AttachOK c now b' r' /\ r_sig r' = true).
Proof.
  intros Ch P L D. unfold staple. rewrite L, Ch. cbn [orb negb]. rewrite P, D. unfold ask.
  destruct (c_url c); cbn [negb]; [|cbn; auto].
  destruct (e_ans e) as [| |b'] eqn:A; try (cbn; auto).
  destruct (parse_issuer b') as [r'|] eqn:PI; [|cbn; auto].
  apply parse_issuer_spec in PI. destruct PI as [P' S'].
  unfold finish. destruct (valid_for c now r') eqn:V; cbn [negb]; [|cbn; auto].
  destruct (c_expiry c <? r_next r') eqn:X; [cbn; auto|]. apply Z.ltb_ge in X.
  apply valid_for_spec in V. destruct V as (V1 & V2 & V3 & V4).
  destruct (r_status r') eqn:St; [|cbn; auto|cbn; auto].
  destruct (e_store_err e); cbn.
  - split; [intuition|]. left; reflexivity.
  - split; [intuition|]. right. exists b', r'. repeat split; auto.
Qed.

(** what a call persists: nothing new, a deletion of a corrupt value, or exactly the verified
    Good response it has just stapled *)
Theorem persisted_is_stapled dis c cs st e now :
  let res := staple dis c cs st e now in
  res_store res = st \/
  (res_store res = None /\ corrupt c st = true) \/
  exists b r, res_store res = Some b /\ cs_staple (res_cs res) = Some b /\ e_ans e = ABytes b /\
              AttachOK c now b r /\ r_sig r = true.
Proof.
  assert (Hask : forall st1, st1 = st \/ (st1 = None /\ corrupt c st = true) ->
    let res := ask c cs st1 [SLoad; SDelete] e now in
    res_store res = st \/ (res_store res = None /\ corrupt c st = true) \/
    exists b r, res_store res = Some b /\ cs_staple (res_cs res) = Some b /\ e_ans e = ABytes b /\
                AttachOK c now b r /\ r_sig r = true).
  { intros st1 H1. assert (G : forall ops,
      let res := ask c cs st1 ops e now in
      res_store res = st1 \/ exists b r, res_store res = Some b /\ cs_staple (res_cs res) = Some b /\
        e_ans e = ABytes b /\ AttachOK c now b r /\ r_sig r = true).
    { intros ops. unfold ask. destruct (c_url c); cbn [negb]; [|cbn; auto].
      destruct (e_ans e) as [| |b'] eqn:A; try (cbn; auto).
      destruct (parse_issuer b') as [r'|] eqn:PI; [|cbn; auto].
      apply parse_issuer_spec in PI. destruct PI as [P' S'].
      destruct (finish_cases c cs st1 ops true true true b' r' e now) as [(_ & H & _)|(V & X & Hcs & _ & _ & _ & [H|(H & G & _)] & _)]; auto.
      right. exists b', r'. apply valid_for_spec in V. destruct V as (V1 & V2 & V3 & V4).
      rewrite Hcs, G. cbn. repeat split; auto. }
    cbn. destruct (G [SLoad; SDelete]) as [G1|G1]; [|auto].
    destruct H1 as [->|[-> C]]; [left; exact G1|]. right; left. auto. }
  assert (Hask1 : forall ops,
    let res := ask c cs st ops e now in
    res_store res = st \/ (res_store res = None /\ corrupt c st = true) \/
    exists b r, res_store res = Some b /\ cs_staple (res_cs res) = Some b /\ e_ans e = ABytes b /\
                AttachOK c now b r /\ r_sig r = true).
  { intros ops. unfold ask. destruct (c_url c); cbn [negb]; [|cbn; auto].
    destruct (e_ans e) as [| |b'] eqn:A; try (cbn; auto).
    destruct (parse_issuer b') as [r'|] eqn:PI; [|cbn; auto].
    apply parse_issuer_spec in PI. destruct PI as [P' S'].
    destruct (finish_cases c cs st ops true true true b' r' e now) as [(_ & H & _)|(V & X & Hcs & _ & _ & _ & [H|(H & G & _)] & _)]; auto.
    right; right. exists b', r'. apply valid_for_spec in V. destruct V as (V1 & V2 & V3 & V4).
    rewrite Hcs, G. cbn. repeat split; auto. }
  unfold staple. destruct dis; [left; reflexivity|].
  destruct (e_load_err e || negb (c_chain c)) eqn:L; [apply Hask1|].
  apply orb_false_iff in L. destruct L as [_ Ch]. apply negb_false_iff in Ch.
  destruct st as [b|] eqn:Est; [|apply Hask1].
  destruct (stored_parse c b) as [r|] eqn:P.
  - destruct (fresh now r && valid_for c now r) eqn:FV; [|apply Hask1].
    destruct (finish_cases c cs (Some b) [SLoad] false false false b r e now) as [(_ & H & _)|(_ & _ & _ & _ & _ & _ & _ & _ & H)].
    + left; exact H.
    + left. apply H. reflexivity.
  - apply Hask. destruct (e_del_err e); [left; reflexivity|]. right. split; [reflexivity|].
    unfold corrupt. rewrite Ch, P. reflexivity.
Qed.

(** the ghost flag: either the staple is untouched, or it was assigned a response fit for it *)
Lemma staple_attach dis c cs st e now :
  let res := staple dis c cs st e now in
  (res_attached res = false /\ cs_staple (res_cs res) = cs_staple cs) \/
  (res_attached res = true /\ exists b r, cs_staple (res_cs res) = Some b /\ AttachOK c now b r /\
      r_sig r = true).
Proof.
  cbn. destruct (staple_outcome dis c cs st e now) as [U Ha|b r A P S _ V X _ _ R Ha|b r -> _ P F V X _ _ _ _ R Ha].
  - left. rewrite U. auto.
  - rewrite R, Ha. apply valid_for_spec in V. destruct V as (V1 & V2 & V3 & V4).
    destruct (r_status r) eqn:St; cbn; [right|left; auto|left; auto].
    split; [reflexivity|]. exists b, r. repeat split; auto.
  - rewrite R, Ha. apply valid_for_spec in V. destruct V as (V1 & V2 & V3 & V4).
    apply stored_parse_some in P. destruct P as (P & Sg & _).
    destruct (r_status r) eqn:St; cbn; [right|left; auto|left; auto].
    split; [reflexivity|]. exists b, r. repeat split; auto.
Qed.

(** * Part 2: cache, store, histories *)

Definition eid (en : entry) : Z := c_id (en_cert en).

Lemma sget_sdel_same id s : sget id (sdel id s) = None.
Proof.
  induction s as [|[k b] s IH]; cbn; [reflexivity|].
  destruct (k =? id) eqn:E; [exact IH|]. cbn. rewrite E. exact IH.
Qed.

Lemma sget_sdel_other id id' s : id <> id' -> sget id (sdel id' s) = sget id s.
Proof.
  intros N. induction s as [|[k b] s IH]; cbn; [reflexivity|].
  destruct (k =? id') eqn:E.
  - apply Z.eqb_eq in E. subst k. destruct (id' =? id) eqn:E2; [apply Z.eqb_eq in E2; congruence|exact IH].
  - cbn. destruct (k =? id); [reflexivity|exact IH].
Qed.

Lemma sget_sset_same id v s : sget id (sset id v s) = v.
Proof.
  destruct v as [b|]; cbn; [rewrite Z.eqb_refl; reflexivity|apply sget_sdel_same].
Qed.

Lemma sget_sset_other id id' v s : id <> id' -> sget id (sset id' v s) = sget id s.
Proof.
  intros N. destruct v as [b|]; cbn.
  - destruct (id' =? id) eqn:E; [apply Z.eqb_eq in E; congruence|]. apply sget_sdel_other; exact N.
  - apply sget_sdel_other; exact N.
Qed.

(** every staple in the cache was fit for its certificate, and verified against its issuer, at
    the (ghost) time it was assigned *)
Definition entry_ok (en : entry) : Prop :=
  forall b, cs_staple (en_cs en) = Some b -> attach_ok (en_cert en) (en_att en) true b = true.

Lemma attach_ok_weaken c t b : attach_ok c t true b = true -> attach_ok c t false b = true.
Proof.
  rewrite !attach_ok_spec. intros (r & H & _). exists r. split; [exact H|discriminate].
Qed.

Lemma new_entry_ok dis c m cs st e now :
  cs_staple cs = None ->
  entry_ok (Entry c m (res_cs (staple dis c cs st e now)) now).
Proof.
  intros N b Hb. cbn in *.
  destruct (staple_attach dis c cs st e now) as [(_ & E)|(_ & b' & r & E & A & S)].
  - rewrite E, N in Hb. discriminate.
  - rewrite E in Hb. inversion Hb; subst b'. apply attach_ok_spec. exists r. split; [exact A|].
    intros _. exact S.
Qed.

Lemma updated_entry_ok dis en st e now :
  entry_ok en ->
  let res := staple dis (en_cert en) (en_cs en) st e now in
  entry_ok (Entry (en_cert en) (en_managed en) (res_cs res)
                  (if res_attached res then now else en_att en)).
Proof.
  intros Hen res b Hb. cbn in *.
  destruct (staple_attach dis (en_cert en) (en_cs en) st e now) as [(Ha & E)|(Ha & b' & r & E & A & S)];
    fold res in Ha, E; rewrite Ha.
  - apply Hen. rewrite <- E. exact Hb.
  - rewrite E in Hb. inversion Hb; subst b'. apply attach_ok_spec. exists r. split; [exact A|].
    intros _. exact S.
Qed.

(** ** one certificate's share of a maintenance pass *)

Lemma do_renew_spec dis now rn st l st' cl :
  do_renew dis now rn st = (l, st', cl) ->
  (l = [] /\ st' = st /\ cl = [] /\ (rn = RFail \/ rn = RReloadFail)) \/
  exists newc e, rn = ROk newc e /\
    let res := staple dis newc (CS None None) (sget (c_id newc) st) e now in
    l = [Entry newc true (res_cs res) now] /\ st' = sset (c_id newc) (res_store res) st /\
    cl = [call_of newc res].
Proof.
  unfold do_renew. destruct rn as [|newc e|]; intros H; inversion H; subst.
  - left. auto.
  - right. exists newc, e. cbn. auto.
  - left. auto.
Qed.

(** the shapes one certificate's share of a pass can take, whoever looks at it *)
Inductive m1_shape (dis : bool) (now : Z) (e : env) (rn : renew_outcome) (en : entry) (st : store)
    : list entry * store * list call -> Prop :=
| M1Skip :          (* nothing happens *)
    m1_shape dis now e rn en st ([en], st, [])
| M1Renew l st' cl : (* recorded as revoked: forceRenew *)
    c_expiry (en_cert en) <? now = false ->
    force_renew (en_managed en) (cs_ocsp (en_cs en)) = true ->
    do_renew dis now rn st = (l, st', cl) ->
    m1_shape dis now e rn en st (l, st', cl)
| M1Update en1 l st2 cl2 : (* the staple is refreshed *)
    c_expiry (en_cert en) <? now = false ->
    let res := staple dis (en_cert en) (en_cs en) (sget (eid en) st) e now in
    let st' := sset (eid en) (res_store res) st in
    (en1 = en \/
     en1 = Entry (en_cert en) (en_managed en) (res_cs res) (if res_attached res then now else en_att en)) ->
    ((res_err res = true \/ force_renew (en_managed en) (cs_ocsp (res_cs res)) = false) /\
       l = [en1] /\ st2 = st' /\ cl2 = []
     \/
     (force_renew (en_managed en) (cs_ocsp (res_cs res)) = true /\
      do_renew dis now rn st' = (l, st2, cl2))) ->
    m1_shape dis now e rn en st (l, st2, call_of (en_cert en) res :: cl2).

Lemma tick_one_shape dis now e rn en st :
  m1_shape dis now e rn en st (tick_one dis now e rn en st).
Proof.
  unfold tick_one.
  destruct (c_expiry (en_cert en) <? now) eqn:X; [apply M1Skip|].
  destruct (force_renew (en_managed en) (cs_ocsp (en_cs en))) eqn:FR.
  { destruct (do_renew dis now rn st) as [[l st'] cl] eqn:D. eapply M1Renew; eauto. }
  destruct (match cs_ocsp (en_cs en) with
            | Some r => negb (status_eqb (r_status r) Unknown) && fresh now r
            | None => false end); [apply M1Skip|].
  cbv zeta.
  set (res := staple dis (en_cert en) (en_cs en) (sget (c_id (en_cert en)) st) e now).
  destruct (res_err res) eqn:Err.
  { eapply (M1Update dis now e rn en st en [en] _ []); auto; try (fold res; left; rewrite Err; auto). }
  match goal with |- context [if force_renew _ _ then _ else ([?x], _, _)] => set (en1 := x) end.
  assert (H1 : en1 = en \/ en1 = Entry (en_cert en) (en_managed en) (res_cs res) (if res_attached res then now else en_att en)).
  { subst en1. destruct (cs_ocsp (res_cs res)) as [r|]; [|auto].
    destruct (status_eqb (r_status r) Good && _); auto. }
  destruct (force_renew (en_managed en) (cs_ocsp (res_cs res))) eqn:FR2.
  - destruct (do_renew dis now rn (sset (c_id (en_cert en)) (res_store res) st)) as [[l s2] cl2] eqn:D.
    eapply (M1Update dis now e rn en st en1 l s2 cl2); auto; try (fold res; right; auto).
  - eapply (M1Update dis now e rn en st en1 [en1] _ []); auto; try (fold res; left; rewrite FR2; auto).
Qed.

Lemma hs_one_shape dis now e rn en st :
  m1_shape dis now e rn en st (hs_one dis now e rn en st).
Proof.
  unfold hs_one.
  destruct (c_expiry (en_cert en) <? now) eqn:X; [apply M1Skip|].
  destruct (negb (en_managed en)); [apply M1Skip|].
  destruct (match cs_ocsp (en_cs en) with Some r => negb (fresh now r) | None => false end).
  - cbv zeta.
    set (res := staple dis (en_cert en) (en_cs en) (sget (c_id (en_cert en)) st) e now).
    destruct (force_renew (en_managed en) (cs_ocsp (res_cs res))) eqn:FR2.
    + destruct (do_renew dis now rn (sset (c_id (en_cert en)) (res_store res) st)) as [[l s2] cl2] eqn:D.
      eapply (M1Update dis now e rn en st en l s2 cl2); auto; try (fold res; right; auto).
    + eapply (M1Update dis now e rn en st _ [_] _ []); auto; try (fold res; left; rewrite FR2; auto).
  - destruct (force_renew (en_managed en) (cs_ocsp (en_cs en))) eqn:FR; [|apply M1Skip].
    destruct (do_renew dis now rn st) as [[l st'] cl] eqn:D. eapply M1Renew; eauto.
Qed.

Lemma manage_one_shape dis now e rn en st :
  m1_shape dis now e rn en st (manage_one dis now rn en st).
Proof.
  unfold manage_one.
  destruct (c_expiry (en_cert en) <? now) eqn:X; [apply M1Skip|].
  destruct (force_renew (en_managed en) (cs_ocsp (en_cs en))) eqn:FR; [|apply M1Skip].
  destruct (do_renew dis now rn st) as [[l st'] cl] eqn:D. eapply M1Renew; eauto.
Qed.

Lemma maintain_one_shape k dis now e rn en st :
  m1_shape dis now e rn en st (maintain_one k dis now e rn en st).
Proof.
  destruct k; cbn [maintain_one].
  - apply tick_one_shape.
  - apply hs_one_shape.
  - apply manage_one_shape.
  - apply M1Skip.
Qed.

(** where the entries after [maintain_one] come from *)
Lemma maintain_one_entries {k} dis now e rn en st l st' cl :
  maintain_one k dis now e rn en st = (l, st', cl) ->
  Forall (fun en' =>
    (en_cert en' = en_cert en /\ en_managed en' = en_managed en /\
     (en_att en' = en_att en \/ en_att en' = now)) \/
    (en_att en' = now /\ exists e', rn = ROk (en_cert en') e')) l.
Proof.
  intros M. pose proof (maintain_one_shape k dis now e rn en st) as Sh. rewrite M in Sh.
  assert (Hren : forall l st0 st' cl, do_renew dis now rn st0 = (l, st', cl) ->
    Forall (fun en' =>
      (en_cert en' = en_cert en /\ en_managed en' = en_managed en /\
       (en_att en' = en_att en \/ en_att en' = now)) \/
      (en_att en' = now /\ exists e', rn = ROk (en_cert en') e')) l).
  { intros l0 st0 st0' cl0 D. destruct (do_renew_spec _ _ _ _ _ _ _ D) as [(-> & _)|(newc & e0 & -> & H)]; [constructor|].
    cbn in H. destruct H as (-> & _). constructor; [|constructor]. right. cbn. eauto. }
  inversion Sh as [|l0 st0 cl0 X FR D|en1 l0 st2 cl2 X res stx H1 H2]; subst.
  - constructor; [|constructor]. left. auto.
  - eapply Hren; eauto.
  - destruct H2 as [(_ & -> & _)|(_ & D)]; [|eapply Hren; eauto].
    constructor; [|constructor]. left. destruct H1 as [->| ->]; [auto|].
    cbn. fold res. destruct (res_attached res); auto.
Qed.

Lemma maintain_att {ks} dis now envs rns l : forall st l' st' cl,
  maintain ks dis now envs rns l st = (l', st', cl) ->
  Forall (fun en' => (exists en, In en l /\ en_att en' = en_att en) \/ en_att en' = now) l'.
Proof.
  induction l as [|en r IH]; intros st l' st' cl M.
  - cbn in M. inversion M; subst. constructor.
  - cbn [maintain] in M.
    destruct (maintain_one (ks (c_id (en_cert en))) dis now (envs (c_id (en_cert en))) (rns (c_id (en_cert en))) en st) as [[l1 st1] cl1] eqn:M1.
    destruct (maintain ks dis now envs rns r st1) as [[l2 st2] cl2] eqn:M2.
    inversion M; subst. apply Forall_app. split.
    + eapply Forall_impl; [|exact (maintain_one_entries _ _ _ _ _ _ _ _ _ M1)].
      cbn. intros a [(_ & _ & [H|H])|(H & _)]; auto.
      left. exists en. split; [left; reflexivity|exact H].
    + eapply Forall_impl; [|exact (IH _ _ _ _ M2)]. cbn. intros a [(en0 & I & H)|H]; auto.
      left. exists en0. split; [right; exact I|exact H].
Qed.

(** the ghost time of an entry is the time of an operation of the history *)
Lemma step_att s o :
  Forall (fun en' => (exists en, In en (cache s) /\ en_att en' = en_att en) \/
                     op_time o = Some (en_att en')) (cache (fst (step s o))).
Proof.
  assert (Hold : forall l, incl l (cache s) ->
    Forall (fun en' => (exists en, In en (cache s) /\ en_att en' = en_att en) \/
                       op_time o = Some (en_att en')) l).
  { intros l Hl. apply Forall_forall. intros en I. left. exists en. split; [apply Hl; exact I|reflexivity]. }
  destruct o as [cid v|c m dis e now|ks dis now envs rns|]; cbn.
  - apply Hold. apply incl_refl.
  - destruct (has_cert (c_id c) (cache s)); [apply Hold; apply incl_refl|].
    apply Forall_app. split; [apply Hold; apply incl_refl|]. constructor; [|constructor]. right. reflexivity.
  - destruct (maintain ks dis now envs rns (cache s) (stor s)) as [[l st] cl] eqn:M. cbn.
    eapply Forall_impl; [|exact (maintain_att _ _ _ _ _ _ _ _ _ M)]. cbn.
    intros a [H|H]; [left; exact H|right; congruence].
  - constructor.
Qed.

Lemma run_att : forall ops s en',
  In en' (cache (run s ops)) ->
  (exists en, In en (cache s) /\ en_att en' = en_att en) \/
  In (Some (en_att en')) (map op_time ops).
Proof.
  induction ops as [|o r IH]; intros s en' I; cbn in *.
  - left. exists en'. auto.
  - destruct (IH _ _ I) as [(en1 & I1 & E1)|H]; [|right; right; exact H].
    pose proof (step_att s o) as F. rewrite Forall_forall in F.
    destruct (F _ I1) as [(en0 & I0 & E0)|T].
    + left. exists en0. split; [exact I0|congruence].
    + right. left. congruence.
Qed.

(** ** the invariant of histories *)

Lemma do_renew_entry_ok dis now rn st l st' cl :
  do_renew dis now rn st = (l, st', cl) -> Forall entry_ok l.
Proof.
  intros D. destruct (do_renew_spec _ _ _ _ _ _ _ D) as [(-> & _)|(newc & e & -> & H)]; [constructor|].
  cbn in H. destruct H as (-> & _). constructor; [|constructor].
  apply new_entry_ok. reflexivity.
Qed.

Lemma maintain_one_inv {k} dis now e rn en st l st' cl :
  maintain_one k dis now e rn en st = (l, st', cl) -> entry_ok en -> Forall entry_ok l.
Proof.
  intros M Hen. pose proof (maintain_one_shape k dis now e rn en st) as Sh. rewrite M in Sh.
  inversion Sh as [|l0 st0 cl0 X FR D|en1 l0 st2 cl2 X res stx H1 H2]; subst.
  - constructor; [exact Hen|constructor].
  - eapply do_renew_entry_ok; exact D.
  - assert (Hen1 : entry_ok en1).
    { destruct H1 as [->| ->]; [exact Hen|]. apply updated_entry_ok. exact Hen. }
    destruct H2 as [(_ & -> & _ & _)|(_ & D)].
    + constructor; [exact Hen1|constructor].
    + eapply do_renew_entry_ok; exact D.
Qed.

Lemma maintain_inv {ks} dis now envs rns : forall l st l' st' cl,
  maintain ks dis now envs rns l st = (l', st', cl) -> Forall entry_ok l -> Forall entry_ok l'.
Proof.
  induction l as [|en r IH]; intros st l' st' cl M Hl.
  - cbn in M. inversion M; subst. constructor.
  - cbn [maintain] in M.
    destruct (maintain_one (ks (c_id (en_cert en))) dis now (envs (c_id (en_cert en))) (rns (c_id (en_cert en))) en st) as [[l1 st1] cl1] eqn:M1.
    destruct (maintain ks dis now envs rns r st1) as [[l2 st2] cl2] eqn:M2.
    inversion M; subst. inversion Hl as [|? ? Hen Hr]; subst. apply Forall_app. split.
    + eapply maintain_one_inv; [exact M1|exact Hen].
    + eapply IH; [exact M2|exact Hr].
Qed.

Definition Inv (s : sys) : Prop := Forall entry_ok (cache s).

Lemma step_inv s o : Inv s -> Inv (fst (step s o)).
Proof.
  unfold Inv. intros Hc. destruct o as [cid v|c m dis e now|ks dis now envs rns|]; cbn [step fst].
  - exact Hc.
  - cbn [cache]. destruct (has_cert (c_id c) (cache s)); [exact Hc|]. apply Forall_app. split; [exact Hc|].
    constructor; [|constructor]. apply new_entry_ok. reflexivity.
  - destruct (maintain ks dis now envs rns (cache s) (stor s)) as [[l st] cl] eqn:M. cbn [fst cache].
    eapply maintain_inv; [exact M|exact Hc].
  - constructor.
Qed.

Lemma run_inv : forall ops s, Inv s -> Inv (run s ops).
Proof.
  induction ops as [|o r IH]; intros s H; [exact H|]. cbn. apply IH. apply step_inv. exact H.
Qed.

(** * Part 3: the monitors of Model.v hold of every step of the model *)

Lemma oz_eqb_refl a : oz_eqb a a = true.
Proof. destruct a; cbn; [apply Z.eqb_refl|reflexivity]. Qed.

Lemma orc_eqb_refl a : orc_eqb a a = true.
Proof. destruct a as [x|]; cbn; [|reflexivity]. rewrite !Z.eqb_refl, !Bool.eqb_reflx. reflexivity. Qed.

Lemma blob_eqb_refl b : blob_eqb b b = true.
Proof.
  unfold blob_eqb. rewrite Z.eqb_refl. cbn. destruct (b_parse b) as [r|]; [|reflexivity].
  unfold resp_full_eqb. rewrite !Z.eqb_refl, orc_eqb_refl, Bool.eqb_reflx.
  destruct (r_status r); reflexivity.
Qed.

Lemma oblob_eqb_refl a : oblob_eqb a a = true.
Proof. destruct a; cbn; [apply blob_eqb_refl|reflexivity]. Qed.

Lemma oblob_eqb_corrupt c b b' r :
  c_chain c = true -> stored_parse c b = None -> b_parse b' = Some r -> r_sig r = true ->
  oblob_eqb (Some b') (Some b) = false.
Proof.
  intros Ch P P' S. cbn. unfold blob_eqb. rewrite P'. unfold stored_parse in P. rewrite Ch in P.
  unfold parse_issuer in P.
  destruct (b_parse b) as [r0|]; [|apply andb_false_r].
  destruct (r_sig r0) eqn:S0; [discriminate|].
  unfold resp_full_eqb. rewrite S, S0. cbn. rewrite !andb_false_r. reflexivity.
Qed.

Definition ids (l : list entry) : list Z := map eid l.

Lemma has_cert_in id l : has_cert id l = true <-> In id (ids l).
Proof.
  unfold has_cert, ids. rewrite existsb_exists, in_map_iff. split.
  - intros (en & I & E). apply Z.eqb_eq in E. exists en. auto.
  - intros (en & E & I). exists en. split; [exact I|]. apply Z.eqb_eq. exact E.
Qed.

Lemma has_cert_false id l : has_cert id l = false <-> ~ In id (ids l).
Proof. rewrite <- has_cert_in. destruct (has_cert id l); split; congruence. Qed.

Lemma has_cert_app id a b : has_cert id (a ++ b) = has_cert id a || has_cert id b.
Proof. unfold has_cert. apply existsb_app. Qed.

Lemma find_entry_in en l : NoDup (ids l) -> In en l -> find_entry (eid en) l = Some en.
Proof.
  induction l as [|x r IH]; intros N I; [destruct I|]. cbn. inversion N as [|? ? Nx Nr]; subst.
  destruct I as [->|I].
  - unfold eid. rewrite Z.eqb_refl. reflexivity.
  - destruct (c_id (en_cert x) =? eid en) eqn:E; [|apply IH; assumption].
    exfalso. apply Z.eqb_eq in E. apply Nx. fold (eid x) in E. rewrite E. apply in_map. exact I.
Qed.

Lemma find_entry_app_r id a b : has_cert id a = false -> find_entry id (a ++ b) = find_entry id b.
Proof.
  induction a as [|x r IH]; intros H; [reflexivity|]. cbn in *.
  destruct (c_id (en_cert x) =? id); [discriminate|]. apply IH. exact H.
Qed.

Lemma find_call_app id a b :
  find_call id (a ++ b) = match find_call id a with Some x => Some x | None => find_call id b end.
Proof.
  induction a as [|x r IH]; [reflexivity|]. cbn. destruct (cl_cert x =? id); [reflexivity|exact IH].
Qed.

(** ** frame: what [maintain_one] / [maintain] do not touch *)

Lemma do_renew_frame dis now rn st l st' cl id :
  do_renew dis now rn st = (l, st', cl) ->
  (forall newc e', rn = ROk newc e' -> id <> c_id newc) ->
  sget id st' = sget id st /\ find_call id cl = None /\ has_cert id l = false.
Proof.
  intros D Hn. destruct (do_renew_spec _ _ _ _ _ _ _ D) as [(-> & -> & -> & _)|(newc & e & E & H)]; [auto|].
  cbn in H. destruct H as (-> & -> & ->). specialize (Hn _ _ E).
  repeat split.
  - apply sget_sset_other. exact Hn.
  - cbn. destruct (c_id newc =? id) eqn:X; [apply Z.eqb_eq in X; congruence|reflexivity].
  - cbn. destruct (c_id newc =? id) eqn:X; [apply Z.eqb_eq in X; congruence|reflexivity].
Qed.

Lemma maintain_one_frame {k} dis now e rn en st l st' cl id :
  maintain_one k dis now e rn en st = (l, st', cl) ->
  id <> eid en -> (forall newc e', rn = ROk newc e' -> id <> c_id newc) ->
  sget id st' = sget id st /\ find_call id cl = None /\ has_cert id l = false.
Proof.
  intros M Hid Hn. pose proof (maintain_one_shape k dis now e rn en st) as Sh. rewrite M in Sh.
  assert (Hen : forall en1, en_cert en1 = en_cert en -> has_cert id [en1] = false).
  { intros en1 E. cbn. rewrite E. destruct (c_id (en_cert en) =? id) eqn:X; [apply Z.eqb_eq in X; unfold eid in Hid; congruence|reflexivity]. }
  inversion Sh as [|l0 st0 cl0 X FR D|en1 l0 st2 cl2 X res stx H1 H2]; subst.
  - repeat split; auto.
  - eapply do_renew_frame; eauto.
  - assert (Hx : sget id stx = sget id st) by (subst stx; apply sget_sset_other; exact Hid).
    assert (Hc : forall cl2, find_call id cl2 = None -> find_call id (call_of (en_cert en) res :: cl2) = None).
    { intros c2 H. cbn. destruct (c_id (en_cert en) =? id) eqn:Y; [apply Z.eqb_eq in Y; unfold eid in Hid; congruence|exact H]. }
    destruct H2 as [(_ & -> & -> & ->)|(_ & D)].
    + repeat split; auto. apply Hen. destruct H1 as [->| ->]; reflexivity.
    + destruct (do_renew_frame _ _ _ _ _ _ _ id D Hn) as (A & B & C). repeat split; auto. congruence.
Qed.

Lemma maintain_frame {ks} dis now envs rns id : forall l st l' st' cl,
  maintain ks dis now envs rns l st = (l', st', cl) ->
  (forall en, In en l -> id <> eid en) ->
  (forall en newc e', In en l -> rns (eid en) = ROk newc e' -> id <> c_id newc) ->
  sget id st' = sget id st /\ find_call id cl = None /\ has_cert id l' = false.
Proof.
  induction l as [|en r IH]; intros st l' st' cl M Hid Hn.
  - cbn in M. inversion M; subst. auto.
  - cbn [maintain] in M.
    destruct (maintain_one (ks (c_id (en_cert en))) dis now (envs (c_id (en_cert en))) (rns (c_id (en_cert en))) en st) as [[l1 st1] cl1] eqn:M1.
    destruct (maintain ks dis now envs rns r st1) as [[l2 st2] cl2] eqn:M2.
    inversion M; subst.
    destruct (maintain_one_frame _ _ _ _ _ _ _ _ _ id M1) as (A1 & B1 & C1).
    { apply Hid. left. reflexivity. }
    { intros newc e' E. eapply Hn; [left; reflexivity|exact E]. }
    destruct (IH _ _ _ _ M2) as (A2 & B2 & C2).
    { intros x Hx. apply Hid. right. exact Hx. }
    { intros x newc e' Hx E. eapply Hn; [right; exact Hx|exact E]. }
    repeat split.
    + congruence.
    + rewrite find_call_app, B1. exact B2.
    + rewrite has_cert_app, C1, C2. reflexivity.
Qed.

(** well-formed maintenance input: certificate identities are unique, and a renewal yields a
    certificate that is not in the cache *)
Definition new_fresh (l : list entry) (rns : Z -> renew_outcome) : Prop :=
  forall en newc e', In en l -> rns (eid en) = ROk newc e' -> ~ In (c_id newc) (ids l).

(** focus on one entry of a maintenance pass *)
Lemma maintain_focus {ks} dis now envs rns en : forall la lb st l' st' cl,
  maintain ks dis now envs rns (la ++ en :: lb) st = (l', st', cl) ->
  NoDup (ids (la ++ en :: lb)) -> new_fresh (la ++ en :: lb) rns ->
  exists stk lk stk' clk,
    maintain_one (ks (eid en)) dis now (envs (eid en)) (rns (eid en)) en stk = (lk, stk', clk) /\
    sget (eid en) stk = sget (eid en) st /\ sget (eid en) st' = sget (eid en) stk' /\
    find_call (eid en) cl = find_call (eid en) clk /\
    has_cert (eid en) l' = has_cert (eid en) lk /\ incl lk l'.
Proof.
  induction la as [|x la IH]; intros lb st l' st' cl M N F.
  - cbn [app] in *. cbn [maintain] in M. fold (eid en) in M.
    destruct (maintain_one (ks (eid en)) dis now (envs (eid en)) (rns (eid en)) en st) as [[l1 st1] cl1] eqn:M1.
    destruct (maintain ks dis now envs rns lb st1) as [[l2 st2] cl2] eqn:M2.
    inversion M; subst. inversion N as [|? ? Nx Nr]; subst.
    destruct (maintain_frame _ _ _ _ (eid en) _ _ _ _ _ M2) as (A & B & C).
    { intros y Hy E. apply Nx. rewrite E. apply in_map. exact Hy. }
    { intros y newc e' Hy E Eq. apply (F y newc e'); [right; exact Hy|exact E|]. rewrite <- Eq. left. reflexivity. }
    exists st, l1, st1, cl1. repeat split; auto.
    + rewrite find_call_app, B. destruct (find_call (eid en) cl1); reflexivity.
    + rewrite has_cert_app, C. apply orb_false_r.
    + apply incl_appl. apply incl_refl.
  - cbn [app] in *. cbn [maintain] in M. fold (eid x) in M.
    destruct (maintain_one (ks (eid x)) dis now (envs (eid x)) (rns (eid x)) x st) as [[l1 st1] cl1] eqn:M1.
    destruct (maintain ks dis now envs rns (la ++ en :: lb) st1) as [[l2 st2] cl2] eqn:M2.
    inversion M; subst. inversion N as [|? ? Nx Nr]; subst.
    destruct (maintain_one_frame _ _ _ _ _ _ _ _ _ (eid en) M1) as (A1 & B1 & C1).
    { intros E. apply Nx. rewrite <- E. unfold ids. rewrite map_app. apply in_or_app. right. left. reflexivity. }
    { intros newc e' E Eq. apply (F x newc e'); [left; reflexivity|exact E|]. rewrite <- Eq.
      right. unfold ids. rewrite map_app. apply in_or_app. right. left. reflexivity. }
    destruct (IH _ _ _ _ _ M2 Nr) as (stk & lk & stk' & clk & P1 & P2 & P3 & P4 & P5 & P6).
    { intros y newc e' Hy E I. apply (F y newc e'); [right; exact Hy|exact E|right; exact I]. }
    exists stk, lk, stk', clk. repeat split; auto.
    + congruence.
    + rewrite find_call_app, B1. exact P4.
    + rewrite has_cert_app, C1. exact P5.
    + apply incl_appr. exact P6.
Qed.

(** ** learning of a revocation, both directions *)

Lemma finish_seen c cs st ops contact seen got b r e now :
  res_seen (finish c cs st ops contact seen got b r e now) = seen.
Proof.
  unfold finish. destruct (negb (valid_for c now r)); [reflexivity|].
  destruct (c_expiry c <? r_next r); [reflexivity|].
  destruct (r_status r); [|reflexivity|reflexivity].
  destruct got; [destruct (e_store_err e)|]; reflexivity.
Qed.

Lemma finish_revoked c cs st ops contact seen got b r e now :
  valid_for c now r = true -> (r_next r <=? c_expiry c) = true -> r_status r = Revoked ->
  finish c cs st ops contact seen got b r e now = Res (CS (cs_staple cs) (Some r)) st contact seen false ops false.
Proof.
  intros V X S. unfold finish. rewrite V. cbn [negb]. apply Z.leb_le in X.
  destruct (c_expiry c <? r_next r) eqn:Y; [apply Z.ltb_lt in Y; lia|]. rewrite S. reflexivity.
Qed.

Lemma staple_seen_true c cs stv e now b r :
  res_seen (staple false c cs stv e now) = true -> e_ans e = ABytes b -> parse_issuer b = Some r ->
  exists st1 ops, staple false c cs stv e now = finish c cs st1 ops true true true b r e now.
Proof.
  intros Hs A P.
  assert (Hask : forall st1 ops, res_seen (ask c cs st1 ops e now) = true ->
            ask c cs st1 ops e now = finish c cs st1 ops true true true b r e now).
  { intros st1 ops. unfold ask. destruct (c_url c); cbn [negb]; [|cbn; discriminate].
    rewrite A, P. reflexivity. }
  unfold staple in *. destruct (e_load_err e || negb (c_chain c)); [eauto|].
  destruct stv as [b0|]; [|eauto]. destruct (stored_parse c b0) as [r0|]; [|eauto].
  destruct (fresh now r0 && valid_for c now r0); [|eauto].
  rewrite finish_seen in Hs. discriminate.
Qed.

Lemma learned_result dis c cs stv e now :
  let res := staple dis c cs stv e now in
  learned_from dis now e stv c (call_of c res) = true ->
  res_err res = false /\ is_revoked (cs_ocsp (res_cs res)) = true.
Proof.
  cbn. unfold learned_from. destruct dis; [cbn; discriminate|]. cbn [negb andb call_of cl_seen].
  destruct (res_seen (staple false c cs stv e now)) eqn:Seen.
  - destruct (e_ans e) as [| |b] eqn:A; try discriminate.
    destruct (parse_issuer b) as [r|] eqn:P; [|discriminate].
    rewrite !andb_true_iff, status_eqb_eq. intros ((S & V) & X).
    destruct (staple_seen_true c cs stv e now b r Seen A P) as (st1 & ops & ->).
    rewrite (finish_revoked _ _ _ _ _ _ _ _ _ _ _ V X S). cbn. rewrite S. auto.
  - destruct stv as [b|]; [|discriminate]. destruct (stored_parse c b) as [r|] eqn:P; [|discriminate].
    rewrite !andb_true_iff, status_eqb_eq, negb_true_iff. intros ((((L & S) & F) & V) & X).
    destruct (stored_parse_some _ _ _ P) as (_ & _ & Ch).
    unfold staple. rewrite L, Ch. cbn [orb negb]. rewrite P, F, V. cbn [andb].
    rewrite (finish_revoked _ _ _ _ _ _ _ _ _ _ _ V X S). cbn. rewrite S. auto.
Qed.

Lemma revoked_result_learned dis c cs stv e now :
  let res := staple dis c cs stv e now in
  is_revoked (cs_ocsp (res_cs res)) = true -> is_revoked (cs_ocsp cs) = false ->
  learned_from dis now e stv c (call_of c res) = true.
Proof.
  cbn. intros R N. unfold learned_from.
  destruct dis; [cbn in R; congruence|]. cbn [negb andb call_of cl_seen].
  destruct (staple_outcome false c cs stv e now) as [U _|b r A P S _ V X _ Hs Hr _|b r -> L P F V X _ Hs _ _ Hr _].
  - rewrite U in R. congruence.
  - rewrite Hs, A. assert (PI : parse_issuer b = Some r) by (apply parse_issuer_spec; auto).
    rewrite PI, V. rewrite Hr in R. cbn in R. rewrite R. cbn. apply Z.leb_le. exact X.
  - rewrite Hs, P, L, F, V. rewrite Hr in R. cbn in R. rewrite R. cbn. apply Z.leb_le. exact X.
Qed.

(** ** the entry's own call in [maintain_one] *)

Lemma m1_call {k} dis now e rn en st l st' cl c0 :
  maintain_one k dis now e rn en st = (l, st', cl) ->
  (forall newc e', rn = ROk newc e' -> c_id newc <> eid en) ->
  find_call (eid en) cl = Some c0 ->
  let res := staple dis (en_cert en) (en_cs en) (sget (eid en) st) e now in
  (c_expiry (en_cert en) <? now) = false /\
  c0 = call_of (en_cert en) res /\ sget (eid en) st' = res_store res /\
  (((res_err res = true \/ force_renew (en_managed en) (cs_ocsp (res_cs res)) = false) /\
    has_cert (eid en) l = true) \/
   (force_renew (en_managed en) (cs_ocsp (res_cs res)) = true /\
    exists stx cl2, do_renew dis now rn stx = (l, st', cl2))).
Proof.
  intros M Hn Fc. pose proof (maintain_one_shape k dis now e rn en st) as Sh. rewrite M in Sh.
  assert (Hn' : forall newc e', rn = ROk newc e' -> eid en <> c_id newc).
  { intros newc e' E H. apply (Hn _ _ E). auto. }
  inversion Sh as [|l0 st0 cl0 X FR D|en1 l0 st2 cl2 X res stx H1 H2]; subst.
  - discriminate.
  - destruct (do_renew_frame _ _ _ _ _ _ _ (eid en) D Hn') as (_ & B & _). congruence.
  - cbn in Fc. unfold eid in Fc at 1. rewrite Z.eqb_refl in Fc. inversion Fc; subst c0.
    cbn zeta. fold res. repeat split; auto.
    + destruct H2 as [(_ & _ & -> & _)|(_ & D)].
      * subst stx. apply sget_sset_same.
      * destruct (do_renew_frame _ _ _ _ _ _ _ (eid en) D Hn') as (A & _). rewrite A. subst stx. apply sget_sset_same.
    + destruct H2 as [(C & -> & _ & _)|(C2 & D)]; [left|right; eauto].
      split; [exact C|]. cbn. destruct H1 as [->| ->]; cbn; unfold eid; rewrite Z.eqb_refl; reflexivity.
Qed.

(** a certificate leaves the cache only for a revocation: recorded, or learned by its own call *)
Lemma shape_not_fatal dis now e rn en st l st' cl :
  m1_shape dis now e rn en st (l, st', cl) ->
  has_cert (eid en) l = true \/
  (en_managed en = true /\
   (is_revoked (cs_ocsp (en_cs en)) = true \/
    exists c0, find_call (eid en) cl = Some c0 /\
               learned_from dis now e (sget (eid en) st) (en_cert en) c0 = true)).
Proof.
  intros Sh.
  assert (Hself : has_cert (eid en) [en] = true).
  { cbn. unfold eid. rewrite Z.eqb_refl. reflexivity. }
  inversion Sh as [|l0 st0 cl0 X FR D|en1 l0 st2 cl2 X res stx H1 H2]; subst.
  - left. exact Hself.
  - right. unfold force_renew in FR. apply andb_true_iff in FR. tauto.
  - destruct H2 as [(_ & -> & _ & _)|(FR2 & D)].
    + left. destruct H1 as [->| ->]; [exact Hself|]. cbn. unfold eid. rewrite Z.eqb_refl. reflexivity.
    + right. unfold force_renew in FR2. apply andb_true_iff in FR2. destruct FR2 as [Mg Rv].
      split; [exact Mg|]. destruct (is_revoked (cs_ocsp (en_cs en))) eqn:R0; [left; reflexivity|right].
      exists (call_of (en_cert en) res). split.
      * cbn. unfold eid. rewrite Z.eqb_refl. reflexivity.
      * apply revoked_result_learned; [exact Rv|exact R0].
Qed.

Lemma m1_not_fatal {k} dis now e rn en st l st' cl :
  maintain_one k dis now e rn en st = (l, st', cl) ->
  has_cert (eid en) l = true \/
  (en_managed en = true /\
   match k with
   | KSkip => False
   | KManage => is_revoked (cs_ocsp (en_cs en)) = true
   | _ => is_revoked (cs_ocsp (en_cs en)) = true \/
          exists c0, find_call (eid en) cl = Some c0 /\
                     learned_from dis now e (sget (eid en) st) (en_cert en) c0 = true
   end).
Proof.
  intros M.
  assert (Hself : has_cert (eid en) [en] = true).
  { cbn. unfold eid. rewrite Z.eqb_refl. reflexivity. }
  destruct k; cbn [maintain_one] in M.
  - apply (shape_not_fatal dis now e rn en st l st' cl). rewrite <- M. apply tick_one_shape.
  - apply (shape_not_fatal dis now e rn en st l st' cl). rewrite <- M. apply hs_one_shape.
  - unfold manage_one in M. destruct (c_expiry (en_cert en) <? now); [inversion M; subst; left; exact Hself|].
    destruct (force_renew (en_managed en) (cs_ocsp (en_cs en))) eqn:FR; [|inversion M; subst; left; exact Hself].
    right. unfold force_renew in FR. apply andb_true_iff in FR. exact FR.
  - inversion M; subst. left. exact Hself.
Qed.

Lemma m1_revoked {k} dis now e rn en st l st' cl :
  maintain_one k dis now e rn en st = (l, st', cl) ->
  (forall newc e', rn = ROk newc e' -> c_id newc <> eid en) ->
  en_managed en = true -> (c_expiry (en_cert en) <? now) = false ->
  match k with
  | KSkip => False
  | KManage => is_revoked (cs_ocsp (en_cs en)) = true
  | KTick => is_revoked (cs_ocsp (en_cs en)) = true \/
             exists c0, find_call (eid en) cl = Some c0 /\
                        learned_from dis now e (sget (eid en) st) (en_cert en) c0 = true
  | KHandshake => (find_call (eid en) cl = None /\ is_revoked (cs_ocsp (en_cs en)) = true) \/
             exists c0, find_call (eid en) cl = Some c0 /\
                        learned_from dis now e (sget (eid en) st) (en_cert en) c0 = true
  end ->
  exists stx cl2, do_renew dis now rn stx = (l, st', cl2).
Proof.
  intros M Hn Mg X Hk.
  assert (Hlearn : forall c0, find_call (eid en) cl = Some c0 ->
            learned_from dis now e (sget (eid en) st) (en_cert en) c0 = true ->
            exists stx cl2, do_renew dis now rn stx = (l, st', cl2)).
  { intros c0 Fc Lf.
    destruct (m1_call _ _ _ _ _ _ _ _ _ _ M Hn Fc) as (_ & -> & _ & [([Err|FR2] & _)|(_ & D)]); [| |exact D].
    + apply learned_result in Lf. destruct Lf as [E _]. congruence.
    + apply learned_result in Lf. destruct Lf as [_ R]. unfold force_renew in FR2. rewrite Mg, R in FR2. discriminate. }
  destruct k; cbn [maintain_one] in M.
  - destruct Hk as [Rv|(c0 & Fc & Lf)]; [|eapply Hlearn; eauto].
    unfold tick_one in M. rewrite X in M. unfold force_renew in M. rewrite Mg, Rv in M. cbn in M. eauto.
  - destruct Hk as [(Fn & Rv)|(c0 & Fc & Lf)]; [|eapply Hlearn; eauto].
    unfold hs_one in M. rewrite X, Mg in M. cbn [negb] in M.
    destruct (match cs_ocsp (en_cs en) with Some r => negb (fresh now r) | None => false end).
    + exfalso. cbv zeta in M.
      destruct (force_renew true (cs_ocsp (res_cs (staple dis (en_cert en) (en_cs en) (sget (c_id (en_cert en)) st) e now)))).
      * destruct (do_renew dis now rn _) as [[l2 s2] cl2]. inversion M; subst.
        cbn in Fn. unfold eid in Fn. rewrite Z.eqb_refl in Fn. discriminate.
      * inversion M; subst. cbn in Fn. unfold eid in Fn. rewrite Z.eqb_refl in Fn. discriminate.
    + unfold force_renew in M. rewrite Rv in M. cbn in M. eauto.
  - unfold manage_one in M. rewrite X in M. unfold force_renew in M. rewrite Mg, Hk in M. cbn in M. eauto.
  - destruct Hk.
Qed.

(** ** soundness of what a step attaches *)

Definition sound_from (now : Z) (l : list entry) (en' : entry) : Prop :=
  (exists en, In en l /\ en_cert en' = en_cert en /\ cs_staple (en_cs en') = cs_staple (en_cs en)) \/
  (forall b, cs_staple (en_cs en') = Some b -> attach_ok (en_cert en') now true b = true).

Lemma do_renew_sound dis now rn st l st' cl l0 :
  do_renew dis now rn st = (l, st', cl) -> Forall (sound_from now l0) l.
Proof.
  intros D. destruct (do_renew_spec _ _ _ _ _ _ _ D) as [(-> & _)|(newc & e & -> & H)]; [constructor|].
  cbn in H. destruct H as (-> & _). constructor; [|constructor]. right.
  apply (new_entry_ok dis newc true (CS None None) (sget (c_id newc) st) e now). reflexivity.
Qed.

Lemma maintain_one_sound {k} dis now e rn en st l st' cl :
  maintain_one k dis now e rn en st = (l, st', cl) ->
  Forall (sound_from now [en]) l.
Proof.
  intros M. pose proof (maintain_one_shape k dis now e rn en st) as Sh. rewrite M in Sh.
  assert (Hme : sound_from now [en] en).
  { left. exists en. split; [left; reflexivity|auto]. }
  inversion Sh as [|l0 st0 cl0 X FR D|en1 l0 st2 cl2 X res stx H1 H2]; subst.
  - constructor; [exact Hme|constructor].
  - eapply do_renew_sound; eauto.
  - destruct H2 as [(_ & -> & _ & _)|(_ & D)].
    + constructor; [|constructor]. destruct H1 as [->| ->]; [exact Hme|].
      destruct (staple_attach dis (en_cert en) (en_cs en) (sget (eid en) st) e now) as [(_ & E)|(_ & b' & r & E & A & Sg)].
      * left. exists en. split; [left; reflexivity|]. cbn. fold res in E. auto.
      * right. cbn. fold res in E. intros b Hb. rewrite E in Hb. inversion Hb; subst b'.
        apply attach_ok_spec. exists r. split; [exact A|]. intros _. exact Sg.
    + eapply do_renew_sound; eauto.
Qed.

Lemma sound_from_incl now l1 l2 en' : incl l1 l2 -> sound_from now l1 en' -> sound_from now l2 en'.
Proof.
  intros I [(en & H & E)|H]; [left|right; exact H]. exists en. split; [apply I; exact H|exact E].
Qed.

Lemma maintain_sound {ks} dis now envs rns : forall l st l' st' cl,
  maintain ks dis now envs rns l st = (l', st', cl) ->
  Forall (sound_from now l) l'.
Proof.
  induction l as [|en r IH]; intros st l' st' cl M.
  - cbn in M. inversion M; subst. constructor.
  - cbn [maintain] in M.
    destruct (maintain_one (ks (c_id (en_cert en))) dis now (envs (c_id (en_cert en))) (rns (c_id (en_cert en))) en st) as [[l1 st1] cl1] eqn:M1.
    destruct (maintain ks dis now envs rns r st1) as [[l2 st2] cl2] eqn:M2.
    inversion M; subst. apply Forall_app. split.
    + eapply Forall_impl; [|eapply (maintain_one_sound _ _ _ _ _ _ _ _ _ M1)].
      intros a. apply sound_from_incl. intros x [<-|[]]. left. reflexivity.
    + eapply Forall_impl; [|eapply (IH _ _ _ _ M2)].
      intros a. apply sound_from_incl. apply incl_tl. apply incl_refl.
Qed.

Lemma staple_kept_in pre en : NoDup (ids pre) -> In en pre -> staple_kept pre en = true.
Proof.
  intros N I. unfold staple_kept. fold (eid en). rewrite (find_entry_in en pre N I). apply oblob_eqb_refl.
Qed.

(** S1 holds of every step *)
Theorem step_sound_holds s o :
  NoDup (ids (cache s)) ->
  step_sound s o (fst (step s o)) = true.
Proof.
  intros N. unfold step_sound. apply forallb_forall. intros en' I.
  destruct (cs_staple (en_cs en')) as [b|] eqn:B; [|reflexivity].
  assert (Hold : In en' (cache s) -> staple_kept (cache s) en' ||
     match op_time o with Some now => attach_ok (en_cert en') now true b | None => false end = true).
  { intros H. rewrite (staple_kept_in _ _ N H). reflexivity. }
  destruct o as [cid v|c m dis e now|ks dis now envs rns|]; cbn in I.
  - auto.
  - destruct (has_cert (c_id c) (cache s)); [auto|]. apply in_app_or in I. destruct I as [I|[<-|[]]]; [auto|].
    apply orb_true_iff. right. cbn [op_time].
    apply (new_entry_ok dis c m (CS None None) (sget (c_id c) (stor s)) e now); [reflexivity|exact B].
  - destruct (maintain ks dis now envs rns (cache s) (stor s)) as [[l st] cl] eqn:M. cbn in I.
    pose proof (maintain_sound _ _ _ _ _ _ _ _ _ M) as F. rewrite Forall_forall in F.
    destruct (F _ I) as [(en & Hin & Ec & Es)|H].
    + apply orb_true_iff. left. unfold staple_kept. rewrite Ec. fold (eid en).
      rewrite (find_entry_in en _ N Hin). rewrite Es. apply oblob_eqb_refl.
    + apply orb_true_iff. right. cbn [op_time]. apply H. exact B.
  - destruct I.
Qed.

(** ** S2 and S5: not fatal; revoked certificates are replaced or leave *)

Lemma new_fresh_neq l rns en newc e' :
  new_fresh l rns -> In en l -> rns (eid en) = ROk newc e' ->
  forall en2, In en2 l -> c_id newc <> eid en2.
Proof.
  intros F I E en2 I2 H. apply (F en newc e' I E). rewrite H. apply in_map. exact I2.
Qed.

Theorem step_not_fatal_holds s o :
  NoDup (ids (cache s)) ->
  match o with OMaintain _ _ _ _ rns => new_fresh (cache s) rns | _ => True end ->
  step_not_fatal s o (fst (step s o)) (snd (step s o)) = true.
Proof.
  intros N F. destruct o as [cid v|c m dis e now|ks dis now envs rns|]; cbn [step_not_fatal].
  - cbn. apply forallb_forall. intros en I. apply has_cert_in. exact (in_map eid _ _ I).
  - cbn [step fst cache]. destruct (has_cert (c_id c) (cache s)) eqn:H; [exact H|].
    rewrite has_cert_app. cbn. rewrite Z.eqb_refl. apply orb_true_r.
  - cbn [step]. destruct (maintain ks dis now envs rns (cache s) (stor s)) as [[l' st'] cl] eqn:M. cbn [fst snd cache].
    apply forallb_forall. intros en I. destruct (in_split _ _ I) as (la & lb & E).
    rewrite E in M, N, F.
    destruct (maintain_focus _ _ _ _ _ _ _ _ _ _ _ M N F) as (stk & lk & stk' & clk & M1 & P2 & P3 & P4 & P5 & P6).
    fold (eid en). cbv zeta. fold (eid en).
    assert (Hgen : is_revoked (cs_ocsp (en_cs en)) = true \/
              (exists c0, find_call (eid en) clk = Some c0 /\
                 learned_from dis now (envs (eid en)) (sget (eid en) stk) (en_cert en) c0 = true) ->
              learned_revoked dis now (envs (eid en)) s cl en = true).
    { intros [R|(c0 & Fc & Lf)]; unfold learned_revoked.
      - rewrite R. reflexivity.
      - fold (eid en). rewrite P4, Fc. cbn [stor]. rewrite <- P2, Lf. apply orb_true_r. }
    destruct (m1_not_fatal _ _ _ _ _ _ _ _ _ M1) as [H|(Mg & Hk)].
    + rewrite P5, H. reflexivity.
    + rewrite Mg. cbn [andb]. apply orb_true_iff. right.
      destruct (ks (eid en)); cbn [may_drop].
      * apply Hgen. exact Hk.
      * apply Hgen. exact Hk.
      * exact Hk.
      * destruct Hk.
  - reflexivity.
Qed.

Theorem step_revoked_holds s o :
  NoDup (ids (cache s)) ->
  match o with OMaintain _ _ _ _ rns => new_fresh (cache s) rns | _ => True end ->
  step_revoked s o (fst (step s o)) (snd (step s o)) = true.
Proof.
  intros N F. destruct o as [cid v|c m dis e now|ks dis now envs rns|]; cbn [step_revoked]; try reflexivity.
  cbn [step]. destruct (maintain ks dis now envs rns (cache s) (stor s)) as [[l' st'] cl] eqn:M. cbn [fst snd cache].
  apply forallb_forall. intros en I. fold (eid en).
  destruct (en_managed en && negb (c_expiry (en_cert en) <? now) &&
            must_renew (ks (eid en)) dis now (envs (eid en)) s cl en) eqn:Prem; [|reflexivity].
  cbn [negb orb]. apply andb_true_iff in Prem. destruct Prem as [Prem Lr].
  apply andb_true_iff in Prem. destruct Prem as [Mg X]. apply negb_true_iff in X.
  pose proof F as F0. pose proof N as N0.
  destruct (in_split _ _ I) as (la & lb & E). rewrite E in M, N, F.
  destruct (maintain_focus _ _ _ _ _ _ _ _ _ _ _ M N F) as (stk & lk & stk' & clk & M1 & P2 & P3 & P4 & P5 & P6).
  assert (Hn : forall newc e', rns (eid en) = ROk newc e' -> c_id newc <> eid en).
  { intros newc e' En. eapply new_fresh_neq; eauto. }
  assert (Hlr : learned_revoked dis now (envs (eid en)) s cl en = true ->
               is_revoked (cs_ocsp (en_cs en)) = true \/
               exists c0, find_call (eid en) clk = Some c0 /\
                          learned_from dis now (envs (eid en)) (sget (eid en) stk) (en_cert en) c0 = true).
  { intros L0. unfold learned_revoked in L0. apply orb_true_iff in L0. destruct L0 as [R|L0]; [left; exact R|right].
    fold (eid en) in L0. rewrite P4 in L0. destruct (find_call (eid en) clk) as [c0|]; [|discriminate].
    exists c0. split; [reflexivity|]. rewrite P2. exact L0. }
  assert (Hl : match ks (eid en) with
               | KSkip => False
               | KManage => is_revoked (cs_ocsp (en_cs en)) = true
               | KTick => is_revoked (cs_ocsp (en_cs en)) = true \/
                   exists c0, find_call (eid en) clk = Some c0 /\
                     learned_from dis now (envs (eid en)) (sget (eid en) stk) (en_cert en) c0 = true
               | KHandshake => (find_call (eid en) clk = None /\ is_revoked (cs_ocsp (en_cs en)) = true) \/
                   exists c0, find_call (eid en) clk = Some c0 /\
                     learned_from dis now (envs (eid en)) (sget (eid en) stk) (en_cert en) c0 = true
               end).
  { destruct (ks (eid en)); cbn [must_renew] in Lr.
    - apply Hlr. exact Lr.
    - fold (eid en) in Lr. rewrite P4 in Lr. destruct (find_call (eid en) clk) as [c0|].
      + right. exists c0. split; [reflexivity|]. cbn [stor] in Lr. rewrite P2. exact Lr.
      + left. auto.
    - exact Lr.
    - discriminate. }
  destruct (m1_revoked _ _ _ _ _ _ _ _ _ M1 Hn Mg X Hl) as (stx & cl2 & D).
  destruct (do_renew_spec _ _ _ _ _ _ _ D) as [(El & _ & _ & Er)|(newc & e0 & Er & H)].
  - rewrite P5, El. cbn. destruct Er as [->| ->]; reflexivity.
  - rewrite Er. cbn in H. destruct H as (El & _ & _). rewrite P5, El.
    apply andb_true_iff. split.
    + cbn. destruct (c_id newc =? eid en) eqn:Q; [apply Z.eqb_eq in Q; exfalso; exact (Hn _ _ Er Q)|reflexivity].
    + apply has_cert_in. apply in_map_iff.
      eexists. split; [|apply P6; rewrite El; left; reflexivity]. reflexivity.
Qed.

(** ** S3 and S4: reuse of a fresh persisted staple; deletion of a corrupt one *)

Lemma reusable_inv c now st :
  reusable c now st = true ->
  exists b r, st = Some b /\ stored_parse c b = Some r /\ fresh now r = true /\ valid_for c now r = true.
Proof.
  unfold reusable. destruct st as [b|]; [|discriminate]. destruct (stored_parse c b) as [r|] eqn:P; [|discriminate].
  intros H. apply andb_true_iff in H. destruct H. exists b, r. auto.
Qed.

Lemma reusable_not_seen dis c cs st e now :
  reusable c now st && negb (e_load_err e) && negb dis = true ->
  res_seen (staple dis c cs st e now) = false.
Proof.
  intros H. apply andb_true_iff in H. destruct H as [H D]. apply andb_true_iff in H. destruct H as [R L].
  apply negb_true_iff in D, L. subst dis.
  destruct (reusable_inv _ _ _ R) as (b & r & -> & P & F & V).
  apply (fresh_persisted_reused c cs e now b r P F V L).
Qed.

Theorem step_reuse_holds s o :
  NoDup (ids (cache s)) ->
  match o with OMaintain _ _ _ _ rns => new_fresh (cache s) rns | _ => True end ->
  step_reuse s o (fst (step s o)) (snd (step s o)) = true.
Proof.
  intros N F. destruct o as [cid v|c m dis e now|ks dis now envs rns|]; cbn [step_reuse]; try reflexivity.
  - destruct (reusable c now (sget (c_id c) (stor s)) && negb (e_load_err e) && negb dis) eqn:Prem; [|reflexivity].
    cbn [negb orb]. cbn [step snd fst]. unfold call_of. cbn [find_call find cl_cert]. rewrite Z.eqb_refl. cbn [cl_seen cache].
    rewrite (reusable_not_seen _ _ _ _ _ _ Prem). cbn [negb andb].
    destruct (has_cert (c_id c) (cache s)) eqn:H; [reflexivity|]. cbn [orb cache].
    apply andb_true_iff in Prem. destruct Prem as [Prem D]. apply andb_true_iff in Prem. destruct Prem as [R L].
    apply negb_true_iff in D, L. subst dis.
    destruct (reusable_inv _ _ _ R) as (b & r & Es & P & Fr & V). rewrite Es.
    rewrite (find_entry_app_r _ _ _ H). cbn [find_entry find en_cert]. rewrite Z.eqb_refl. cbn [en_cs].
    destruct (attach_ok c now false b) eqn:A; [|reflexivity]. cbn [negb orb].
    apply attach_ok_spec in A. destruct A as (r' & (P' & G & _ & _ & _ & X & _) & _).
    destruct (stored_parse_some _ _ _ P) as [Pb _]. assert (r' = r) by congruence. subst r'.
    destruct (fresh_persisted_reused c (CS None None) e now b r P Fr V L) as (_ & _ & _ & _ & Hx).
    destruct (Hx X) as (_ & _ & Hs). rewrite (Hs G). apply oblob_eqb_refl.
  - cbn [step]. destruct (maintain ks dis now envs rns (cache s) (stor s)) as [[l' st'] cl] eqn:M. cbn [fst snd cache].
    apply forallb_forall. intros en I. fold (eid en).
    destruct (reusable (en_cert en) now (sget (eid en) (stor s)) && negb (e_load_err (envs (eid en))) && negb dis) eqn:Prem; [|reflexivity].
    cbn [negb orb].
    destruct (in_split _ _ I) as (la & lb & E). pose proof F as F0. rewrite E in M, N, F.
    destruct (maintain_focus _ _ _ _ _ _ _ _ _ _ _ M N F) as (stk & lk & stk' & clk & M1 & P2 & P3 & P4 & P5 & P6).
    rewrite P4. destruct (find_call (eid en) clk) as [c0|] eqn:Fc; [|reflexivity].
    assert (Hn : forall newc e', rns (eid en) = ROk newc e' -> c_id newc <> eid en).
    { intros newc e' En. eapply new_fresh_neq; eauto; apply in_or_app; right; left; reflexivity. }
    destruct (m1_call _ _ _ _ _ _ _ _ _ _ M1 Hn Fc) as (_ & -> & _). cbn [call_of cl_seen].
    rewrite P2. rewrite (reusable_not_seen _ _ _ _ _ _ Prem). reflexivity.
Qed.

Lemma corrupt_inv c st :
  corrupt c st = true -> c_chain c = true /\ exists b, st = Some b /\ stored_parse c b = None.
Proof.
  unfold corrupt. destruct (c_chain c); [|discriminate]. cbn [andb]. split; [reflexivity|].
  destruct st as [b|]; [|discriminate]. destruct (stored_parse c b) eqn:P; [discriminate|]. eauto.
Qed.

Lemma corrupt_store_changes dis c cs st e now :
  corrupt c st && negb (e_load_err e) && negb (e_del_err e) && negb dis = true ->
  oblob_eqb (res_store (staple dis c cs st e now)) st = false.
Proof.
  intros H. apply andb_true_iff in H. destruct H as [H D]. apply andb_true_iff in H. destruct H as [H De].
  apply andb_true_iff in H. destruct H as [C L]. apply negb_true_iff in D, L, De. subst dis.
  destruct (corrupt_inv _ _ C) as (Ch & b & -> & P).
  destruct (corrupt_persisted_deleted c cs e now b Ch P L De) as (_ & [E|(b' & r' & E & _ & (P' & _) & Sg)]); rewrite E.
  - reflexivity.
  - eapply oblob_eqb_corrupt; eauto.
Qed.

Theorem step_corrupt_holds s o :
  NoDup (ids (cache s)) ->
  match o with OMaintain _ _ _ _ rns => new_fresh (cache s) rns | _ => True end ->
  step_corrupt s o (fst (step s o)) (snd (step s o)) = true.
Proof.
  intros N F. destruct o as [cid v|c m dis e now|ks dis now envs rns|]; cbn [step_corrupt]; try reflexivity.
  - cbn [step snd fst stor]. unfold call_of. cbn [find_call find cl_cert]. rewrite Z.eqb_refl. rewrite andb_true_r.
    destruct (corrupt c (sget (c_id c) (stor s)) && negb (e_load_err e) && negb (e_del_err e) && negb dis) eqn:Prem; [|reflexivity].
    cbn [negb orb]. rewrite sget_sset_same. rewrite (corrupt_store_changes _ _ _ _ _ _ Prem). reflexivity.
  - cbn [step]. destruct (maintain ks dis now envs rns (cache s) (stor s)) as [[l' st'] cl] eqn:M. cbn [fst snd cache stor].
    apply forallb_forall. intros en I. fold (eid en).
    destruct (in_split _ _ I) as (la & lb & E). pose proof F as F0. rewrite E in M, N, F.
    destruct (maintain_focus _ _ _ _ _ _ _ _ _ _ _ M N F) as (stk & lk & stk' & clk & M1 & P2 & P3 & P4 & P5 & P6).
    rewrite P4. destruct (find_call (eid en) clk) as [c0|] eqn:Fc; [|rewrite andb_false_r; reflexivity].
    rewrite andb_true_r.
    destruct (corrupt (en_cert en) (sget (eid en) (stor s)) && negb (e_load_err (envs (eid en))) && negb (e_del_err (envs (eid en))) && negb dis) eqn:Prem; [|reflexivity].
    cbn [negb orb].
    assert (Hn : forall newc e', rns (eid en) = ROk newc e' -> c_id newc <> eid en).
    { intros newc e' En. eapply new_fresh_neq; eauto; apply in_or_app; right; left; reflexivity. }
    destruct (m1_call _ _ _ _ _ _ _ _ _ _ M1 Hn Fc) as (_ & _ & Hst & _).
    rewrite P3, Hst, P2. rewrite (corrupt_store_changes _ _ _ _ _ _ Prem). reflexivity.
Qed.

(** ** S6: what a step persists *)

Definition persist_ok (now : Z) (L : list entry) (k : Z) (a a' : option blob) : Prop :=
  a' = a \/ a' = None \/
  exists b en, a' = Some b /\ In en L /\ eid en = k /\ attach_ok (en_cert en) now true b = true.

Lemma persist_ok_trans now L k a a' a'' :
  persist_ok now L k a a' -> persist_ok now L k a' a'' -> persist_ok now L k a a''.
Proof.
  intros H1 [->|[->|H2]]; [exact H1|right; left; reflexivity|right; right; exact H2].
Qed.

Lemma persist_ok_incl now L L' k a a' : incl L L' -> persist_ok now L k a a' -> persist_ok now L' k a a'.
Proof.
  intros I [H|[H|(b & en & H & Hin & E & A)]]; [left; exact H|right; left; exact H|].
  right; right. exists b, en. auto.
Qed.

(** a call on the certificate of entry [en] *)
Lemma staple_persist_ok dis en cs st e now L k :
  In en L ->
  persist_ok now L k (sget k st)
    (sget k (sset (eid en) (res_store (staple dis (en_cert en) cs (sget (eid en) st) e now)) st)).
Proof.
  intros I. destruct (Z.eq_dec k (eid en)) as [->|Nk].
  - rewrite sget_sset_same.
    destruct (persisted_is_stapled dis (en_cert en) cs (sget (eid en) st) e now) as [E|[(E & _)|(b & r & E & _ & _ & A & S)]].
    + left. exact E.
    + right; left. exact E.
    + right; right. exists b, en. repeat split; auto. apply attach_ok_spec. exists r. auto.
  - left. apply sget_sset_other. exact Nk.
Qed.

Lemma do_renew_persist_ok dis now rn st l st' cl k L :
  do_renew dis now rn st = (l, st', cl) -> incl l L -> persist_ok now L k (sget k st) (sget k st').
Proof.
  intros D I. destruct (do_renew_spec _ _ _ _ _ _ _ D) as [(_ & -> & _)|(newc & e & _ & H)]; [left; reflexivity|].
  cbn in H. destruct H as (El & -> & _).
  set (res := staple dis newc (CS None None) (sget (c_id newc) st) e now) in *.
  apply (staple_persist_ok dis (Entry newc true (res_cs res) now) (CS None None) st e now L k).
  apply I. rewrite El. left. reflexivity.
Qed.

Lemma maintain_one_persist_ok {kd} dis now e rn en st l st' cl k L :
  maintain_one kd dis now e rn en st = (l, st', cl) -> In en L -> incl l L ->
  persist_ok now L k (sget k st) (sget k st').
Proof.
  intros M Ien Il. pose proof (maintain_one_shape kd dis now e rn en st) as Sh. rewrite M in Sh.
  inversion Sh as [|l0 st0 cl0 X FR D|en1 l0 st2 cl2 X res stx H1 H2]; subst.
  - left. reflexivity.
  - eapply do_renew_persist_ok; eauto.
  - assert (Hx : persist_ok now L k (sget k st) (sget k stx)).
    { subst stx res. apply staple_persist_ok. exact Ien. }
    destruct H2 as [(_ & _ & -> & _)|(_ & D)]; [exact Hx|].
    eapply persist_ok_trans; [exact Hx|]. eapply do_renew_persist_ok; eauto.
Qed.

Lemma maintain_persist_ok {ks} dis now envs rns k : forall l st l' st' cl L,
  maintain ks dis now envs rns l st = (l', st', cl) -> incl l L -> incl l' L ->
  persist_ok now L k (sget k st) (sget k st').
Proof.
  induction l as [|en r IH]; intros st l' st' cl L M I I'.
  - cbn in M. inversion M; subst. left. reflexivity.
  - cbn [maintain] in M.
    destruct (maintain_one (ks (c_id (en_cert en))) dis now (envs (c_id (en_cert en))) (rns (c_id (en_cert en))) en st) as [[l1 st1] cl1] eqn:M1.
    destruct (maintain ks dis now envs rns r st1) as [[l2 st2] cl2] eqn:M2.
    inversion M; subst. eapply persist_ok_trans.
    + eapply (maintain_one_persist_ok _ _ _ _ _ _ _ _ _ k L M1).
      * apply I. left. reflexivity.
      * intros x Hx. apply I'. apply in_or_app. left. exact Hx.
    + eapply IH; [exact M2| |].
      * intros x Hx. apply I. right. exact Hx.
      * intros x Hx. apply I'. apply in_or_app. right. exact Hx.
Qed.

Theorem step_persist_holds s o : step_persist s o (fst (step s o)) = true.
Proof.
  destruct o as [cid v|c m dis e now|ks dis now envs rns|]; cbn [step_persist]; try reflexivity.
  - cbn [step fst stor]. apply forallb_forall. intros k _.
    destruct (Z.eq_dec k (c_id c)) as [->|Nk].
    + rewrite sget_sset_same.
      destruct (persisted_is_stapled dis c (CS None None) (sget (c_id c) (stor s)) e now) as [E|[(E & _)|(b & r & E & _ & _ & A & S)]]; rewrite E.
      * rewrite oblob_eqb_refl. reflexivity.
      * apply orb_true_r.
      * apply orb_true_iff. right. rewrite Z.eqb_refl. apply attach_ok_spec. exists r. auto.
    + rewrite sget_sset_other by exact Nk. rewrite oblob_eqb_refl. reflexivity.
  - cbn [step]. destruct (maintain ks dis now envs rns (cache s) (stor s)) as [[l' st'] cl] eqn:M. cbn [fst cache stor].
    apply forallb_forall. intros k _.
    destruct (maintain_persist_ok dis now envs rns k _ _ _ _ _ (cache s ++ l') M) as [E|[E|(b & en & E & I & Ek & A)]].
    + apply incl_appl. apply incl_refl.
    + apply incl_appr. apply incl_refl.
    + rewrite E, oblob_eqb_refl. reflexivity.
    + rewrite E. apply orb_true_r.
    + rewrite E. apply orb_true_iff. right. apply existsb_exists. exists en. split; [exact I|].
      unfold eid in Ek. rewrite Ek, Z.eqb_refl. exact A.
  - cbn [step fst stor]. apply forallb_forall. intros k _. apply oblob_eqb_refl.
Qed.

(** ** well-formedness is kept along a history *)

(** the certificates a history introduces are new: a renewal never yields a certificate that is
    in the cache, and two renewals of one pass yield different certificates *)
Definition op_wf (s : sys) (o : op) : Prop :=
  match o with
  | OMaintain _ _ _ _ rns =>
      new_fresh (cache s) rns /\
      forall en1 en2 n1 e1 n2 e2, In en1 (cache s) -> In en2 (cache s) -> eid en1 <> eid en2 ->
        rns (eid en1) = ROk n1 e1 -> rns (eid en2) = ROk n2 e2 -> c_id n1 <> c_id n2
  | _ => True
  end.

Lemma maintain_ids {ks} dis now envs rns : forall l st l' st' cl,
  maintain ks dis now envs rns l st = (l', st', cl) ->
  forall id, In id (ids l') ->
    In id (ids l) \/ exists en newc e', In en l /\ rns (eid en) = ROk newc e' /\ id = c_id newc.
Proof.
  induction l as [|en r IH]; intros st l' st' cl M id I.
  - cbn in M. inversion M; subst. destruct I.
  - cbn [maintain] in M.
    destruct (maintain_one (ks (c_id (en_cert en))) dis now (envs (c_id (en_cert en))) (rns (c_id (en_cert en))) en st) as [[l1 st1] cl1] eqn:M1.
    destruct (maintain ks dis now envs rns r st1) as [[l2 st2] cl2] eqn:M2.
    inversion M; subst. unfold ids in I. rewrite map_app in I. apply in_app_or in I. destruct I as [I|I].
    + pose proof (maintain_one_entries _ _ _ _ _ _ _ _ _ M1) as F. rewrite Forall_forall in F.
      apply in_map_iff in I. destruct I as (en' & <- & I).
      destruct (F _ I) as [(Ec & _)|(_ & e' & E)].
      * left. left. unfold eid. rewrite Ec. reflexivity.
      * right. exists en, (en_cert en'), e'. split; [left; reflexivity|]. split; [exact E|reflexivity].
    + destruct (IH _ _ _ _ M2 id I) as [H|(en0 & newc & e' & H & E & Ei)].
      * left. right. exact H.
      * right. exists en0, newc, e'. split; [right; exact H|auto].
Qed.

Lemma maintain_nodup {ks} dis now envs rns : forall l st l' st' cl,
  maintain ks dis now envs rns l st = (l', st', cl) ->
  NoDup (ids l) ->
  (forall en newc e', In en l -> rns (eid en) = ROk newc e' -> ~ In (c_id newc) (ids l)) ->
  (forall en1 en2 n1 e1 n2 e2, In en1 l -> In en2 l -> eid en1 <> eid en2 ->
     rns (eid en1) = ROk n1 e1 -> rns (eid en2) = ROk n2 e2 -> c_id n1 <> c_id n2) ->
  NoDup (ids l').
Proof.
  induction l as [|en r IH]; intros st l' st' cl M N F G.
  - cbn in M. inversion M; subst. constructor.
  - cbn [maintain] in M.
    destruct (maintain_one (ks (c_id (en_cert en))) dis now (envs (c_id (en_cert en))) (rns (c_id (en_cert en))) en st) as [[l1 st1] cl1] eqn:M1.
    destruct (maintain ks dis now envs rns r st1) as [[l2 st2] cl2] eqn:M2.
    inversion M; subst. inversion N as [|? ? Nx Nr]; subst.
    assert (N2 : NoDup (ids l2)).
    { eapply IH; [exact M2|exact Nr| |].
      - intros y newc e' Hy E Hi. apply (F y newc e'); [right; exact Hy|exact E|right; exact Hi].
      - intros y1 y2 n1 e1 n2 e2 H1 H2. apply G; right; assumption. }
    (* l1 has at most one entry *)
    pose proof (maintain_one_shape (ks (c_id (en_cert en))) dis now (envs (c_id (en_cert en))) (rns (c_id (en_cert en))) en st) as Sh.
    rewrite M1 in Sh.
    assert (H1 : l1 = [] \/ (exists en1, l1 = [en1] /\ en_cert en1 = en_cert en) \/
                 (exists en1 e', l1 = [en1] /\ rns (eid en) = ROk (en_cert en1) e')).
    { assert (Hren : forall l st0 st' cl, do_renew dis now (rns (eid en)) st0 = (l, st', cl) ->
                l = [] \/ exists en1 e', l = [en1] /\ rns (eid en) = ROk (en_cert en1) e').
      { intros l0 st0 st0' cl0 D. destruct (do_renew_spec _ _ _ _ _ _ _ D) as [(-> & _)|(newc & e0 & E & H)]; [left; reflexivity|].
        cbn in H. destruct H as (-> & _). right. eexists. exists e0. split; [reflexivity|exact E]. }
      inversion Sh as [|l0 st0 cl0 X FR D|en1 l0 st2' cl2' X res stx Hen1 H2]; subst.
      - right; left. exists en. auto.
      - destruct (Hren _ _ _ _ D) as [H|H]; auto.
      - destruct H2 as [(_ & -> & _ & _)|(_ & D)].
        + right; left. exists en1. split; [reflexivity|]. destruct Hen1 as [->| ->]; reflexivity.
        + destruct (Hren _ _ _ _ D) as [H|H]; auto. }
    unfold ids. rewrite map_app. fold (ids l1) (ids l2).
    destruct H1 as [->|[(en1 & -> & Ec)|(en1 & e' & -> & E)]]; cbn [ids map app].
    + exact N2.
    + constructor; [|exact N2]. intros Hi. fold (ids l2) in Hi.
      assert (Eid : eid en1 = eid en) by (unfold eid; rewrite Ec; reflexivity). rewrite Eid in Hi.
      destruct (maintain_ids _ _ _ _ _ _ _ _ _ M2 _ Hi) as [H|(y & newc & e' & Hy & E & Ei)].
      * exact (Nx H).
      * apply (F y newc e'); [right; exact Hy|exact E|]. rewrite <- Ei. left. reflexivity.
    + constructor; [|exact N2]. intros Hi. fold (ids l2) in Hi. change (eid en1) with (c_id (en_cert en1)) in Hi.
      destruct (maintain_ids _ _ _ _ _ _ _ _ _ M2 _ Hi) as [H|(y & newc & e2 & Hy & E2 & Ei)].
      * apply (F en (en_cert en1) e'); [left; reflexivity|exact E|right; exact H].
      * apply (G en y (en_cert en1) e' newc e2); [left; reflexivity|right; exact Hy| |exact E|exact E2|exact Ei].
        intros Q. apply Nx. rewrite Q. exact (in_map eid _ _ Hy).
Qed.

Lemma NoDup_snoc {A} (l : list A) x : NoDup l -> ~ In x l -> NoDup (l ++ [x]).
Proof.
  induction l as [|y r IH]; intros N H; cbn.
  - constructor; [intros []|constructor].
  - inversion N as [|? ? Ny Nr]; subst. constructor.
    + intros I. apply in_app_or in I. destruct I as [I|[->|[]]]; [exact (Ny I)|]. apply H. left. reflexivity.
    + apply IH; [exact Nr|]. intros I. apply H. right. exact I.
Qed.

Lemma step_nodup s o :
  NoDup (ids (cache s)) -> op_wf s o -> NoDup (ids (cache (fst (step s o)))).
Proof.
  intros N W. destruct o as [cid v|c m dis e now|ks dis now envs rns|]; cbn [step fst cache].
  - exact N.
  - destruct (has_cert (c_id c) (cache s)) eqn:H; [exact N|].
    unfold ids. rewrite map_app. cbn. apply NoDup_snoc; [exact N|].
    apply has_cert_false. exact H.
  - destruct (maintain ks dis now envs rns (cache s) (stor s)) as [[l' st'] cl] eqn:M. cbn [fst cache].
    destruct W as [F G]. eapply maintain_nodup; eauto.
  - constructor.
Qed.

(** ** every step of every well-formed history satisfies the specification *)

Fixpoint all_steps (P : sys -> op -> sys -> list call -> bool) (s : sys) (ops : list op) : bool :=
  match ops with
  | [] => true
  | o :: r => P s o (fst (step s o)) (snd (step s o)) && all_steps P (fst (step s o)) r
  end.

Fixpoint run_wf (s : sys) (ops : list op) : Prop :=
  match ops with
  | [] => True
  | o :: r => op_wf s o /\ run_wf (fst (step s o)) r
  end.

Theorem spec_step_holds s o :
  NoDup (ids (cache s)) -> op_wf s o ->
  spec_step s o (fst (step s o)) (snd (step s o)) = true.
Proof.
  intros N W. unfold spec_step.
  assert (F : match o with OMaintain _ _ _ _ rns => new_fresh (cache s) rns | _ => True end).
  { destruct o; auto. destruct W; assumption. }
  rewrite step_sound_holds, step_not_fatal_holds, step_reuse_holds, step_corrupt_holds,
    step_revoked_holds, step_persist_holds; auto.
Qed.

Theorem all_steps_spec : forall ops s,
  NoDup (ids (cache s)) -> run_wf s ops ->
  all_steps spec_step s ops = true.
Proof.
  induction ops as [|o r IH]; intros s N W; [reflexivity|]. cbn [all_steps].
  destruct W as (Wo & Wr). rewrite spec_step_holds by assumption. cbn [andb].
  apply IH; [apply step_nodup; assumption|exact Wr].
Qed.

(** * Part 4: corollaries in the words of the property *)

(** the monitor of a single call holds of the model *)
Theorem spec_call_holds dis c cs st e now :
  spec_call dis c cs st e now (staple dis c cs st e now) = true.
Proof.
  unfold spec_call. repeat (apply andb_true_iff; split).
  - unfold call_sound. destruct (cs_staple (res_cs (staple dis c cs st e now))) as [b|] eqn:B; [|reflexivity].
    destruct (staple_attach dis c cs st e now) as [(_ & E)|(_ & b' & r & E & A & Sg)].
    + rewrite <- E, B. rewrite oblob_eqb_refl. reflexivity.
    + rewrite E in B. inversion B; subst b'. apply orb_true_iff. right. apply attach_ok_spec. exists r. auto.
  - unfold call_reuse.
    destruct (reusable c now st && negb (e_load_err e) && negb dis) eqn:Prem; [|reflexivity]. cbn [negb orb].
    apply andb_true_iff in Prem. destruct Prem as [Prem D]. apply andb_true_iff in Prem. destruct Prem as [R L].
    apply negb_true_iff in D, L. subst dis. destruct (reusable_inv _ _ _ R) as (b & r & -> & P & F & V).
    destruct (fresh_persisted_reused c cs e now b r P F V L) as (H1 & H2 & H3 & _ & H5). cbn zeta in *.
    rewrite H1, H2, H3, oblob_eqb_refl. cbn [negb andb].
    destruct (attach_ok c now false b) eqn:A; [|reflexivity]. cbn [negb orb].
    apply attach_ok_spec in A. destruct A as (r' & (P' & G & _ & _ & _ & X & _) & _).
    destruct (stored_parse_some _ _ _ P) as [Pb _]. assert (r' = r) by congruence. subst r'. destruct (H5 X) as (_ & _ & Hs). rewrite (Hs G). apply oblob_eqb_refl.
  - unfold call_corrupt.
    destruct (corrupt c st && negb (e_load_err e) && negb (e_del_err e) && negb dis) eqn:Prem; [|reflexivity].
    rewrite (corrupt_store_changes _ _ _ _ _ _ Prem). reflexivity.
  - unfold call_persist.
    destruct (persisted_is_stapled dis c cs st e now) as [E|[(E & _)|(b & r & E & Es & _ & A & Sg)]].
    + rewrite E, oblob_eqb_refl. reflexivity.
    + rewrite E. apply orb_true_r.
    + rewrite E. apply orb_true_iff. right. rewrite Es, oblob_eqb_refl, andb_true_r.
      apply attach_ok_spec. exists r. auto.
Qed.

(** caching a certificate succeeds whatever the responder and the storage do *)
Theorem cache_always_caches s c m dis e now :
  let s' := fst (step s (OCache c m dis e now)) in
  has_cert (c_id c) (cache s') = true /\
  (has_cert (c_id c) (cache s) = false ->
   exists en, In en (cache s') /\ en_cert en = c /\ en_managed en = m).
Proof.
  cbn [step fst cache]. destruct (has_cert (c_id c) (cache s)) eqn:H.
  - split; [exact H|discriminate].
  - split.
    + rewrite has_cert_app. cbn. rewrite Z.eqb_refl. apply orb_true_r.
    + intros _. eexists. split; [apply in_or_app; right; left; reflexivity|]. auto.
Qed.

(** persisted by one process, reused by the next without asking the responder, whatever the
    responder would have said *)
Theorem persisted_staple_reused_after_restart s c m e now b r m' e' now' :
  (* first process: the responder's answer is stapled and persisted *)
  let s1 := fst (step s (OCache c m false e now)) in
  sget (c_id c) (stor s1) = Some b -> stored_parse c b = Some r -> r_status r = Good ->
  r_serial r = c_serial c -> r_next r <= c_expiry c ->
  (* second process, while the response is in the first half of its validity period *)
  r_this r <= now' -> fresh now' r = true -> responder_ok now' r = true -> e_load_err e' = false ->
  let st2 := step (fst (step s1 ORestart)) (OCache c m' false e' now') in
  (exists en, cache (fst st2) = [en] /\ en_cert en = c /\ cs_staple (en_cs en) = Some b) /\
  (forall cl, In cl (snd st2) -> cl_seen cl = false) /\
  sget (c_id c) (stor (fst st2)) = Some b.
Proof.
  intros s1 Hst P G Ser X T F RO L. cbn [step fst snd cache stor has_cert existsb app].
  assert (V : valid_for c now' r = true).
  { apply valid_for_spec. repeat split; auto. right. apply fresh_not_expired; assumption. }
  rewrite Hst.
  destruct (fresh_persisted_reused c (CS None None) e' now' b r P F V L) as (_ & H2 & H3 & _ & H5).
  cbn zeta in *. destruct (H5 X) as (_ & _ & Hs). repeat split.
  - eexists. split; [reflexivity|]. split; [reflexivity|]. cbn. apply Hs. exact G.
  - intros cl [<-|[]]. cbn. exact H2.
  - rewrite sget_sset_same. exact H3.
Qed.

(** a verified, current Revoked answer for a managed certificate whose status is due for a
    refresh makes the certificate leave the cache in the same pass; the replacement, if one
    could be obtained and loaded, is in the cache *)
Lemma staple_revoked_answer c cs st e now b r :
  c_url c = true -> reusable c now st = false -> e_ans e = ABytes b -> parse_issuer b = Some r ->
  r_status r = Revoked -> valid_for c now r = true -> r_next r <= c_expiry c ->
  let res := staple false c cs st e now in
  res_err res = false /\ cs_ocsp (res_cs res) = Some r /\ res_seen res = true.
Proof.
  intros U NR A P S V X. apply Z.leb_le in X.
  assert (Hask : forall st1 ops, let res := ask c cs st1 ops e now in
            res_err res = false /\ cs_ocsp (res_cs res) = Some r /\ res_seen res = true).
  { intros st1 ops. unfold ask. rewrite U, A, P. cbn [negb].
    rewrite (finish_revoked _ _ _ _ _ _ _ _ _ _ _ V X S). cbn. auto. }
  unfold staple. destruct (e_load_err e || negb (c_chain c)); [apply Hask|].
  destruct st as [b0|]; [|apply Hask]. unfold reusable in NR.
  destruct (stored_parse c b0) as [r0|]; [|apply Hask]. rewrite NR. apply Hask.
Qed.

Theorem revoked_answer_replaced_or_evicted s now envs rns en b r :
  NoDup (ids (cache s)) -> new_fresh (cache s) rns -> In en (cache s) ->
  let c := en_cert en in
  en_managed en = true -> c_expiry c >= now -> c_url c = true ->
  (* the recorded status is due for a refresh, and no persisted staple stands in *)
  match cs_ocsp (en_cs en) with
  | Some r0 => r_status r0 <> Revoked /\ (r_status r0 = Unknown \/ fresh now r0 = false)
  | None => True
  end ->
  reusable c now (sget (eid en) (stor s)) = false ->
  (* the responder's answer *)
  e_ans (envs (eid en)) = ABytes b -> parse_issuer b = Some r -> r_status r = Revoked ->
  valid_for c now r = true -> r_next r <= c_expiry c ->
  let post := cache (fst (step s (OMaintain tick false now envs rns))) in
  has_cert (eid en) post = false /\
  (forall newc e', rns (eid en) = ROk newc e' -> has_cert (c_id newc) post = true).
Proof.
  intros N F I c Mg X U Due NR A P S V Nx post. subst c.
  assert (Xb : (c_expiry (en_cert en) <? now) = false) by (apply Z.ltb_ge; lia).
  pose proof (step_revoked_holds s (OMaintain tick false now envs rns) N F) as H.
  cbn [step_revoked] in H. rewrite forallb_forall in H. specialize (H en I). fold (eid en) in H.
  assert (Lr : learned_revoked false now (envs (eid en)) s (snd (step s (OMaintain tick false now envs rns))) en = true).
  { unfold learned_revoked. apply orb_true_iff. right. fold (eid en).
    cbn [step]. destruct (maintain tick false now envs rns (cache s) (stor s)) as [[l' st'] cl] eqn:M. cbn [snd].
    destruct (in_split _ _ I) as (la & lb & E). pose proof F as F0. pose proof N as N0. rewrite E in M, N0, F0.
    destruct (maintain_focus _ _ _ _ _ _ _ _ _ _ _ M N0 F0) as (stk & lk & stk' & clk & M1 & P2 & P3 & P4 & P5 & P6).
    rewrite P4. cbn [stor]. rewrite <- P2.
    (* the entry's share of the pass makes the call *)
    unfold tick in M1. cbn [maintain_one] in M1. unfold tick_one in M1. rewrite Xb in M1.
    assert (FR : force_renew (en_managed en) (cs_ocsp (en_cs en)) = false).
    { unfold force_renew. rewrite Mg. cbn. destruct (cs_ocsp (en_cs en)) as [r0|]; [|reflexivity].
      cbn. destruct Due as [D _]. destruct (r_status r0); try reflexivity. congruence. }
    rewrite FR in M1.
    assert (SF : match cs_ocsp (en_cs en) with
                 | Some r0 => negb (status_eqb (r_status r0) Unknown) && fresh now r0
                 | None => false end = false).
    { destruct (cs_ocsp (en_cs en)) as [r0|]; [|reflexivity]. destruct Due as [_ [D|D]].
      - rewrite D. reflexivity.
      - rewrite D. apply andb_false_r. }
    rewrite SF in M1. fold (eid en) in M1.
    destruct (staple_revoked_answer (en_cert en) (en_cs en) (sget (eid en) stk) (envs (eid en)) now b r U) as (He & Ho & Hs); auto.
    { rewrite P2. exact NR. }
    cbn zeta in He, Ho, Hs. rewrite He in M1.
    set (res := staple false (en_cert en) (en_cs en) (sget (eid en) stk) (envs (eid en)) now) in *.
    assert (Hc : exists rest, clk = call_of (en_cert en) res :: rest).
    { destruct (force_renew (en_managed en) (cs_ocsp (res_cs res))).
      - destruct (do_renew false now (rns (eid en)) (sset (eid en) (res_store res) stk)) as [[l2 s2] cl2].
        inversion M1; subst. eexists; reflexivity.
      - inversion M1; subst. eexists; reflexivity. }
    destruct Hc as (rest & ->). unfold call_of at 1. cbn [find_call find cl_cert]. fold (eid en). rewrite Z.eqb_refl.
    unfold learned_from, call_of. cbn [negb andb cl_seen]. rewrite Hs, A, P, V. apply status_eqb_eq in S. rewrite S.
    cbn. apply Z.leb_le. exact Nx. }
  unfold tick in H at 1. cbn [must_renew] in H. rewrite Mg, Xb, Lr in H. cbn [negb andb orb] in H. subst post.
  destruct (rns (eid en)) as [|newc e0|] eqn:R.
  - apply negb_true_iff in H. split; [exact H|]. intros ? ? Q. discriminate.
  - apply andb_true_iff in H. destruct H as [H1 H2]. apply negb_true_iff in H1. split; [exact H1|].
    intros newc' e'' Q. inversion Q; subst. exact H2.
  - apply negb_true_iff in H. split; [exact H|]. intros ? ? Q. discriminate.
Qed.

(** R: when the chain handed to certmagic lacks the issuer certificate, a persisted staple cannot
    be verified and is therefore not used (fix: commit of finding
    C14-forged-persisted-no-issuer-in-chain): the clause "a still-fresh persisted staple is reused
    without contacting the responder" is false for such certificates *)
Definition good_resp : resp := Resp Good 7 0 1000 None true.
Definition good_blob : blob := Blob 1 (Some good_resp).
Definition chainless_cert : cert := Cert 0 0 7 5000 7776000000000000 true false.

Theorem reuse_refuted_chainless :
  exists c cs b r e now,
    c_chain c = false /\ b_parse b = Some r /\ r_sig r = true /\ r_status r = Good /\
    fresh now r = true /\ valid_for c now r = true /\ r_next r <= c_expiry c /\
    res_contact (staple false c cs (Some b) e now) = true.
Proof.
  exists chainless_cert, (CS None None), good_blob, good_resp, (Env ARefused false false false), 100.
  vm_compute. repeat split; auto; discriminate.
Qed.

(** a handshake leaves a certificate whose recorded status is fresh (and not Revoked) alone *)
Lemma hs_fresh_untouched dis now e rn en st r :
  cs_ocsp (en_cs en) = Some r -> fresh now r = true -> r_status r <> Revoked ->
  hs_one dis now e rn en st = ([en], st, []).
Proof.
  intros O F NR. unfold hs_one. rewrite O, F. cbn [negb].
  assert (FR : force_renew (en_managed en) (Some r) = false).
  { unfold force_renew. cbn. destruct (r_status r); try congruence; cbn; apply andb_false_r. }
  rewrite FR. destruct (c_expiry (en_cert en) <? now); [reflexivity|].
  destruct (negb (en_managed en)); reflexivity.
Qed.

(** what a handshake gets back carries the staple the cached certificate had, or one fit to be
    attached now *)
Theorem hs_returned_sound dis now e en st :
  ret_sound (en_cert en) (cs_staple (en_cs en)) (cs_staple (hs_returned dis now e en st)) now = true.
Proof.
  assert (Hsame : ret_sound (en_cert en) (cs_staple (en_cs en)) (cs_staple (en_cs en)) now = true).
  { unfold ret_sound. destruct (cs_staple (en_cs en)) as [b|]; [|reflexivity].
    rewrite oblob_eqb_refl. reflexivity. }
  unfold hs_returned. destruct ((c_expiry (en_cert en) <? now) || negb (en_managed en)); [exact Hsame|].
  destruct (cs_ocsp (en_cs en)) as [r|]; [|exact Hsame]. destruct (fresh now r); [exact Hsame|].
  unfold ret_sound.
  destruct (staple_attach dis (en_cert en) (en_cs en) (sget (c_id (en_cert en)) st) e now) as [(_ & E)|(_ & b' & r' & E & A & Sg)].
  - rewrite E. exact Hsame.
  - rewrite E. apply orb_true_iff. right. apply attach_ok_spec. exists r'. auto.
Qed.

(** what is in the cache is served for its name; what is not in the cache is not served *)
Lemma cached_is_served l en : In en l -> served (c_name (en_cert en)) l <> None.
Proof.
  intros I H. unfold served in H. apply (find_none _ _ H) in I. rewrite Z.eqb_refl in I. discriminate.
Qed.

Lemma served_is_cached name l en : served name l = Some en -> In en l /\ c_name (en_cert en) = name.
Proof.
  unfold served. intros H. apply find_some in H. destruct H as [I E]. apply Z.eqb_eq in E. auto.
Qed.

(** S3' holds of the model: what it persisted for [c] is what it loads for [c] *)
Theorem own_reuse_holds s c m dis e now :
  own_reuse (sget (c_id c) (stor s)) c dis e now (snd (step s (OCache c m dis e now))) = true.
Proof.
  unfold own_reuse.
  destruct (reusable c now (sget (c_id c) (stor s)) && negb (e_load_err e) && negb dis) eqn:Prem; [|reflexivity].
  cbn [negb orb step snd]. unfold call_of. cbn [find_call find cl_cert]. rewrite Z.eqb_refl. cbn [cl_seen].
  rewrite (reusable_not_seen _ _ _ _ _ _ Prem). reflexivity.
Qed.
