(** Correspondence for C14: cases written by the Go harness (inputs, oracle values and what the
    real code did) are evaluated against the model and, independently of the model's output,
    against the boolean monitors [spec_call] / [spec_step] of Model.v applied to the
    implementation's observations.

    Wire (all integers):
      blobs : list of (parsed? status serial this next rcna? sig)      blob id = index
      certs : list of (name serial expiry lifetime url chain)                   cert id = index
      kind 0 (one stapleOCSP call):
         disabled cert staple? ocsp? stored? env now | staple? ocsp? stored? seen err ops
      kind 1 (history from an empty cache and empty store):
         list of (op own? | cache store calls served)
    where x? is an optional blob index, ocsp? stands for the parse of that blob. *)
From CM Require Import Lib.Str Lib.Wire Ocsp.Model.
Open Scope Z_scope.

(** * Decoders *)

Definition get_status : dec status :=
  x <- get_z ;; if x =? 0 then ret Good else if x =? 1 then ret Revoked else
                if x =? 2 then ret Unknown else (fun _ => None).

Definition get_rcert : dec rcert :=
  na <- get_z ;; nb <- get_z ;; ek <- get_bool ;; iss <- get_bool ;; ret (RC na nb ek iss).

Definition get_resp : dec resp :=
  s <- get_status ;; ser <- get_z ;; th <- get_z ;; nx <- get_z ;; rc <- get_opt get_rcert ;;
  sg <- get_bool ;; ret (Resp s ser th nx rc sg).

Fixpoint number {A} (i : Z) (l : list A) : list (Z * A) :=
  match l with [] => [] | x :: r => (i, x) :: number (i + 1) r end.

Definition get_blobs : dec (list blob) :=
  l <- get_list (get_opt get_resp) ;; ret (map (fun p => Blob (fst p) (snd p)) (number 0 l)).

Definition get_certs : dec (list cert) :=
  l <- get_list (n <- get_z ;; ser <- get_z ;; ex <- get_z ;; sh <- get_z ;; u <- get_bool ;;
                 ch <- get_bool ;; ret (n, ser, ex, sh, u, ch)) ;;
  ret (map (fun p => match snd p with (n, ser, ex, sh, u, ch) => Cert (fst p) n ser ex sh u ch end)
           (number 0 l)).

Definition get_ref {A} (tbl : list A) : dec A :=
  i <- get_nat ;; match nth_error tbl i with Some a => ret a | None => (fun _ => None) end.

Definition get_env (bl : list blob) : dec env :=
  t <- get_z ;;
  a <- (if t =? 0 then ret ARefused else if t =? 1 then ret ADrop else
        if t =? 2 then (b <- get_ref bl ;; ret (ABytes b)) else (fun _ => None)) ;;
  le <- get_bool ;; se <- get_bool ;; de <- get_bool ;; ret (Env a le se de).

Definition get_sop : dec sop :=
  x <- get_z ;; if x =? 0 then ret SLoad else if x =? 1 then ret SStore else
                if x =? 2 then ret SDelete else (fun _ => None).

Definition ocsp_of (o : option blob) : option resp :=
  match o with Some b => b_parse b | None => None end.

(** an observed cstate: staple and the raw bytes of Certificate.ocsp, both as blobs *)
Definition get_cstate (bl : list blob) : dec cstate :=
  s <- get_opt (get_ref bl) ;; o <- get_opt (get_ref bl) ;; ret (CS s (ocsp_of o)).

Record call_case := CallCase {
  cc_dis : bool; cc_cert : cert; cc_cs : cstate; cc_st : option blob; cc_env : env; cc_now : Z;
  cc_obs : result;
  cc_panic : bool    (* the real call did not return: it panicked *)
}.

(** S2 at its plainest: whatever the responder says, the code comes back. Of the model this holds
    by construction ([staple] and [step] are total functions); of the implementation it is
    observed: every call into the code under test runs under recover(). *)
Definition returned (panicked : bool) : bool := negb panicked.

Definition get_call_case (bl : list blob) (cl : list cert) : dec call_case :=
  d <- get_bool ;; c <- get_ref cl ;; cs <- get_cstate bl ;; st <- get_opt (get_ref bl) ;;
  e <- get_env bl ;; now <- get_z ;;
  cs' <- get_cstate bl ;; st' <- get_opt (get_ref bl) ;; seen <- get_bool ;; err <- get_bool ;;
  ops <- get_list get_sop ;; pn <- get_bool ;;
  ret (CallCase d c cs st e now (Res cs' st' seen seen err ops false) pn).

(** association list with default *)
Fixpoint alookup {A} (d : A) (l : list (Z * A)) (k : Z) : A :=
  match l with
  | [] => d
  | (k', a) :: r => if k' =? k then a else alookup d r k
  end.

Definition get_outcome (bl : list blob) (cl : list cert) : dec renew_outcome :=
  t <- get_z ;;
  if t =? 0 then ret RFail else
  if t =? 1 then (c <- get_ref cl ;; e <- get_env bl ;; ret (ROk c e)) else
  if t =? 2 then ret RReloadFail else (fun _ => None).

(** who visits a certificate in a pass: 0 the tick, 1 a handshake, 2 manageOne, 3 nobody *)
Definition get_kind : dec mkind :=
  x <- get_z ;; if x =? 0 then ret KTick else if x =? 1 then ret KHandshake else
                if x =? 2 then ret KManage else if x =? 3 then ret KSkip else (fun _ => None).

Definition default_env : env := Env ARefused false false false.

Definition get_op (bl : list blob) (cl : list cert) : dec op :=
  t <- get_z ;;
  if t =? 0 then (c <- get_ref cl ;; v <- get_opt (get_ref bl) ;; ret (OTamper (c_id c) v)) else
  if t =? 1 then (c <- get_ref cl ;; m <- get_bool ;; d <- get_bool ;; e <- get_env bl ;;
                  now <- get_z ;; ret (OCache c m d e now)) else
  if t =? 2 then (kd <- get_kind ;; ks <- get_list (get_pair get_z get_kind) ;;
                  d <- get_bool ;; now <- get_z ;;
                  envs <- get_list (get_pair get_z (get_env bl)) ;;
                  rns <- get_list (get_pair get_z (get_outcome bl cl)) ;;
                  ret (OMaintain (alookup kd ks) d now (alookup default_env envs) (alookup RFail rns))) else
  if t =? 3 then ret ORestart else (fun _ => None).

Definition get_entry (bl : list blob) (cl : list cert) : dec entry :=
  c <- get_ref cl ;; m <- get_bool ;; cs <- get_cstate bl ;; ret (Entry c m cs 0).

Definition get_sys (bl : list blob) (cl : list cert) : dec sys :=
  ca <- get_list (get_entry bl cl) ;;
  st <- get_list (c <- get_ref cl ;; b <- get_ref bl ;; ret (c_id c, b)) ;;
  ret (Sys ca st).

Definition get_calls : dec (list call) :=
  get_list (c <- get_z ;; seen <- get_bool ;; ops <- get_list get_sop ;; ret (Call c seen false ops)).

(** GetCertificate per name: name, then (cert id, staple?) if a certificate was returned *)
Definition served_obs := list (Z * option (Z * option blob)).
Definition get_served (bl : list blob) : dec served_obs :=
  get_list (n <- get_z ;;
            v <- get_opt (c <- get_z ;; s <- get_opt (get_ref bl) ;; ret (c, s)) ;; ret (n, v)).

(** [hs_own]: for a cache operation, the staple the implementation itself persisted for that
    certificate earlier in the history (seen as a successful Store of those bytes under ANY ocsp/
    key when it attached them) and which the harness has not touched since *)
Record hstep := HStep { hs_op : op; hs_own : option blob; hs_ret : option (Z * option blob);
                        hs_panic : bool;   (* the operation of the real code panicked *)
                        hs_post : sys; hs_calls : list call; hs_served : served_obs }.

(** [hs_ret]: for a handshake, what GetCertificate returned to it (certificate, staple) *)
Definition get_hstep (bl : list blob) (cl : list cert) : dec hstep :=
  o <- get_op bl cl ;; ow <- get_opt (get_ref bl) ;;
  rt <- get_opt (c <- get_z ;; s <- get_opt (get_ref bl) ;; ret (c, s)) ;;
  pn <- get_bool ;;
  s <- get_sys bl cl ;; c <- get_calls ;;
  sv <- get_served bl ;; ret (HStep o ow rt pn s c sv).

Definition is_hs (k : mkind) : bool := match k with KHandshake => true | _ => false end.

(** the entry a handshake operation is about *)
Definition hs_entry (pre : sys) (o : op) : option entry :=
  match o with
  | OMaintain ks _ _ _ _ => find (fun en => is_hs (ks (c_id (en_cert en)))) (cache pre)
  | _ => None
  end.

(** model: what that handshake gets back *)
Definition hs_expected (pre : sys) (o : op) : option (Z * option blob) :=
  match o, hs_entry pre o with
  | OMaintain _ dis now envs _, Some en =>
      let id := c_id (en_cert en) in
      Some (id, cs_staple (hs_returned dis now (envs id) en (stor pre)))
  | _, _ => None
  end.

Definition ret_eqb (a b : option (Z * option blob)) : bool :=
  match a, b with
  | Some (c, s), Some (c', s') => (c =? c') && oblob_eqb s s'
  | None, None => true
  | _, _ => false
  end.

(** monitor: the staple handed to the handshake is the one the cached certificate had, or may be
    attached now; and it is for the certificate that was in the cache for that name *)
Definition ret_ok (pre : sys) (o : op) (rt : option (Z * option blob)) : bool :=
  match o, hs_entry pre o, rt with
  | OMaintain _ _ now _ _, Some en, Some (c, s) =>
      (c =? c_id (en_cert en)) && ret_sound (en_cert en) (cs_staple (en_cs en)) s now
  | OMaintain _ _ _ _ _, Some _, None => false
  | _, _, _ => true
  end.

Definition own_reuse_step (h : hstep) : bool :=
  match hs_op h with
  | OCache c _ disabled e now => own_reuse (hs_own h) c disabled e now (hs_calls h)
  | _ => true
  end.

Inductive case :=
| CCall (c : call_case)
| CHist (certs : list cert) (steps : list hstep).

Definition get_case : dec case :=
  bl <- get_blobs ;; cl <- get_certs ;; k <- get_z ;;
  if k =? 0 then (c <- get_call_case bl cl ;; ret (CCall c)) else
  if k =? 1 then (l <- get_list (get_hstep bl cl) ;; ret (CHist cl l)) else (fun _ => None).

(** * Comparison of observations *)

Definition resp_eqb (a b : resp) : bool :=
  status_eqb (r_status a) (r_status b) && (r_serial a =? r_serial b) && (r_this a =? r_this b) &&
  (r_next a =? r_next b).
Definition oresp_eqb (a b : option resp) : bool :=
  match a, b with Some x, Some y => resp_eqb x y | None, None => true | _, _ => false end.
Definition cstate_eqb (a b : cstate) : bool :=
  oblob_eqb (cs_staple a) (cs_staple b) && oresp_eqb (cs_ocsp a) (cs_ocsp b).
Definition sop_eqb (a b : sop) : bool :=
  match a, b with SLoad, SLoad | SStore, SStore | SDelete, SDelete => true | _, _ => false end.
Fixpoint list_eqb {A} (f : A -> A -> bool) (a b : list A) : bool :=
  match a, b with
  | [], [] => true
  | x :: a', y :: b' => f x y && list_eqb f a' b'
  | _, _ => false
  end.

(** single call: everything but [res_contact] (not observable when the connection is refused) *)
Definition result_eqb (m o : result) : bool :=
  cstate_eqb (res_cs m) (res_cs o) && oblob_eqb (res_store m) (res_store o) &&
  Bool.eqb (res_seen m) (res_seen o) && Bool.eqb (res_err m) (res_err o) &&
  list_eqb sop_eqb (res_ops m) (res_ops o).

Definition entry_eqb (a b : entry) : bool :=
  (c_id (en_cert a) =? c_id (en_cert b)) && Bool.eqb (en_managed a) (en_managed b) &&
  cstate_eqb (en_cs a) (en_cs b).

(** caches as sets of entries (the observation is keyed by certificate) *)
Definition cache_eqb (m o : list entry) : bool :=
  (length m =? length o)%nat &&
  forallb (fun en => match find_entry (c_id (en_cert en)) m with
                     | Some en' => entry_eqb en' en
                     | None => false
                     end) o.
Definition store_eqb (certs : list cert) (m o : store) : bool :=
  forallb (fun c => oblob_eqb (sget (c_id c) m) (sget (c_id c) o)) certs.
Definition call_eqb (a b : call) : bool :=
  (cl_cert a =? cl_cert b) && Bool.eqb (cl_seen a) (cl_seen b) && list_eqb sop_eqb (cl_ops a) (cl_ops b).
(** the harness can only see calls that did something (a storage operation or a request) *)
Definition active (cl : call) : bool :=
  cl_seen cl || match cl_ops cl with [] => false | _ => true end.
Definition calls_eqb (m0 o : list call) : bool :=
  let m := filter active m0 in
  (length m =? length o)%nat &&
  forallb (fun cl => match find_call (cl_cert cl) m with
                     | Some cl' => call_eqb cl' cl
                     | None => false
                     end) o.
Definition served_eqb (m : list entry) (o : served_obs) : bool :=
  forallb (fun p =>
    match served (fst p) m, snd p with
    | Some en, Some (c, s) => (c_id (en_cert en) =? c) && oblob_eqb (cs_staple (en_cs en)) s
    | None, None => true
    | _, _ => false
    end) o.

(** the handshake's view agrees with the cache snapshot (so that the monitors, which read the
    snapshot, speak about what GetCertificate hands out) *)
Definition served_consistent (post : sys) (o : served_obs) : bool := served_eqb (cache post) o.

(** * check_line *)

Definition check_call (c : call_case) : Z :=
  let m := staple (cc_dis c) (cc_cert c) (cc_cs c) (cc_st c) (cc_env c) (cc_now c) in
  code (result_eqb m (cc_obs c) && returned (cc_panic c))
       (spec_call (cc_dis c) (cc_cert c) (cc_cs c) (cc_st c) (cc_env c) (cc_now c) (cc_obs c) &&
        returned (cc_panic c)).

(** histories: one-step conformance from the implementation's own previous observation *)
Fixpoint check_hist (certs : list cert) (pre : sys) (l : list hstep) (agree spec : bool) : bool * bool :=
  match l with
  | [] => (agree, spec)
  | h :: r =>
      let '(mpost, mcalls) := step pre (hs_op h) in
      let a := cache_eqb (cache mpost) (cache (hs_post h)) &&
               store_eqb certs (stor mpost) (stor (hs_post h)) &&
               calls_eqb mcalls (hs_calls h) && served_eqb (cache mpost) (hs_served h) &&
               ret_eqb (hs_expected pre (hs_op h)) (hs_ret h) && returned (hs_panic h) in
      let s := spec_step pre (hs_op h) (hs_post h) (hs_calls h) &&
               served_consistent (hs_post h) (hs_served h) && own_reuse_step h &&
               ret_ok pre (hs_op h) (hs_ret h) && returned (hs_panic h) in
      check_hist certs (hs_post h) r (agree && a) (spec && s)
  end.

Definition check_line (l : list Z) : Z :=
  match decode get_case l with
  | Some (CCall c) => check_call c
  | Some (CHist certs steps) =>
      let '(a, s) := check_hist certs (Sys [] []) steps true true in code a s
  | None => code_decode_error
  end.

(** * explain_line: the model's prediction, as integers
    call: staple-id ocsp-status store-id seen err #ops ops  (-1 = none)
    history: per step: agree spec #cache (cert managed staple-id ocsp-status)* *)
Definition oid (o : option blob) : Z := match o with Some b => b_id b | None => -1 end.
Definition ost (o : option resp) : Z :=
  match o with
  | Some r => match r_status r with Good => 0 | Revoked => 1 | Unknown => 2 end
  | None => -1
  end.
Definition zb (b : bool) : Z := if b then 1 else 0.
Definition sopz (s : sop) : Z := match s with SLoad => 0 | SStore => 1 | SDelete => 2 end.

Fixpoint explain_hist (certs : list cert) (pre : sys) (l : list hstep) : list Z :=
  match l with
  | [] => []
  | h :: r =>
      let '(mpost, mcalls) := step pre (hs_op h) in
      [zb (cache_eqb (cache mpost) (cache (hs_post h)));
       zb (store_eqb certs (stor mpost) (stor (hs_post h)));
       zb (calls_eqb mcalls (hs_calls h)); zb (served_eqb (cache mpost) (hs_served h));
       zb (step_sound pre (hs_op h) (hs_post h));
       zb (step_not_fatal pre (hs_op h) (hs_post h) (hs_calls h));
       zb (step_reuse pre (hs_op h) (hs_post h) (hs_calls h));
       zb (step_corrupt pre (hs_op h) (hs_post h) (hs_calls h));
       zb (step_revoked pre (hs_op h) (hs_post h) (hs_calls h));
       zb (step_persist pre (hs_op h) (hs_post h)); zb (own_reuse_step h);
       zb (ret_eqb (hs_expected pre (hs_op h)) (hs_ret h)); zb (ret_ok pre (hs_op h) (hs_ret h));
       zb (returned (hs_panic h));
       Z.of_nat (length (cache mpost))] ++
      flat_map (fun en => [c_id (en_cert en); zb (en_managed en); oid (cs_staple (en_cs en));
                           ost (cs_ocsp (en_cs en))]) (cache mpost) ++
      [Z.of_nat (length mcalls)] ++
      flat_map (fun cl => [cl_cert cl; zb (cl_seen cl); Z.of_nat (length (cl_ops cl))] ++
                          map sopz (cl_ops cl)) mcalls ++
      [-7] ++ explain_hist certs (hs_post h) r
  end.

Definition explain_line (l : list Z) : list Z :=
  match decode get_case l with
  | Some (CCall c) =>
      let m := staple (cc_dis c) (cc_cert c) (cc_cs c) (cc_st c) (cc_env c) (cc_now c) in
      [oid (cs_staple (res_cs m)); ost (cs_ocsp (res_cs m)); oid (res_store m); zb (res_seen m);
       zb (res_err m); Z.of_nat (length (res_ops m))] ++ map sopz (res_ops m) ++
      [-7; zb (call_sound (cc_cert c) (cc_cs c) (cc_now c) (cc_obs c));
       zb (call_reuse (cc_dis c) (cc_cert c) (cc_st c) (cc_env c) (cc_now c) (cc_obs c));
       zb (call_corrupt (cc_dis c) (cc_cert c) (cc_st c) (cc_env c) (cc_obs c));
       zb (call_persist (cc_cert c) (cc_st c) (cc_now c) (cc_obs c)); zb (returned (cc_panic c))]
  | Some (CHist certs steps) => explain_hist certs (Sys [] []) steps
  | None => []
  end.
