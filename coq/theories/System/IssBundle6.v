(** System / S6, part 6 -- obtainCert with differing spellings (see [System.IssBundle5]) under one
    injected Storage error at an arbitrary call index. *)
From Coq Require Import List Bool Arith NArith ZArith Lia.
From CM Require Issuance.Model Bundle.Model.
From CM Require Import System.IssBundle System.IssBundle5.
Import ListNotations.

(** without ReusePrivateKeys ([System.IssBundle7]: with) *)
Theorem obtain_agrees_spelling_faults_noreuse : forall k x idn force issdue h0 h1 rest,
  agree2 k x (mk_cfg2 (I.PObtain false) idn false force issdue) (sto_of2 h0 h1 rest).
Proof.
  intros k x idn force issdue [[hk|] [[ci ck cd]|] [hm|]] [[hk1|] [[ci1 ck1 cd1]|] [hm1|]] rest;
    each_k 15 k agree2_compute.
Qed.

(** storeTx's roll-back Deletes what it wrote -- and with it a key file that was there before:
    a lone key under the canonical name, the Store of the certificate fails, the key is gone.
    Both models agree on this (Go: storage.go:171-173). *)
Definition ex_c : I.tcfg := mk_cfg2 (I.PObtain false) 5 false false false.
Definition ex_st : I.skey -> option I.value :=
  sto_of2 (Shape None None None) (Shape (Some 3) None None) (fun _ => None).
Example ex_rollback_deletes_old_key :
  I.sto (I.sh (iss_final (Some 7) ex_c ex_st)) (I.SK 1 I.KKey) = None /\
  B.sget (B.w_st (snd (bun_run2 (Some 7) false ex_c ex_st))) (0, 1%N, B.FKey) = None /\
  iss_result (iss_final (Some 7) ex_c ex_st) = Some false /\
  ex_st (I.SK 1 I.KKey) = Some (I.VKey 3).
Proof. repeat split; vm_compute; reflexivity. Qed.

Print Assumptions obtain_agrees_spelling_faults_noreuse.
