(** System / S12 (part 7) -- THE AGREEMENT THEOREM for one background OBTAIN job: Maintain's
    [job_step] history of a [JObtain] job and Issuance's [PObtain true] thread (MaintainIssuance6.v)
    agree on the issuer calls, the stored bundle, the lock and the outcome -- from storage that
    holds a complete bundle for the name or none of its files ([bundle_rel] of MaintainIssuance4.v),
    for any number [m] of failed attempts.  Then: the re-check under the lock; incomplete bundles. *)
From Coq Require Import List Bool Arith Lia.
From CM Require Issuance.Model Maintain.Model.
From CM Require Import Issuance.Base Maintain.Base System.MaintainIssuance3 System.MaintainIssuance4
                       System.MaintainIssuance6.
Import ListNotations.
Open Scope nat_scope.

Lemma count_obtain t lk n idn reuse chk present m :
  count_iss idn 0 (ev_obtain t lk n idn reuse chk present m) = (if present then 0 else 1) /\
  count_iss idn 2 (ev_obtain t lk n idn reuse chk present m) = (if present then 0 else m).
Proof.
  unfold ev_obtain. destruct present; [split; reflexivity|].
  rewrite !count_iss_app.
  assert (A : forall o, count_iss idn o (ev_oA t lk n chk) = 0)
    by (intros o; unfold ev_oA, ev_A; destruct chk; reflexivity).
  rewrite !A, !count_iss_rep.
  unfold ev_ofail, ev_ook, ev_reuse, count_iss, X, E. destruct reuse; cbn [app filter is_iss I.e_op I.e_out];
    rewrite !Nat.eqb_refl; cbn; split; lia.
Qed.

Definition is_some {A} (o : option A) : bool := match o with Some _ => true | None => false end.

(** * The theorem *)
Theorem obtain_job_agree od idue (s0 : M.state) n k old pre post
    (si : I.state) t th lk idn reuse chk m :
  (* Maintain: the k-th job for n is an obtain job that has not started; nobody holds the lock *)
  M.split_job n k (M.jobs s0) = Some (pre, M.Job n M.JObtain old M.Queued, post) ->
  M.lock_held (M.jobs s0) n = false ->
  (* Issuance: thread t is an ObtainCertAsync request at its entry; the lock is free *)
  nth_error (I.thr si) t = Some th ->
  I.cfg th = ocfg lk n idn reuse chk idue ->
  I.tpc th = I.PPre I.KCrt -> I.cur th = I.OpObtain -> I.canc th = false ->
  I.lks (I.sh si) lk = None ->
  (* translation: a complete bundle with the same certificate on both sides, or none of its files *)
  bundle_rel (M.store s0) (I.sto (I.sh si)) n -> M.next s0 = I.ncid (I.sh si) ->
  let present := is_some (M.stored (M.store s0) n) in
  let sm := M.run od idue s0 (mh_obtain n k present m) in
  let es := ev_obtain t lk n idn reuse chk present m in
  exists si',
    I.run si (labels_of t (lbl_obtain reuse chk present m)) = Some (si', es) /\
    (* 1. the issuer: called iff NOTHING is stored; once per attempt *)
    (M.issued sm = repeat n (count_iss idn 0 es) ++ M.issued s0 /\
     M.failed sm = repeat n (count_iss idn 2 es) ++ M.failed s0 /\
     count_iss idn 0 es = (if present then 0 else 1) /\ count_iss idn 2 es = (if present then 0 else m)) /\
    (* 2. storage: a new certificate is stored iff nothing was; nothing else changes *)
    (bundle_rel (M.store sm) (I.sto (I.sh si')) n /\
     (if present
      then M.store sm = M.store s0 /\ I.sh si' = I.sh si
      else M.stored (M.store sm) n = Some (M.Cert (M.next s0) n [] idue true) /\
           exists key, I.sto (I.sh si') (I.SK n I.KCrt) = Some (I.VCrt (I.Cert (I.ncid (I.sh si)) key idue))) /\
     (forall n', n' <> n -> M.stored (M.store sm) n' = M.stored (M.store s0) n') /\
     (forall key, key <> I.RW t -> (forall j, key <> I.SK n j) -> I.sto (I.sh si') key = I.sto (I.sh si) key)) /\
    (* 3. the lock: free afterwards on both sides (Issuance: every other lock untouched) *)
    (M.lock_held (M.jobs sm) n = false /\ I.lks (I.sh si') lk = None /\
     forall l, l <> lk -> I.lks (I.sh si') l = I.lks (I.sh si) l) /\
    (* 4. control: the request has returned nil.  Maintain: bundle present => loaded into the
          cache at once, job gone; else the job is at [Reload], nothing cached yet, and its last
          step (CacheManagedCertificate, outside obtainCert) caches the NEW certificate *)
    (M.lasterr sm = false /\
     match M.stored (M.store s0) n with
     | Some mc => M.jobs sm = pre ++ post /\ M.cache sm = M.cache_add mc (M.cache s0)
     | None => M.jobs sm = pre ++ M.Job n M.JObtain old M.Reload :: post /\ M.cache sm = M.cache s0 /\
               let sm' := M.step od idue sm (M.JobStep n k) in
               M.jobs sm' = pre ++ post /\ M.cache sm' = M.cache_add (M.Cert (M.next s0) n [] idue true) (M.cache s0) /\
               M.store sm' = M.store sm /\ M.issued sm' = M.issued sm /\ M.failed sm' = M.failed sm
     end /\
     exists th', nth_error (I.thr si') t = Some th' /\ I.tpc th' = I.PDone I.ROk /\ I.seen th' = I.seen th) /\
    (* 5. the identity counters stay synchronised *)
    M.next sm = I.ncid (I.sh si').
Proof.
  intros Hsplit Hfree Hn Hcfg Hpc Hcur Hcanc Hl Hb Hnext present sm es.
  destruct th as [c p cu ca fl lkey lcrt nk nc sn rc]. cbn in Hcfg, Hpc, Hcur, Hcanc. subst c p cu ca.
  destruct si as [thr [sto lks ncid nkid]]. cbn [I.sh I.thr I.sto I.lks I.ncid] in *.
  assert (Hlt : t < length thr) by (apply nth_error_Some; congruence).
  destruct (count_obtain t lk n idn reuse chk present m) as [C0 C2].
  unfold bundle_rel in Hb. subst sm es. rewrite C0, C2. clear C0 C2.
  destruct (M.stored (M.store s0) n) as [mc|] eqn:Hst; subst present; cbn [is_some] in *.
  - (* the bundle is there *)
    destruct Hb as (kk & ic & vm & Hk & Hc & Hm & Hrel).
    pose proof (oseg_present t lk n idn reuse chk idue sto lks ncid nkid lkey lcrt nk nc sn rc fl _ _ _ Hc Hk Hm) as Hrun.
    pose proof (trun_run t _ (I.State thr (I.Shared sto lks ncid nkid)) _ _ _ _ Hn Hrun) as HR.
    cbn [I.thr I.sh] in HR. eexists. split; [exact HR|]. cbn [I.sh I.sto I.lks I.ncid I.thr].
    pose proof (mo_present od idue n k old pre post s0 Hsplit mc Hst) as HM.
    destruct (mo_end_free od idue n k old pre post s0 Hsplit Hfree [] 0 mc []) as (_ & F & _).
    unfold mh_obtain, M.run. cbn [fold_left]. rewrite HM.
    cbn [SO_loaded M.issued M.failed M.store M.jobs M.cache M.lasterr M.next repeat app].
    split; [repeat split|]. split; [|split; [|split]].
    + split; [|split; [|split]].
      * unfold bundle_rel. rewrite Hst. exists kk, ic, vm. auto.
      * split; reflexivity.
      * reflexivity.
      * reflexivity.
    + split; [exact F|]. split; [exact Hl|]. reflexivity.
    + split; [reflexivity|]. split; [split; reflexivity|].
      eexists. rewrite nth_upd_eq by exact Hlt. repeat split.
    + exact Hnext.
  - (* nothing is there *)
    destruct Hb as (Hk & Hc & Hm).
    destruct (obtain_thread_run_absent t lk n idn reuse chk idue sto lks ncid nkid m lkey lcrt nk nc sn rc fl Hl Hc Hk)
      as (th' & Hrun & Hpc' & _ & _ & Hseen & _).
    pose proof (trun_run t _ (I.State thr (I.Shared sto lks ncid nkid)) _ th' _ _ Hn Hrun) as HR.
    cbn [I.thr I.sh] in HR. eexists. split; [exact HR|]. cbn [I.sh I.sto I.lks I.ncid I.thr].
    pose proof (m_obtain_run_absent od idue n k old pre post s0 Hsplit Hfree m Hst) as HM.
    destruct (mo_end_free od idue n k old pre post s0 Hsplit Hfree (fl_end n s0) m (M.Cert 0 0 [] false false) []) as (F & _).
    rewrite HM. rewrite (mo_reload od idue n k old pre post s0 Hsplit).
    cbn [SO_issued SO_cached M.issued M.failed M.store M.jobs M.cache M.lasterr M.next repeat app].
    unfold lks_renew, sto_ook, mnew.
    split; [repeat split|]. split; [|split; [|split]].
    + split; [|split; [|split]].
      * unfold bundle_rel. rewrite stored_cons_eq.
        exists (m + nkid), (onew idue ncid (m + nkid)), (I.VMeta ncid).
        split; [|split; [|split]].
        -- repeat (rewrite sput_neq by discriminate). apply sput_eq.
        -- repeat (rewrite sput_neq by discriminate). apply sput_eq.
        -- apply sput_eq.
        -- split; [exact Hnext|reflexivity].
      * split; [apply stored_cons_eq|]. eexists.
        rewrite (sput_neq _ (I.SK n I.KMeta)) by discriminate. rewrite sput_eq. unfold onew. reflexivity.
      * intros n' Hn'. apply stored_cons_neq. congruence.
      * intros key H1 H2. rewrite !sput_neq by (intros X; eapply H2; eauto). apply sto_A_other; exact H1.
    + split; [exact F|]. split; [apply lput_eq|]. intros l Hne. rewrite !lput_neq by congruence. reflexivity.
    + split; [reflexivity|]. split; [repeat split|].
      exists th'. rewrite nth_upd_eq by exact Hlt. repeat split; [exact Hpc'|exact Hseen].
    + rewrite Hnext. reflexivity.
Qed.

(** the lock in between (Maintain): held after the first step and after each failed attempt; in
    Issuance the trace [ev_obtain false m] has its only [OAcq lk] before the first attempt and its
    only [OUnlock lk] as the last event, and no issuer call before the acquisition *)
Theorem obtain_job_lock_held_meanwhile od idue (s0 : M.state) n k old pre post i :
  M.split_job n k (M.jobs s0) = Some (pre, M.Job n M.JObtain old M.Queued, post) ->
  M.lock_held (M.jobs s0) n = false ->
  M.stored (M.store s0) n = None ->
  M.lock_held (M.jobs (M.run od idue s0 (M.JobStep n k :: M.SetIssuer n true :: repeat (M.JobStep n k) i))) n = true.
Proof. intros. eapply mo_lock_profile; eauto. Qed.

Lemma ev_obtain_lock_span t lk n idn reuse chk m :
  exists a b, ev_obtain t lk n idn reuse chk false m = a ++ I.Ev t (I.OAcq lk) 0 :: b ++ [I.Ev t (I.OUnlock lk) 0] /\
    (forall e, In e (a ++ b) -> forall l, I.e_op e <> I.OAcq l /\ I.e_op e <> I.OUnlock l) /\
    (forall e, In e a -> is_iss idn 0 e = false /\ is_iss idn 2 e = false).
Proof.
  exists (X t n I.KCrt 1 ::
          (if chk then [E t (I.OStore (I.RW t)) 0; E t (I.OLoad (I.RW t)) 0; E t (I.ODelete (I.RW t)) 0; E t (I.OLock lk) 0]
           else [E t (I.OLock lk) 0])).
  exists (concat (repeat (ev_ofail t n idn reuse) m) ++ removelast (ev_ook t lk n idn reuse)).
  split; [|split].
  - unfold ev_obtain, ev_oA, ev_A, ev_ook, ev_reuse. destruct chk, reuse; cbn [app removelast];
      rewrite <- ?app_assoc; cbn [app]; reflexivity.
  - intros e Hin l. apply in_app_or in Hin. destruct Hin as [Hin|Hin].
    + destruct chk; cbn in Hin; intuition (subst; cbn; discriminate).
    + apply in_app_or in Hin. destruct Hin as [Hin|Hin].
      * apply in_concat in Hin. destruct Hin as (x & Hx & Hin). apply repeat_spec in Hx. subst x.
        unfold ev_ofail, ev_reuse in Hin. destruct reuse; cbn in Hin; intuition (subst; cbn; discriminate).
      * unfold ev_ook, ev_reuse in Hin. destruct reuse; cbn in Hin; intuition (subst; cbn; discriminate).
  - intros e Hin. destruct chk; cbn in Hin; intuition (subst; reflexivity).
Qed.

(** * The re-check under the lock ("certificate already exists in storage", config.go:550)

    Between the pre-check and the re-check somebody else stores a bundle: Maintain's event
    [ExtRenew n rest] (another instance saves a fresh certificate); in Issuance ANY change of the
    state that leaves thread [t] and its lock alone and makes the three files exist.  Both then
    end the job without calling the issuer. *)
Theorem obtain_job_recheck_agree od idue (s0 : M.state) n k old pre post rest
    (si : I.state) t th lk idn reuse chk :
  M.split_job n k (M.jobs s0) = Some (pre, M.Job n M.JObtain old M.Queued, post) ->
  M.lock_held (M.jobs s0) n = false ->
  M.stored (M.store s0) n = None ->
  nth_error (I.thr si) t = Some th ->
  I.cfg th = ocfg lk n idn reuse chk idue ->
  I.tpc th = I.PPre I.KCrt -> I.cur th = I.OpObtain -> I.canc th = false ->
  I.lks (I.sh si) lk = None ->
  I.sto (I.sh si) (I.SK n I.KCrt) = None ->
  let sm := M.run od idue s0 [M.JobStep n k; M.ExtRenew n rest; M.JobStep n k] in
  (* Maintain: no issuer call, the other instance's bundle is what is stored, lock free, [Reload] *)
  (M.issued sm = M.issued s0 /\ M.failed sm = M.failed s0 /\
   M.stored (M.store sm) n = Some (M.Cert (M.next s0) n rest false true) /\
   M.lock_held (M.jobs sm) n = false /\ M.jobs sm = pre ++ M.Job n M.JObtain old M.Reload :: post /\
   M.lock_held (M.jobs (M.run od idue s0 [M.JobStep n k; M.ExtRenew n rest])) n = true) /\
  (* Issuance, first half: pre-check, [checkStorage], lock *)
  exists si1 th1,
    I.run si (labels_of t (lbl_oA chk)) = Some (si1, ev_oA t lk n chk) /\
    nth_error (I.thr si1) t = Some th1 /\ I.lks (I.sh si1) lk = Some t /\
    (* second half, from any state in which [t] is as it was, still owns the lock, and the three
       files exist: re-check, Unlock, nil; nothing stored, no issuer call *)
    forall si2 vc vk vm,
      nth_error (I.thr si2) t = Some th1 -> I.lks (I.sh si2) lk = Some t ->
      I.sto (I.sh si2) (I.SK n I.KCrt) = Some vc -> I.sto (I.sh si2) (I.SK n I.KKey) = Some vk ->
      I.sto (I.sh si2) (I.SK n I.KMeta) = Some vm ->
      exists si3 th3,
        I.run si2 (labels_of t lbl_orecheck) = Some (si3, ev_orecheck t lk n) /\
        count_iss idn 0 (ev_oA t lk n chk ++ ev_orecheck t lk n) = 0 /\
        count_iss idn 2 (ev_oA t lk n chk ++ ev_orecheck t lk n) = 0 /\
        I.sto (I.sh si3) = I.sto (I.sh si2) /\ I.lks (I.sh si3) lk = None /\
        nth_error (I.thr si3) t = Some th3 /\ I.tpc th3 = I.PDone I.ROk /\ I.seen th3 = I.seen th.
Proof.
  intros Hsplit Hfree Hst Hn Hcfg Hpc Hcur Hcanc Hl Hc sm.
  split.
  - subst sm. unfold M.run. cbn [fold_left].
    rewrite (mo_take_lock od idue n k old pre post s0 Hsplit Hfree Hst).
    pose proof (mo_ext_then_found od idue n k old pre post s0 Hsplit rest) as HX. unfold M.run in HX.
    cbn [fold_left] in HX. rewrite HX.
    destruct (mo_end_free od idue n k old pre post s0 Hsplit Hfree [] 0 (M.Cert 0 0 [] false false) rest) as (_ & _ & F & _).
    cbn [SO_ext M.issued M.failed M.store M.jobs]. repeat split.
    + apply stored_cons_eq.
    + exact F.
    + change (M.lock_held (M.jobs (SO_ext n old pre post s0 M.Locked rest)) n = true).
      cbn [M.jobs SO_ext]. rewrite lock_held_mid. cbn. rewrite Nat.eqb_refl. cbn. rewrite orb_true_r. reflexivity.
  - destruct th as [c p cu ca fl lkey lcrt nk nc sn rc]. cbn in Hcfg, Hpc, Hcur, Hcanc. subst c p cu ca.
    destruct si as [thr [sto lks ncid nkid]]. cbn [I.sh I.thr I.sto I.lks I.ncid] in *.
    assert (Hlt : t < length thr) by (apply nth_error_Some; congruence).
    pose proof (oseg_A t lk n idn reuse chk idue sto lks ncid nkid lkey lcrt nk nc sn rc fl Hl Hc) as HA.
    pose proof (trun_run t _ (I.State thr (I.Shared sto lks ncid nkid)) _ _ _ _ Hn HA) as HR. cbn [I.thr I.sh] in HR.
    eexists. eexists. split; [exact HR|]. cbn [I.thr I.sh I.lks].
    split; [apply nth_upd_eq; exact Hlt|]. split; [apply lput_eq|].
    intros [thr2 [sto2 lks2 ncid2 nkid2]] vc vk vm Hn2 Hl2 Hc2 Hk2 Hm2. cbn [I.sh I.thr I.sto I.lks] in *.
    pose proof (oseg_recheck t lk n idn reuse chk idue sto2 lks2 ncid2 nkid2 (I.PRe I.KCrt) lkey lcrt nk nc sn fl vc vk vm
                  (or_introl eq_refl) Hl2 Hc2 Hk2 Hm2) as H2.
    pose proof (trun_run t _ (I.State thr2 (I.Shared sto2 lks2 ncid2 nkid2)) _ _ _ _ Hn2 H2) as HR2. cbn [I.thr I.sh] in HR2.
    assert (Hlt2 : t < length thr2) by (apply nth_error_Some; congruence).
    eexists. eexists. split; [exact HR2|]. cbn [I.thr I.sh I.sto I.lks].
    split; [|split].
    + unfold ev_oA, ev_A, ev_orecheck, ev_exists, X, E. destruct chk; reflexivity.
    + unfold ev_oA, ev_A, ev_orecheck, ev_exists, X, E. destruct chk; reflexivity.
    + split; [reflexivity|]. split; [apply lput_eq|]. split; [apply nth_upd_eq; exact Hlt2|]. split; reflexivity.
Qed.

(** * The hypotheses are satisfiable (two failed attempts, then success; another locked job,
      another thread; ReusePrivateKeys and the storage check on) *)
Definition exo_m : M.state :=
  M.State [(6, M.Cert 3 6 [] false true)] [M.Cert 3 6 [] false true]
          [M.Job 6 M.JRenew None M.Locked; M.Job 4 M.JObtain None M.Queued]
          [] [] [] [] 10 false.
Definition exo_i : I.state :=
  I.State [I.init_thread (I.TCfg I.PManage 1 6 6 6 false true false false);
           I.init_thread (ocfg 8 4 4 true true false)]
          (I.Shared (I.sto_of_list [(I.SK 6 I.KKey, I.VKey 2); (I.SK 6 I.KCrt, I.VCrt (I.Cert 3 2 false)); (I.SK 6 I.KMeta, I.VMeta 3)])
                    (fun _ => None) 10 5).
Example obtain_job_agree_nontrivial :
  exists si' es,
    I.run exo_i (labels_of 1 (lbl_obtain true true false 2)) = Some (si', es) /\
    length es = 26 /\ count_iss 4 0 es = 1 /\ count_iss 4 2 es = 2 /\
    I.sto (I.sh si') (I.SK 4 I.KCrt) = Some (I.VCrt (I.Cert 10 7 false)) /\
    bundle_rel (M.store exo_m) (I.sto (I.sh exo_i)) 4 /\
    M.stored (M.store (M.run (fun _ => false) false exo_m (mh_obtain 4 0 false 2))) 4 = Some (M.Cert 10 4 [] false true) /\
    M.failed (M.run (fun _ => false) false exo_m (mh_obtain 4 0 false 2)) = [4; 4] /\
    M.split_job 4 0 (M.jobs exo_m) = Some ([M.Job 6 M.JRenew None M.Locked], M.Job 4 M.JObtain None M.Queued, []) /\
    M.lock_held (M.jobs exo_m) 4 = false.
Proof. eexists. eexists. split; [vm_compute; reflexivity|]. vm_compute. repeat split. Qed.

(** * INCOMPLETE bundles

    [Maintain.Model.store] maps a name to a certificate or to nothing: it cannot express "the
    certificate file is there, the key file is not".  [Issuance.Model] can, and so can the
    storage.  The Go code treats an incomplete bundle as ABSENT everywhere it matters here:
    [storageHasCertResources] (config.go:1229) = Exists crt && Exists key && Exists meta, and
    [loadCertResource] (crypto.go) fails with fs.ErrNotExist on the first missing file, which
    sends [manageOne] down the obtain path (config.go:408).  So the abstraction "stored n = Some _
    iff all three files exist" is the right one, and [bundle_rel]'s [None] case (all three absent)
    is stronger than necessary.  The general facts (every storage, MaintainIssuance6.v
    [oseg_pre_incomplete]): any missing file => the pre-check fails => the request proceeds to
    the lock exactly as from empty storage.  A concrete complete run from {crt, meta} without key:
    one issuer call, complete bundle afterwards, like Maintain's job from [stored n = None]; and
    with ReusePrivateKeys from {key} alone the stored key is reused (Issuance only: Maintain has
    no keys). *)
Definition inc_sto : I.skey -> option I.value :=
  I.sto_of_list [(I.SK 4 I.KCrt, I.VCrt (I.Cert 3 2 true)); (I.SK 4 I.KMeta, I.VMeta 3)].
Definition inc_m : M.state :=
  M.State [] [] [M.Job 4 M.JObtain None M.Queued] [] [] [] [] 0 false.
Example obtain_incomplete_bundle_is_absent :
  exists si' es,
    I.run (I.init_state [ocfg 8 4 4 false false false] inc_sto) (repeat (I.Label 0 I.FNone false) 14) = Some (si', es) /\
    firstn 2 (map I.e_out es) = [0; 1] /\                     (* Exists crt: yes; Exists key: no *)
    count_iss 4 0 es = 1 /\ map I.tpc (I.thr si') = [I.PDone I.ROk] /\
    I.sto (I.sh si') (I.SK 4 I.KKey) = Some (I.VKey 0) /\
    I.sto (I.sh si') (I.SK 4 I.KCrt) = Some (I.VCrt (I.Cert 0 0 false)) /\
    I.sto (I.sh si') (I.SK 4 I.KMeta) = Some (I.VMeta 0) /\
    (* Maintain from [stored 4 = None] *)
    let sm := M.run (fun _ => false) false inc_m [M.JobStep 4 0; M.JobStep 4 0] in
    M.issued sm = [4] /\ M.stored (M.store sm) 4 = Some (M.Cert 0 4 [] false true) /\
    bundle_rel (M.store sm) (I.sto (I.sh si')) 4.
Proof.
  eexists. eexists. split; [vm_compute; reflexivity|]. vm_compute. repeat split.
  do 3 eexists. repeat split.
Qed.

Example obtain_reuses_orphan_key :
  exists si' es,
    I.run (I.init_state [ocfg 8 4 4 true false false] (I.sto_of_list [(I.SK 4 I.KKey, I.VKey 77)]))
          (repeat (I.Label 0 I.FNone false) 13) = Some (si', es) /\
    count_iss 4 0 es = 1 /\ map I.tpc (I.thr si') = [I.PDone I.ROk] /\
    I.sto (I.sh si') (I.SK 4 I.KKey) = Some (I.VKey 77) /\
    I.sto (I.sh si') (I.SK 4 I.KCrt) = Some (I.VCrt (I.Cert 0 77 false)).
Proof. eexists. eexists. split; [vm_compute; reflexivity|]. vm_compute. repeat split. Qed.
