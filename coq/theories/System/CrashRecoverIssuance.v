(** System / CrashRecoverIssuance — the lock discipline of the Issuance LTS (C01/C09) as a trace
    property, in the vocabulary it shares with the Bundle model's log: acquire / release / write.

    [lev_ok]: the bracket monitor.  A write to a certificate file is allowed only between an
    acquisition and the next release call (successful or not) of the same request; acquisitions and
    releases alternate.  Every trace of the Issuance LTS - any number of threads, every schedule,
    every plan of error / cancel / panic faults - projected on any one thread passes it
    ([issuance_traces_bracketed]); CrashRecoverAgree.v proves the same of the Bundle model's log
    under every plan of failing calls and crash points.

    Also here: what Issuance's invariant I_lock means for mutual exclusion (one thread per lock key in
    the locked region), for the comparison with the FileLock witness of two holders after a crash. *)
From Coq Require Import List Bool Arith Lia.
From CM Require Import Issuance.Model Issuance.Proofs Issuance.Invariants.
Import ListNotations.

(** * the common alphabet and the monitor *)
Inductive lev := EAcq | ERel | EWrite | EOther.
Fixpoint lev_ok (inside : bool) (l : list lev) : bool :=
  match l with
  | [] => true
  | EAcq :: r => negb inside && lev_ok true r
  | ERel :: r => inside && lev_ok false r
  | EWrite :: r => inside && lev_ok inside r
  | EOther :: r => lev_ok inside r
  end.

(** events of thread [t]: the acquisition is the successful OAcq (the Locker granted the lock); a
    release is every Unlock call; writes are Store / Delete on the bundle's keys *)
Definition lev_of_iss (t : nat) (e : ev) : lev :=
  if Nat.eqb (e_tid e) t then
    match e_op e with
    | OAcq _ => if Nat.eqb (e_out e) 0 then EAcq else EOther
    | OUnlock _ => ERel
    | OStore (SK _ _) | ODelete (SK _ _) => EWrite
    | _ => EOther
    end
  else EOther.

(** one thread step, classified *)
Lemma tstep_lev t th s f b th' s' e :
  tstep t th s f b = Some (th', s', e) ->
  match lev_of_iss t e with
  | EAcq => locked (tpc th) = false /\ locked (tpc th') = true
  | ERel => locked (tpc th) = true /\ locked (tpc th') = false
  | EWrite => locked (tpc th) = true /\ locked (tpc th') = true
  | EOther => locked (tpc th') = locked (tpc th)
  end.
Proof.
  intros H. pose proof (tstep_tid _ _ _ _ _ _ _ _ H) as Ht. unfold lev_of_iss. rewrite Ht, Nat.eqb_refl. clear Ht.
  tstep_start H th. all: tstep_full H. all: inv_some H. all: cbn. all: auto.
Qed.

Definition inside_of (s : state) (t : nat) : bool :=
  match nth_error (thr s) t with Some th => locked (tpc th) | None => false end.

Lemma step_inside s l s' e t :
  step s l = Some (s', e) ->
  match lev_of_iss t e with
  | EAcq => inside_of s t = false /\ inside_of s' t = true
  | ERel => inside_of s t = true /\ inside_of s' t = false
  | EWrite => inside_of s t = true /\ inside_of s' t = true
  | EOther => inside_of s' t = inside_of s t
  end.
Proof.
  intros Hs. apply step_inv in Hs. destruct Hs as (th & th' & sh' & Hn & Hts & ->).
  pose proof (tstep_tid _ _ _ _ _ _ _ _ Hts) as Ht.
  destruct (Nat.eq_dec (l_tid l) t) as [E|E].
  - subst t. pose proof (tstep_lev _ _ _ _ _ _ _ _ Hts) as HL.
    unfold inside_of. cbn [thr]. rewrite Hn, nth_upd_eq by (apply nth_error_Some; congruence). exact HL.
  - unfold lev_of_iss. rewrite Ht. destruct (Nat.eqb_spec (l_tid l) t); [contradiction|].
    unfold inside_of. cbn [thr]. rewrite nth_upd_neq by assumption. reflexivity.
Qed.

Lemma runs_bracketed ok s es s' t : runs ok s es s' -> lev_ok (inside_of s t) (map (lev_of_iss t) es) = true.
Proof.
  intros R. induction R as [s|s l s1 e es s2 _ Hs _ IH]; [reflexivity|].
  cbn [map lev_ok]. pose proof (step_inside s l s1 e t Hs) as HL.
  destruct (lev_of_iss t e); cbn [lev_ok].
  - destruct HL as [A B]. rewrite B in IH. rewrite A. exact IH.
  - destruct HL as [A B]. rewrite B in IH. rewrite A. exact IH.
  - destruct HL as [A B]. rewrite B in IH. rewrite A. exact IH.
  - rewrite <- HL. exact IH.
Qed.

(** every trace, every thread *)
Theorem issuance_traces_bracketed cs st es s t :
  runs any_label (init_state cs st) es s -> lev_ok false (map (lev_of_iss t) es) = true.
Proof.
  intros R. pose proof (runs_bracketed any_label _ es s t R) as H.
  assert (E : inside_of (init_state cs st) t = false).
  { unfold inside_of, init_state. cbn [thr]. rewrite nth_error_map.
    destruct (nth_error cs t) as [c|]; [|reflexivity]. cbn.
    unfold entry, after_pre. destruct (c_prog c); cbn; try reflexivity; destruct (c_chk c); reflexivity. }
  rewrite E in H. exact H.
Qed.

(** ... and while a thread is inside, the lock table says so (I_lock): a write happens only while the
    writer owns its lock key in the Locker *)
Theorem issuance_write_owns_lock cs st s l s' e th :
  reachable cs st s -> step s l = Some (s', e) -> thread_at s (l_tid l) th ->
  lev_of_iss (l_tid l) e = EWrite ->
  locked (tpc th) = true /\ lks (sh s) (c_lk (cfg th)) = Some (l_tid l).
Proof.
  intros HR Hs Ht He. pose proof (step_inside s l s' e (l_tid l) Hs) as HL. rewrite He in HL.
  destruct HL as [A _]. unfold inside_of in A. unfold thread_at in Ht. rewrite Ht in A.
  split; [exact A|]. apply (I_lock_reachable cs st s HR _ _ Ht A).
Qed.

(** * what I_lock says about mutual exclusion: one thread per lock key in the locked region *)
Theorem I_lock_exclusive s t1 t2 th1 th2 :
  I_lock s -> thread_at s t1 th1 -> thread_at s t2 th2 ->
  locked (tpc th1) = true -> locked (tpc th2) = true -> c_lk (cfg th1) = c_lk (cfg th2) -> t1 = t2.
Proof.
  intros HI H1 H2 L1 L2 E. pose proof (HI _ _ H1 L1) as O1. pose proof (HI _ _ H2 L2) as O2.
  rewrite E in O1. congruence.
Qed.

(** the acquisition step of the Locker is guarded by "nobody owns the key": the Issuance LTS cannot
    take the step that the FileLock run takes when a second recovering waiter creates its lock file
    while the first one holds *)
Theorem locker_acquire_needs_free t th s f b th' s' e :
  tstep t th s f b = Some (th', s', e) -> lev_of_iss t e = EAcq -> lks s (c_lk (cfg th)) = None.
Proof.
  intros H He. pose proof (tstep_lock_effect _ _ _ _ _ _ _ _ H) as Hle.
  pose proof (tstep_lev _ _ _ _ _ _ _ _ H) as HL. rewrite He in HL. destruct HL as [A B].
  destruct Hle as [_ _ Hlk|_ Hn _ _ _|Hl _ _ _ _ _|Hl _ _ _ _]; try congruence.
Qed.

(** non-vacuity: a run with a write inside the bracket *)
Example issuance_bracket_nontrivial :
  let cs := [TCfg (PObtain false) 0 0 0 0 false false false false] in
  exists ls s es, run (init_state cs (fun _ => None)) ls = Some (s, es) /\
    In EWrite (map (lev_of_iss 0) es) /\ In EAcq (map (lev_of_iss 0) es) /\ In ERel (map (lev_of_iss 0) es) /\
    lev_ok false (map (lev_of_iss 0) es) = true.
Proof.
  cbv zeta. exists (repeat (Label 0 FNone true) 12).
  destruct (run (init_state [TCfg (PObtain false) 0 0 0 0 false false false false] (fun _ => None))
                (repeat (Label 0 FNone true) 12)) as [[s es]|] eqn:E; [|vm_compute in E; discriminate].
  exists s, es. split; [reflexivity|].
  revert E. vm_compute. intros E. injection E as <- <-. cbn. auto 20.
Qed.
