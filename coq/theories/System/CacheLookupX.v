(** System: C12 ==> the extended C03 theorems (custom selection policies, loadCertFromStorage,
    the cache after the call: [lookup_x], Lookup.ProofsX) and C03's run-time monitors, on the
    cache any schedule of any pool of well-formed threads produces.  Kept apart from
    CacheLookup.v so that the core composition does not depend on the monitor's case format. *)
From CM Require Import Lib.Str Cache.Model Cache.AMapFacts Cache.Proofs Cache.Sched
  Lookup.Model Lookup.Proofs Lookup.ProofsX Lookup.Check Lookup.SpecProofs System.CacheLookup.
From Coq Require Import Arith.
Open Scope nat_scope.

Section AfterSchedule.
  Variable names_of : hash -> list name.
  Variable cap0 : nat.
  Variable pool : list prog.
  Variable sched : list nat.
  Hypothesis Hwf : wf_pool names_of pool.
  Let d := dstate_after cap0 pool sched.
  Let s := d_st d.
  Let cap := d_cap d.
  Let HI : Inv names_of cap s := dstate_after_inv names_of cap0 pool sched Hwf.

  (** C03_lookup_sound_x: default policy, storage and the almost-full load spelled out *)
  Theorem lookup_sound_x_after_schedule lower is_space sup valid conn cfg sni ip e c s' :
    storage_wf (x_storage e) ->
    lookup_x lower is_space (select_cert sup valid) conn s cap cfg sni ip e = (ROk c, s') ->
    let n := normalize lower is_space sni in
    (alookup (c_hash c) (cache s) = Some c /\
     ((n <> [] /\ exists san, In san (c_names c) /\ covers san n) \/
      (n = [] /\ conn = true /\ In ip (c_names c)) \/
      (n = [] /\ default_name cfg <> [] /\ In (normalize lower is_space (default_name cfg)) (c_names c)) \/
      (fallback_name cfg <> [] /\ In (normalize lower is_space (fallback_name cfg)) (c_names c)))) \/
    (almost_full cap (length (cache s)) = true /\
     exists nm x, hello_name lower is_space cfg ip (x_idna e) = Some nm /\
                  subject_qualifies is_space nm = true /\
                  load_from_storage (x_storage e) (x_broken e) nm = Some x /\ sd_servable x = true /\ c = sd_cert x /\
                  exists san, In san (c_names c) /\ covers san nm).
  Proof. intros Hst H. eapply lookup_x_sound; eauto. Qed.

  (** C03_custom_selector_scope: any Config.CertSelection *)
  Theorem custom_selector_scope_after_schedule lower is_space sup valid p conn cfg sni ip e c s' :
    lookup_x lower is_space (sel_policy sup valid p) conn s cap cfg sni ip e = (ROk c, s') ->
    (alookup (c_hash c) (cache s) = Some c /\
     exists pre v b post, tried lower is_space conn cfg sni ip = pre ++ (v, b) :: post /\
       Forall (fun q => sel_policy sup valid p s (fst q) = None) pre /\
       sel_policy sup valid p s v = Some c /\
       (p <> PDefault -> In c (choices_for s v))) \/
    (exists x, load_ok lower is_space cap s cfg ip e x /\ sd_servable x = true /\ c = sd_cert x).
  Proof. intros H. eapply custom_selector_scope; eauto. Qed.

  (** C03_lookup_preserves_cache_invariant: the handshake is itself a writer (the almost-full
      load); run as one step on the cache a schedule produced it leaves C12's invariant intact,
      so everything composes again from the state it leaves *)
  Theorem lookup_after_schedule_preserves_invariant lower is_space sel conn cfg sni ip e :
    (forall k x, alookup k (x_storage e) = Some x -> wf_cert names_of (sd_cert x)) ->
    let s' := snd (lookup_x lower is_space sel conn s cap cfg sni ip e) in
    Inv names_of cap s' /\ HandshakeGuarantees names_of cap s'.
  Proof.
    intros Hst s'. assert (H : Inv names_of cap s') by (eapply lookup_x_inv; eauto).
    split; [exact H | apply guarantees_of_inv, H].
  Qed.
End AfterSchedule.

(** C03_spec_ok_of_model / C03_answer_among_all_matching: the run-time monitors accept the
    model's answer on the cache any schedule produces *)
Theorem spec_ok_after_schedule lower is_space names_of cap0 pool sched c :
  wf_pool names_of pool ->
  l_state c = state_after cap0 pool sched -> l_cap c = d_cap (dstate_after cap0 pool sched) ->
  (forall h x, alookup h (cache (l_state c)) = Some x -> at_complete (attr_get (l_attrs c) h) = true) ->
  (forall h x, alookup h (cache (l_state c)) = Some x -> at_names (attr_get (l_attrs c) h) = c_names x) ->
  (forall k x, alookup k (x_storage (l_envx c)) = Some x ->
     alookup (c_hash (sd_cert x)) (l_stored_complete c) = Some true) ->
  spec_lookup_o lower is_space c (obs_of c (fst (run_lookup lower is_space c))) = true /\
  spec_amc_o lower is_space c (obs_of c (fst (run_lookup lower is_space c))) (amc_of lower is_space c) = true.
Proof.
  intros Hwf Hs Hc H1 H2 H3.
  assert (HI : Inv names_of (l_cap c) (l_state c)).
  { rewrite Hs, Hc. apply (dstate_after_inv names_of cap0 pool sched Hwf). }
  split; [apply (spec_lookup_of_model lower is_space names_of c HI H1 H2 H3)|].
  exact (spec_amc_of_model lower is_space names_of c HI).
Qed.
