(** System / CrashRecoverAgree — Bundle's [with_lock] and Issuance's [locked] region agree: the log
    of every obtain / renew / manage of the Bundle model, under EVERY plan (failing calls, crash at
    any index), projected on the alphabet acquire / release / write, passes the same bracket monitor
    [lev_ok] that every trace of the Issuance LTS passes ([CrashRecoverIssuance.issuance_traces_bracketed]). *)
From Coq Require Import List NArith ZArith Bool Lia.
From CM Require System.CrashRecoverIssuance.
From CM Require Import Bundle.Model Bundle.Proofs Bundle.Faults System.CrashRecoverBundle.
Import ListNotations.

Notation lev := CrashRecoverIssuance.lev.
Notation EAcq := CrashRecoverIssuance.EAcq.
Notation ERel := CrashRecoverIssuance.ERel.
Notation EWrite := CrashRecoverIssuance.EWrite.
Notation EOther := CrashRecoverIssuance.EOther.
Notation lev_ok := CrashRecoverIssuance.lev_ok.

(** the acquisition is the Lock call that succeeded (a failed one acquires nothing); a release is
    every Unlock call; writes are Store / Delete on certificate files and site directories *)
Definition lev_of_bundle (e : logev) : lev :=
  match e with
  | LOp OLock _ None => EAcq
  | LOp OLock _ (Some _) => EOther
  | LOp OUnlock _ _ => ERel
  | _ => if writes_file e then EWrite else EOther
  end.

Lemma lev_quiet e : quiet_ev e = true -> lev_of_bundle e = EOther.
Proof.
  unfold quiet_ev. intros H. apply andb_true_iff in H. destruct H as [H1 H2].
  apply negb_true_iff in H1. apply negb_true_iff in H2.
  destruct e as [k t o| |]; try reflexivity. destruct k; try discriminate; cbn in *; rewrite ?H2; try reflexivity;
    destruct t; try discriminate; reflexivity.
Qed.
Lemma lev_nolock e : nolock_ev e = true -> lev_of_bundle e = EOther \/ lev_of_bundle e = EWrite.
Proof.
  unfold nolock_ev. intros H. apply negb_true_iff in H.
  destruct e as [k t o| |]; auto. destruct k; try discriminate; cbn; auto; destruct t; auto.
Qed.

Lemma lev_ok_quiet b l r : forallb quiet_ev l = true -> lev_ok b (map lev_of_bundle l ++ r) = lev_ok b r.
Proof.
  induction l as [|e l IH]; cbn [map app forallb]; [reflexivity|]. intros H. apply andb_true_iff in H. destruct H as [H1 H2].
  rewrite (lev_quiet e H1). cbn. apply IH, H2.
Qed.
Lemma lev_ok_body l r : forallb nolock_ev l = true -> lev_ok true (map lev_of_bundle l ++ r) = lev_ok true r.
Proof.
  induction l as [|e l IH]; cbn [map app forallb]; [reflexivity|]. intros H. apply andb_true_iff in H. destruct H as [H1 H2].
  destruct (lev_nolock e H1) as [-> | ->]; cbn; apply IH, H2.
Qed.

(** the shape of CrashRecoverBundle passes the monitor (oldest event first = [rev] of the log) *)
Lemma hshape_lev_ok pl new dead locked :
  hshape pl quiet_ev new dead locked -> lev_ok false (map lev_of_bundle (rev new)) = true.
Proof.
  intros (post & mid & pre & -> & F1 & F2 & HW).
  rewrite !rev_app_distr, !map_app, <- !app_assoc.
  assert (Q : forall l, forallb quiet_ev l = true -> forallb quiet_ev (rev l) = true).
  { intros l H. rewrite forallb_forall in *. intros x Hx. apply H, in_rev, Hx. }
  assert (N : forall l, forallb nolock_ev l = true -> forallb nolock_ev (rev l) = true).
  { intros l H. rewrite forallb_forall in *. intros x Hx. apply H, in_rev, Hx. }
  rewrite (lev_ok_quiet false (rev pre) _ (Q _ F2)).
  assert (P : lev_ok false (map lev_of_bundle (rev post)) = true).
  { rewrite <- (app_nil_r (map _ _)). rewrite (lev_ok_quiet false (rev post) [] (Q _ F1)). reflexivity. }
  assert (P' : forall b, lev_ok b (map lev_of_bundle (rev post)) = true).
  { intros b. rewrite <- (app_nil_r (map _ _)). rewrite (lev_ok_quiet b (rev post) [] (Q _ F1)). reflexivity. }
  inversion HW; subst; cbn [rev map app].
  - apply P.
  - cbn. apply P.
  - rewrite rev_app_distr. cbn [rev app map lev_of_bundle ev_lock_ok lev_ok negb andb].
    rewrite (lev_ok_body (rev body) _ (N _ H)). apply P'.
  - rewrite rev_app_distr. cbn [rev app map]. rewrite map_app.
    cbn [app map lev_of_bundle ev_lock_ok lev_ok negb andb].
    rewrite <- app_assoc. rewrite (lev_ok_body (rev body) _ (N _ H)).
    cbn [map app lev_of_bundle ev_unlock lev_ok andb]. apply P'.
  - rewrite rev_app_distr. cbn [rev app map]. rewrite map_app.
    cbn [app map lev_of_bundle ev_lock_ok lev_ok negb andb].
    rewrite <- app_assoc. rewrite (lev_ok_body (rev body) _ (N _ H)).
    cbn [map app lev_of_bundle ev_unlock lev_ok andb]. apply P'.
Qed.

(** every operation of the fault experiments, every plan, every crash point: the new part of the log
    (oldest first) is bracketed.  [k_ocsp = []]: with a key-compromise revocation pending, manage first
    quarantines the key OUTSIDE the lock (maintain.go forceRenew -> moveCompromisedPrivateKey), see notes *)
Theorem bundle_log_bracketed pl cfg sp orc h w0 :
  is_op7 h = true -> k_ocsp (w_core w0) = [] -> w_locked w0 = false ->
  exists new, w_log (snd (run_hop pl cfg sp orc h w0)) = new ++ w_log w0 /\
              lev_ok false (map lev_of_bundle (rev new)) = true.
Proof.
  intros Hop HO Hw. destruct (run_hop_bracket pl cfg sp orc h w0 Hop HO Hw) as (new & E & HH).
  exists new. split; [exact E | eapply hshape_lev_ok; exact HH].
Qed.

(** obtain and renew need no hypothesis on revocations *)
Theorem bundle_obtain_renew_bracketed pl cfg sp orc w0 :
  w_locked w0 = false ->
  (exists new, w_log (snd (obtain pl cfg sp orc w0)) = new ++ w_log w0 /\ lev_ok false (map lev_of_bundle (rev new)) = true) /\
  (forall f, exists new, w_log (snd (renew pl cfg sp orc f w0)) = new ++ w_log w0 /\ lev_ok false (map lev_of_bundle (rev new)) = true).
Proof.
  intros Hw. split.
  - destruct (HS_obtain pl cfg sp orc w0 Hw) as (new & E & HH). exists new. split; [exact E | eapply hshape_lev_ok; exact HH].
  - intros f. destruct (HS_renew pl cfg sp orc f w0 Hw) as (new & E & HH). exists new. split; [exact E | eapply hshape_lev_ok; exact HH].
Qed.

(** in a run that did not die and whose Unlock call was made, the bracket is closed: as many releases as
    acquisitions - for the Bundle log this is the [wl_unlocked] / [wl_unlockfail] shape *)
Theorem bundle_bracket_closed pl cfg sp orc h w0 :
  is_op7 h = true -> w_locked w0 = false -> fst (run_hop pl cfg sp orc h w0) <> Dead ->
  exists new, w_log (snd (run_hop pl cfg sp orc h w0)) = new ++ w_log w0 /\
    (lock_calls new = [] \/ lock_calls new = [ev_lock_failed] \/
     exists e, lock_calls new = [ev_unlock e; ev_lock_ok]).
Proof.
  intros Hop Hw HD. destruct (bundle_lock_after pl cfg sp orc h w0 Hop Hw) as (new & E & Hc).
  exists new. split; [exact E|].
  destruct Hc as [(A & _)|[(A & _)|[(_ & _ & B)|[(A & _)|(A & _)]]]]; eauto. contradiction.
Qed.

(** non-vacuity: the renewal of C07's witness with key reuse, fault-free: writes inside the bracket *)
Definition agree_cfg := Config 1 true false.
Definition agree_sp := Subject 0 0 0 0.
Definition agree_w0 : world :=
  clear_log (snd (run_hop no_faults agree_cfg agree_sp (Oracle [Some (10%Z, VDue)] []) HManage empty_world)).
Example bundle_log_bracketed_nontrivial :
  let new := w_log (snd (run_hop no_faults agree_cfg agree_sp (Oracle [Some (20%Z, VFresh)] []) HManage agree_w0)) in
  k_ocsp (w_core agree_w0) = [] /\ w_locked agree_w0 = false /\
  In EWrite (map lev_of_bundle (rev new)) /\ In EAcq (map lev_of_bundle (rev new)) /\ In ERel (map lev_of_bundle (rev new)) /\
  lev_ok false (map lev_of_bundle (rev new)) = true.
Proof. vm_compute. auto 30. Qed.
