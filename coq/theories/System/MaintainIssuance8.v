(** System / S12 (part 8) -- SYNCHRONOUS manage: Maintain's [manage s n false] (ONE event) and
    Issuance's [PManage] thread run alone to [PDone], both sides.

    Both model [Config.manageOne] (config.go:396) with [async = false]:
      CacheManagedCertificate: not found => ObtainCertSync, CacheManagedCertificate;
      found => (cached) => NeedsRenewal => RenewCertSync, reloadManagedCertificate.

      (M) [Maintain.Model.manage] -- one step; the case table of
          [C05_manage_load_else_obtain_renew_if_due];
      (I) [Issuance.Model] program [PManage]:  Load key,crt,meta
            not found => Exists crt.. [checkStorage] Lock Acq Exists crt.. cert_obtaining [Load key]
                         Issue Store x3 cert_obtained Unlock  Load x3 LoadOcsp cached_managed_cert
            found     => [key matches certificate?] LoadOcsp cached_managed_cert
                         due => [checkStorage] Lock Acq Load x3 cert_obtaining Issue Store x3
                                cert_obtained Unlock  Load x3 LoadOcsp.
          Synchronous = interactive: ONE attempt, an issuer error is returned to the caller.

    TRANSLATION: as for the jobs (MaintainIssuance3.v / 6.v), plus
      "[c] is in Maintain's cache because THIS call put it there ([cache_add] / [reload_one])"
          ~  [seen] of the thread = Some c    (Issuance has no cache: [seen] is "certificate put
             into the cache" by this request);
      [lasterr] = true  ~  the request ends in [PDone RErr];
      [is_failing s n]  ~  fault [FErr] at the request's (only) [PIssS].
    Side conditions (what one model has and the other has not): see MaintainIssuance9.v. *)
From Coq Require Import List Bool Arith Lia.
From CM Require Issuance.Model Maintain.Model.
From CM Require Import Issuance.Base Maintain.Base System.MaintainIssuance3 System.MaintainIssuance4
                       System.MaintainIssuance6.
Import ListNotations.
Open Scope nat_scope.

#[local] Arguments I.sput : simpl never.
#[local] Arguments I.lput : simpl never.

Ltac one8 tac :=
  eapply trun_cons;
  [unfold I.tstep, I.norm_pc, I.mark; cbn; rewrite ?orb_false_r, ?orb_true_r; tac; cbn; tac; cbn;
   rewrite ?orb_false_r, ?orb_true_r; reflexivity|].
Ltac go8 tac := unfold N; repeat (one8 tac); reflexivity.

Section ManageIssuance.
  Variables (t lk n idn : nat) (reuse chk force issdue : bool).

  Definition mcfg : I.tcfg := I.TCfg I.PManage lk n n idn reuse chk force issdue.
  Definition MT (p : I.pc) (cu : I.opk) (lkey : option nat) (lcrt : option I.cert) (nk : nat)
             (nc sn : option I.cert) (rc fl : bool) : I.thread :=
    I.Thread mcfg p cu false fl lkey lcrt nk nc sn rc.

  Definition Ld (j : I.kind) (o : nat) : I.ev := E t (I.OLoad (I.SK n j)) o.
  Definition St (j : I.kind) : I.ev := E t (I.OStore (I.SK n j)) 0.
  Definition ev_loads3 : list I.ev := [Ld I.KKey 0; Ld I.KCrt 0; Ld I.KMeta 0].
  Definition ev_issue_ok : list I.ev :=
    [E t (I.OIssS idn) 0; E t (I.OIssE idn) 0; St I.KKey; St I.KCrt; St I.KMeta; E t (I.OEmit 1) 0; E t (I.OUnlock lk) 0].
  Definition ev_issue_fail : list I.ev := [E t (I.OIssS idn) 2; E t (I.OEmit 2) 0; E t (I.OUnlock lk) 0].
  Definition lbl_issue_ok : list (I.fault * bool) := [N; N; N; N; N; N; N].
  Definition lbl_issue_fail : list (I.fault * bool) := [(I.FErr, false); N; N].

  (** ** [checkStorage], Lock, LockAcquired of the obtain / renew operation inside manage *)
  Lemma mseg_A cu sto lks ncid nkid lkey lcrt nk nc sn rc fl :
    cu = I.OpObtain \/ cu = I.OpRenew -> lks lk = None ->
    trun t (MT (I.after_pre mcfg) cu lkey lcrt nk nc sn rc fl) (I.Shared sto lks ncid nkid) (lbl_A chk) =
    Some (MT (match cu with I.OpObtain => I.PRe I.KCrt | _ => I.PLd I.KKey end) cu lkey lcrt nk nc sn true fl,
          I.Shared (sto_A t chk sto) (I.lput lks lk (Some t)) ncid nkid, ev_A t lk chk).
  Proof.
    intros Hcu Hl. unfold lbl_A, ev_A, sto_A, E, MT, mcfg, I.after_pre. cbn [I.c_chk].
    destruct Hcu as [-> | ->]; destruct chk; cbn [app].
    all: go8 ltac:(rewrite ?sput_eq, ?Hl).
  Qed.

  (** ** nothing stored *)
  Section Absent.
    Variables (sto : I.skey -> option I.value) (lks : nat -> option nat).
    Hypothesis Hc : sto (I.SK n I.KCrt) = None.
    Hypothesis Hk : sto (I.SK n I.KKey) = None.

    (** CacheManagedCertificate: Load key: not found => ObtainCertSync: pre-check Exists crt: no *)
    Definition ev_mabs1 : list I.ev := [Ld I.KKey 1; X t n I.KCrt 1].
    Lemma mseg_abs1 ncid nkid lkey lcrt nk nc sn rc fl :
      trun t (MT (I.PMLd I.Ph0 I.KKey) I.OpObtain lkey lcrt nk nc sn rc fl) (I.Shared sto lks ncid nkid) [N; N] =
      Some (MT (I.after_pre mcfg) I.OpObtain lkey lcrt nk nc sn rc fl, I.Shared sto lks ncid nkid, ev_mabs1).
    Proof. unfold ev_mabs1, Ld, X, E, MT, mcfg. go8 ltac:(rewrite ?Hc, ?Hk). Qed.

    Hypothesis Hl : lks lk = Some t.

    (** the one attempt, the issuer answers; then CacheManagedCertificate of what was saved *)
    Definition lbl_mabs_ok : list (I.fault * bool) := [N; N] ++ lbl_reuse reuse ++ lbl_issue_ok ++ [N; N; N; N; N].
    Definition ev_mabs_ok : list I.ev :=
      [X t n I.KCrt 1; E t (I.OEmit 0) 0] ++ ev_reuse t n reuse ++ ev_issue_ok ++
      ev_loads3 ++ [E t I.OLoadOcsp 1; E t (I.OEmit 3) 0].
    Lemma mseg_abs_ok ncid nkid lkey lcrt nk nc sn fl :
      exists th',
        trun t (MT (I.PRe I.KCrt) I.OpObtain lkey lcrt nk nc sn true fl) (I.Shared sto lks ncid nkid) lbl_mabs_ok =
        Some (th', I.Shared (sto_ook n issdue sto ncid nkid) (I.lput lks lk None) (S ncid) (S nkid), ev_mabs_ok) /\
        I.tpc th' = I.PDone I.ROk /\ I.seen th' = Some (onew issdue ncid nkid) /\ I.recd th' = false.
    Proof.
      eexists. split.
      - unfold lbl_mabs_ok, ev_mabs_ok, lbl_issue_ok, ev_issue_ok, ev_loads3, lbl_reuse, ev_reuse, Ld, St, X, E, MT, mcfg, sto_ook, onew.
        destruct reuse; cbn [app];
          go8 ltac:(rewrite ?Hc, ?Hk, ?Hl, ?Nat.eqb_refl, ?sput_eq; repeat (rewrite sput_neq by discriminate); rewrite ?sput_eq).
      - repeat split.
    Qed.

    (** the one attempt, the issuer fails: the error goes to the caller *)
    Definition lbl_mabs_fail : list (I.fault * bool) := [N; N] ++ lbl_reuse reuse ++ lbl_issue_fail.
    Definition ev_mabs_fail : list I.ev :=
      [X t n I.KCrt 1; E t (I.OEmit 0) 0] ++ ev_reuse t n reuse ++ ev_issue_fail.
    Lemma mseg_abs_fail ncid nkid lkey lcrt nk nc sn fl :
      exists th',
        trun t (MT (I.PRe I.KCrt) I.OpObtain lkey lcrt nk nc sn true fl) (I.Shared sto lks ncid nkid) lbl_mabs_fail =
        Some (th', I.Shared sto (I.lput lks lk None) ncid (S nkid), ev_mabs_fail) /\
        I.tpc th' = I.PDone I.RErr /\ I.seen th' = sn /\ I.recd th' = false.
    Proof.
      eexists. split.
      - unfold lbl_mabs_fail, ev_mabs_fail, lbl_issue_fail, ev_issue_fail, lbl_reuse, ev_reuse, X, E, MT, mcfg.
        destruct reuse; cbn [app]; go8 ltac:(rewrite ?Hc, ?Hk, ?Hl, ?Nat.eqb_refl).
      - repeat split.
    Qed.
  End Absent.

  (** ** a bundle is stored, its key matches its certificate *)
  Section Present.
    Variables (sto : I.skey -> option I.value) (lks : nat -> option nat).
    Variables (kk id : nat) (due : bool) (vm : I.value).
    Hypothesis Hk : sto (I.SK n I.KKey) = Some (I.VKey kk).
    Hypothesis Hc : sto (I.SK n I.KCrt) = Some (I.VCrt (I.Cert id kk due)).
    Hypothesis Hm : sto (I.SK n I.KMeta) = Some vm.

    (** CacheManagedCertificate: Load x3, key check, OCSP, cached_managed_cert *)
    Definition ev_cache : list I.ev := ev_loads3 ++ [E t I.OLoadOcsp 1; E t (I.OEmit 3) 0].
    Lemma mseg_pres_fresh ncid nkid lkey lcrt nk nc sn rc fl : due = false ->
      trun t (MT (I.PMLd I.Ph0 I.KKey) I.OpObtain lkey lcrt nk nc sn rc fl) (I.Shared sto lks ncid nkid) [N; N; N; N; N] =
      Some (MT (I.PDone I.ROk) I.OpObtain (Some kk) (Some (I.Cert id kk due)) nk nc (Some (I.Cert id kk due)) rc fl,
            I.Shared sto lks ncid nkid, ev_cache).
    Proof.
      intros ->. unfold ev_cache, ev_loads3, Ld, E, MT, mcfg. go8 ltac:(rewrite ?Hc, ?Hk, ?Hm, ?Nat.eqb_refl).
    Qed.
    Lemma mseg_pres_due1 ncid nkid lkey lcrt nk nc sn rc fl : due = true ->
      trun t (MT (I.PMLd I.Ph0 I.KKey) I.OpObtain lkey lcrt nk nc sn rc fl) (I.Shared sto lks ncid nkid) [N; N; N; N; N] =
      Some (MT (I.after_pre mcfg) I.OpRenew (Some kk) (Some (I.Cert id kk due)) nk nc (Some (I.Cert id kk due)) rc fl,
            I.Shared sto lks ncid nkid, ev_cache).
    Proof.
      intros ->. unfold ev_cache, ev_loads3, Ld, E, MT, mcfg. go8 ltac:(rewrite ?Hc, ?Hk, ?Hm, ?Nat.eqb_refl).
    Qed.

    Hypothesis Hl : lks lk = Some t.

    (** RenewCertSync's one attempt, the issuer answers; then reloadManagedCertificate *)
    Definition lbl_mren_ok : list (I.fault * bool) := [N; N; N; N] ++ lbl_issue_ok ++ [N; N; N; N].
    Definition ev_mren_ok : list I.ev :=
      ev_loads3 ++ [E t (I.OEmit 0) 0] ++ ev_issue_ok ++ ev_loads3 ++ [E t I.OLoadOcsp 1].
    Lemma mseg_ren_ok ncid nkid lkey lcrt nk nc sn fl : due = true ->
      exists th',
        trun t (MT (I.PLd I.KKey) I.OpRenew lkey lcrt nk nc sn true fl) (I.Shared sto lks ncid nkid) lbl_mren_ok =
        Some (th', I.Shared (sto_ok n reuse issdue sto kk ncid nkid) (I.lput lks lk None) (S ncid) (nkid_after reuse nkid),
              ev_mren_ok) /\
        I.tpc th' = I.PDone I.ROk /\ I.seen th' = Some (new_cert reuse issdue kk ncid nkid) /\ I.recd th' = false.
    Proof.
      intros ->.
      unfold lbl_mren_ok, ev_mren_ok, lbl_issue_ok, ev_issue_ok, ev_loads3, Ld, St, E, MT, mcfg, sto_ok, new_cert, key_at, nkid_after.
      destruct reuse; cbn [app]; (eexists; split; [|repeat split]);
        go8 ltac:(rewrite ?Hc, ?Hk, ?Hm, ?Hl, ?Nat.eqb_refl, ?sput_eq; repeat (rewrite sput_neq by discriminate); rewrite ?sput_eq).
    Qed.

    (** ... the issuer fails *)
    Definition lbl_mren_fail : list (I.fault * bool) := [N; N; N; N] ++ lbl_issue_fail.
    Definition ev_mren_fail : list I.ev := ev_loads3 ++ [E t (I.OEmit 0) 0] ++ ev_issue_fail.
    Lemma mseg_ren_fail ncid nkid lkey lcrt nk nc sn fl : due = true ->
      exists th',
        trun t (MT (I.PLd I.KKey) I.OpRenew lkey lcrt nk nc sn true fl) (I.Shared sto lks ncid nkid) lbl_mren_fail =
        Some (th', I.Shared sto (I.lput lks lk None) ncid (nkid_after reuse nkid), ev_mren_fail) /\
        I.tpc th' = I.PDone I.RErr /\ I.seen th' = sn /\ I.recd th' = false.
    Proof.
      intros ->.
      unfold lbl_mren_fail, ev_mren_fail, lbl_issue_fail, ev_issue_fail, ev_loads3, Ld, E, MT, mcfg, nkid_after.
      destruct reuse; cbn [app]; (eexists; split; [|repeat split]); go8 ltac:(rewrite ?Hc, ?Hk, ?Hm, ?Hl, ?Nat.eqb_refl).
    Qed.
  End Present.

  (** ** the whole request: schedule, events, final shared state, by case
      [present]: a bundle is stored; [due]: it is due; [fail]: the issuer fails *)
  Definition need (present due : bool) : bool := negb present || due.
  Definition lbl_manage (present due fail : bool) : list (I.fault * bool) :=
    if present then
      [N; N; N; N; N] ++ (if due then lbl_A chk ++ (if fail then lbl_mren_fail else lbl_mren_ok) else [])
    else [N; N] ++ lbl_A chk ++ (if fail then lbl_mabs_fail else lbl_mabs_ok).
  Definition ev_manage (present due fail : bool) : list I.ev :=
    if present then
      ev_cache ++ (if due then ev_A t lk chk ++ (if fail then ev_mren_fail else ev_mren_ok) else [])
    else ev_mabs1 ++ ev_A t lk chk ++ (if fail then ev_mabs_fail else ev_mabs_ok).

  Lemma count_manage present due fail :
    count_iss idn 0 (ev_manage present due fail) = (if need present due && negb fail then 1 else 0) /\
    count_iss idn 2 (ev_manage present due fail) = (if need present due && fail then 1 else 0).
  Proof.
    assert (A : forall o, count_iss idn o (ev_A t lk chk) = 0) by (intros o; unfold ev_A; destruct chk; reflexivity).
    unfold ev_manage, need.
    destruct present, due, fail; cbn [negb orb andb]; rewrite ?count_iss_app, ?A;
      unfold ev_cache, ev_mabs1, ev_mren_fail, ev_mren_ok, ev_mabs_fail, ev_mabs_ok, ev_issue_ok, ev_issue_fail,
             ev_loads3, ev_reuse, Ld, St, X, E, count_iss;
      destruct reuse; cbn [app filter is_iss I.e_op I.e_out length]; rewrite ?Nat.eqb_refl; cbn; split; reflexivity.
  Qed.

  (** nothing stored *)
  Lemma manage_thread_run_absent fail sto lks ncid nkid lkey lcrt nk nc sn rc fl :
    lks lk = None -> sto (I.SK n I.KCrt) = None -> sto (I.SK n I.KKey) = None ->
    exists th',
      trun t (MT (I.PMLd I.Ph0 I.KKey) I.OpObtain lkey lcrt nk nc sn rc fl) (I.Shared sto lks ncid nkid)
           (lbl_manage false false fail) =
      Some (th', I.Shared (if fail then sto_A t chk sto else sto_ook n issdue (sto_A t chk sto) ncid nkid)
                          (lks_renew t lk lks) (if fail then ncid else S ncid) (S nkid),
            ev_manage false false fail) /\
      I.tpc th' = I.PDone (if fail then I.RErr else I.ROk) /\
      I.seen th' = (if fail then sn else Some (onew issdue ncid nkid)) /\ I.recd th' = false.
  Proof.
    intros Hl Hc Hk.
    pose proof (mseg_abs1 sto lks Hc Hk ncid nkid lkey lcrt nk nc sn rc fl) as H1.
    pose proof (mseg_A I.OpObtain sto lks ncid nkid lkey lcrt nk nc sn rc fl (or_introl eq_refl) Hl) as HA.
    assert (Hc' : sto_A t chk sto (I.SK n I.KCrt) = None) by (rewrite sto_A_SK; exact Hc).
    assert (Hk' : sto_A t chk sto (I.SK n I.KKey) = None) by (rewrite sto_A_SK; exact Hk).
    assert (Hl' : I.lput lks lk (Some t) lk = Some t) by apply lput_eq.
    unfold lbl_manage, ev_manage, lks_renew. destruct fail.
    - destruct (mseg_abs_fail (sto_A t chk sto) _ Hc' Hk' Hl' ncid nkid lkey lcrt nk nc sn fl) as (th' & H3 & P).
      exists th'. split; [|exact P].
      eapply trun_app; [exact H1|]. eapply trun_app; [exact HA|exact H3].
    - destruct (mseg_abs_ok (sto_A t chk sto) _ Hc' Hk' Hl' ncid nkid lkey lcrt nk nc sn fl) as (th' & H3 & P).
      exists th'. split; [|exact P].
      eapply trun_app; [exact H1|]. eapply trun_app; [exact HA|exact H3].
  Qed.

  (** a bundle stored *)
  Lemma manage_thread_run_present due fail sto lks ncid nkid kk id vm lkey lcrt nk nc sn rc fl :
    lks lk = None ->
    sto (I.SK n I.KKey) = Some (I.VKey kk) ->
    sto (I.SK n I.KCrt) = Some (I.VCrt (I.Cert id kk due)) ->
    sto (I.SK n I.KMeta) = Some vm ->
    exists th',
      trun t (MT (I.PMLd I.Ph0 I.KKey) I.OpObtain lkey lcrt nk nc sn rc fl) (I.Shared sto lks ncid nkid)
           (lbl_manage true due fail) =
      Some (th', I.Shared (if due then if fail then sto_A t chk sto else sto_ok n reuse issdue (sto_A t chk sto) kk ncid nkid
                           else sto)
                          (if due then lks_renew t lk lks else lks)
                          (if due && negb fail then S ncid else ncid)
                          (if due then nkid_after reuse nkid else nkid),
            ev_manage true due fail) /\
      I.tpc th' = I.PDone (if due && fail then I.RErr else I.ROk) /\
      I.seen th' = (if due && negb fail then Some (new_cert reuse issdue kk ncid nkid) else Some (I.Cert id kk due)) /\
      (if due then I.recd th' = false else I.recd th' = rc).
  Proof.
    intros Hl Hk Hc Hm. unfold lbl_manage, ev_manage, lks_renew. destruct due.
    - pose proof (mseg_pres_due1 sto lks kk id true vm Hk Hc Hm ncid nkid lkey lcrt nk nc sn rc fl eq_refl) as H1.
      pose proof (mseg_A I.OpRenew sto lks ncid nkid (Some kk) (Some (I.Cert id kk true)) nk nc (Some (I.Cert id kk true)) rc fl
                    (or_intror eq_refl) Hl) as HA.
      assert (Hk' : sto_A t chk sto (I.SK n I.KKey) = Some (I.VKey kk)) by (rewrite sto_A_SK; exact Hk).
      assert (Hc' : sto_A t chk sto (I.SK n I.KCrt) = Some (I.VCrt (I.Cert id kk true))) by (rewrite sto_A_SK; exact Hc).
      assert (Hm' : sto_A t chk sto (I.SK n I.KMeta) = Some vm) by (rewrite sto_A_SK; exact Hm).
      assert (Hl' : I.lput lks lk (Some t) lk = Some t) by apply lput_eq.
      destruct fail; cbn [andb negb].
      + destruct (mseg_ren_fail (sto_A t chk sto) _ kk id true vm Hk' Hc' Hm' Hl' ncid nkid (Some kk) (Some (I.Cert id kk true)) nk nc
                    (Some (I.Cert id kk true)) fl eq_refl) as (th' & H3 & P).
        exists th'. split; [|exact P].
        eapply trun_app; [exact H1|]. eapply trun_app; [exact HA|exact H3].
      + destruct (mseg_ren_ok (sto_A t chk sto) _ kk id true vm Hk' Hc' Hm' Hl' ncid nkid (Some kk) (Some (I.Cert id kk true)) nk nc
                    (Some (I.Cert id kk true)) fl eq_refl) as (th' & H3 & P).
        exists th'. split; [|exact P].
        eapply trun_app; [exact H1|]. eapply trun_app; [exact HA|exact H3].
    - pose proof (mseg_pres_fresh sto lks kk id false vm Hk Hc Hm ncid nkid lkey lcrt nk nc sn rc fl eq_refl) as H1.
      eexists. split; [rewrite !app_nil_r; exact H1|]. cbn [andb]. repeat split.
  Qed.
End ManageIssuance.

(** * The Maintain side: [manage s n false] computed, case by case *)
Section ManageMaintain.
  Variables (od : M.name -> bool) (idue : bool) (n : nat) (s0 : M.state).
  Hypothesis Hod : od n = false.
  Hypothesis Hmf : M.managed_for n (M.cache s0) = false.
  Hypothesis Hfree : M.lock_held (M.jobs s0) n = false.

  Definition mnew8 : M.cert := M.Cert (M.next s0) n [] idue true.

  Lemma mm_absent_fail : M.stored (M.store s0) n = None -> M.is_failing s0 n = true ->
    M.step od idue s0 (M.Manage n false) =
    M.State (M.store s0) (M.cache s0) (M.jobs s0) (M.passes s0) (M.failing s0) (M.issued s0) (n :: M.failed s0) (M.next s0) true.
  Proof.
    intros Hst Hf. destruct s0 as [st ca js ps fg iss fd nx le]. unfold M.is_failing in Hf. cbn [M.store M.cache M.jobs M.failing] in *.
    unfold M.step, M.manage, M.with_err, M.is_failing. cbn [M.store M.cache M.jobs M.passes M.failing M.issued M.failed M.next M.lasterr].
    rewrite Hod, Hmf, Hst, Hfree, Hf. reflexivity.
  Qed.

  Lemma mm_absent_ok : M.stored (M.store s0) n = None -> M.is_failing s0 n = false ->
    M.step od idue s0 (M.Manage n false) =
    M.State ((n, mnew8) :: M.store s0) (M.cache_add mnew8 (M.cache s0)) (M.jobs s0) (M.passes s0) (M.failing s0)
            (n :: M.issued s0) (M.failed s0) (S (M.next s0)) false.
  Proof.
    intros Hst Hf. unfold mnew8. destruct s0 as [st ca js ps fg iss fd nx le]. unfold M.is_failing in Hf. cbn [M.store M.cache M.jobs M.failing M.next] in *.
    unfold M.step, M.manage, M.with_err, M.is_failing. cbn [M.store M.cache M.jobs M.passes M.failing M.issued M.failed M.next M.lasterr].
    rewrite Hod, Hmf, Hst, Hfree, Hf. unfold M.issue, M.new_cert. cbn [M.store M.cache M.jobs M.passes M.failing M.issued M.failed M.next M.lasterr].
    rewrite stored_cons_eq. reflexivity.
  Qed.

  Lemma mm_present_fresh mc : M.stored (M.store s0) n = Some mc -> M.cdue mc = false ->
    M.step od idue s0 (M.Manage n false) =
    M.State (M.store s0) (M.cache_add mc (M.cache s0)) (M.jobs s0) (M.passes s0) (M.failing s0) (M.issued s0) (M.failed s0) (M.next s0) false.
  Proof.
    intros Hst Hd. destruct s0 as [st ca js ps fg iss fd nx le]. cbn [M.store M.cache M.jobs M.failing] in *.
    unfold M.step, M.manage, M.with_err. cbn [M.store M.cache M.jobs M.passes M.failing M.issued M.failed M.next M.lasterr].
    rewrite Hod, Hmf, Hst, Hd. reflexivity.
  Qed.

  Lemma mm_present_fail mc : M.stored (M.store s0) n = Some mc -> M.cdue mc = true -> M.is_failing s0 n = true ->
    M.step od idue s0 (M.Manage n false) =
    M.State (M.store s0) (M.cache_add mc (M.cache s0)) (M.jobs s0) (M.passes s0) (M.failing s0) (M.issued s0) (n :: M.failed s0) (M.next s0) true.
  Proof.
    intros Hst Hd Hf. destruct s0 as [st ca js ps fg iss fd nx le]. unfold M.is_failing in Hf. cbn [M.store M.cache M.jobs M.failing] in *.
    unfold M.step, M.manage, M.with_err, M.with_cache, M.with_failed, M.is_failing. cbn [M.store M.cache M.jobs M.passes M.failing M.issued M.failed M.next M.lasterr].
    rewrite Hod, Hmf, Hst, Hd, Hfree, Hf. reflexivity.
  Qed.

  Lemma mm_present_ok mc : M.stored (M.store s0) n = Some mc -> M.cdue mc = true -> M.is_failing s0 n = false ->
    M.chead mc = n ->
    M.step od idue s0 (M.Manage n false) =
    M.State ((n, mnew8) :: M.store s0) (M.cache_replace mc mnew8 (M.cache_add mc (M.cache s0))) (M.jobs s0) (M.passes s0)
            (M.failing s0) (n :: M.issued s0) (M.failed s0) (S (M.next s0)) false.
  Proof.
    intros Hst Hd Hf Hh. unfold mnew8. destruct s0 as [st ca js ps fg iss fd nx le]. unfold M.is_failing in Hf. cbn [M.store M.cache M.jobs M.failing M.next] in *.
    unfold M.step, M.manage, M.with_err, M.with_cache, M.is_failing. cbn [M.store M.cache M.jobs M.passes M.failing M.issued M.failed M.next M.lasterr].
    rewrite Hod, Hmf, Hst, Hd, Hfree, Hf. unfold M.issue, M.new_cert, M.reload_one. cbn [M.store M.cache M.jobs M.passes M.failing M.issued M.failed M.next M.lasterr].
    rewrite Hh, stored_cons_eq. reflexivity.
  Qed.
End ManageMaintain.
