(** System / S12 (part 9) -- THE AGREEMENT THEOREM for SYNCHRONOUS manage: Maintain's
    [Manage n false] event and Issuance's [PManage] thread run alone to [PDone]
    (MaintainIssuance8.v) agree on the whole case table of
    [C05_manage_load_else_obtain_renew_if_due]: what is issued, what is stored, what is cached,
    what the caller gets.  Then: where the two models do NOT overlap (witnesses), and the
    asynchronous manage. *)
From Coq Require Import List Bool Arith Lia.
From CM Require Issuance.Model Maintain.Model.
From CM Require Import Issuance.Base Maintain.Base Maintain.Proofs System.MaintainIssuance3 System.MaintainIssuance4
                       System.MaintainIssuance6 System.MaintainIssuance7 System.MaintainIssuance8.
Import ListNotations.
Open Scope nat_scope.

(** * The theorem *)
Theorem manage_sync_agree od idue (s0 : M.state) n (si : I.state) t th lk idn reuse chk force fail :
  (* Maintain: not on-demand, not yet managed, nobody holds the lock; the issuer's status *)
  od n = false -> M.managed_for n (M.cache s0) = false -> M.lock_held (M.jobs s0) n = false ->
  M.is_failing s0 n = fail ->
  (forall mc, M.stored (M.store s0) n = Some mc -> M.chead mc = n) ->          (* part of [WF] *)
  (* Issuance: thread t is a ManageSync request at its entry; the lock is free *)
  nth_error (I.thr si) t = Some th ->
  I.cfg th = mcfg lk n idn reuse chk force idue ->
  I.tpc th = I.PMLd I.Ph0 I.KKey -> I.cur th = I.OpObtain -> I.canc th = false ->
  I.lks (I.sh si) lk = None ->
  (* translation: complete bundle with the same certificate, or none of its files; the stored
     key is the stored certificate's key *)
  bundle_rel (M.store s0) (I.sto (I.sh si)) n ->
  (forall kk ic, I.sto (I.sh si) (I.SK n I.KKey) = Some (I.VKey kk) ->
                 I.sto (I.sh si) (I.SK n I.KCrt) = Some (I.VCrt ic) -> I.c_kid ic = kk) ->
  M.next s0 = I.ncid (I.sh si) ->
  let st := M.stored (M.store s0) n in
  let present := is_some st in
  let due := match st with Some mc => M.cdue mc | None => false end in
  let okI := need present due && negb fail in     (* an issuance is needed and succeeds *)
  let errI := need present due && fail in         (* ... is needed and fails *)
  let new := M.Cert (M.next s0) n [] idue true in
  let sm := M.step od idue s0 (M.Manage n false) in
  let es := ev_manage t lk n idn reuse chk present due fail in
  exists si' th',
    I.run si (labels_of t (lbl_manage reuse chk present due fail)) = Some (si', es) /\
    nth_error (I.thr si') t = Some th' /\
    (* 1. the issuer: called iff nothing is stored or the stored certificate is due; once *)
    (M.issued sm = repeat n (count_iss idn 0 es) ++ M.issued s0 /\
     M.failed sm = repeat n (count_iss idn 2 es) ++ M.failed s0 /\
     count_iss idn 0 es = (if okI then 1 else 0) /\ count_iss idn 2 es = (if errI then 1 else 0)) /\
    (* 2. storage: a new certificate is stored iff Issue succeeded; nothing else changes *)
    (bundle_rel (M.store sm) (I.sto (I.sh si')) n /\
     (if okI
      then M.stored (M.store sm) n = Some new /\
           exists key, I.sto (I.sh si') (I.SK n I.KCrt) = Some (I.VCrt (I.Cert (I.ncid (I.sh si)) key idue))
      else M.store sm = M.store s0 /\ forall j, I.sto (I.sh si') (I.SK n j) = I.sto (I.sh si) (I.SK n j)) /\
     (forall n', n' <> n -> M.stored (M.store sm) n' = M.stored (M.store s0) n') /\
     (forall key, key <> I.RW t -> (forall j, key <> I.SK n j) -> I.sto (I.sh si') key = I.sto (I.sh si) key)) /\
    (* 3. the lock: free afterwards (Maintain: no job created); other locks untouched *)
    (M.jobs sm = M.jobs s0 /\ I.lks (I.sh si') lk = None /\
     forall l, l <> lk -> I.lks (I.sh si') l = I.lks (I.sh si) l) /\
    (* 4. the caller: an error iff the needed issuance failed *)
    (M.lasterr sm = errI /\ I.tpc th' = I.PDone (if errI then I.RErr else I.ROk)) /\
    (* 5. the cache: Maintain's [cache_add] / [reload_one]  ~  Issuance's [seen] *)
    match st with
    | None =>
        if fail then M.cache sm = M.cache s0 /\ I.seen th' = I.seen th
        else M.cache sm = M.cache_add new (M.cache s0) /\
             exists key, I.seen th' = Some (I.Cert (I.ncid (I.sh si)) key idue)
    | Some mc =>
        if M.cdue mc && negb fail
        then M.cache sm = M.cache_replace mc new (M.cache_add mc (M.cache s0)) /\
             exists key, I.seen th' = Some (I.Cert (I.ncid (I.sh si)) key idue)
        else (* not due, or due and the renewal FAILED: the old certificate stays cached *)
             M.cache sm = M.cache_add mc (M.cache s0) /\
             exists ic, I.sto (I.sh si) (I.SK n I.KCrt) = Some (I.VCrt ic) /\ I.seen th' = Some ic /\ cert_rel mc ic
    end /\
    (* 6. the identity counters stay synchronised *)
    M.next sm = I.ncid (I.sh si').
Proof.
  intros Hod Hmf Hfree Hf Hhead Hn Hcfg Hpc Hcur Hcanc Hl Hb Hkm Hnext st present due okI errI new sm es.
  destruct th as [c p cu ca fl lkey lcrt nk nc sn rc]. cbn in Hcfg, Hpc, Hcur, Hcanc. subst c p cu ca.
  destruct si as [thr [sto lks ncid nkid]]. cbn [I.sh I.thr I.sto I.lks I.ncid I.seen] in *.
  assert (Hlt : t < length thr) by (apply nth_error_Some; congruence).
  destruct (count_manage t lk n idn reuse chk present due fail) as [C0 C2].
  unfold bundle_rel in Hb. subst sm es okI errI. rewrite C0, C2. clear C0 C2.
  subst st. destruct (M.stored (M.store s0) n) as [mc|] eqn:Hst; subst present due new; cbn [is_some] in *.
  - (* a bundle is stored *)
    destruct Hb as (kk & ic & vm & Hk & Hc & Hm & Hrel). pose proof (Hkm _ _ Hk Hc) as Hkid.
    destruct ic as [id kid due']. cbn in Hkid. subst kid. pose proof Hrel as [Hid Hdue]. cbn in Hid, Hdue.
    pose proof (Hhead _ eq_refl) as Hh.
    destruct (manage_thread_run_present t lk n idn reuse chk force idue due' fail sto lks ncid nkid kk id vm lkey lcrt nk nc sn rc fl Hl Hk Hc Hm)
      as (th' & Hrun & Hpc' & Hseen & Hrecd).
    pose proof (trun_run t _ (I.State thr (I.Shared sto lks ncid nkid)) _ th' _ _ Hn Hrun) as HR. cbn [I.thr I.sh] in HR.
    rewrite Hdue in *. unfold need. cbn [negb orb].
    eexists. exists th'. split; [exact HR|]. split; [apply nth_upd_eq; exact Hlt|]. cbn [I.sh I.sto I.lks I.ncid I.thr].
    destruct due'; [destruct fail|]; cbn [andb negb] in *.
    + (* due, the issuer fails *)
      rewrite (mm_present_fail od idue n s0 Hod Hmf Hfree mc Hst Hdue Hf).
      cbn [M.issued M.failed M.store M.jobs M.cache M.lasterr M.next repeat app]. unfold lks_renew.
      split; [repeat split|]. split; [|split; [|split; [|split]]].
      * split; [|split; [|split]].
        -- unfold bundle_rel. rewrite Hst. exists kk, (I.Cert id kk true), vm. rewrite !sto_A_SK. repeat split; auto.
        -- split; [reflexivity|]. intros j. apply sto_A_SK.
        -- reflexivity.
        -- intros key H1 H2. apply sto_A_other; exact H1.
      * split; [reflexivity|]. split; [apply lput_eq|]. intros l Hne. rewrite !lput_neq by congruence. reflexivity.
      * split; [reflexivity|exact Hpc'].
      * split; [reflexivity|]. exists (I.Cert id kk true). repeat split; auto.
      * exact Hnext.
    + (* due, the issuer answers *)
      rewrite (mm_present_ok od idue n s0 Hod Hmf Hfree mc Hst Hdue Hf Hh).
      cbn [M.issued M.failed M.store M.jobs M.cache M.lasterr M.next repeat app]. unfold lks_renew, mnew8, sto_ok, new_cert.
      split; [repeat split|]. split; [|split; [|split; [|split]]].
      * split; [|split; [|split]].
        -- unfold bundle_rel. rewrite stored_cons_eq.
           exists (key_at reuse kk nkid), (I.Cert ncid (key_at reuse kk nkid) idue), (I.VMeta ncid).
           split; [|split; [|split]].
           ++ repeat (rewrite sput_neq by discriminate). apply sput_eq.
           ++ repeat (rewrite sput_neq by discriminate). apply sput_eq.
           ++ apply sput_eq.
           ++ split; [exact Hnext|reflexivity].
        -- split; [apply stored_cons_eq|]. eexists.
           rewrite (sput_neq _ (I.SK n I.KMeta)) by discriminate. rewrite sput_eq. reflexivity.
        -- intros n' Hn'. apply stored_cons_neq. congruence.
        -- intros key H1 H2. rewrite !sput_neq by (intros X; eapply H2; eauto). apply sto_A_other; exact H1.
      * split; [reflexivity|]. split; [apply lput_eq|]. intros l Hne. rewrite !lput_neq by congruence. reflexivity.
      * split; [reflexivity|exact Hpc'].
      * split; [reflexivity|]. eexists. exact Hseen.
      * rewrite Hnext. reflexivity.
    + (* not due *)
      rewrite (mm_present_fresh od idue n s0 Hod Hmf Hfree mc Hst Hdue).
      cbn [M.issued M.failed M.store M.jobs M.cache M.lasterr M.next repeat app].
      split; [repeat split|]. split; [|split; [|split; [|split]]].
      * split; [|split; [|split]].
        -- unfold bundle_rel. rewrite Hst. exists kk, (I.Cert id kk false), vm. repeat split; auto.
        -- split; reflexivity.
        -- reflexivity.
        -- reflexivity.
      * split; [reflexivity|]. split; [exact Hl|]. reflexivity.
      * split; [reflexivity|exact Hpc'].
      * split; [reflexivity|]. exists (I.Cert id kk false). repeat split; auto.
      * exact Hnext.
  - (* nothing is stored *)
    destruct Hb as (Hk & Hc & Hm).
    destruct (manage_thread_run_absent t lk n idn reuse chk force idue fail sto lks ncid nkid lkey lcrt nk nc sn rc fl Hl Hc Hk)
      as (th' & Hrun & Hpc' & Hseen & Hrecd).
    pose proof (trun_run t _ (I.State thr (I.Shared sto lks ncid nkid)) _ th' _ _ Hn Hrun) as HR. cbn [I.thr I.sh] in HR.
    unfold need. cbn [negb orb].
    eexists. exists th'. split; [exact HR|]. split; [apply nth_upd_eq; exact Hlt|]. cbn [I.sh I.sto I.lks I.ncid I.thr].
    destruct fail; cbn [andb negb] in *.
    + (* the issuer fails *)
      rewrite (mm_absent_fail od idue n s0 Hod Hmf Hfree Hst Hf).
      cbn [M.issued M.failed M.store M.jobs M.cache M.lasterr M.next repeat app]. unfold lks_renew.
      split; [repeat split|]. split; [|split; [|split; [|split]]].
      * split; [|split; [|split]].
        -- unfold bundle_rel. rewrite Hst. rewrite !sto_A_SK. auto.
        -- split; [reflexivity|]. intros j. apply sto_A_SK.
        -- reflexivity.
        -- intros key H1 H2. apply sto_A_other; exact H1.
      * split; [reflexivity|]. split; [apply lput_eq|]. intros l Hne. rewrite !lput_neq by congruence. reflexivity.
      * split; [reflexivity|exact Hpc'].
      * split; [reflexivity|exact Hseen].
      * exact Hnext.
    + (* the issuer answers *)
      rewrite (mm_absent_ok od idue n s0 Hod Hmf Hfree Hst Hf).
      cbn [M.issued M.failed M.store M.jobs M.cache M.lasterr M.next repeat app]. unfold lks_renew, mnew8, sto_ook, onew in *.
      split; [repeat split|]. split; [|split; [|split; [|split]]].
      * split; [|split; [|split]].
        -- unfold bundle_rel. rewrite stored_cons_eq.
           exists nkid, (I.Cert ncid nkid idue), (I.VMeta ncid).
           split; [|split; [|split]].
           ++ repeat (rewrite sput_neq by discriminate). apply sput_eq.
           ++ repeat (rewrite sput_neq by discriminate). apply sput_eq.
           ++ apply sput_eq.
           ++ split; [exact Hnext|reflexivity].
        -- split; [apply stored_cons_eq|]. eexists.
           rewrite (sput_neq _ (I.SK n I.KMeta)) by discriminate. rewrite sput_eq. reflexivity.
        -- intros n' Hn'. apply stored_cons_neq. congruence.
        -- intros key H1 H2. rewrite !sput_neq by (intros X; eapply H2; eauto). apply sto_A_other; exact H1.
      * split; [reflexivity|]. split; [apply lput_eq|]. intros l Hne. rewrite !lput_neq by congruence. reflexivity.
      * split; [reflexivity|exact Hpc'].
      * split; [reflexivity|]. eexists. exact Hseen.
      * rewrite Hnext. reflexivity.
Qed.
