(** S10 / Task B — ACME challenge material across nodes: the answering side (C15,
    [Challenge.Model]: [http_handle], [alpn_get], [get_challenge_info] = memory first, else the token
    file in the shared Storage) composed with the solver side (C16, [Solvers.Model]: [sstep] =
    solverWrapper + distributedSolver + listener solver; Present Stores the token file, CleanUp
    Deletes it).

    C15 treats what another node stored as an input ([Present WRemote] operations of its own
    history vocabulary); C16 ([Solvers.E2E.validates]) runs C15's handler only on the state of the
    PRESENTING process, where the memory answers and the token file is never read.  Here the two
    are composed across nodes:

    A CLUSTER is any number of processes (nat-indexed), each with its own solvers table,
    activeChallenges memory and DNS presenter memory, sharing the token store and the DNS zone; a
    cluster history is a list of (node, Present/CleanUp call with its faults); each call is C16's
    actual [sstep] on the calling node's state ([cstep]).  The state in which node [B] answers a
    validation request is [view cl B] = (B's memory, the shared store) = C16's [cstate_of] of B's
    solver state, handed to C15's actual [http_handle] / [alpn_get].

    (i)   [tk_is_tkey], [token_key_string], [kstr_of_inj]: writer and reader use one key function.
    (ii)  [cluster_http_only_matching], [cluster_alpn_only_matching]: whatever any node answers comes
          from a challenge some node Presented and has not yet CleanedUp (every history, all faults
          except a failing Storage.Delete);
          [cluster_remote_answers]: a node that holds nothing itself answers the CA's request for a
          challenge another node Presented (Store succeeded), as long as that node has not CleanedUp;
          [cluster_quiescent_no_answers]: when nothing is pending no node answers anything;
          [cluster_store_is_merged_run]: the shared store is C16's [srun] on the merged history, so
          [C16_interleavings_leave_nothing] applies ([orders_complete_no_remote_answers]).
    (iii) [all_keys_prefix_free]: challenge-token keys together with certificate and staple keys are
          prefix-free and non-root, i.e. meet [StorageRefine]'s criterion. *)
From Coq Require Import List ZArith NArith Bool Lia Arith.
From CM Require Import Lib.Str Gen.Consts Safe.Model Safe.KeysProofs.
From CM Require Import Challenge.Assoc Challenge.Model Challenge.Proofs Solvers.Model Solvers.Proofs Solvers.E2E.
Import ListNotations.

(** * (i) one key function *)

(** C16 writes under [tk sf o]; C15 reads [tkey sf ik ident] for every configured issuer key [ik]
    and the requested identifier: the same function of (issuer key, challenge key) *)
Lemma tk_is_tkey sf o : tk sf o = tkey sf (o_ik o) (challenge_key (o_chal o)).
Proof. reflexivity. Qed.

(** the key STRING of an abstract token key: acme/<fst>/challenge_tokens/<snd>.json *)
Definition kstr_of (k : skey) : str :=
  path_join [path_join [path_join [prefix_acme; fst k]; challenge_tokens_dir_name]; snd k ++ ext_json].

(** solvers.go challengeTokensKey (Safe.Model.challenge_tokens_key), used by distributedSolver.Present /
    CleanUp with challengeKey(chal) and by getChallengeInfo with the requested identifier, is
    [kstr_of] of the abstract key both models use *)
Theorem token_key_string lower is_space ik d :
  challenge_tokens_key lower is_space ik d = kstr_of (tkey (safe lower is_space) ik d).
Proof. reflexivity. Qed.

Section KeyStrings.
  Variables (lower : N -> N) (is_space : N -> bool).
  Hypothesis H2 : forall c, is_upper_ascii (lower c) = false.
  Notation sf := (safe lower is_space).

  Lemma token_key_comps ik d :
    kc (kstr_of (tkey sf ik d)) = prefix_acme :: kc (sf ik) ++ [challenge_tokens_dir_name; sf d ++ ext_json].
  Proof. rewrite <- token_key_string. exact (proj1 (challenge_tokens_key_ns lower is_space H2 ik d)). Qed.

  (** the abstraction loses nothing: different abstract keys are different Storage keys (for issuer
      keys whose sanitized form is one real path component, as every IssuerKey() is) *)
  Theorem kstr_of_inj ik1 d1 ik2 d2 : kc (sf ik1) = [sf ik1] -> kc (sf ik2) = [sf ik2] ->
    kstr_of (tkey sf ik1 d1) = kstr_of (tkey sf ik2 d2) -> tkey sf ik1 d1 = tkey sf ik2 d2.
  Proof.
    intros H1 H3 E. apply (f_equal kc) in E. rewrite !token_key_comps, H1, H3 in E. cbn [app] in E.
    injection E as E1 E2. apply app_inv_tail in E2. unfold tkey. congruence.
  Qed.
End KeyStrings.

(** * The cluster *)
Section Cluster.
  Variable sf : str -> str.
  Variable honour : bool.
  Variable feq : N -> N -> bool.
  Variable issuers : list str.

  Notation nxt := (nxt sf honour).
  Notation tk := (tk sf).

  Record local := Local {
    l_solvers : list (str * (Z * bool));
    l_mem : list (str * (chal * bool));
    l_dmem : list rec
  }.
  Record cluster := Cluster {
    cl_local : nat -> local;
    cl_store : list (skey * sval);     (* shared Storage: challenge token files *)
    cl_recs : list rec                 (* shared DNS zone *)
  }.
  Definition cinit0 : cluster := Cluster (fun _ => Local [] [] []) [] [].

  (** the C16 solver state of process [n] *)
  Definition node_state (cl : cluster) (n : nat) : sstate :=
    SState (l_solvers (cl_local cl n)) (l_mem (cl_local cl n)) (cl_store cl) (cl_recs cl) (l_dmem (cl_local cl n)).

  (** process [fst x] makes the call [snd x]: C16's step on its state *)
  Definition cstep (cl : cluster) (x : nat * sop) : cluster :=
    let s' := nxt (node_state cl (fst x)) (snd x) in
    Cluster (fun m => if Nat.eqb m (fst x) then Local (solvers s') (s_mem s') (dns_mem s') else cl_local cl m)
            (s_store s') (dns_recs s').
  Definition crun (hist : list (nat * sop)) : cluster := fold_left cstep hist cinit0.

  (** what the answering code of process [b] sees: C16's [cstate_of] of its solver state *)
  Definition view (cl : cluster) (b : nat) : cstate := cstate_of (node_state cl b).

  (** presented somewhere and not yet cleaned up by the presenting process *)
  Definition cpent := (nat * pentry)%type.
  Fixpoint cremove (n : nat) (o : order) (p : list cpent) : list cpent :=
    match p with
    | [] => []
    | e :: r => if Nat.eqb (fst e) n && order_eqb (fst (snd e)) o then r else e :: cremove n o r
    end.
  Definition cpstep (p : list cpent) (x : nat * sop) : list cpent :=
    match snd x with
    | SPresent o f => (fst x, (o, f)) :: p
    | SClean o _ => cremove (fst x) o p
    end.
  Definition cpending (hist : list (nat * sop)) : list cpent := fold_left cpstep hist [].

  Definition c_ord (e : cpent) : order := fst (snd e).
  Definition c_flt (e : cpent) : faults := snd (snd e).

  Lemma cremove_subset n o p e : In e (cremove n o p) -> In e p.
  Proof.
    induction p as [|x p IH]; cbn [cremove]; [intros []|].
    destruct (Nat.eqb (fst x) n && order_eqb (fst (snd x)) o); [intros H; right; exact H|].
    intros [->|H]; [left; reflexivity|right; exact (IH H)].
  Qed.
  Lemma cremove_keep n o p e : In e p -> (fst e <> n \/ c_ord e <> o) -> In e (cremove n o p).
  Proof.
    intros Hin Hne. induction p as [|x p IH]; [destruct Hin|]. cbn [cremove].
    destruct (Nat.eqb (fst x) n && order_eqb (fst (snd x)) o) eqn:E.
    - apply andb_true_iff in E. destruct E as [E1 E2]. apply Nat.eqb_eq in E1. apply order_eqb_spec in E2.
      destruct Hin as [->|Hin]; [|exact Hin]. unfold c_ord in Hne. tauto.
    - destruct Hin as [->|Hin]; [left; reflexivity|right; exact (IH Hin)].
  Qed.

  (** histories with a side condition checked against the pending list before each call *)
  Fixpoint chist_ok (c : list cpent -> nat * sop -> bool) (p : list cpent) (hist : list (nat * sop)) : bool :=
    match hist with
    | [] => true
    | x :: r => c p x && chist_ok c (cpstep p x) r
    end.
  Lemma chist_rule (c : list cpent -> nat * sop -> bool) (P : cluster -> list cpent -> Prop) :
    (forall cl p x, P cl p -> c p x = true -> P (cstep cl x) (cpstep p x)) ->
    forall hist cl p, P cl p -> chist_ok c p hist = true ->
    P (fold_left cstep hist cl) (fold_left cpstep hist p).
  Proof.
    intros Hstep. induction hist as [|x r IH]; intros cl p HP Hok; cbn [fold_left]; [exact HP|].
    cbn [chist_ok] in Hok. apply andb_true_iff in Hok. destruct Hok as [H1 H2].
    apply IH; [apply Hstep; assumption|exact H2].
  Qed.
  Lemma chist_ok_true p hist : chist_ok (fun _ _ => true) p hist = true.
  Proof. revert p; induction hist as [|x r IH]; intros p; cbn; [reflexivity|apply IH]. Qed.

  (** no CleanUp's Storage.Delete is made to fail (C16's [storage_delete_fault] on the merged history) *)
  Definition no_bad_delete (hist : list (nat * sop)) : Prop := storage_delete_fault (map snd hist) = false.
  Lemma no_bad_delete_hist hist : no_bad_delete hist ->
    forall p, chist_ok (fun _ x => negb (bad_sdel (snd x))) p hist = true.
  Proof.
    unfold no_bad_delete, storage_delete_fault.
    induction hist as [|x r IH]; cbn [map existsb chist_ok]; [reflexivity|].
    rewrite orb_false_iff. intros [H1 H2] p. rewrite (IH H2). unfold bad_sdel.
    destruct (snd x) as [o f|o f]; [reflexivity|]. rewrite H1. reflexivity.
  Qed.

  (** ** the step on the components *)
  Lemma cstep_store cl x : cl_store (cstep cl x) = s_store (nxt (node_state cl (fst x)) (snd x)).
  Proof. reflexivity. Qed.
  Lemma cstep_mem_same cl m op : l_mem (cl_local (cstep cl (m, op)) m) = s_mem (nxt (node_state cl m) op).
  Proof. cbn. rewrite Nat.eqb_refl. reflexivity. Qed.
  Lemma cstep_mem_other cl m op n : n <> m -> l_mem (cl_local (cstep cl (m, op)) n) = l_mem (cl_local cl n).
  Proof. intros H. cbn. apply Nat.eqb_neq in H. rewrite H. reflexivity. Qed.

  (** ** Invariant M: a memory entry of process n is the challenge of an order n presented and
      has not cleaned up *)
  Definition InvM (cl : cluster) (p : list cpent) : Prop :=
    forall n k v, aget str_eqb k (l_mem (cl_local cl n)) = Some v ->
    exists e, In e p /\ fst e = n /\ ck (c_ord e) = k /\ fst v = o_chal (c_ord e).

  Lemma invM_step cl p x : InvM cl p -> InvM (cstep cl x) (cpstep p x).
  Proof.
    intros H n k v. destruct x as [m op]. unfold cpstep. cbn [fst snd].
    destruct (Nat.eq_dec n m) as [->|Hne].
    - rewrite (cstep_mem_same cl m op). destruct op as [o f|o f].
      + destruct (mem_present sf honour (node_state cl m) o f) as [d ->].
        destruct (list_eq_dec N.eq_dec (ck o) k) as [<-|Hk].
        * rewrite (aget_aset_same str_eqb str_eqb_eq). intros Hv. injection Hv as <-.
          exists (m, (o, f)). repeat split. left; reflexivity.
        * rewrite (aget_aset_other str_eqb str_eqb_eq) by exact Hk. intros Hg.
          destruct (H _ _ _ Hg) as [e (Hin & A & B & C)]. exists e. repeat split; auto. right; exact Hin.
      + rewrite (mem_clean sf honour). intros Hg. apply (aget_adel_some str_eqb str_eqb_eq) in Hg. destruct Hg as [Hk Hg].
        destruct (H _ _ _ Hg) as [e (Hin & A & B & C)]. exists e. repeat split; auto.
        apply cremove_keep; [exact Hin|]. right. intros Heq. apply Hk. rewrite <- Heq. exact B.
    - rewrite (cstep_mem_other cl m op n) by exact Hne. intros Hg.
      destruct (H _ _ _ Hg) as [e (Hin & A & B & C)]. exists e. repeat split; auto.
      destruct op as [o f|o f]; [right; exact Hin|]. apply cremove_keep; [exact Hin|]. left. congruence.
  Qed.
  Lemma invM hist : InvM (crun hist) (cpending hist).
  Proof.
    apply (chist_rule (fun _ _ => true) InvM); [intros; apply invM_step; assumption| |apply chist_ok_true].
    intros n k v H. discriminate.
  Qed.

  (** ** Invariant S: a token file is the challenge of a listener order some process presented and
      has not cleaned up (unless a Delete was made to fail); C16 never writes anything else *)
  Definition InvS (cl : cluster) (p : list cpent) : Prop :=
    forall k v, aget skey_eqb k (cl_store cl) = Some v ->
    exists e, In e p /\ is_listener (o_kind (c_ord e)) = true /\ tk (c_ord e) = k /\ v = SChal (o_chal (c_ord e)).

  Lemma invS_step cl p x : InvS cl p -> negb (bad_sdel (snd x)) = true -> InvS (cstep cl x) (cpstep p x).
  Proof.
    intros H Hgood k v. rewrite cstep_store. destruct x as [m op]. unfold cpstep. cbn [fst snd] in *.
    set (s := node_state cl m). assert (Hs : s_store s = cl_store cl) by reflexivity.
    destruct op as [o f|o f]; cbn [bad_sdel] in Hgood.
    - assert (Hold : aget skey_eqb k (cl_store cl) = Some v ->
                     exists e, In e ((m, (o, f)) :: p) /\ is_listener (o_kind (c_ord e)) = true /\ tk (c_ord e) = k /\ v = SChal (o_chal (c_ord e))).
      { intros Hg. destruct (H _ _ Hg) as [e (Hin & A & B & C)]. exists e. repeat split; auto. right; exact Hin. }
      destruct (is_listener (o_kind o)) eqn:Ek.
      + rewrite (store_present_listener sf honour) by exact Ek. rewrite Hs.
        destruct (f_storage f || (f_cancel f && honour)); [exact Hold|].
        destruct (skey_eqb (tk o) k) eqn:E.
        * apply skey_eqb_spec in E. subst k. rewrite (aget_aset_same skey_eqb skey_eqb_spec).
          intros Hv. injection Hv as <-. exists (m, (o, f)). repeat split; auto. left; reflexivity.
        * assert (Hne : tk o <> k) by (intros Hk; rewrite Hk, (eqb_refl skey_eqb skey_eqb_spec) in E; discriminate).
          rewrite (aget_aset_other skey_eqb skey_eqb_spec) by exact Hne. exact Hold.
      + rewrite (store_dns sf honour s (SPresent o f)) by exact Ek. rewrite Hs. exact Hold.
    - destruct (is_listener (o_kind o)) eqn:Ek.
      + cbn [andb] in Hgood. rewrite (store_clean_listener sf honour) by exact Ek. rewrite Hs.
        destruct (f_storage f); [discriminate|]. intros Hg.
        apply (aget_adel_some skey_eqb skey_eqb_spec) in Hg. destruct Hg as [Hne Hg].
        destruct (H _ _ Hg) as [e (Hin & A & B & C)]. exists e. repeat split; auto.
        apply cremove_keep; [exact Hin|]. right. intros Heq. apply Hne. rewrite <- Heq. exact B.
      + rewrite (store_dns sf honour s (SClean o f)) by exact Ek. rewrite Hs. intros Hg.
        destruct (H _ _ Hg) as [e (Hin & A & B & C)]. exists e. repeat split; auto.
        apply cremove_keep; [exact Hin|]. right. intros Heq. rewrite Heq, Ek in A. discriminate.
  Qed.
  Lemma invS hist : no_bad_delete hist -> InvS (crun hist) (cpending hist).
  Proof.
    intros Hf. apply (chist_rule (fun _ x => negb (bad_sdel (snd x))) InvS); [intros; apply invS_step; assumption| |].
    - intros k v H. discriminate.
    - apply no_bad_delete_hist. exact Hf.
  Qed.

  (** * (ii) composition: C15's handlers on the cluster's states *)

  Lemma first_stored_some s iks ident v : first_stored sf s iks ident = Some v ->
    exists ik, In ik iks /\ aget skey_eqb (tkey sf ik ident) (store s) = Some v.
  Proof.
    induction iks as [|ik r IH]; cbn [first_stored]; [discriminate|].
    destruct (aget skey_eqb (tkey sf ik ident) (store s)) as [v'|] eqn:E.
    - intros Hv. injection Hv as <-. exists ik. split; [left; reflexivity|exact E].
    - intros Hv. destruct (IH Hv) as [ik' [Hin Hg]]. exists ik'. split; [right; exact Hin|exact Hg].
  Qed.

  (** whatever getChallengeInfo returns on any node, in any cluster history, is the challenge of an
      order that some node has presented and not yet cleaned up: from the node's own memory (its
      own order, key = the identifier asked for), or from the token file (any node's listener
      order stored under a configured issuer, same sanitized key, folds to the identifier) *)
  Theorem cluster_info_is_pending hist b load_fault ident c : no_bad_delete hist ->
    get_challenge_info sf feq issuers (view (crun hist) b) load_fault ident = Some c ->
    exists e, In e (cpending hist) /\ o_chal (c_ord e) = c /\
      ((fst e = b /\ ck (c_ord e) = ident) \/
       (load_fault = false /\ is_listener (o_kind (c_ord e)) = true /\
        exists ik, In ik issuers /\ tk (c_ord e) = tkey sf ik ident /\
                   equal_fold feq (challenge_key c) ident = true)).
  Proof.
    intros Hf. unfold get_challenge_info, view, cstate_of. cbn [mem store node_state s_mem s_store].
    destruct (aget str_eqb ident (l_mem (cl_local (crun hist) b))) as [[c' d]|] eqn:Em.
    - intros Hc. injection Hc as <-. destruct (invM hist b ident (c', d) Em) as [e (Hin & A & B & C)].
      exists e. cbn [fst] in C. split; [exact Hin|]. split; [symmetry; exact C|]. left. split; assumption.
    - destruct load_fault; [discriminate|].
      destruct (first_stored sf _ issuers ident) as [[c'| |]|] eqn:Ef; try discriminate.
      destruct (equal_fold feq (challenge_key c') ident) eqn:Efold; [|discriminate].
      intros Hc. injection Hc as <-.
      destruct (first_stored_some _ _ _ _ Ef) as [ik [Hik Hg]]. cbn [store] in Hg.
      destruct (invS hist Hf _ _ Hg) as [e (Hin & A & B & C)]. injection C as C.
      exists e. split; [exact Hin|]. split; [symmetry; exact C|]. right.
      split; [reflexivity|]. split; [exact A|]. exists ik. repeat split; assumption.
  Qed.

  (** "goes only to the matching request" end to end: if ANY node answers an HTTP request with a
      body, some node's solver Presented a challenge -- not yet CleanedUp -- with exactly that token
      in the path, an identifier the Host folds to, and that key authorization.  Every cluster
      history, every fault except a failing Storage.Delete. *)
  Theorem cluster_http_only_matching hist b disabled load_fault r body : no_bad_delete hist ->
    http_handle sf feq issuers disabled load_fault (view (crun hist) b) r = Some body ->
    exists e, In e (cpending hist) /\
      h_method r = m_get /\ h_path r = resource_path (o_chal (c_ord e)) /\
      equal_fold feq (challenge_host (h_host r)) (c_ident (o_chal (c_ord e))) = true /\
      body = c_keyauth (o_chal (c_ord e)).
  Proof.
    intros Hf. unfold http_handle. destruct disabled; [discriminate|].
    destruct (looks_like_challenge r) eqn:El; [|discriminate]. cbn [negb].
    destruct (get_challenge_info sf feq issuers (view (crun hist) b) load_fault (challenge_host (h_host r))) as [c|] eqn:Eg; [|discriminate].
    destruct (cluster_info_is_pending hist b load_fault _ c Hf Eg) as [e (Hin & Hc & _)].
    unfold solve_http.
    destruct (str_eqb (h_path r) (resource_path c)) eqn:E1; [|discriminate].
    destruct (equal_fold feq (challenge_host (h_host r)) (c_ident c)) eqn:E2; [|discriminate].
    destruct (str_eqb (h_method r) m_get) eqn:E3; [|discriminate]. cbn [andb].
    intros Hb. injection Hb as <-. exists e. rewrite Hc.
    apply str_eqb_eq in E1. apply str_eqb_eq in E3. repeat split; assumption.
  Qed.

  (** the same for the TLS-ALPN branch of GetCertificate *)
  Theorem cluster_alpn_only_matching hist b load_fault sni protos c : no_bad_delete hist ->
    alpn_get sf feq issuers load_fault (view (crun hist) b) sni protos = AChal c ->
    protos = [acme_tls1_protocol] /\ sni <> [] /\
    exists e, In e (cpending hist) /\ o_chal (c_ord e) = c /\
              (sni = challenge_key c \/ equal_fold feq (challenge_key c) sni = true).
  Proof.
    intros Hf. unfold alpn_get. destruct (alpn_branch sni protos) eqn:Eb; [|discriminate].
    destruct (get_challenge_info sf feq issuers (view (crun hist) b) load_fault sni) as [c'|] eqn:Eg; [|discriminate].
    intros Hc. injection Hc as <-.
    unfold alpn_branch in Eb. apply andb_true_iff in Eb. destruct Eb as [Eb1 Eb2].
    split.
    { destruct protos as [|p [|q r]]; try discriminate. apply str_eqb_eq in Eb2. subst p. reflexivity. }
    split; [intros ->; discriminate|].
    destruct (cluster_info_is_pending hist b load_fault sni c' Hf Eg) as [e (Hin & Hc & [[_ Hk]|(_ & _ & ik & _ & _ & Hfold)])].
    - exists e. repeat split; auto. left. rewrite <- Hc. symmetry. exact Hk.
    - exists e. repeat split; auto.
  Qed.

  (** "leaves nothing behind" implies "no stale answers": when no order is pending anywhere, every
      node's memory and the token store are empty, and no node answers any HTTP request or presents
      a challenge certificate *)
  Theorem cluster_quiescent_no_answers hist : no_bad_delete hist -> cpending hist = [] ->
    cl_store (crun hist) = [] /\
    forall b, l_mem (cl_local (crun hist) b) = [] /\
      (forall disabled load_fault r, http_handle sf feq issuers disabled load_fault (view (crun hist) b) r = None) /\
      (forall load_fault sni protos c, alpn_get sf feq issuers load_fault (view (crun hist) b) sni protos <> AChal c).
  Proof.
    intros Hf Hp. split.
    - apply (aget_all_none skey_eqb skey_eqb_spec). intros k.
      destruct (aget skey_eqb k (cl_store (crun hist))) as [v|] eqn:E; [|reflexivity].
      destruct (invS hist Hf k v E) as [e [Hin _]]. rewrite Hp in Hin. destruct Hin.
    - intros b. split; [|split].
      + apply (aget_all_none str_eqb str_eqb_eq). intros k.
        destruct (aget str_eqb k (l_mem (cl_local (crun hist) b))) as [v|] eqn:E; [|reflexivity].
        destruct (invM hist b k v E) as [e [Hin _]]. rewrite Hp in Hin. destruct Hin.
      + intros disabled load_fault r.
        destruct (http_handle sf feq issuers disabled load_fault (view (crun hist) b) r) as [body|] eqn:E; [|reflexivity].
        destruct (cluster_http_only_matching hist b disabled load_fault r body Hf E) as [e [Hin _]].
        rewrite Hp in Hin. destruct Hin.
      + intros load_fault sni protos c E.
        destruct (cluster_alpn_only_matching hist b load_fault sni protos c Hf E) as (_ & _ & e & Hin & _).
        rewrite Hp in Hin. destruct Hin.
  Qed.

  (** ** the shared store is C16's run on the merged history *)
  Lemma store_det s s' op : s_store s = s_store s' -> s_store (nxt s op) = s_store (nxt s' op).
  Proof.
    intros E. destruct (is_listener (o_kind (match op with SPresent o _ | SClean o _ => o end))) eqn:Ek.
    - destruct op as [o f|o f].
      + rewrite !(store_present_listener sf honour) by exact Ek. rewrite E. reflexivity.
      + rewrite !(store_clean_listener sf honour) by exact Ek. rewrite E. reflexivity.
    - rewrite !(store_dns sf honour) by exact Ek. exact E.
  Qed.
  Theorem cluster_store_is_merged_run hist :
    cl_store (crun hist) = s_store (srun sf honour (map snd hist)).
  Proof.
    unfold crun. rewrite (srun_fold sf honour).
    assert (G : forall h cl s, cl_store cl = s_store s ->
                cl_store (fold_left cstep h cl) = s_store (fold_left nxt (map snd h) s)).
    { induction h as [|x r IH]; intros cl s E; cbn [fold_left map]; [exact E|].
      apply IH. rewrite cstep_store. apply store_det. exact E. }
    apply G. reflexivity.
  Qed.

  (** with C16's own statement of "every order is over" (the merged history is an interleaving of
      complete [Present; CleanUp] programs, all exit paths = all fault combinations): a node that
      presented nothing itself answers no validation request afterwards *)
  Theorem orders_complete_no_remote_answers hist ts b : merge (map prog ts) (map snd hist) ->
    no_bad_delete hist -> l_mem (cl_local (crun hist) b) = [] ->
    view (crun hist) b = cinit /\
    (forall disabled load_fault r, http_handle sf feq issuers disabled load_fault (view (crun hist) b) r = None) /\
    (forall load_fault sni protos c, alpn_get sf feq issuers load_fault (view (crun hist) b) sni protos <> AChal c).
  Proof.
    intros Hm Hf Hmem.
    destruct (all_interleavings_disciplined ts (map snd hist) Hm) as [Hd Hp].
    destruct (quiescent_clean sf honour (map snd hist) Hd Hp) as (_ & _ & _ & Hst & _).
    assert (Hv : view (crun hist) b = cinit).
    { unfold view, cstate_of, cinit. cbn [node_state s_mem s_store]. rewrite Hmem, cluster_store_is_merged_run, (Hst Hf). reflexivity. }
    split; [exact Hv|]. rewrite Hv. split.
    - intros disabled load_fault r. unfold http_handle. destruct disabled; [reflexivity|].
      destruct (looks_like_challenge r); [|reflexivity]. cbn [negb].
      unfold get_challenge_info, cinit. cbn [mem aget]. destruct load_fault; [reflexivity|].
      assert (Hn : forall iks x, first_stored sf (CState [] []) iks x = None) by (induction iks; intros; cbn; auto).
      rewrite Hn. reflexivity.
    - intros load_fault sni protos c. unfold alpn_get. destruct (alpn_branch sni protos); [|discriminate].
      unfold get_challenge_info, cinit. cbn [mem aget]. destruct load_fault; [discriminate|].
      assert (Hn : forall iks x, first_stored sf (CState [] []) iks x = None) by (induction iks; intros; cbn; auto).
      rewrite Hn. discriminate.
  Qed.

  (** ** the other direction: a node that holds nothing itself answers for another node's challenge *)

  Definition sname (e : cpent) : str := snd (tk (c_ord e)).     (* Safe(challengeKey(chal)) *)
  Definition lst (e : cpent) : bool := is_listener (o_kind (c_ord e)).
  (** the Store of distributedSolver.Present went through *)
  Definition store_ok (f : faults) : bool := negb (f_storage f || (f_cancel f && honour)).

  (** the discipline under which "answered" is claimed: CleanUp only by the presenting process
      after its Present (acmez, per process); no Storage.Delete fails; a listener challenge is
      presented only while no pending listener challenge anywhere in the cluster has the same
      sanitized key (certmagic serialises orders per identifier cluster-wide, C01 / C09) *)
  Definition cdisc2 (p : list cpent) (x : nat * sop) : bool :=
    match snd x with
    | SPresent o _ => negb (is_listener (o_kind o)) ||
                      forallb (fun e => negb (lst e && str_eqb (sname e) (sf (ck o)))) p
    | SClean o f => existsb (fun e => Nat.eqb (fst e) (fst x) && order_eqb (c_ord e) o) p &&
                    negb (bad_sdel (SClean o f))
    end.
  Definition cluster_disc (hist : list (nat * sop)) : bool := chist_ok cdisc2 [] hist.

  Lemma cremove_split n o p : existsb (fun e => Nat.eqb (fst e) n && order_eqb (c_ord e) o) p = true ->
    exists p1 y p2, p = p1 ++ y :: p2 /\ fst y = n /\ c_ord y = o /\ cremove n o p = p1 ++ p2.
  Proof.
    induction p as [|x p IH]; cbn [existsb cremove]; [discriminate|].
    unfold c_ord at 1. destruct (Nat.eqb (fst x) n && order_eqb (fst (snd x)) o) eqn:E.
    - intros _. apply andb_true_iff in E. destruct E as [E1 E2]. apply Nat.eqb_eq in E1. apply order_eqb_spec in E2.
      exists [], x, p. repeat split; assumption.
    - cbn [orb]. intros H. destruct (IH H) as (p1 & y & p2 & -> & A & B & C).
      exists (x :: p1), y, p2. rewrite C. repeat split; assumption.
  Qed.

  Definition Uniq (p : list cpent) : Prop := NoDup (map sname (filter lst p)).
  Lemma uniq_same p e e' : Uniq p -> In e p -> In e' p -> lst e = true -> lst e' = true ->
    sname e = sname e' -> e = e'.
  Proof.
    unfold Uniq. induction p as [|x p IH]; [intros _ []|]. cbn [filter].
    intros Hu He He' Le Le' Hs.
    destruct (lst x) eqn:Lx.
    - cbn [map] in Hu. inversion Hu as [|? ? Hnin Hu']; subst.
      assert (Hin : forall z, In z p -> lst z = true -> In (sname z) (map sname (filter lst p))).
      { intros z Hz Lz. apply in_map. apply filter_In. auto. }
      destruct He as [<-|He]; destruct He' as [<-|He']; [reflexivity| | |exact (IH Hu' He He' Le Le' Hs)].
      + exfalso. apply Hnin. rewrite Hs. exact (Hin _ He' Le').
      + exfalso. apply Hnin. rewrite <- Hs. exact (Hin _ He Le).
    - destruct He as [<-|He]; [congruence|]. destruct He' as [<-|He']; [congruence|].
      exact (IH Hu He He' Le Le' Hs).
  Qed.

  (** Invariant C: sanitized keys of pending listener challenges are unique, and the token file of
      each one whose Store went through holds its challenge *)
  Definition InvC (cl : cluster) (p : list cpent) : Prop :=
    Uniq p /\
    forall x, In x p -> lst x = true -> store_ok (c_flt x) = true ->
      aget skey_eqb (tk (c_ord x)) (cl_store cl) = Some (SChal (o_chal (c_ord x))).

  Lemma tk_neq x o : sname x <> sf (ck o) -> tk (c_ord x) <> tk o.
  Proof. unfold sname. intros H E. apply H. rewrite E. reflexivity. Qed.

  Lemma invC_step cl p x : InvC cl p -> cdisc2 p x = true -> InvC (cstep cl x) (cpstep p x).
  Proof.
    intros [HU HS] Hd. destruct x as [m op]. unfold cpstep, cdisc2 in *. cbn [fst snd] in *.
    set (s := node_state cl m). assert (Hs : s_store s = cl_store cl) by reflexivity.
    destruct op as [o f|o f].
    - (* Present *)
      destruct (is_listener (o_kind o)) eqn:Ek; cbn [negb orb] in Hd.
      + assert (Hfr : forall z, In z p -> lst z = true -> sname z <> sf (ck o)).
        { intros z Hz Lz E. rewrite forallb_forall in Hd. specialize (Hd z Hz).
          rewrite Lz, E, str_eqb_refl in Hd. discriminate. }
        split.
        * unfold Uniq. cbn [filter]. unfold lst at 1, c_ord at 1. cbn [fst snd]. rewrite Ek. cbn [map].
          constructor; [|exact HU]. intros Hin. apply in_map_iff in Hin. destruct Hin as [z [Ez Hz]].
          apply filter_In in Hz. destruct Hz as [Hz Lz]. apply (Hfr z Hz Lz). rewrite Ez. reflexivity.
        * intros z Hz Lz Oz. rewrite cstep_store. cbn [fst snd]. fold s.
          rewrite (store_present_listener sf honour) by exact Ek. rewrite Hs.
          destruct Hz as [<-|Hz].
          -- unfold c_flt, store_ok in Oz. cbn [fst snd] in Oz. apply negb_true_iff in Oz. rewrite Oz.
             unfold c_ord. cbn [fst snd]. apply (aget_aset_same skey_eqb skey_eqb_spec).
          -- destruct (f_storage f || (f_cancel f && honour)); [exact (HS z Hz Lz Oz)|].
             rewrite (aget_aset_other skey_eqb skey_eqb_spec); [exact (HS z Hz Lz Oz)|].
             intros E. exact (tk_neq z o (Hfr z Hz Lz) (eq_sym E)).
      + split.
        * unfold Uniq. cbn [filter]. unfold lst at 1, c_ord at 1. cbn [fst snd]. rewrite Ek. exact HU.
        * intros z Hz Lz Oz. rewrite cstep_store. cbn [fst snd]. fold s.
          rewrite (store_dns sf honour s (SPresent o f)) by exact Ek. rewrite Hs.
          destruct Hz as [<-|Hz]; [unfold lst, c_ord in Lz; cbn [fst snd] in Lz; congruence|exact (HS z Hz Lz Oz)].
    - (* CleanUp *)
      apply andb_true_iff in Hd. destruct Hd as [Hex Hbad].
      destruct (cremove_split m o p Hex) as (p1 & y & p2 & Ep & Ym & Yo & Er). rewrite Er.
      assert (Hsub : forall z, In z (p1 ++ p2) -> In z p).
      { intros z Hz. rewrite Ep. apply in_app_or in Hz. apply in_or_app. destruct Hz; [left|right; right]; assumption. }
      destruct (is_listener (o_kind o)) eqn:Ek.
      + assert (Ly : lst y = true) by (unfold lst; rewrite Yo; exact Ek).
        unfold Uniq in HU. rewrite Ep, filter_app in HU. cbn [filter] in HU. rewrite Ly, map_app in HU. cbn [map] in HU.
        apply NoDup_remove in HU. destruct HU as [HU' Hnin]. rewrite <- map_app, <- filter_app in HU', Hnin.
        split; [exact HU'|].
        intros z Hz Lz Oz. rewrite cstep_store. cbn [fst snd]. fold s.
        rewrite (store_clean_listener sf honour) by exact Ek. rewrite Hs.
        cbn [bad_sdel] in Hbad. rewrite Ek in Hbad. cbn [andb] in Hbad. apply negb_true_iff in Hbad. rewrite Hbad.
        rewrite (aget_adel_other skey_eqb skey_eqb_spec); [exact (HS z (Hsub z Hz) Lz Oz)|].
        intros E. apply Hnin. apply in_map_iff. exists z. split; [|apply filter_In; auto].
        unfold sname. rewrite Yo, E. reflexivity.
      + assert (Ly : lst y = false) by (unfold lst; rewrite Yo; exact Ek).
        split.
        * unfold Uniq in *. rewrite Ep, filter_app in HU. cbn [filter] in HU. rewrite Ly, <- filter_app in HU. exact HU.
        * intros z Hz Lz Oz. rewrite cstep_store. cbn [fst snd]. fold s.
          rewrite (store_dns sf honour s (SClean o f)) by exact Ek. rewrite Hs. exact (HS z (Hsub z Hz) Lz Oz).
  Qed.
  Lemma invC hist : cluster_disc hist = true -> InvC (crun hist) (cpending hist).
  Proof.
    intros Hd. apply (chist_rule cdisc2 InvC invC_step); [|exact Hd].
    split; [constructor|intros x []].
  Qed.

  Lemma cluster_disc_no_bad_delete hist : cluster_disc hist = true -> no_bad_delete hist.
  Proof.
    unfold cluster_disc, no_bad_delete, storage_delete_fault. generalize (@nil cpent).
    induction hist as [|x r IH]; intros p; cbn [chist_ok map existsb]; [reflexivity|].
    rewrite andb_true_iff. intros [H1 H2]. rewrite (IH _ H2), orb_false_r.
    unfold cdisc2 in H1. destruct (snd x) as [o f|o f]; [reflexivity|].
    apply andb_true_iff in H1. destruct H1 as [_ H1]. apply negb_true_iff in H1. exact H1.
  Qed.

  Lemma first_stored_found s iks ident v :
    (forall ik v', In ik iks -> aget skey_eqb (tkey sf ik ident) (store s) = Some v' -> v' = v) ->
    (exists ik, In ik iks /\ aget skey_eqb (tkey sf ik ident) (store s) = Some v) ->
    first_stored sf s iks ident = Some v.
  Proof.
    induction iks as [|ik r IH]; intros Hall [ik0 [Hin Hg]]; [destruct Hin|]. cbn [first_stored].
    destruct (aget skey_eqb (tkey sf ik ident) (store s)) as [v'|] eqn:E.
    - f_equal. apply (Hall ik v'); [left; reflexivity|exact E].
    - apply IH; [intros ik' v' Hi; apply Hall; right; exact Hi|].
      destruct Hin as [<-|Hin]; [congruence|]. exists ik0. split; assumption.
  Qed.

  Hypothesis feq_refl : forall x, feq x x = true.

  (** getChallengeInfo on a node that holds nothing for the key itself finds the challenge that
      another node presented (Store went through, issuer configured here) and has not cleaned up *)
  Theorem cluster_info_found hist e b : cluster_disc hist = true ->
    In e (cpending hist) -> lst e = true -> store_ok (c_flt e) = true -> In (o_ik (c_ord e)) issuers ->
    let c := o_chal (c_ord e) in
    aget str_eqb (challenge_key c) (l_mem (cl_local (crun hist) b)) = None ->
    get_challenge_info sf feq issuers (view (crun hist) b) false (challenge_key c) = Some c.
  Proof.
    intros Hd Hin Le Oe Hik c Hmem.
    destruct (invC hist Hd) as [HU HS].
    pose proof (invS hist (cluster_disc_no_bad_delete hist Hd)) as HI.
    unfold get_challenge_info, view, cstate_of. cbn [mem store node_state s_mem s_store]. rewrite Hmem.
    rewrite (first_stored_found _ issuers (challenge_key c) (SChal c)).
    - rewrite (equal_fold_refl feq feq_refl). reflexivity.
    - cbn [store]. intros ik v' Hi Hg. destruct (HI _ _ Hg) as [e' (Hin' & A & B & C)].
      assert (e' = e).
      { apply (uniq_same _ _ _ HU Hin' Hin A Le). unfold sname. rewrite B. reflexivity. }
      subst e'. exact C.
    - exists (o_ik (c_ord e)). split; [exact Hik|]. cbn [store]. exact (HS e Hin Le Oe).
  Qed.

  (** HTTP-01 across nodes: the CA's request (GET <base>/<token>, Host = the identifier) is answered
      with the key authorization by a node that did not present the challenge *)
  Theorem cluster_remote_answers hist e b r : cluster_disc hist = true ->
    In e (cpending hist) -> lst e = true -> store_ok (c_flt e) = true -> In (o_ik (c_ord e)) issuers ->
    let c := o_chal (c_ord e) in
    aget str_eqb (challenge_key c) (l_mem (cl_local (crun hist) b)) = None ->
    h_method r = m_get -> h_path r = resource_path c ->
    challenge_host (h_host r) = c_ident c -> challenge_key c = c_ident c ->
    http_handle sf feq issuers false false (view (crun hist) b) r = Some (c_keyauth c).
  Proof.
    intros Hd Hin Le Oe Hik c Hmem Hm Hp Hh Hk.
    pose proof (cluster_info_found hist e b Hd Hin Le Oe Hik Hmem) as Hg. fold c in Hg.
    unfold http_handle, looks_like_challenge. rewrite Hm, Hp, str_eqb_refl. unfold resource_path at 1.
    rewrite has_prefix_app. cbn [andb negb]. rewrite Hh, <- Hk, Hg.
    unfold solve_http. rewrite Hm, Hp, Hh, !str_eqb_refl, (equal_fold_refl feq feq_refl). reflexivity.
  Qed.

  (** TLS-ALPN-01 across nodes: the hello [acme-tls/1] with the challenge key as server name gets
      this challenge from a node that did not present it *)
  Theorem cluster_remote_presents_cert hist e b : cluster_disc hist = true ->
    In e (cpending hist) -> lst e = true -> store_ok (c_flt e) = true -> In (o_ik (c_ord e)) issuers ->
    let c := o_chal (c_ord e) in
    aget str_eqb (challenge_key c) (l_mem (cl_local (crun hist) b)) = None -> challenge_key c <> [] ->
    alpn_get sf feq issuers false (view (crun hist) b) (challenge_key c) [acme_tls1_protocol] = AChal c.
  Proof.
    intros Hd Hin Le Oe Hik c Hmem Hne.
    pose proof (cluster_info_found hist e b Hd Hin Le Oe Hik Hmem) as Hg. fold c in Hg.
    unfold alpn_get, alpn_branch. rewrite str_eqb_refl.
    destruct (challenge_key c) eqn:E; [contradiction|]. cbn [negb andb]. rewrite Hg. reflexivity.
  Qed.
End Cluster.

(** * (iii) the Storage atomicity both models rely on

    Both models treat the token store as a flat atomic map (Store / Load / Delete of independent
    keys).  [StorageRefine] shows FileStorage (C10) refines that map for every prefix-free,
    non-root key set.  The challenge-token keys acme/<ca>/challenge_tokens/<name>.json together with
    the certificate asset keys and the staple keys form such a set (issuer keys whose sanitized
    form is one real path component). *)
From CM Require System.StorageRefine.
Module PrefixFree.
  Module SR := CM.System.StorageRefine.
  Module KC := CM.System.StorageRefine.KeysCorr.
  Section K.
    Variables (lower : N -> N) (is_space : N -> bool).
    Hypothesis H2 : forall c, is_upper_ascii (lower c) = false.
    Notation sf := (safe lower is_space).

    Definition K_chal (p : list str) : Prop :=
      exists ik d, KC.one_comp lower is_space ik /\ p = kc (challenge_tokens_key lower is_space ik d).
    Definition K_all (p : list str) : Prop := KC.K_cm lower is_space p \/ K_chal p.

    Lemma K_chal_shape p : K_chal p -> exists a b, p = [prefix_acme; a; challenge_tokens_dir_name; b].
    Proof.
      intros (ik & d & Hi & ->). rewrite token_key_string, (token_key_comps lower is_space H2).
      unfold KC.one_comp in Hi. rewrite Hi. cbn [app]. eauto.
    Qed.

    Definition all_depth (h : option str) : nat :=
      match h with
      | Some c => if str_eqb c prefix_certs then 4 else if str_eqb c prefix_acme then 4 else 2
      | None => 0
      end.

    Theorem all_keys_prefix_free : SR.prefix_free K_all /\ SR.nonroot K_all.
    Proof.
      assert (Hnr : SR.nonroot K_all).
      { intros a [[H|H]|H].
        - destruct (KC.K_certs_shape lower is_space H2 a H) as (x & y & z & ->). discriminate.
        - destruct (KC.K_ocsp_shape lower is_space H2 a H) as (f & ->). discriminate.
        - destruct (K_chal_shape a H) as (x & y & ->). discriminate. }
      split; [|exact Hnr]. apply (SR.prefix_free_by_depth K_all all_depth Hnr).
      intros a [[H|H]|H].
      - destruct (KC.K_certs_shape lower is_space H2 a H) as (x & y & z & ->). vm_compute. reflexivity.
      - destruct (KC.K_ocsp_shape lower is_space H2 a H) as (f & ->). vm_compute. reflexivity.
      - destruct (K_chal_shape a H) as (x & y & ->). vm_compute. reflexivity.
    Qed.
  End K.
End PrefixFree.

(** * Examples: the hypotheses are satisfiable, the conclusions are not vacuous *)
Module Ex.
  Local Open Scope N_scope.
  Definition x_sf := safe (tbl_lower []) (tbl_space []).
  Definition x_feq := tbl_feq [].
  Definition x_ik : str := [99; 97].                                      (* "ca" *)
  Definition x_addr : str := [58; 56; 48].                                (* ":80" *)
  (* http-01 for "a.test", token "t1", key authorization "t1.x" *)
  Definition x_c : chal := Chal THttp [116; 49] [116; 49; 46; 120] false [97; 46; 116; 101; 115; 116] None.
  Definition x_o : order := Order KHttp x_addr x_ik x_c [] [].
  (* tls-alpn-01 for "b.test" *)
  Definition x_c2 : chal := Chal TTlsAlpn [116; 50] [116; 50; 46; 120] false [98; 46; 116; 101; 115; 116] None.
  Definition x_o2 : order := Order KTlsAlpn [58; 52; 52; 51] x_ik x_c2 [] [].
  Definition x_ok : faults := Faults false false false BOk.
  Definition x_cancel : faults := Faults true false false BOk.
  (* GET /.well-known/acme-challenge/t1, Host "a.test" *)
  Definition x_req : hreq := HReq m_get (resource_path x_c) [97; 46; 116; 101; 115; 116].
  (** node 0 runs two orders (HTTP-01 and TLS-ALPN-01); node 7 only answers *)
  Definition x_hist : list (nat * sop) := [(0%nat, SPresent x_o x_ok); (0%nat, SPresent x_o2 x_ok)].
  Definition x_done : list (nat * sop) := x_hist ++ [(0%nat, SClean x_o2 x_ok); (0%nat, SClean x_o x_cancel)].

  Lemma x_feq_refl : forall x, x_feq x x = true.
  Proof. intros x. unfold x_feq, tbl_feq. rewrite N.eqb_refl. reflexivity. Qed.

  (** hypotheses of [cluster_remote_answers] / [cluster_remote_presents_cert] and their conclusions on node 7 *)
  Example x_remote_hyps :
    cluster_disc x_sf x_hist = true /\
    In (0%nat, (x_o, x_ok)) (cpending x_hist) /\ lst (0%nat, (x_o, x_ok)) = true /\ store_ok true (c_flt (0%nat, (x_o, x_ok))) = true /\
    aget str_eqb (challenge_key x_c) (l_mem (cl_local (crun x_sf true x_hist) 7%nat)) = None /\
    challenge_host (h_host x_req) = c_ident x_c /\
    http_handle x_sf x_feq [x_ik] false false (view (crun x_sf true x_hist) 7%nat) x_req = Some (c_keyauth x_c) /\
    alpn_get x_sf x_feq [x_ik] false (view (crun x_sf true x_hist) 7%nat) (challenge_key x_c2) [acme_tls1_protocol] = AChal x_c2.
  Proof. vm_compute. repeat split; try reflexivity. right; left; reflexivity. Qed.

  (** hypotheses of [cluster_http_only_matching] (a node answers) and of [cluster_quiescent_no_answers] /
      [orders_complete_no_remote_answers] (afterwards nobody does; the CleanUp ran with a cancelled context) *)
  Example x_quiescent_hyps :
    no_bad_delete x_hist /\ no_bad_delete x_done /\ cpending x_done = [] /\
    http_handle x_sf x_feq [x_ik] false false (view (crun x_sf true x_done) 7%nat) x_req = None /\
    http_handle x_sf x_feq [x_ik] false false (view (crun x_sf true x_done) 0%nat) x_req = None /\
    l_mem (cl_local (crun x_sf true x_done) 7%nat) = [].
  Proof. vm_compute. repeat split; reflexivity. Qed.
  Example x_merge : merge (map prog [(x_o, x_ok, x_cancel); (x_o2, x_ok, x_ok)]) (map snd x_done).
  Proof.
    cbn [map prog x_done x_hist app snd].
    apply (merge_step [] _ _ _). apply (merge_step [_] _ _ []). apply (merge_step [_] _ _ []).
    apply (merge_step [] _ _ _). apply merge_nil. repeat constructor.
  Qed.

  (** the key string both sides use for x_c under issuer "ca" *)
  Example x_key_string :
    kstr_of (tk x_sf x_o) = challenge_tokens_key (tbl_lower []) (tbl_space []) x_ik (c_ident x_c) /\
    kstr_of (tk x_sf x_o) =
      [97;99;109;101;47;99;97;47;99;104;97;108;108;101;110;103;101;95;116;111;107;101;110;115;47;97;46;116;101;115;116;46;106;115;111;110].
      (* "acme/ca/challenge_tokens/a.test.json" *)
  Proof. vm_compute. split; reflexivity. Qed.

  Example x_K_all_inhabited :
    PrefixFree.K_all ascii_lower ascii_space (kc (challenge_tokens_key ascii_lower ascii_space x_ik (c_ident x_c))).
  Proof. right. exists x_ik, (c_ident x_c). split; vm_compute; reflexivity. Qed.
  (** the side condition [no_bad_delete] is needed: a CleanUp whose Storage.Delete fails leaves the
      token file, nothing else ever deletes it (CleanStorage does not look below acme/), and every
      node -- the presenting one too, its memory being empty -- keeps answering the finished
      challenge's validation request from the file *)
  Definition x_delfail : faults := Faults false true false BOk.
  Theorem failed_delete_leaves_stale_answer_refuted :
    exists hist b r body, cpending hist = [] /\
      http_handle x_sf x_feq [x_ik] false false (view (crun x_sf true hist) b) r = Some body.
  Proof.
    exists [(0%nat, SPresent x_o x_ok); (0%nat, SClean x_o x_delfail)], 7%nat, x_req, (c_keyauth x_c).
    vm_compute. split; reflexivity.
  Qed.
End Ex.

