(** System: C12's certificate cache refines the cache view of C05's maintenance model.

    C05 ([Maintain.Model]) carries its own cache: an insertion-ordered [list cert] keyed by the
    identity [cid] (the harness uses the serial number), with the name index DERIVED
    ([resolve n l] = the entries listing [n], [served]), and says of "cache capacity / eviction
    (C12)" that it is not in the model.  C12 ([Cache.Model]) has the two maps of cache.go, keyed
    by the chain hash, with capacity and random eviction.

    Abstraction.  [eh : nat -> hash] (identity -> hash) and [en : nat -> name] are injective
    encodings; [conc c] is the certmagic.Certificate of a Maintain certificate (hash, Names,
    managed; no tags: CacheManagedCertificate / reloadManagedCertificate cache without tags; the
    [cdue] flag is not a field of the cached value, it is C04's verdict).  A Maintain cache [l]
    and a C12 state [s] are related, [R l s], when the entries of [Cache.cache s], in map order,
    are [map conc l] and [s] satisfies C12's invariant with UNLIMITED capacity (cap = 0).

    Proved: Maintain's [cache_add], [cache_remove], [cache_replace] are simulated step for step
    by C12's [add_cert], [remove_cert], [replace_cert] (whatever eviction victim is passed: it is
    never used), and Maintain's derived index [resolve n] is, as a set (and as a permutation,
    hence in length and for [served], when certificates do not repeat a name), what C12's
    [get_all_matching_certs s (en n)] reads from the stored index.
    Refuted: the same with a finite capacity (eviction removes an entry Maintain keeps). *)
From CM Require Import Lib.Str Cache.Model Cache.AMapFacts Cache.Proofs.
From CM Require Maintain.Model Maintain.Base.
From Coq Require Import Arith Lia Permutation.
Open Scope nat_scope.

Notation mcert := Maintain.Model.cert.
Notation cid := Maintain.Model.cid.
Notation cnames := Maintain.Model.cnames.
Notation cman := Maintain.Model.cman.
Notation m_add := Maintain.Model.cache_add.
Notation m_remove := Maintain.Model.cache_remove.
Notation m_replace := Maintain.Model.cache_replace.
Notation m_resolve := Maintain.Model.resolve.
Notation m_served := Maintain.Model.served.

Section Refine.
  Variable eh : nat -> hash.
  Variable en : nat -> name.
  Hypothesis eh_inj : forall a b, eh a = eh b -> a = b.
  Hypothesis eh_nonempty : forall a, eh a <> [].
  Hypothesis en_inj : forall a b, en a = en b -> a = b.
  (** C12's "a hash determines the names" *)
  Variable names_of : hash -> list name.

  Definition conc (c : mcert) : cert :=
    {| c_hash := eh (cid c); c_names := map en (cnames c); c_managed := cman c;
       c_issuer := []; c_tags := []; c_ocsp := 0%Z; c_ari := [] |}.
  (** the certificate has the names its identity determines (C05's WF has the Maintain side of
      this: equal identities, equal certificates) *)
  Definition ok (c : mcert) : Prop := names_of (eh (cid c)) = map en (cnames c).

  Definition R (cap : nat) (l : list mcert) (s : state) : Prop :=
    map snd (cache s) = map conc l /\ Inv names_of cap s.

  Lemma conc_wf c : ok c -> wf_cert names_of (conc c).
  Proof. intros H. split; [symmetry; exact H | apply eh_nonempty]. Qed.

  (** keys are the hashes of the values *)
  Lemma keys_of_values cap s : Inv names_of cap s -> akeys (cache s) = map c_hash (map snd (cache s)).
  Proof.
    intros HI. unfold akeys. rewrite map_map. apply map_ext_in. intros [k c] Hin. cbn.
    apply In_alookup in Hin; [|apply (inv_nodup _ _ s HI)].
    destruct (inv_cert _ _ s HI k c Hin) as (-> & _). reflexivity.
  Qed.
  Lemma R_keys cap l s : R cap l s -> akeys (cache s) = map (fun c => eh (cid c)) l.
  Proof. intros [Hm HI]. rewrite (keys_of_values cap s HI), Hm, map_map. reflexivity. Qed.

  Lemma has_id_amem cap l s i : R cap l s -> Maintain.Model.has_id i l = amem (eh i) (cache s).
  Proof.
    intros HR. destruct (amem (eh i) (cache s)) eqn:E.
    - apply amem_In in E. rewrite (R_keys cap l s HR) in E. apply in_map_iff in E.
      destruct E as (c & Hc & Hin). apply eh_inj in Hc. apply Maintain.Base.has_id_true. eauto.
    - destruct (Maintain.Model.has_id i l) eqn:E'; [|reflexivity].
      apply Maintain.Base.has_id_true in E'. destruct E' as (c & Hin & Hc).
      apply amem_false in E. exfalso. apply E. rewrite (R_keys cap l s HR). apply in_map_iff.
      exists c. split; [congruence | exact Hin].
  Qed.

  (** cacheCertificate while the cache is not at capacity (Capacity 0 = unlimited, or fewer
      entries than Capacity): simulated, whatever victim is handed in (it is not used) *)
  Theorem refine_add_below_capacity cap l s c v :
    R cap l s -> ok c -> at_capacity cap s = false -> R cap (m_add c l) (add_cert cap (conc c) v s).
  Proof.
    intros HR Hok Hcap. pose proof HR as [Hm HI].
    split; [|apply add_cert_inv; [exact HI | apply conc_wf; exact Hok]].
    unfold add_cert, Maintain.Model.cache_add. rewrite (has_id_amem cap l s (cid c) HR).
    change (c_hash (conc c)) with (eh (cid c)).
    destruct (amem (eh (cid c)) (cache s)) eqn:E.
    - apply amem_alookup in E. destruct E as [e He]. rewrite He, tags_guard_eq. cbn [conc c_tags is_nil negb]. exact Hm.
    - pose proof E as E'. apply amem_false_alookup in E'. rewrite E', Hcap. cbn [cache].
      unfold ainsert. rewrite E. rewrite !map_app, Hm. reflexivity.
  Qed.
  Theorem refine_add l s c v : R 0 l s -> ok c -> R 0 (m_add c l) (add_cert 0 (conc c) v s).
  Proof. intros HR Hok. apply refine_add_below_capacity; [exact HR | exact Hok | rewrite at_capacity_eq; reflexivity]. Qed.

  Lemma map_snd_adelete (h : hash) (m : amap cert) :
    (forall k c, In (k, c) m -> c_hash c = k) ->
    map snd (adelete h m) = filter (fun c => negb (str_eqb h (c_hash c))) (map snd m).
  Proof.
    intros Hk. unfold adelete. induction m as [|[k c] m IH]; [reflexivity|].
    cbn [filter map fst snd]. rewrite (Hk k c (or_introl eq_refl)).
    destruct (str_eqb h k); cbn [negb map snd]; rewrite IH; auto.
    all: intros k' c' Hin; apply Hk; right; exact Hin.
  Qed.
  Lemma filter_map_conc (i : nat) (l : list mcert) :
    filter (fun c => negb (str_eqb (eh i) (c_hash c))) (map conc l) =
    map conc (filter (fun x => negb (cid x =? i)) l).
  Proof.
    induction l as [|x l IH]; [reflexivity|]. cbn [map filter conc c_hash].
    destruct (Nat.eqb_spec (cid x) i) as [E|E].
    - rewrite E, str_eqb_refl. cbn [negb]. exact IH.
    - rewrite str_eqb_neq by (intros H; apply eh_inj in H; congruence). cbn [negb map]. rewrite IH. reflexivity.
  Qed.

  (** removeCertificate(copy) *)
  Theorem refine_remove cap l s c : R cap l s -> ok c -> R cap (m_remove c l) (remove_cert (conc c) s).
  Proof.
    intros [Hm HI] Hok. split.
    - cbn [remove_cert cache conc c_hash]. rewrite map_snd_adelete.
      + rewrite Hm. apply filter_map_conc.
      + intros k x Hin. apply In_alookup in Hin; [|apply (inv_nodup _ _ s HI)].
        destruct (inv_cert _ _ s HI k x Hin) as (-> & _). reflexivity.
    - apply remove_copy_inv; [exact HI|]. left. symmetry. exact Hok.
  Qed.

  (** replaceCertificate = removeCertificate(old) ; cacheCertificate(new), one critical section *)
  Theorem refine_replace l s old new v :
    R 0 l s -> ok old -> ok new -> R 0 (m_replace old new l) (replace_cert 0 (conc old) (conc new) v s).
  Proof.
    intros HR Ho Hn. unfold Maintain.Model.cache_replace, replace_cert.
    apply refine_add; [apply refine_remove; assumption | exact Hn].
  Qed.

  (** reloadManagedCertificate of Maintain (storage lookup, then replace) over the C12 cache *)
  Theorem refine_reload_one l s st old v :
    R 0 l s -> ok old -> (forall n c, Maintain.Model.stored st n = Some c -> ok c) ->
    R 0 (Maintain.Model.reload_one st l old)
        (match Maintain.Model.stored st (Maintain.Model.chead old) with
         | Some new => replace_cert 0 (conc old) (conc new) v s
         | None => s end).
  Proof.
    intros HR Ho Hst. unfold Maintain.Model.reload_one.
    destruct (Maintain.Model.stored st (Maintain.Model.chead old)) as [new|] eqn:E; [|exact HR].
    apply refine_replace; [exact HR | exact Ho | eapply Hst; exact E].
  Qed.

  (** ---- the derived index is the stored index ---- *)
  Lemma in_values_alookup cap s c :
    Inv names_of cap s -> In c (map snd (cache s)) -> alookup (c_hash c) (cache s) = Some c.
  Proof.
    intros HI Hin. apply in_map_iff in Hin. destruct Hin as ([k c'] & <- & Hin). cbn [snd].
    apply In_alookup in Hin; [|apply (inv_nodup _ _ s HI)].
    destruct (inv_cert _ _ s HI k c' Hin) as (-> & _). exact Hin.
  Qed.
  Lemma alookup_in_values (s : state) h c : alookup h (cache s) = Some c -> In c (map snd (cache s)).
  Proof.
    induction (cache s) as [|[k x] m IH]; cbn [alookup]; [discriminate|].
    destruct (str_eqb h k); [intros H; injection H as <-; left; reflexivity | intros H; right; apply IH, H].
  Qed.

  (** getAllMatchingCerts(en n) returns exactly (the concrete forms of) the entries Maintain's
      [resolve n] derives -- no zero value, nothing missing *)
  Theorem refine_resolve cap l s n cc : R cap l s ->
    (In cc (get_all_matching_certs s (en n)) <-> In cc (map conc (m_resolve n l))).
  Proof.
    intros [Hm HI]. rewrite (lookup_exact names_of cap s HI). split.
    - intros [Hc Hn]. apply alookup_in_values in Hc. rewrite Hm in Hc. apply in_map_iff in Hc.
      destruct Hc as (x & <- & Hx). apply in_map. apply Maintain.Base.In_resolve. split; [exact Hx|].
      apply Maintain.Base.has_name_In. cbn [conc c_names] in Hn. apply in_map_iff in Hn.
      destruct Hn as (m & Hm' & Hin). apply en_inj in Hm'. subst m. exact Hin.
    - intros Hin. apply in_map_iff in Hin. destruct Hin as (x & <- & Hx).
      apply Maintain.Base.In_resolve in Hx. destruct Hx as [Hx Hn]. apply Maintain.Base.has_name_In in Hn.
      split; [|cbn [conc c_names]; apply in_map; exact Hn].
      apply (in_values_alookup cap s (conc x) HI). rewrite Hm. apply in_map. exact Hx.
  Qed.

  (** ... with multiplicity, when no certificate lists a name twice: a permutation, so the two
      have the same length and Maintain's [served] is what the stored index determines *)
  Lemma NoDup_values cap s : Inv names_of cap s -> NoDup (map snd (cache s)).
  Proof.
    intros HI. pose proof (inv_nodup _ _ s HI) as Hnd. rewrite (keys_of_values cap s HI) in Hnd.
    eapply NoDup_map_inv. exact Hnd.
  Qed.
  Lemma NoDup_filter {A} (f : A -> bool) l : NoDup l -> NoDup (filter f l).
  Proof.
    induction 1 as [|x l Hx Hl IH]; cbn [filter]; [constructor|].
    destruct (f x); [constructor; [rewrite filter_In; tauto | exact IH] | exact IH].
  Qed.
  Lemma map_filter_conc (f : mcert -> bool) (g : cert -> bool) l :
    (forall x, g (conc x) = f x) -> map conc (filter f l) = filter g (map conc l).
  Proof.
    intros H. induction l as [|x l IH]; [reflexivity|]. cbn [filter map]. rewrite H.
    destruct (f x); cbn [map]; rewrite IH; reflexivity.
  Qed.
  Lemma NoDup_conc_resolve cap l s n : R cap l s -> NoDup (map conc (m_resolve n l)).
  Proof.
    intros [Hm HI]. unfold Maintain.Model.resolve.
    rewrite (map_filter_conc _ (fun c => existsb (fun m => str_eqb (en n) m) (c_names c))).
    - apply NoDup_filter. rewrite <- Hm. apply (NoDup_values cap s HI).
    - intros x. unfold Maintain.Model.has_name. cbn [conc c_names].
      induction (cnames x) as [|m r IH]; [reflexivity|]. cbn [map existsb]. rewrite IH. f_equal.
      destruct (Nat.eqb_spec n m) as [->|E]; [apply str_eqb_refl|].
      apply str_eqb_neq. intros H. apply en_inj in H. contradiction.
  Qed.
  Lemma NoDup_matching cap s n :
    Inv names_of cap s -> (forall h, NoDup (names_of h)) -> NoDup (get_all_matching_certs s n).
  Proof.
    intros HI Hnd. pose proof (no_duplicate_mention names_of cap s HI n Hnd) as Hidx.
    unfold get_all_matching_certs.
    assert (Hmem : forall h, In h (idx s n) -> amem h (cache s) = true).
    { intros h Hin. apply count_str_In in Hin. rewrite (inv_count _ _ s HI) in Hin.
      destruct (amem h (cache s)); [reflexivity | lia]. }
    induction (idx s n) as [|h r IH]; cbn [map]; [constructor|].
    inversion Hidx as [|? ? Hh Hr]; subst. constructor; [|apply IH; [exact Hr | intros; apply Hmem; right; assumption]].
    intros Hin. apply in_map_iff in Hin. destruct Hin as (h' & Heq & Hin').
    assert (h' = h); [|subst; contradiction].
    pose proof (Hmem h (or_introl eq_refl)) as M1. pose proof (Hmem h' (or_intror Hin')) as M2.
    apply amem_alookup in M1. apply amem_alookup in M2. destruct M1 as [c1 E1], M2 as [c2 E2].
    unfold cache_get in Heq. rewrite E1, E2 in Heq.
    destruct (inv_cert _ _ s HI _ _ E1) as (H1 & _). destruct (inv_cert _ _ s HI _ _ E2) as (H2 & _).
    congruence.
  Qed.

  Theorem refine_resolve_perm cap l s n : R cap l s -> (forall h, NoDup (names_of h)) ->
    Permutation (get_all_matching_certs s (en n)) (map conc (m_resolve n l)).
  Proof.
    intros HR Hnd. apply NoDup_Permutation.
    - apply (NoDup_matching cap); [apply HR | exact Hnd].
    - apply (NoDup_conc_resolve cap l s n HR).
    - intros cc. apply (refine_resolve cap l s n cc HR).
  Qed.

  (** Maintain's "the certificate served for n" (exactly one entry answers) read off C12's index *)
  Theorem refine_served cap l s n i : R cap l s -> (forall h, NoDup (names_of h)) ->
    (m_served n l = Some i <-> exists cc, get_all_matching_certs s (en n) = [cc] /\ c_hash cc = eh i).
  Proof.
    intros HR Hnd. pose proof (refine_resolve_perm cap l s n HR Hnd) as HP.
    unfold Maintain.Model.served. split.
    - destruct (m_resolve n l) as [|x [|y r]] eqn:E; try discriminate.
      intros H; injection H as <-. cbn [map] in HP. apply Permutation_sym, Permutation_length_1_inv in HP.
      exists (conc x). split; [exact HP | reflexivity].
    - intros (cc & Hg & Hh). rewrite Hg in HP. apply Permutation_length_1_inv in HP.
      destruct (m_resolve n l) as [|x [|y r]]; cbn [map] in HP; try discriminate.
      injection HP as HP. subst cc. cbn [conc c_hash] in Hh. apply eh_inj in Hh. congruence.
  Qed.

  (** the empty caches are related *)
  Lemma R_init cap : R cap [] init.
  Proof. split; [reflexivity | apply inv_init]. Qed.
End Refine.

(** ---- finite capacity: NOT a refinement.  With Capacity 1 the second cacheCertificate evicts
    the first entry (cache.go unsyncedCacheCertificate: "cache full; evict random certificate");
    Maintain's cache keeps both, and so do the C05 theorems that rest on it, e.g.
    C05_pass_leaves_not_due_untouched ("a cached certificate that is not due is in the cache
    after any history"): they are theorems about an unlimited cache (Capacity 0, the default). ---- *)
Definition eh0 (i : nat) : hash := [N.of_nat (S i)].
Definition en0 (i : nat) : name := [N.of_nat i].
Definition names_of0 (h : hash) : list name :=
  match h with [k] => [[N.pred k]] | _ => [] end.
Definition mc (i : nat) : mcert :=
  {| Maintain.Model.cid := i; Maintain.Model.chead := i; Maintain.Model.crest := [];
     Maintain.Model.cdue := false; Maintain.Model.cman := true |}.

Theorem capacity_breaks_refinement_refuted :
  exists (l : list mcert) (s : state) (c : mcert) (v : option hash),
    R eh0 en0 names_of0 1 l s /\ ok eh0 en0 names_of0 c /\
    (* Maintain still has certificate 0, the C12 cache with Capacity 1 does not *)
    In (mc 0) (m_add c l) /\
    alookup (eh0 0) (cache (add_cert 1 (conc eh0 en0 c) v s)) = None /\
    ~ R eh0 en0 names_of0 1 (m_add c l) (add_cert 1 (conc eh0 en0 c) v s).
Proof.
  exists [mc 0], (add_cert 1 (conc eh0 en0 (mc 0)) None init), (mc 1), None.
  split; [|split; [reflexivity|split; [left; reflexivity|split; [reflexivity|]]]].
  - split; [reflexivity|]. apply add_cert_inv; [apply inv_init|]. split; [reflexivity | discriminate].
  - intros [Hm _]. vm_compute in Hm. discriminate.
Qed.

(** ---- the hypotheses are satisfiable: a three-step run of both caches in lock step ---- *)
Lemma eh0_inj a b : eh0 a = eh0 b -> a = b.
Proof. unfold eh0. intros H. injection H as H. lia. Qed.
Lemma en0_inj a b : en0 a = en0 b -> a = b.
Proof. unfold en0. intros H. injection H as H. lia. Qed.
Lemma eh0_nonempty a : eh0 a <> [].
Proof. discriminate. Qed.
Lemma ok0 i : ok eh0 en0 names_of0 (mc i).
Proof. unfold ok, names_of0, eh0, mc, en0. cbn [cid cnames Maintain.Model.chead Maintain.Model.crest map]. rewrite Nat2N.inj_succ, N.pred_succ. reflexivity. Qed.
Lemma names_of0_nodup h : NoDup (names_of0 h).
Proof. unfold names_of0. destruct h as [|k [|? ?]]; repeat constructor; intros []. Qed.

Example refinement_run :
  let l := m_replace (mc 0) (mc 2) (m_add (mc 1) (m_add (mc 0) [])) in
  let s := replace_cert 0 (conc eh0 en0 (mc 0)) (conc eh0 en0 (mc 2)) None
             (add_cert 0 (conc eh0 en0 (mc 1)) None (add_cert 0 (conc eh0 en0 (mc 0)) None init)) in
  R eh0 en0 names_of0 0 l s /\
  map cid l = [1; 2] /\ akeys (cache s) = [eh0 1; eh0 2] /\
  m_served 2 l = Some 2 /\ get_all_matching_certs s (en0 2) = [conc eh0 en0 (mc 2)] /\
  m_served 0 l = None /\ get_all_matching_certs s (en0 0) = [].
Proof.
  split; [|vm_compute; repeat split].
  apply (refine_replace eh0 en0 eh0_inj eh0_nonempty); try apply ok0.
  apply (refine_add eh0 en0 eh0_inj eh0_nonempty); [|apply ok0].
  apply (refine_add eh0 en0 eh0_inj eh0_nonempty); [apply R_init | apply ok0].
Qed.
