(** System / LockFaithful — the product of [LockCompose] does not cut off behaviours at the
    call of Lock either.

    A contender of [FileLock.Model] makes ONE Lock call ([LStart] needs [CIdle]); the
    product identifies contender [t] of lock file [k] with Issuance thread [t].  That is
    faithful because every request of the Issuance LTS calls Lock at most once: the program
    counters before the Lock call ([prelock]) are never re-entered.  Invariant: a thread that
    has not called Lock yet is [CIdle] at every lock file; hence when a thread is at
    [PLockCall] the lock file's [LStart] is enabled ([start_never_refused]).  Together with
    [grant_never_refused] and [release_never_refused] every Locker call of the Issuance
    program has its lock-file step available whenever the program reaches it. *)
From Coq Require Import List ZArith Bool Arith Lia.
From CM Require FileLock.Model FileLock.Proofs.
From CM Require Import System.LockRefine System.LockEvent System.LockCompose.
From CM Require Import Issuance.Model Issuance.Proofs Issuance.Invariants.
Import ListNotations.
Open Scope nat_scope.

(** steps of a lock file leave idle contenders idle, except the contender's own [LStart] *)
Lemma idle_kept c s l s' t : FL.step c s l = Some s' -> (forall p, l <> FL.LStart t p) ->
  FL.cs s t = FL.CIdle -> FL.cs s' t = FL.CIdle.
Proof.
  intros Hs Hn Hi. FLP.inv_step Hs; cbn [FL.cs FL.set_cs]; auto.
  all: try (destruct (Nat.eq_dec t t0) as [->|Hne]; [congruence | rewrite FLP.upd_neq by assumption; exact Hi]).
  - destruct (Nat.eq_dec t t0) as [->|Hne]; [destruct (Hn p eq_refl) | rewrite FLP.upd_neq by assumption; exact Hi].
  - unfold FL.kill_cs. rewrite Hi. reflexivity.
Qed.

Definition Idle (s : state) (F : fam) : Prop :=
  forall t th, thread_at s t th -> prelock (tpc th) = true -> forall k, FL.cs (F k) t = FL.CIdle.

Lemma Idle_init cs st : Idle (init_state cs st) finit.
Proof. intros t th _ _ k. reflexivity. Qed.

Lemma istep_idle c x l y : Idle (fst x) (snd x) -> istep c x l y -> Idle (fst y) (snd y).
Proof.
  intros HI Hs. destruct Hs as [s F fl F' He Hok Hs|s F l p s1 e Hs Hsy|s F l p s1 e k fl x Hs Hsy Hf]; cbn [fst snd] in *.
  - (* lock files move *)
    intros t th Ht Hp k. pose proof (HI t th Ht Hp) as Hid.
    destruct Hs as [F k0 l x Hg Hs|F l F' Hg Hs].
    + destruct (Nat.eq_dec k k0) as [->|Hne]; [rewrite updf_eq | rewrite updf_neq by assumption; apply Hid].
      apply (idle_kept c (F k0) l x t Hs); [|apply Hid]. intros q ->. discriminate He.
    + apply (idle_kept c (F k) l (F' k) t (Hs k)); [|apply Hid]. intros q ->. discriminate Hg.
  - (* a thread moves *)
    intros t th Ht Hp k.
    destruct (step_threads _ _ _ _ _ _ Hs Ht) as (th0 & th' & Ha & Hts & [[-> ->]|[Hne Ho]]).
    + apply (HI _ th0 Ha). exact (proj1 (tstep_prelock _ _ _ _ _ _ _ _ Hts) Hp).
    + exact (HI t th Ho Hp k).
  - (* a Locker call with its lock-file step *)
    intros t th Ht Hp j.
    destruct (step_threads _ _ _ _ _ _ Hs Ht) as (th0 & th' & Ha & Hts & [[-> ->]|[Hne Ho]]).
    + exfalso. destruct (tstep_prelock _ _ _ _ _ _ _ _ Hts) as [Hb Hev]. unfold sync_of in Hsy.
      destruct (e_op e); try discriminate.
      * destruct (e_out e); [|discriminate]. destruct Hev as [_ Hev]. rewrite Hev in Hp. discriminate.
      * pose proof (Hb Hp) as Hq. rewrite Hev in Hq. discriminate.
      * pose proof (Hb Hp) as Hq. rewrite Hev in Hq. discriminate.
    + pose proof (HI t th Ho Hp) as Hid.
      destruct (Nat.eq_dec j k) as [->|Hnk]; [rewrite updf_eq | rewrite updf_neq by assumption; apply Hid].
      apply (idle_kept c (F k) fl x t Hf); [|apply Hid].
      intros q ->. unfold sync_of in Hsy.
      pose proof (step_inv _ _ _ _ Hs) as (thA & thB & shB & _ & HtsA & _).
      pose proof (tstep_tid _ _ _ _ _ _ _ _ HtsA) as Htid.
      destruct (e_op e); try discriminate Hsy; destruct (e_out e) as [|[|[|n]]]; try discriminate Hsy.
      injection Hsy as _ Hx _. congruence.
Qed.

Theorem impl_idle c cs st ls s F : iruns c (iinit cs st) ls (s, F) -> Idle s F.
Proof.
  intros R.
  assert (G : forall x ls0 y, iruns c x ls0 y -> Idle (fst x) (snd x) -> Idle (fst y) (snd y)).
  { clear R. intros x ls0 y R. induction R as [x|x l y ls1 z Hs R IH]; [auto|]. intros HI.
    apply IH. exact (istep_idle c x l y HI Hs). }
  exact (G _ _ _ R (Idle_init cs st)).
Qed.

(** when the program reaches its Lock call (context not cancelled, no fault injected) the call
    goes through on both sides: the Issuance step is "Lock called" and the lock file accepts
    the new contender, whatever process it belongs to *)
Theorem start_never_refused c cs st ls s F t th b p :
  iruns c (iinit cs st) ls (s, F) -> thread_at s t th -> tpc th = PLockCall -> canc th = false ->
  exists s1 x, step s (Label t FNone b) = Some (s1, Ev t (OLock (c_lk (cfg th))) 0) /\
               sync_of (Ev t (OLock (c_lk (cfg th))) 0) p = Some (c_lk (cfg th), FL.LStart t p) /\
               FL.step c (F (c_lk (cfg th))) (FL.LStart t p) = Some x.
Proof.
  intros R Ht Hp Hc.
  pose proof (impl_idle c cs st ls s F R t th Ht ltac:(rewrite Hp; reflexivity) (c_lk (cfg th))) as Hid.
  unfold step. cbn [l_tid l_fault l_bit]. unfold thread_at in Ht. rewrite Ht.
  unfold tstep, norm_pc, mark; cbn [tpc]. rewrite Hp. cbn [exec cfg canc fault_eqb orb]. rewrite Hc. cbn [orb].
  eexists. eexists. split; [reflexivity|]. split; [reflexivity|]. cbn [FL.step]. rewrite Hid. reflexivity.
Qed.

(** The other direction of "Lock is enabled iff nobody holds", as far as C08 proves it: when no
    lock file is in place (so the abstract lock is free), a waiting request at the top of its loop
    acquires by two steps of the product, in no time: the O_EXCL create, and the return of Lock
    together with the Issuance acquisition (C08's [free_lock_obtained_at_once] + [grant_never_refused]). *)
Theorem free_lock_acquired_at_once c (Hchk : FL.checks c = true) (Hgrd : FL.guard c = true) (Hcfg : FLP.good_cfg c)
  cs st ls s F w th ec b p :
  iruns c (iinit cs st) ls (s, F) -> thread_at s w th -> tpc th = PLockWait ->
  FL.file (F (c_lk (cfg th))) = None -> FL.cs (F (c_lk (cfg th))) w = FL.CTry ec ->
  (FL.lastcreate (F (c_lk (cfg th))) < FL.now (F (c_lk (cfg th))))%Z ->
  lks (sh s) (c_lk (cfg th)) = None /\
  exists s' F', iruns c (s, F) [IEnv (FOne (c_lk (cfg th)) (FL.LTryCreate w)); IThr (Label w FNone b) p] (s', F') /\
    lks (sh s') (c_lk (cfg th)) = Some w /\
    exists i, FL.cs (F' (c_lk (cfg th))) w = FL.CHolding i /\ FL.file (F' (c_lk (cfg th))) = Some i.
Proof.
  intros R Ht Hp Hf Hw Hl. set (k := c_lk (cfg th)) in *.
  destruct (impl_refines_issuance c Hchk Hgrd Hcfg cs st ls s F R) as (Hr & HC & HI).
  assert (Hfree : lks (sh s) k = None).
  { rewrite HC. destruct (holder (F k)) as [u|] eqn:E; [|reflexivity].
    destruct (holder_owns_file c (F k) u (HI k) E) as (i & _ & Hfi & _). congruence. }
  split; [exact Hfree|].
  destruct (FLP.free_lock_obtained_at_once c (F k) w ec Hf Hw Hl) as (s2 & Hrun & Hh & Hf2 & _).
  cbn [FL.run] in Hrun.
  destruct (FL.step c (F k) (FL.LTryCreate w)) as [x1|] eqn:E1; [|discriminate].
  destruct (FL.step c x1 (FL.LWriteMeta w)) as [x2|] eqn:E2; [|discriminate]. injection Hrun as <-.
  (* step 1: the create, an internal step of the lock files *)
  assert (S1 : istep c (s, F) (IEnv (FOne k (FL.LTryCreate w))) (s, updf F k x1)).
  { apply is_env; [reflexivity | apply live_ok_nonkill; discriminate | apply fs_one; [reflexivity | exact E1]]. }
  destruct (istep_coupled c Hchk Hgrd Hcfg (s, F) _ _ HC HI S1) as [HC1 HI1]. cbn [fst snd] in HC1, HI1.
  (* step 2: Lock returns nil *)
  assert (E2' : FL.step c (updf F k x1 (c_lk (cfg th))) (FL.LWriteMeta w) = Some x2) by (fold k; rewrite updf_eq; exact E2).
  destruct (grant_never_refused c Hchk Hgrd Hcfg s (updf F k x1) w th x2 b HC1 HI1 Ht Hp E2') as (s1 & Hs1 & Hsy).
  fold k in Hs1, Hsy.
  assert (S2 : istep c (s, updf F k x1) (IThr (Label w FNone b) p) (s1, updf (updf F k x1) k x2)).
  { eapply is_sync; [exact Hs1 | exact (Hsy p) | rewrite updf_eq; exact E2]. }
  destruct (istep_coupled c Hchk Hgrd Hcfg (s, updf F k x1) _ _ HC1 HI1 S2) as [HC2 HI2]. cbn [fst snd] in HC2, HI2.
  exists s1, (updf (updf F k x1) k x2). split.
  { econstructor; [exact S1|]. econstructor; [exact S2|]. constructor. }
  assert (Hh2 : FL.cs (updf (updf F k x1) k x2 k) w = FL.CHolding (FL.nexti (F k))) by (rewrite updf_eq; exact Hh).
  split.
  - rewrite HC2. destruct (HI2 k) as (HB & HM & _). apply (holder_some c _ w HB HM). eauto.
  - exists (FL.nexti (F k)). split; [exact Hh2 | rewrite updf_eq; exact Hf2].
Qed.
