(** System / LockCompose — the Issuance LTS (C01 / C09) with the file lock of FileStorage
    (C08) underneath.

    [Issuance.Model] assumes an abstract Locker: a lock table [lks] in its shared state;
    "acquire" ([OAcq l], outcome 0) is enabled iff [lks l = None] and sets the owner,
    "release" ([OUnlock l], outcome 0) clears it.  [FileLock.Model] is what FileStorage really
    does.  Here the two are run together:

      implementation state = (Issuance state, family of lock files indexed by lock identity)

    and a step of the implementation is
      - an internal step of the lock files (polling, heartbeats, time, kills of processes
        that own no lock) — the Issuance threads do not move; or
      - a step of an Issuance thread that does not concern the Locker — the lock files do
        not move; or
      - a Locker call of an Issuance thread TOGETHER with the corresponding step of the
        lock file named by the thread's lock key: the call of Lock ([OLock], [LStart]), its
        return with nil ([OAcq] outcome 0, [LWriteMeta] = the metadata is written and
        createLockfile returns), its return with ctx.Err() ([OAcq] outcome 2, [LCancel]),
        Unlock ([OUnlock] outcome 0, [LUnlock]).

    Proved: the lock table of the Issuance state always equals the holders of the lock
    files ([Coupled]); every run of the implementation is, thread for thread and event for
    event, a run of the Issuance LTS ([impl_refines_issuance]); the product never refuses a
    step that the file system grants ([grant_never_refused]: when Lock returns nil the
    abstract guard "nobody holds" is true — this is where C08's mutual exclusion is used —
    and [release_never_refused]).  Hence every theorem about reachable states of the
    Issuance LTS holds with the real file lock underneath; stated for C01's
    [issue_spans_disjoint], together with what the coupling adds: the request inside the
    issuer is the thread that holds the lock FILE of its name, the file is in place and its
    heartbeat is running ([impl_issue_spans_disjoint], [locked_region_holds_lock_file]). *)
From Coq Require Import List ZArith Bool Arith Lia.
From CM Require FileLock.Model FileLock.Proofs.
From CM Require Import System.LockRefine System.LockEvent.
From CM Require Import Issuance.Model Issuance.Proofs Issuance.Invariants.
Import ListNotations.
Open Scope nat_scope.

Module FL := CM.FileLock.Model.
Module FLP := CM.FileLock.Proofs.

(** * The implementation: Issuance threads over lock files *)

(** the lock-file step that goes with a Locker event of thread [e_tid e] ([p]: the process
    the thread belongs to, for [LStart]) *)
Definition sync_of (e : ev) (p : FL.pid) : option (nat * FL.label) :=
  match e_op e, e_out e with
  | OLock k, 0 => Some (k, FL.LStart (e_tid e) p)
  | OAcq k, 0 => Some (k, FL.LWriteMeta (e_tid e))
  | OAcq k, 2 => Some (k, FL.LCancel (e_tid e))
  | OUnlock k, 0 => Some (k, FL.LUnlock (e_tid e))
  | _, _ => None
  end.

(** steps of the lock files that are not returns / calls of the Lock / Unlock functions *)
Definition env_label (fl : flabel) : bool :=
  match fl with
  | FAll _ => true
  | FOne _ l =>
      match l with
      | FL.LStart _ _ | FL.LWriteMeta _ | FL.LCancel _ | FL.LUnlock _ => false
      | _ => true
      end
  end.

Inductive ilabel := IEnv (fl : flabel) | IThr (l : label) (p : FL.pid).

Inductive istep (c : FL.config) : state * fam -> ilabel -> state * fam -> Prop :=
| is_env s F fl F' : env_label fl = true -> flive_ok c F fl -> fstep c F fl F' ->
    istep c (s, F) (IEnv fl) (s, F')
| is_thread s F l p s1 e : step s l = Some (s1, e) -> sync_of e p = None ->
    istep c (s, F) (IThr l p) (s1, F)
| is_sync s F l p s1 e k fl x : step s l = Some (s1, e) -> sync_of e p = Some (k, fl) ->
    FL.step c (F k) fl = Some x ->
    istep c (s, F) (IThr l p) (s1, updf F k x).

Inductive iruns (c : FL.config) : state * fam -> list ilabel -> state * fam -> Prop :=
| iruns_nil x : iruns c x [] x
| iruns_cons x l y ls z : istep c x l y -> iruns c y ls z -> iruns c x (l :: ls) z.

(** the events of the Issuance threads along an implementation run *)
Definition Coupled (s : state) (F : fam) : Prop := forall k, lks (sh s) k = holder (F k).

Lemma live_ok_nonkill c s l : (forall p, l <> FL.LKill p) -> FLP.live_ok c s l.
Proof. intros H (p & t & i & E & _). exact (H p E). Qed.

Lemma step_lks_event s l s1 e : step s l = Some (s1, e) ->
  match e_op e, e_out e with
  | OAcq k, 0 => lk_step (lks (sh s) k) (LAcq (e_tid e)) = Some (lks (sh s1) k) /\ forall j, j <> k -> lks (sh s1) j = lks (sh s) j
  | OUnlock k, 0 => lk_step (lks (sh s) k) (LRel (e_tid e)) = Some (lks (sh s1) k) /\ forall j, j <> k -> lks (sh s1) j = lks (sh s) j
  | _, _ => forall j, lks (sh s1) j = lks (sh s) j
  end.
Proof.
  intros Hs. apply step_inv in Hs. destruct Hs as (th & th' & sh' & Hn & Hts & ->). cbn [sh].
  rewrite (tstep_tid _ _ _ _ _ _ _ _ Hts). exact (tstep_is_lk_step _ _ _ _ _ _ _ _ Hts).
Qed.

Section Compose.
Variable c : FL.config.
Hypothesis Hchk : FL.checks c = true.
Hypothesis Hgrd : FL.guard c = true.
Hypothesis Hcfg : FLP.good_cfg c.

(** ** The coupling is an invariant of the implementation *)
Lemma istep_coupled x l y : Coupled (fst x) (snd x) -> FInv c (snd x) -> istep c x l y ->
  Coupled (fst y) (snd y) /\ FInv c (snd y).
Proof.
  intros HC HI Hs. destruct Hs as [s F fl F' He Hok Hs|s F l p s1 e Hs Hsy|s F l p s1 e k fl x Hs Hsy Hf]; cbn [fst snd] in *.
  - (* lock files move, threads do not *)
    split; [|exact (FInv_step c Hchk Hgrd Hcfg F fl F' HI Hok Hs)].
    pose proof (fam_sim_step c Hchk Hgrd Hcfg F fl F' HI Hok Hs) as Hsim.
    assert (Hv : fvis fl = None).
    { destruct fl as [k l|l]; [|reflexivity]. cbn [fvis]. destruct l; cbn in He |- *; try reflexivity; discriminate. }
    rewrite Hv in Hsim. intros k. rewrite HC. symmetry. apply Hsim.
  - (* a thread moves, no Locker event *)
    split; [|exact HI]. pose proof (step_lks_event s l s1 e Hs) as Hev. unfold sync_of in Hsy.
    intros k. rewrite <- HC.
    destruct (e_op e); try apply Hev.
    + destruct (e_out e); [discriminate | apply Hev].
    + destruct (e_out e); [discriminate | apply Hev].
  - (* a Locker call together with the lock file's step *)
    pose proof (step_lks_event s l s1 e Hs) as Hev. unfold sync_of in Hsy.
    assert (Hnk : forall q, fl <> FL.LKill q).
    { intros q ->. destruct (e_op e); try discriminate; destruct (e_out e) as [|[|[|n]]]; discriminate. }
    pose proof (live_ok_nonkill c (F k) fl Hnk) as Hok.
    pose proof (sim_step c Hchk Hgrd Hcfg (F k) fl x (HI k) Hok Hf) as Hsim.
    pose proof (BothInv_step c Hchk Hgrd Hcfg (F k) fl x (HI k) Hok Hf) as HIx.
    split.
    2:{ intros j. destruct (Nat.eq_dec j k) as [->|Hne]; [rewrite updf_eq; exact HIx | rewrite updf_neq by assumption; apply HI]. }
    assert (Hsame : (forall j, lks (sh s1) j = lks (sh s) j) -> holder x = holder (F k) -> Coupled s1 (updf F k x)).
    { intros H1 H2 j. rewrite H1, HC. destruct (Nat.eq_dec j k) as [->|Hne]; [rewrite updf_eq; congruence | rewrite updf_neq by assumption; reflexivity]. }
    assert (Hmove : forall ev0, lk_step (lks (sh s) k) ev0 = Some (lks (sh s1) k) -> (forall j, j <> k -> lks (sh s1) j = lks (sh s) j) ->
                    lk_step (holder (F k)) ev0 = Some (holder x) -> Coupled s1 (updf F k x)).
    { intros ev0 H1 H2 H3 j. destruct (Nat.eq_dec j k) as [->|Hne].
      - rewrite updf_eq. rewrite HC in H1. congruence.
      - rewrite updf_neq by assumption. rewrite H2 by assumption. apply HC. }
    destruct (e_op e); try discriminate.
    + (* Lock is called *)
      destruct (e_out e); [|discriminate]. injection Hsy as <- <-. apply Hsame; [exact Hev | exact Hsim].
    + (* Lock returns *)
      destruct (e_out e) as [|[|[|n]]]; try discriminate; injection Hsy as <- <-.
      * destruct Hev as [H1 H2]. exact (Hmove _ H1 H2 Hsim).
      * apply Hsame; [exact Hev | exact Hsim].
    + (* Unlock *)
      destruct (e_out e); [|discriminate]. injection Hsy as <- <-.
      destruct Hev as [H1 H2]. exact (Hmove _ H1 H2 Hsim).
Qed.

Definition iinit (cs : list tcfg) (st : skey -> option value) : state * fam := (init_state cs st, finit).

(** ** Refinement: every run of the implementation is a run of the Issuance LTS *)
Theorem impl_refines_issuance cs st ls s F : iruns c (iinit cs st) ls (s, F) ->
  reachable cs st s /\ Coupled s F /\ FInv c F.
Proof.
  intros R.
  assert (G : forall x ls y, iruns c x ls y -> reachable_from (init_state cs st) (fst x) -> Coupled (fst x) (snd x) -> FInv c (snd x) ->
              reachable_from (init_state cs st) (fst y) /\ Coupled (fst y) (snd y) /\ FInv c (snd y)).
  { clear R. intros x ls0 y R. induction R as [x|x l y ls1 z Hs R IH]; [auto|]. intros Hr HC HI.
    destruct (istep_coupled x l y HC HI Hs) as [HC' HI']. apply IH; auto.
    destruct Hr as [es Hr].
    destruct Hs as [s0 F0 fl F' _ _ _|s0 F0 l p s1 e Hs _|s0 F0 l p s1 e k fl x0 Hs _ _]; cbn [fst] in *.
    - exists es. exact Hr.
    - exists (es ++ [e]). eapply runs_app; [exact Hr|]. econstructor; [exact I | exact Hs | constructor].
    - exists (es ++ [e]). eapply runs_app; [exact Hr|]. econstructor; [exact I | exact Hs | constructor]. }
  apply (G _ _ _ R); cbn [fst snd iinit].
  - exists []. constructor.
  - intros k. reflexivity.
  - intros k. apply BothInv_init.
Qed.

(** ** The product refuses nothing the file system grants

    [is_sync] asks for both an Issuance step and a lock-file step.  The Issuance step of a
    waiting thread carries the abstract guard [lks l = None]; the following shows that the
    guard never bites: whenever the lock file lets thread [t]'s Lock call return nil, the
    acquisition step of the Issuance LTS is enabled (C08's mutual exclusion), so the
    implementation's acquisitions are decided by the lock file alone. *)
Theorem grant_never_refused s F t th x b :
  Coupled s F -> FInv c F -> thread_at s t th -> tpc th = PLockWait ->
  FL.step c (F (c_lk (cfg th))) (FL.LWriteMeta t) = Some x ->
  exists s1, step s (Label t FNone b) = Some (s1, Ev t (OAcq (c_lk (cfg th))) 0) /\
             forall p, sync_of (Ev t (OAcq (c_lk (cfg th))) 0) p = Some (c_lk (cfg th), FL.LWriteMeta t).
Proof.
  intros HC HI Ht Hp Hf.
  assert (Hok : FLP.live_ok c (F (c_lk (cfg th))) (FL.LWriteMeta t)) by (apply live_ok_nonkill; discriminate).
  destruct (grant_only_when_free c Hchk Hgrd Hcfg _ t x (HI _) Hok Hf) as [Hfree _].
  rewrite <- HC in Hfree.
  unfold step. cbn [l_tid l_fault l_bit]. unfold thread_at in Ht. rewrite Ht.
  unfold tstep, norm_pc, mark; cbn [tpc]. rewrite Hp. cbn [exec cfg]. rewrite Hfree. eexists. split; reflexivity.
Qed.

(** ... and a thread at its deferred release holds the lock file, so that both halves of
    the release are enabled *)
Theorem release_never_refused cs st s F t th r b :
  reachable cs st s -> Coupled s F -> FInv c F -> thread_at s t th -> tpc th = PUnlock r ->
  exists s1 x, step s (Label t FNone b) = Some (s1, Ev t (OUnlock (c_lk (cfg th))) 0) /\
               FL.step c (F (c_lk (cfg th))) (FL.LUnlock t) = Some x.
Proof.
  intros Hr HC HI Ht Hp.
  assert (Hown : lks (sh s) (c_lk (cfg th)) = Some t).
  { apply (I_lock_reachable cs st s Hr t th Ht). rewrite Hp. reflexivity. }
  assert (Hh : holder (F (c_lk (cfg th))) = Some t) by (rewrite <- HC; exact Hown).
  destruct (holder_owns_file c _ t (HI _) Hh) as (i & Hi & _).
  unfold step. cbn [l_tid l_fault l_bit]. unfold thread_at in Ht. rewrite Ht.
  unfold tstep, norm_pc, mark; cbn [tpc]. rewrite Hp. cbn [exec cfg fault_eqb orb]. rewrite Hown, Nat.eqb_refl.
  eexists. eexists. split; [reflexivity|]. cbn [FL.step]. rewrite Hi. reflexivity.
Qed.

(** ** C01 with the file lock underneath *)

(** a request in the locked region is the thread holding the lock file of its lock key:
    the file is in place, it is that thread's own inode, its heartbeat goroutine runs *)
Theorem locked_region_holds_lock_file cs st ls s F t th :
  iruns c (iinit cs st) ls (s, F) -> thread_at s t th -> locked (tpc th) = true ->
  exists i, FL.cs (F (c_lk (cfg th))) t = FL.CHolding i /\ FL.file (F (c_lk (cfg th))) = Some i /\
            FL.hb (F (c_lk (cfg th))) i <> FL.HNone.
Proof.
  intros R Ht Hl. destruct (impl_refines_issuance cs st ls s F R) as (Hr & HC & HI).
  pose proof (I_lock_reachable cs st s Hr t th Ht Hl) as Hown. rewrite HC in Hown.
  exact (holder_owns_file c _ t (HI _) Hown).
Qed.

(** F1 of C01 over the file lock: requests for one identifier that agree on the lock key
    are never inside Issuer.Issue at the same time, in any state the implementation
    reaches - whatever the schedule of threads, pollers, heartbeats, ticks, kills of
    non-owners, cancellations and faults. *)
Theorem impl_issue_spans_disjoint cs st ls s F t1 t2 th1 th2 :
  agree_on_lock cs -> iruns c (iinit cs st) ls (s, F) ->
  thread_at s t1 th1 -> thread_at s t2 th2 ->
  in_span th1 = true -> in_span th2 = true -> c_idn (cfg th1) = c_idn (cfg th2) -> t1 = t2.
Proof.
  intros Hag R. destruct (impl_refines_issuance cs st ls s F R) as (Hr & _ & _).
  exact (issue_spans_disjoint cs st s t1 t2 th1 th2 Hag Hr).
Qed.

(** ... and conversely the lock file's holder is the owner in the Issuance lock table, so no
    second thread is in any locked region of that key *)
Theorem lock_file_holder_is_owner cs st ls s F k t i :
  iruns c (iinit cs st) ls (s, F) -> FL.cs (F k) t = FL.CHolding i ->
  lks (sh s) k = Some t /\
  forall t' th', thread_at s t' th' -> c_lk (cfg th') = k -> locked (tpc th') = true -> t' = t.
Proof.
  intros R Hi. destruct (impl_refines_issuance cs st ls s F R) as (Hr & HC & HI).
  assert (Hh : holder (F k) = Some t).
  { destruct (HI k) as (HB & HM & _). apply (holder_some c (F k) t HB HM). eauto. }
  split; [rewrite HC; exact Hh|].
  intros t' th' Ht' Hk Hl. pose proof (I_lock_reachable cs st s Hr t' th' Ht' Hl) as Hown.
  rewrite Hk, HC, Hh in Hown. congruence.
Qed.

(** ** C09 with the file lock underneath

    Implementation runs whose thread steps satisfy a restriction [ok] on schedules / fault
    plans (in the vocabulary of [Issuance.Base.runs]) are Issuance runs with that restriction. *)
Definition thr_ok (ok : state -> label -> Prop) (x : state * fam) (il : ilabel) : Prop :=
  match il with IThr l _ => ok (fst x) l | IEnv _ => True end.

Inductive iruns_ok (ok : state -> label -> Prop) : state * fam -> list ilabel -> state * fam -> Prop :=
| iruns_ok_nil x : iruns_ok ok x [] x
| iruns_ok_cons x l y ls z : thr_ok ok x l -> istep c x l y -> iruns_ok ok y ls z -> iruns_ok ok x (l :: ls) z.

Lemma iruns_ok_iruns ok x ls y : iruns_ok ok x ls y -> iruns c x ls y.
Proof. intros R. induction R; econstructor; eauto. Qed.

Theorem impl_refines_issuance_ok ok cs st ls s F : iruns_ok ok (iinit cs st) ls (s, F) ->
  exists es, runs ok (init_state cs st) es s.
Proof.
  intros R.
  assert (G : forall x ls0 y, iruns_ok ok x ls0 y -> forall es0, runs ok (init_state cs st) es0 (fst x) ->
              exists es, runs ok (init_state cs st) es (fst y)).
  { clear R. intros x ls0 y R. induction R as [x|x l y ls1 z Hok Hs R IH]; [eauto|]. intros es0 Hr.
    destruct Hs as [s0 F0 fl F' _ _ _|s0 F0 l p s1 e Hs _|s0 F0 l p s1 e k fl x0 Hs _ _]; cbn [fst thr_ok] in *.
    - eapply IH; eauto.
    - apply (IH (es0 ++ [e])). eapply runs_app; [exact Hr|]. econstructor; [exact Hok | exact Hs | constructor].
    - apply (IH (es0 ++ [e])). eapply runs_app; [exact Hr|]. econstructor; [exact Hok | exact Hs | constructor]. }
  apply (G _ _ _ R []). constructor.
Qed.

(** Every operation releases the lock FILE it took: along every implementation run in which
    no Unlock call of request [t] itself is made to fail, when [t] has returned it holds no
    lock file of any name (C09's [locks_released] through the coupling). *)
Theorem impl_locks_released cs st ls s F t th :
  iruns_ok (unlock_ok_for t) (iinit cs st) ls (s, F) ->
  thread_at s t th -> final_pc (tpc th) = true ->
  recd th = false /\ forall k i, FL.cs (F k) t <> FL.CHolding i.
Proof.
  intros R Ht Hf.
  destruct (impl_refines_issuance_ok _ cs st ls s F R) as [es Hr].
  destruct (locks_released cs st t es s th Hr Ht Hf) as [Hrec Hown]. split; [exact Hrec|].
  destruct (impl_refines_issuance cs st ls s F (iruns_ok_iruns _ _ _ _ R)) as (_ & HC & HI).
  intros k i Hi. apply (Hown k). rewrite HC.
  destruct (HI k) as (HB & HM & _). apply (holder_some c (F k) t HB HM). eauto.
Qed.
End Compose.
