(** System S11, part 3 — (a) what the cache holds after the tick as C14 and XModel see it: the
    statuses of the surviving certificates; (b) the handshake path: C14's [hs_one] versus the
    [c_revoked] flag of the handshake model (C02); (c) manageOne: C14's [manage_one] versus the
    bundle model's (C06/C07) [manage] / [m_rev] / [k_ocsp], and the revocation reason. *)
From Coq Require Import List ZArith Bool Lia Arith.
From CM Require Import Ocsp.Model Ocsp.Proofs System.OcspMaintain System.OcspMaintain2.
From CM Require Maintain.Model Maintain.XModel Maintain.XProofs Handshake.Model Bundle.Model.
Import ListNotations.

Module H := CM.Handshake.Model.
Module B := CM.Bundle.Model.

(** * (a) The tick never records a Revoked status in the cache *)

(** one certificate's share: whoever survives is the entry as it was, or the entry with a Good
    status written back ("apply the update ... if the status is still Good") *)
Lemma tick_one_survivor dis now e rn en st l st' cl :
  tick_one dis now e rn en st = (l, st', cl) ->
  tick_revokes dis now e en (sget (eid en) st) = false ->
  exists en', l = [en'] /\ en_cert en' = en_cert en /\ en_managed en' = en_managed en /\
    (en' = en \/ exists r, cs_ocsp (en_cs en') = Some r /\ r_status r = Good).
Proof.
  intros T D. revert T. unfold tick_one. fold (eid en).
  assert (Keep : exists en', [en] = [en'] /\ en_cert en' = en_cert en /\ en_managed en' = en_managed en /\
    (en' = en \/ exists r, cs_ocsp (en_cs en') = Some r /\ r_status r = Good)) by (exists en; auto).
  destruct (c_expiry (en_cert en) <? now) eqn:X; [intros H; inversion H; subst; exact Keep|].
  unfold tick_revokes, learns, recorded, still_fresh in D. rewrite X in D. cbn [negb andb] in D.
  unfold force_renew at 1.
  destruct (en_managed en) eqn:Mg; cbn [andb] in *.
  - destruct (is_revoked (cs_ocsp (en_cs en))) eqn:Rec; [discriminate|]. cbn [orb] in D.
    destruct (match cs_ocsp (en_cs en) with
              | Some r => negb (status_eqb (r_status r) Unknown) && fresh now r
              | None => false end); [intros H; inversion H; subst; exact Keep|].
    cbn [negb andb] in D. cbv zeta.
    set (res := staple dis (en_cert en) (en_cs en) (sget (eid en) st) e now).
    pose proof (staple_is_revoked dis (en_cert en) (en_cs en) (sget (eid en) st) e now) as IR.
    cbv zeta in IR. fold res in IR. rewrite Rec in IR.
    assert (Hv : is_revoked (cs_ocsp (res_cs res)) = false).
    { rewrite IR. destruct (verdict dis (en_cert en) now e (sget (eid en) st)) as [[]|]; try reflexivity.
      discriminate. }
    destruct (res_err res); [intros H; inversion H; subst; exact Keep|].
    unfold force_renew. rewrite Hv. cbn [andb].
    intros H; inversion H; subst. eexists. split; [reflexivity|].
    destruct (cs_ocsp (res_cs res)) as [r|] eqn:O; [|rewrite Mg; auto].
    destruct (status_eqb (r_status r) Good) eqn:G; cbn [andb]; [|rewrite Mg; auto].
    destruct ((_ =? zero_time) || _); [|rewrite Mg; auto].
    cbn. repeat split; auto. right. exists r. split; [exact O|]. apply status_eqb_eq. exact G.
  - destruct (match cs_ocsp (en_cs en) with
              | Some r => negb (status_eqb (r_status r) Unknown) && fresh now r
              | None => false end); [intros H; inversion H; subst; exact Keep|].
    cbv zeta.
    set (res := staple dis (en_cert en) (en_cs en) (sget (eid en) st) e now).
    destruct (res_err res); [intros H; inversion H; subst; exact Keep|].
    unfold force_renew. cbn [andb].
    intros H; inversion H; subst. eexists. split; [reflexivity|].
    destruct (cs_ocsp (res_cs res)) as [r|] eqn:O; [|rewrite Mg; auto].
    destruct (status_eqb (r_status r) Good) eqn:G; cbn [andb]; [|rewrite Mg; auto].
    destruct ((_ =? zero_time) || _); [|rewrite Mg; auto].
    cbn. repeat split; auto. right. exists r. split; [exact O|]. apply status_eqb_eq. exact G.
Qed.

(** focus, for the entries: what a pass leaves under the identity of [en] is what [en]'s own
    share left *)
Lemma maintain_focus_in {ks} dis now envs rns en : forall la lb st l' st' cl,
  maintain ks dis now envs rns (la ++ en :: lb) st = (l', st', cl) ->
  NoDup (ids (la ++ en :: lb)) -> new_fresh (la ++ en :: lb) rns ->
  exists stk lk stk' clk,
    maintain_one (ks (eid en)) dis now (envs (eid en)) (rns (eid en)) en stk = (lk, stk', clk) /\
    sget (eid en) stk = sget (eid en) st /\
    (forall en', In en' l' -> eid en' = eid en -> In en' lk).
Proof.
  assert (Hno : forall l en', has_cert (eid en) l = false -> In en' l -> eid en' = eid en -> False).
  { intros l en' Hc I E. apply has_cert_false in Hc. apply Hc. rewrite <- E. apply in_map. exact I. }
  induction la as [|x la IH]; intros lb st l' st' cl M N F.
  - cbn [app] in *. cbn [maintain] in M. fold (eid en) in M.
    destruct (maintain_one (ks (eid en)) dis now (envs (eid en)) (rns (eid en)) en st) as [[l1 st1] cl1] eqn:M1.
    destruct (maintain ks dis now envs rns lb st1) as [[l2 st2] cl2] eqn:M2.
    inversion M; subst. inversion N as [|? ? Nx Nr]; subst.
    destruct (maintain_frame _ _ _ _ (eid en) _ _ _ _ _ M2) as (_ & _ & C).
    { intros y Hy E. apply Nx. rewrite E. apply in_map. exact Hy. }
    { intros y newc e' Hy E Eq. apply (F y newc e'); [right; exact Hy|exact E|]. rewrite <- Eq. left. reflexivity. }
    exists st, l1, st1, cl1. repeat split; auto.
    intros en' I E. apply in_app_or in I as [I|I]; [exact I|]. exfalso. eapply Hno; eauto.
  - cbn [app] in *. cbn [maintain] in M. fold (eid x) in M.
    destruct (maintain_one (ks (eid x)) dis now (envs (eid x)) (rns (eid x)) x st) as [[l1 st1] cl1] eqn:M1.
    destruct (maintain ks dis now envs rns (la ++ en :: lb) st1) as [[l2 st2] cl2] eqn:M2.
    inversion M; subst. inversion N as [|? ? Nx Nr]; subst.
    destruct (maintain_one_frame _ _ _ _ _ _ _ _ _ (eid en) M1) as (A1 & _ & C1).
    { intros E. apply Nx. rewrite <- E. unfold ids. rewrite map_app. apply in_or_app. right. left. reflexivity. }
    { intros newc e' E Eq. apply (F x newc e'); [left; reflexivity|exact E|]. rewrite <- Eq.
      right. unfold ids. rewrite map_app. apply in_or_app. right. left. reflexivity. }
    destruct (IH _ _ _ _ _ M2 Nr) as (stk & lk & stk' & clk & P1 & P2 & P3).
    { intros y newc e' Hy E I. apply (F y newc e'); [right; exact Hy|exact E|right; exact I]. }
    exists stk, lk, stk', clk. repeat split; auto; [congruence|].
    intros en' I E. apply in_app_or in I as [I|I]; [exfalso; eapply Hno; eauto|]. apply P3; assumption.
Qed.

(** GOAL 2, C14's side: after a tick, whatever sits in the cache under the identity of an old
    certificate is that certificate, managed as before, and its recorded status is Revoked only
    if the entry is literally unchanged: the tick writes back Good statuses only; a Revoked
    verdict is never recorded in the cache, it goes to forceRenew within the same pass *)
Theorem tick_never_records_revoked s dis now envs rns en en' :
  NoDup (ids (cache s)) -> new_fresh (cache s) rns -> In en (cache s) ->
  In en' (cache (fst (step s (OMaintain tick dis now envs rns)))) -> eid en' = eid en ->
  decided dis now envs s en = false /\ en_cert en' = en_cert en /\ en_managed en' = en_managed en /\
  (recorded en' = true -> en' = en).
Proof.
  intros N F I. cbn [step].
  destruct (maintain tick dis now envs rns (cache s) (stor s)) as [[l' st'] cl] eqn:M. cbn [fst cache].
  intros I' E.
  destruct (in_split _ _ I) as (la & lb & Eq). rewrite Eq in M, N, F.
  destruct (maintain_focus_in dis now envs rns en la lb _ _ _ _ M N F) as (stk & lk & stk' & clk & M1 & G1 & P).
  specialize (P en' I' E). unfold tick in M1. cbn [maintain_one] in M1.
  pose proof (tick_one_decision _ _ _ _ _ _ _ _ _ M1) as D. rewrite G1 in D.
  unfold decided.
  destruct (tick_revokes dis now (envs (eid en)) en (sget (eid en) (stor s))) eqn:TD.
  - exfalso. destruct D as (st0 & cl0 & cl1 & D & _).
    assert (Hc : has_cert (eid en) lk = true).
    { apply has_cert_in. rewrite <- E. apply in_map. exact P. }
    rewrite (do_renew_has _ _ _ _ _ _ _ (eid en) D) in Hc.
    destruct (rns (eid en)) as [|newc e'|] eqn:R; try discriminate.
    apply Z.eqb_eq in Hc. rewrite <- Eq in F. apply (F en newc e' I R). rewrite Hc. apply in_map. exact I.
  - rewrite <- G1 in TD. destruct (tick_one_survivor _ _ _ _ _ _ _ _ _ M1 TD) as (en1 & -> & Ec & Em & St).
    destruct P as [<-|[]]. repeat split; auto.
    intros R. destruct St as [St|(r & O & G)]; [exact St|].
    unfold recorded in R. rewrite O in R. cbn in R. rewrite G in R. discriminate.
Qed.

(** GOAL 2, both sides: the statuses after the pass. For a managed certificate that survives the
    pass, neither model holds a Revoked status afterwards (XModel: [rev]; C14: the recorded
    status of the entry) *)
Theorem pass_survivor_not_revoked od idue s x dis now envs rns ord en c en' :
  idue = false -> XP.XWF od x -> Abs s x -> NoDup (ids (cache s)) -> new_fresh (cache s) rns ->
  In en (cache s) -> In c (MM.cache (XM.core x)) -> match_cert en c ->
  ((c_expiry (en_cert en) < now)%Z -> en_managed en = true -> recorded en = false) ->
  en_managed en = true ->
  In en' (cache (fst (step s (OMaintain tick dis now envs rns)))) -> eid en' = eid en ->
  recorded en' = false /\
  In c (MM.cache (XM.core (XM.xrun od idue x (tick_history dis now envs s ord)))) /\
  XM.flagged (XM.rev (XM.xrun od idue x (tick_history dis now envs s ord))) c = false.
Proof.
  intros ID W A N F I Ic Mc Hx Mg I' E.
  destruct (tick_never_records_revoked s dis now envs rns en en' N F I I' E) as (D & _ & _ & St).
  destruct (ocsp_pass_end_to_end od idue s x dis now envs rns ord en c ID W A N F I Ic Mc Hx) as [K _].
  destruct (K D) as [_ Kc].
  destruct (revoke_events_are_c14_decisions od idue s x dis now envs en c A N I Ic Mc Hx) as [_ Fl].
  rewrite D in Fl. destruct Mc as [Mi Mm Mh]. rewrite Mm, Mg in Fl. cbn [andb] in Fl.
  assert (Rec : recorded en = false).
  { unfold decided, tick_revokes in D. rewrite Mg in D.
    destruct (c_expiry (en_cert en) <? now)%Z eqn:X.
    - apply Hx; [apply Z.ltb_lt; exact X|exact Mg].
    - cbn in D. destruct (recorded en); [discriminate|reflexivity]. }
  split; [|split; [exact Kc|]].
  - destruct (recorded en') eqn:R; [|reflexivity]. rewrite (St eq_refl) in R. congruence.
  - unfold tick_history. rewrite XP.xrun_app. cbn. apply XP.flagged_prune. exact Fl.
Qed.

(** * (b) The handshake path: C14's [hs_one] and C02's [c_revoked] flag *)

(** the status in the handshake's copy of the certificate after handshakeMaintenance's own refresh *)
Definition hs_status (dis : bool) (now : Z) (e : env) (en : entry) (st : store) : bool :=
  is_revoked (cs_ocsp (hs_returned dis now e en st)).

Definition hs_revokes (dis : bool) (now : Z) (e : env) (en : entry) (st : store) : bool :=
  negb (c_expiry (en_cert en) <? now)%Z && en_managed en && hs_status dis now e en st.

(** [hs_one] IS that decision, and what it writes back is the handshake's copy *)
Theorem hs_one_decision dis now e rn en st l st' cl :
  hs_one dis now e rn en st = (l, st', cl) ->
  if hs_revokes dis now e en st
  then exists st0 cl0 cl1, do_renew dis now rn st0 = (l, st', cl1) /\ cl = cl0 ++ cl1
  else exists en', l = [en'] /\ en_cert en' = en_cert en /\ en_managed en' = en_managed en /\
                   en_cs en' = hs_returned dis now e en st.
Proof.
  unfold hs_one, hs_revokes, hs_status, hs_returned.
  destruct (c_expiry (en_cert en) <? now)%Z; cbn [negb andb orb].
  { intros H; inversion H; subst. eauto. }
  destruct (en_managed en) eqn:Mg; cbn [negb andb orb].
  2:{ intros H; inversion H; subst. exists en. auto. }
  destruct (cs_ocsp (en_cs en)) as [r|] eqn:O.
  - destruct (fresh now r); cbn [negb].
    + unfold force_renew. cbn [andb]. destruct (is_revoked (Some r)) eqn:R.
      * rewrite O, R. intros H. exists st, [], cl. split; [exact H|reflexivity].
      * rewrite O, R. intros H; inversion H; subst. exists en. auto.
    + cbv zeta. set (res := staple dis (en_cert en) (en_cs en) (sget (c_id (en_cert en)) st) e now).
      unfold force_renew. cbn [andb]. destruct (is_revoked (cs_ocsp (res_cs res))) eqn:R.
      * destruct (do_renew dis now rn (sset (c_id (en_cert en)) (res_store res) st)) as [[l0 s2] cl2] eqn:D.
        intros H; inversion H; subst. exists (sset (c_id (en_cert en)) (res_store res) st), [call_of (en_cert en) res], cl2.
        split; [exact D|reflexivity].
      * intros H; inversion H; subst. eexists. split; [reflexivity|]. cbn. auto.
  - unfold force_renew. cbn [andb is_revoked]. rewrite O. cbn [is_revoked].
    intros H; inversion H; subst. exists en. auto.
Qed.

(** in plain terms: a recorded status that is no longer fresh is refreshed first, and the verdict
    of that call replaces it (a Revoked one by Good as well as the other way round); otherwise the
    recorded status counts *)
Theorem hs_status_spec dis now e en st :
  (c_expiry (en_cert en) <? now)%Z = false -> en_managed en = true ->
  hs_status dis now e en st =
  match cs_ocsp (en_cs en) with
  | Some r0 =>
      if fresh now r0 then recorded en
      else match verdict dis (en_cert en) now e (sget (eid en) st) with
           | Some s => status_eqb s Revoked
           | None => recorded en
           end
  | None => false
  end.
Proof.
  intros X Mg. unfold hs_status, hs_returned, recorded. rewrite X, Mg. cbn [negb orb].
  destruct (cs_ocsp (en_cs en)) as [r0|] eqn:O; [|rewrite O; reflexivity].
  destruct (fresh now r0); [rewrite O; reflexivity|].
  rewrite (staple_is_revoked dis (en_cert en) (en_cs en) (sget (c_id (en_cert en)) st) e now), O. reflexivity.
Qed.

(** C02's decision, extracted from [Handshake.Model.maintenance] (no pending ARI refresh) *)
Definition c02_revokes (c : H.cert) : bool :=
  H.c_managed c && negb (H.is_empty_names c) && H.c_revoked c.

Lemma c02_maintenance_decision is_space LAM w h c held :
  H.c_ari c = None ->
  H.maintenance is_space LAM w h c held =
  if c02_revokes c then H.renew_dynamic is_space w h c held
  else H.renew_if_necessary is_space LAM w h c held.
Proof.
  intros A. unfold H.maintenance, c02_revokes. rewrite A.
  destruct (H.c_managed c && negb (H.is_empty_names c) && H.c_revoked c).
  - destruct (H.renew_dynamic is_space w h c held) as [[[e k] r] w']. reflexivity.
  - destruct (H.renew_if_necessary is_space LAM w h c held) as [[[e k] r] w']. reflexivity.
Qed.

(** how C02 has to see C14's entry for the two decisions to be the same one: [c_revoked] is the
    status in the handshake's copy AFTER its own refresh, not the cached one *)
Record hs_abs (dis : bool) (now : Z) (e : env) (en : entry) (st : store) (c : H.cert) : Prop := {
  ha_managed : H.c_managed c = en_managed en;
  ha_names : H.is_empty_names c = false;
  ha_revoked : H.c_revoked c = hs_status dis now e en st
}.

(** GOAL 3, handshake: for an unexpired certificate C14's handshake pass and C02's
    handshakeMaintenance take the revocation branch (forceRenew via renewDynamicCertificate) in
    exactly the same cases *)
Theorem handshake_decisions_agree dis now e en st c is_space LAM w h held :
  hs_abs dis now e en st c -> (c_expiry (en_cert en) <? now)%Z = false -> H.c_ari c = None ->
  c02_revokes c = hs_revokes dis now e en st /\
  H.maintenance is_space LAM w h c held =
    if hs_revokes dis now e en st then H.renew_dynamic is_space w h c held
    else H.renew_if_necessary is_space LAM w h c held.
Proof.
  intros [A1 A2 A3] X Ar.
  assert (E : c02_revokes c = hs_revokes dis now e en st).
  { unfold c02_revokes, hs_revokes. rewrite A1, A2, A3, X. cbn [negb andb]. rewrite andb_true_r. reflexivity. }
  split; [exact E|]. rewrite <- E. apply c02_maintenance_decision. exact Ar.
Qed.

(** ... and NOT if [c_revoked] is read as the cached status before the refresh (as the comment
    in Handshake/Model.v says): a handshake that meets a stale Good status, asks, and is told
    Revoked, force-renews in C14 (and in handshake.go: certShouldBeForceRenewed is evaluated on
    the refreshed copy) although the cached status is not Revoked *)
Theorem handshake_cached_flag_refuted :
  exists dis now e en st,
    (c_expiry (en_cert en) <? now)%Z = false /\ en_managed en = true /\
    recorded en = false /\ hs_revokes dis now e en st = true.
Proof.
  exists false, 2500%Z, (Ex.envs 1%Z),
         (Entry Ex.k1 true (CS None (Some (Ex.rsp Good 11%Z))) 0%Z), [].
  vm_compute. repeat split; reflexivity.
Qed.

(** * (c) manageOne: C14's [manage_one] and the bundle model's [manage] *)

Theorem manage_one_decision dis now rn en st :
  manage_one dis now rn en st =
  if negb (c_expiry (en_cert en) <? now)%Z && en_managed en && recorded en
  then do_renew dis now rn st else ([en], st, []).
Proof.
  unfold manage_one, force_renew, recorded. destruct (c_expiry (en_cert en) <? now)%Z; reflexivity.
Qed.

(** the status a certificate is cached with (makeCertificateWithOCSP -> stapleOCSP): Revoked iff
    the verdict of that call is *)
Lemma cached_status dis c m e now stv :
  recorded (Entry c m (res_cs (staple dis c (CS None None) stv e now)) now) =
  says_revoked (verdict dis c now e stv).
Proof.
  unfold recorded. cbn [en_cs]. rewrite staple_is_revoked. cbn.
  destruct (verdict dis c now e stv) as [[]|]; reflexivity.
Qed.

(** the bundle model's decision, extracted from [Bundle.Model.manage] *)
Definition bundle_revokes (mc : B.mcert) : bool :=
  negb (B.is_expired (B.m_c mc)) && match B.m_rev mc with Some _ => true | None => false end.

Lemma bundle_manage_decision pl cfg sp orc w mc w1 :
  B.catch (B.load_managed pl cfg (B.s_load sp)) w = (B.Ok (inl mc), w1) ->
  B.manage pl cfg sp orc w =
  if bundle_revokes mc then B.force_renew pl cfg sp orc mc w1
  else if B.is_due (B.m_c mc)
       then B.bind (B.renew pl cfg sp orc false) (fun _ => B.load_managed pl cfg (B.s_save sp)) w1
       else B.ret mc w1.
Proof.
  intros L. unfold B.manage, B.bind at 1. rewrite L. unfold bundle_revokes.
  destruct (negb (B.is_expired (B.m_c mc)) && _); [reflexivity|]. destruct (B.is_due (B.m_c mc)); reflexivity.
Qed.

(** how the bundle model has to see C14's entry *)
Record bundle_abs (now : Z) (en : entry) (mc : B.mcert) : Prop := {
  ba_expired : B.is_expired (B.m_c mc) = (c_expiry (en_cert en) <? now)%Z;
  ba_managed : en_managed en = true;
  ba_rev : match B.m_rev mc with Some _ => true | None => false end = recorded en
}.

(** GOAL 3, manageOne: the two models force-renew a just-loaded certificate in the same cases.
    The revocation REASON ([m_rev = Some true]: keyCompromise => moveCompromisedPrivateKey +
    obtain; [Some false]: forced renewal) is not in C14's model ([Ocsp.Model.resp] has no reason
    field): both map to C14's status Revoked, and C14's forceRenew outcome is an oracle
    ([renew_outcome]) that covers either *)
Theorem manage_decisions_agree dis now rn en st mc pl cfg sp orc w w1 :
  bundle_abs now en mc ->
  B.catch (B.load_managed pl cfg (B.s_load sp)) w = (B.Ok (inl mc), w1) ->
  bundle_revokes mc = (negb (c_expiry (en_cert en) <? now)%Z && en_managed en && recorded en) /\
  (bundle_revokes mc = true ->
     manage_one dis now rn en st = do_renew dis now rn st /\
     B.manage pl cfg sp orc w = B.force_renew pl cfg sp orc mc w1) /\
  (bundle_revokes mc = false ->
     manage_one dis now rn en st = ([en], st, []) /\
     B.manage pl cfg sp orc w =
       if B.is_due (B.m_c mc)
       then B.bind (B.renew pl cfg sp orc false) (fun _ => B.load_managed pl cfg (B.s_save sp)) w1
       else B.ret mc w1).
Proof.
  intros [A1 A2 A3] L. rewrite manage_one_decision, (bundle_manage_decision _ _ _ _ _ _ _ L).
  unfold bundle_revokes. rewrite A1, A2, A3. rewrite andb_true_r.
  split; [reflexivity|]. split; intros D; rewrite D; auto.
Qed.

(** * Non-vacuity *)
Module Ex3.
  (** C02's view of the entry of [handshake_cached_flag_refuted]: managed, named, and - read
      after the refresh - revoked *)
  Definition hen : entry := Entry Ex.k1 true (CS None (Some (Ex.rsp Good 11%Z))) 0%Z.
  Definition hc : H.cert := H.Cert 1%N [[97%N]] true false false true false None.
  Example hs_abs_met :
    hs_abs false 2500%Z (Ex.envs 1%Z) hen [] hc /\ ((c_expiry (en_cert hen) <? 2500)%Z = false) /\
    H.c_ari hc = None /\ hs_revokes false 2500%Z (Ex.envs 1%Z) hen [] = true.
  Proof. split; [constructor; vm_compute; reflexivity|]. vm_compute. auto. Qed.

  (** the bundle model: obtain through manage, then the CA revokes the certificate (not for key
      compromise); the next manage loads it with [m_rev = Some false] and force-renews *)
  Definition cfg : B.config := B.Config 1 false false.
  Definition sp : B.subject := B.Subject 0 0 0 0.
  Definition wa : B.world :=
    snd (B.run_hop B.no_faults cfg sp (B.Oracle [Some (10%Z, B.VFresh)] []) B.HManage B.empty_world).
  Definition wc : B.world := snd (B.run_hop B.no_faults cfg sp (B.Oracle [] []) (B.HRevokeEnv 0 false) wa).
  Definition men : entry := Entry Ex.k1 true (CS None (Some (Ex.rsp Revoked 11%Z))) 0%Z.
  Example bundle_abs_met :
    exists mc w1,
      B.catch (B.load_managed B.no_faults cfg (B.s_load sp)) wc = (B.Ok (inl mc), w1) /\
      B.m_rev mc = Some false /\ bundle_abs 1600%Z men mc /\ bundle_revokes mc = true.
  Proof.
    eexists _, _. split; [vm_compute; reflexivity|]. split; [reflexivity|].
    split; [constructor; vm_compute; reflexivity|]. vm_compute. reflexivity.
  Qed.
  (** ... and before the revocation it does not *)
  Example bundle_abs_met_unrevoked :
    exists mc w1,
      B.catch (B.load_managed B.no_faults cfg (B.s_load sp)) wa = (B.Ok (inl mc), w1) /\
      bundle_abs 1600%Z (Entry Ex.k1 true (CS None None) 0%Z) mc /\ bundle_revokes mc = false.
  Proof.
    eexists _, _. split; [vm_compute; reflexivity|].
    split; [constructor; vm_compute; reflexivity|]. vm_compute. reflexivity.
  Qed.

  (** a tick over [Ex.s0]: certificate 2 survives with the Good status written back, 3 (responder
      unreachable) survives unchanged, 1 is replaced *)
  Example survivors :
    map (fun en => (eid en, recorded en, match cs_ocsp (en_cs en) with Some r => status_eqb (r_status r) Good | None => false end))
        (cache (fst (step Ex.s0 (OMaintain tick false 1600%Z Ex.envs Ex.rns)))) =
    [(5%Z, false, true); (2%Z, false, true); (3%Z, false, false)].
  Proof. vm_compute. reflexivity. Qed.
End Ex3.

(** * The side condition "not (expired, managed, recorded Revoked)" is needed *)

(** R - XModel's [OcspPass] force-renews every managed flagged entry; the tick (maintain.go:
    "if cert.Leaf == nil || cert.Expired() { continue }", and C14's [tick_one]) skips an expired
    certificate even if its recorded status is Revoked. On such an entry the two passes
    disagree: C14 keeps it, XModel replaces it. (XModel's notes list expired revoked certificates
    as not modelled; this witness shows that the restriction is needed for the refinement.) *)
Theorem expired_revoked_pass_refuted :
  exists s x od dis now envs rns ord en c,
    Abs s x /\ XP.XWF od x /\ NoDup (ids (cache s)) /\ new_fresh (cache s) rns /\
    In en (cache s) /\ In c (MM.cache (XM.core x)) /\ match_cert en c /\
    (c_expiry (en_cert en) < now)%Z /\ en_managed en = true /\ recorded en = true /\
    MM.lock_held (MM.jobs (XM.core x)) (MM.chead c) = false /\
    has_cert (eid en) (cache (fst (step s (OMaintain tick dis now envs rns)))) = true /\
    ~ In c (MM.cache (XM.core (XM.xrun od false x (tick_history dis now envs s ord)))).
Proof.
  pose (en := Entry Ex.k1 true (CS None (Some (Ex.rsp Revoked 11%Z))) 0%Z).
  pose (s := Sys [en] []).
  pose (t := MM.State [(1, Ex.m 1)]%nat [Ex.m 1] [] [] [] [] [] 5%nat false).
  exists s, (XM.XState t [1%nat]), Ex.od, false, 200000%Z, Ex.envs, (fun _ => RFail), [], en, (Ex.m 1).
  split.
  { constructor.
    - cbn. repeat constructor.
    - intros e0 [<-|[]]. vm_compute. discriminate.
    - intros e0 [<-|[]]. vm_compute. reflexivity. }
  split.
  { constructor; cbn [XM.core XM.rev].
    - apply (MP.wf_b_sound Ex.od 4). vm_compute. reflexivity.
    - intros i [<-|[]]. reflexivity.
    - repeat constructor. intros []. }
  split; [vm_compute; repeat constructor; intros []|].
  split; [intros e0 newc e' _ Hr; discriminate Hr|].
  split; [left; reflexivity|]. split; [left; reflexivity|].
  split; [constructor; reflexivity|].
  split; [vm_compute; reflexivity|].
  split; [reflexivity|]. split; [reflexivity|]. split; [reflexivity|]. split; [vm_compute; reflexivity|].
  vm_compute. intros [H|[]]. discriminate H.
Qed.

Print Assumptions tick_never_records_revoked.
Print Assumptions pass_survivor_not_revoked.
Print Assumptions hs_one_decision.
Print Assumptions handshake_decisions_agree.
Print Assumptions handshake_cached_flag_refuted.
Print Assumptions manage_decisions_agree.
Print Assumptions expired_revoked_pass_refuted.
