(** System / S12 (part 10) -- around the synchronous-manage theorem:
    (a) with Maintain's invariant [WF]: the certificate Issuance's [seen] designates IS in
        Maintain's cache and is the stored one; after a successful renewal the old one is gone;
    (b) where the models do not overlap: key / certificate mismatch (witness);
    (c) ASYNCHRONOUS manage: Issuance has no program for it -- it is Maintain's enqueueing step
        followed by exactly the jobs of MaintainIssuance4.v ([JRenew] ~ [PRenew true]) and
        MaintainIssuance7.v ([JObtain] ~ [PObtain true]); the two compositions are proved. *)
From Coq Require Import List Bool Arith Lia.
From CM Require Issuance.Model Maintain.Model.
From CM Require Import Issuance.Base Maintain.Base Maintain.Proofs System.MaintainIssuance3 System.MaintainIssuance4
                       System.MaintainIssuance6 System.MaintainIssuance7 System.MaintainIssuance8 System.MaintainIssuance9.
Import ListNotations.
Open Scope nat_scope.

(** * (a) [seen] is cached *)
Theorem manage_sync_seen_is_cached od idue (s0 : M.state) n (si : I.state) t th lk idn reuse chk force fail :
  WF od s0 ->
  od n = false -> M.managed_for n (M.cache s0) = false -> M.lock_held (M.jobs s0) n = false ->
  M.is_failing s0 n = fail ->
  nth_error (I.thr si) t = Some th ->
  I.cfg th = mcfg lk n idn reuse chk force idue ->
  I.tpc th = I.PMLd I.Ph0 I.KKey -> I.cur th = I.OpObtain -> I.canc th = false -> I.seen th = None ->
  I.lks (I.sh si) lk = None ->
  bundle_rel (M.store s0) (I.sto (I.sh si)) n ->
  (forall kk ic, I.sto (I.sh si) (I.SK n I.KKey) = Some (I.VKey kk) ->
                 I.sto (I.sh si) (I.SK n I.KCrt) = Some (I.VCrt ic) -> I.c_kid ic = kk) ->
  M.next s0 = I.ncid (I.sh si) ->
  let st := M.stored (M.store s0) n in
  let present := is_some st in
  let due := match st with Some mc => M.cdue mc | None => false end in
  let sm := M.step od idue s0 (M.Manage n false) in
  exists si' th',
    I.run si (labels_of t (lbl_manage reuse chk present due fail)) =
      Some (si', ev_manage t lk n idn reuse chk present due fail) /\
    nth_error (I.thr si') t = Some th' /\
    match I.seen th' with
    | Some ic' =>
        (* what the request cached is in Maintain's cache, and it is what storage now holds *)
        exists mc', In mc' (M.cache sm) /\ M.stored (M.store sm) n = Some mc' /\ cert_rel mc' ic'
    | None =>
        (* nothing cached: nothing was stored and the obtain failed *)
        M.cache sm = M.cache s0 /\ M.lasterr sm = true /\ I.tpc th' = I.PDone I.RErr /\ st = None
    end /\
    (* a successful renewal replaced the old certificate *)
    (forall mc, st = Some mc -> M.cdue mc = true -> fail = false -> ~ In mc (M.cache sm)).
Proof.
  intros HWF Hod Hmf Hfree Hf Hn Hcfg Hpc Hcur Hcanc Hsn Hl Hb Hkm Hnext st present due sm.
  assert (Hhead : forall mc, M.stored (M.store s0) n = Some mc -> M.chead mc = n)
    by (intros mc H; apply (wf_stored od s0 n mc HWF H)).
  pose proof (manage_sync_agree od idue s0 n si t th lk idn reuse chk force fail Hod Hmf Hfree Hf Hhead Hn Hcfg Hpc Hcur Hcanc Hl Hb Hkm Hnext) as A.
  cbv zeta in A. destruct A as (si' & th' & HR & Hn' & _ & (Hb' & C2 & _) & _ & (C4 & C4') & C5 & _).
  pose proof (manage_sync_spec od idue s0 n HWF Hod Hfree) as SP. cbv zeta in SP. destruct SP as [_ SP].
  rewrite Hmf in SP. rewrite Hf in SP.
  exists si', th'. split; [exact HR|]. split; [exact Hn'|].
  subst st present due sm. unfold need in *.
  destruct (M.stored (M.store s0) n) as [mc|] eqn:Hst; cbn [is_some negb orb] in *.
  - destruct (M.cdue mc) eqn:Hd; [destruct fail|]; cbn [andb negb] in *.
    + destruct C5 as (Hca & ic & Hic & Hs & Hrel). rewrite Hs. destruct C2 as [C2 _]. destruct SP as (_ & Hin & _).
      split; [|intros mc' E _ F; discriminate].
      exists mc. rewrite C2. auto.
    + destruct C5 as (Hca & key & Hs). rewrite Hs. destruct C2 as [C2 _]. destruct SP as (_ & _ & _ & Hin & Hnot).
      split; [|intros mc' E _ _; injection E as <-; exact Hnot].
      exists (M.new_cert idue s0 n). split; [exact Hin|]. split; [exact C2|]. split; [cbn; exact Hnext|reflexivity].
    + destruct C5 as (Hca & ic & Hic & Hs & Hrel). rewrite Hs. destruct C2 as [C2 _]. destruct SP as (_ & Hin & _).
      split; [|intros mc' E F; injection E as <-; congruence].
      exists mc. rewrite C2. auto.
  - destruct fail; cbn [andb negb] in *.
    + destruct C5 as (Hca & Hs). rewrite Hs, Hsn. split; [|intros mc E; discriminate]. auto.
    + destruct C5 as (Hca & key & Hs). rewrite Hs. destruct C2 as [C2 _]. destruct SP as (_ & _ & _ & Hin & _).
      split; [|intros mc E; discriminate].
      exists (M.new_cert idue s0 n). split; [exact Hin|]. split; [exact C2|]. split; [cbn; exact Hnext|reflexivity].
Qed.

(** * The hypotheses of the synchronous-manage theorem are satisfiable: a due stored certificate,
      ReusePrivateKeys, the storage check, another thread, another (locked) job for another name *)
Definition exm_m (fl : list M.name) : M.state :=
  M.State [(4, M.Cert 9 4 [] true true); (6, M.Cert 3 6 [] false true)] [M.Cert 3 6 [] false true]
          [M.Job 7 M.JObtain None M.Locked] [] fl [] [] 10 false.
Definition exm_i : I.state :=
  I.State [I.init_thread (I.TCfg (I.PRenew true) 1 6 6 6 false true false false);
           I.init_thread (mcfg 8 4 4 true true false false)]
          (I.Shared (I.sto_of_list [(I.SK 4 I.KKey, I.VKey 2); (I.SK 4 I.KCrt, I.VCrt (I.Cert 9 2 true)); (I.SK 4 I.KMeta, I.VMeta 9)])
                    (fun _ => None) 10 5).
Example manage_sync_agree_nontrivial :
  (exists si' es,
     I.run exm_i (labels_of 1 (lbl_manage true true true true false)) = Some (si', es) /\
     length es = 25 /\ count_iss 4 0 es = 1 /\ count_iss 4 2 es = 0 /\
     map I.seen (I.thr si') = [None; Some (I.Cert 10 2 false)] /\ map I.tpc (I.thr si') = [I.after_pre (I.TCfg (I.PRenew true) 1 6 6 6 false true false false); I.PDone I.ROk] /\
     M.cache (M.step (fun _ => false) false (exm_m []) (M.Manage 4 false)) = [M.Cert 3 6 [] false true; M.Cert 10 4 [] false true]) /\
  (exists si' es,
     I.run exm_i (labels_of 1 (lbl_manage true true true true true)) = Some (si', es) /\
     count_iss 4 0 es = 0 /\ count_iss 4 2 es = 1 /\
     map I.seen (I.thr si') = [None; Some (I.Cert 9 2 true)] /\ map I.tpc (I.thr si') = [I.after_pre (I.TCfg (I.PRenew true) 1 6 6 6 false true false false); I.PDone I.RErr] /\
     M.cache (M.step (fun _ => false) false (exm_m [4]) (M.Manage 4 false)) = [M.Cert 3 6 [] false true; M.Cert 9 4 [] true true] /\
     M.lasterr (M.step (fun _ => false) false (exm_m [4]) (M.Manage 4 false)) = true) /\
  bundle_rel (M.store (exm_m [])) (I.sto (I.sh exm_i)) 4 /\
  M.managed_for 4 (M.cache (exm_m [])) = false /\ M.lock_held (M.jobs (exm_m [])) 4 = false.
Proof.
  split; [|split; [|split]].
  - eexists. eexists. split; [vm_compute; reflexivity|]. vm_compute. repeat split.
  - eexists. eexists. split; [vm_compute; reflexivity|]. vm_compute. repeat split.
  - vm_compute. do 3 eexists. repeat split.
  - vm_compute. split; reflexivity.
Qed.

(** * (b) outside the overlap: the stored key is not the stored certificate's key

    Issuance: CacheManagedCertificate fails ("private key does not match public key",
    certificates.go makeCertificateWithOCSP -> tls.X509KeyPair): the request returns an error
    WITHOUT caching and WITHOUT obtaining (the error is not fs.ErrNotExist, config.go:408).
    Maintain has no keys: from the corresponding store its manage caches the certificate and
    returns nil.  Hence the hypothesis "the stored key is the stored certificate's key" of the
    agreement theorem cannot be dropped; Issuance follows the Go code, Maintain's abstraction
    assumes storage written only by [saveCertResource] (key and certificate of one issuance). *)
Definition mis_sto : I.skey -> option I.value :=
  I.sto_of_list [(I.SK 4 I.KKey, I.VKey 1); (I.SK 4 I.KCrt, I.VCrt (I.Cert 9 2 false)); (I.SK 4 I.KMeta, I.VMeta 9)].
Definition mis_m : M.state := M.State [(4, M.Cert 9 4 [] false true)] [] [] [] [] [] [] 10 false.
Theorem manage_key_mismatch_refuted :
  exists si' es,
    I.run (I.init_state [mcfg 8 4 4 false false false false] mis_sto) (repeat (I.Label 0 I.FNone false) 3) = Some (si', es) /\
    map I.tpc (I.thr si') = [I.PDone I.RErr] /\ map I.seen (I.thr si') = [None] /\ count_iss 4 0 es = 0 /\
    bundle_rel (M.store mis_m) mis_sto 4 /\
    let sm := M.step (fun _ => false) false mis_m (M.Manage 4 false) in
    M.lasterr sm = false /\ M.cache sm = [M.Cert 9 4 [] false true].
Proof.
  eexists. eexists. split; [vm_compute; reflexivity|]. vm_compute. repeat split. do 3 eexists. repeat split.
Qed.

(** * (c) ASYNCHRONOUS manage

    [Issuance.Model] has no asynchronous [PManage] (notes/C01.md: ManageAsync's job queue is not
    in the model).  In the Go code (config.go:412-443, 449-490) the asynchronous [manageOne]
    (i) loads and caches exactly as the synchronous one, (ii) submits a job to [jm], and the job
    runs [ObtainCertAsync] + CacheManagedCertificate, resp. [RenewCertAsync] +
    reloadManagedCertificate.  Maintain has (i)+(ii) as the event [Manage n true] and the job as
    [JobStep]s; Issuance has the job's obtainCert / renewCert as [PObtain true] / [PRenew true].
    So "async manage completes like sync manage" ([C05_manage_async_completes_like_sync], a
    Maintain-only theorem) transports to Issuance as the two compositions below: after
    Maintain's enqueueing step the state satisfies the hypotheses of the job theorems, hence the
    job started by an asynchronous manage agrees with the Issuance thread -- for ANY number of
    failed attempts (the synchronous manage has exactly one attempt). *)

Lemma mm_async_absent od idue n s0 :
  od n = false -> M.managed_for n (M.cache s0) = false -> M.stored (M.store s0) n = None ->
  M.step od idue s0 (M.Manage n true) =
  M.State (M.store s0) (M.cache s0) (M.jobs s0 ++ [M.Job n M.JObtain None M.Queued]) (M.passes s0) (M.failing s0)
          (M.issued s0) (M.failed s0) (M.next s0) false.
Proof.
  intros Hod Hmf Hst. destruct s0 as [st ca js ps fg iss fd nx le]. cbn [M.store M.cache] in *.
  unfold M.step, M.manage, M.with_err, M.with_jobs. cbn [M.store M.cache M.jobs M.passes M.failing M.issued M.failed M.next M.lasterr].
  rewrite Hod, Hmf, Hst. reflexivity.
Qed.

Lemma mm_async_due od idue n s0 mc :
  od n = false -> M.managed_for n (M.cache s0) = false -> M.stored (M.store s0) n = Some mc -> M.cdue mc = true ->
  no_job_for n (M.jobs s0) = true ->
  M.step od idue s0 (M.Manage n true) =
  M.State (M.store s0) (M.cache_add mc (M.cache s0)) (M.jobs s0 ++ [M.Job n M.JRenew (Some mc) M.Queued]) (M.passes s0)
          (M.failing s0) (M.issued s0) (M.failed s0) (M.next s0) false.
Proof.
  intros Hod Hmf Hst Hd NJ. destruct s0 as [st ca js ps fg iss fd nx le]. cbn [M.store M.cache M.jobs] in *.
  unfold M.step, M.manage, M.with_err, M.with_jobs, M.with_cache, M.submit_renew.
  cbn [M.store M.cache M.jobs M.passes M.failing M.issued M.failed M.next M.lasterr].
  rewrite Hod, Hmf, Hst, Hd, (no_jobs_no_renew n js NJ). reflexivity.
Qed.

Lemma snoc_free n js j : no_job_for n js = true -> M.jname j = n -> M.jpc_ j = M.Queued ->
  M.lock_held (js ++ [j]) n = false.
Proof.
  intros NJ Hj Hq. rewrite lock_held_app, (no_jobs_lock_free n js NJ). unfold M.lock_held. cbn. rewrite Hq. cbn.
  rewrite andb_false_r. reflexivity.
Qed.

(** nothing stored: [Manage n true] enqueues an obtain job; the job ~ [PObtain true] *)
Theorem manage_async_obtain_agree od idue (s0 : M.state) n (si : I.state) t th lk idn reuse chk m :
  od n = false -> M.managed_for n (M.cache s0) = false -> no_job_for n (M.jobs s0) = true ->
  M.stored (M.store s0) n = None ->
  nth_error (I.thr si) t = Some th ->
  I.cfg th = ocfg lk n idn reuse chk idue ->
  I.tpc th = I.PPre I.KCrt -> I.cur th = I.OpObtain -> I.canc th = false ->
  I.lks (I.sh si) lk = None ->
  bundle_rel (M.store s0) (I.sto (I.sh si)) n -> M.next s0 = I.ncid (I.sh si) ->
  let new := M.Cert (M.next s0) n [] idue true in
  let s1 := M.step od idue s0 (M.Manage n true) in
  let sm := M.run od idue s0 (M.Manage n true :: mh_obtain n 0 false m) in
  let es := ev_obtain t lk n idn reuse chk false m in
  (* the asynchronous call itself: only enqueues *)
  (M.jobs s1 = M.jobs s0 ++ [M.Job n M.JObtain None M.Queued] /\ M.store s1 = M.store s0 /\ M.cache s1 = M.cache s0 /\
   M.issued s1 = M.issued s0 /\ M.failed s1 = M.failed s0 /\ M.lasterr s1 = false) /\
  (* its job and the Issuance thread *)
  exists si',
    I.run si (labels_of t (lbl_obtain reuse chk false m)) = Some (si', es) /\
    (M.issued sm = repeat n (count_iss idn 0 es) ++ M.issued s0 /\
     M.failed sm = repeat n (count_iss idn 2 es) ++ M.failed s0 /\
     count_iss idn 0 es = 1 /\ count_iss idn 2 es = m) /\
    (bundle_rel (M.store sm) (I.sto (I.sh si')) n /\ M.stored (M.store sm) n = Some new /\
     exists key, I.sto (I.sh si') (I.SK n I.KCrt) = Some (I.VCrt (I.Cert (I.ncid (I.sh si)) key idue))) /\
    (M.lock_held (M.jobs sm) n = false /\ I.lks (I.sh si') lk = None) /\
    (exists th', nth_error (I.thr si') t = Some th' /\ I.tpc th' = I.PDone I.ROk) /\
    (* ... and after the job's last step Maintain is where the SYNCHRONOUS manage ends *)
    let sm' := M.step od idue sm (M.JobStep n 0) in
    M.jobs sm' = M.jobs s0 /\ M.cache sm' = M.cache_add new (M.cache s0) /\ M.store sm' = M.store sm /\
    M.next sm = I.ncid (I.sh si').
Proof.
  intros Hod Hmf NJ Hst Hn Hcfg Hpc Hcur Hcanc Hl Hb Hnext new s1 sm es.
  pose proof (mm_async_absent od idue n s0 Hod Hmf Hst) as H1.
  assert (E1 : sm = M.run od idue s1 (mh_obtain n 0 false m)) by reflexivity.
  subst s1. rewrite H1 in *. split; [cbn; repeat split|].
  set (s1 := M.State _ _ _ _ _ _ _ _ _) in *.
  assert (Hsplit : M.split_job n 0 (M.jobs s1) = Some (M.jobs s0, M.Job n M.JObtain None M.Queued, []))
    by (apply split_job_snoc; [exact NJ|reflexivity]).
  assert (Hfree : M.lock_held (M.jobs s1) n = false) by (apply snoc_free; auto).
  pose proof (obtain_job_agree od idue s1 n 0 None (M.jobs s0) [] si t th lk idn reuse chk m Hsplit Hfree Hn Hcfg Hpc Hcur Hcanc Hl Hb Hnext) as A.
  cbv zeta in A. change (M.store s1) with (M.store s0) in A. rewrite Hst in A. cbn [is_some] in A.
  change (M.issued s1) with (M.issued s0) in A. change (M.failed s1) with (M.failed s0) in A.
  change (M.next s1) with (M.next s0) in A. change (M.cache s1) with (M.cache s0) in A.
  rewrite <- E1 in A. fold es in A. fold new in A.
  destruct A as (si' & HR & C1 & (Hb' & (C2a & C2b) & _) & (C3a & C3b & _) & (_ & (Hj & Hca & Hj' & Hca' & Hst' & _) & th' & Hn' & Hpc' & _) & C5).
  exists si'. split; [exact HR|]. split; [exact C1|]. split; [auto|]. split; [auto|]. split; [eauto|].
  cbv zeta. rewrite app_nil_r in Hj'. auto.
Qed.

(** a due certificate stored: [Manage n true] caches it and enqueues a renewal job; the job ~
    [PRenew true] (MaintainIssuance4.v) *)
Theorem manage_async_renew_agree od idue (s0 : M.state) n mc (si : I.state) t th lk pk idn reuse chk kk ic vm m :
  od n = false -> M.managed_for n (M.cache s0) = false -> no_job_for n (M.jobs s0) = true ->
  M.stored (M.store s0) n = Some mc -> M.cdue mc = true ->
  nth_error (I.thr si) t = Some th ->
  I.cfg th = rcfg lk pk n idn reuse chk idue ->
  I.tpc th = I.after_pre (I.cfg th) -> I.cur th = I.OpRenew -> I.canc th = false ->
  I.lks (I.sh si) lk = None ->
  I.sto (I.sh si) (I.SK n I.KKey) = Some (I.VKey kk) ->
  I.sto (I.sh si) (I.SK n I.KCrt) = Some (I.VCrt ic) ->
  I.sto (I.sh si) (I.SK n I.KMeta) = Some vm ->
  cert_rel mc ic -> M.next s0 = I.ncid (I.sh si) ->
  let new := M.Cert (M.next s0) n [] idue true in
  let s1 := M.step od idue s0 (M.Manage n true) in
  let sm := M.run od idue s0 (M.Manage n true :: mh_renew n 0 true m) in
  let es := ev_renew t lk n idn chk true m in
  (* the asynchronous call itself: caches the stored certificate (as the synchronous one), enqueues *)
  (M.jobs s1 = M.jobs s0 ++ [M.Job n M.JRenew (Some mc) M.Queued] /\ M.store s1 = M.store s0 /\
   M.cache s1 = M.cache_add mc (M.cache s0) /\ M.issued s1 = M.issued s0 /\ M.failed s1 = M.failed s0 /\ M.lasterr s1 = false) /\
  exists si',
    I.run si (labels_of t (lbl_renew chk true m)) = Some (si', es) /\
    (M.issued sm = repeat n (count_iss idn 0 es) ++ M.issued s0 /\
     M.failed sm = repeat n (count_iss idn 2 es) ++ M.failed s0 /\
     count_iss idn 0 es = 1 /\ count_iss idn 2 es = m) /\
    (bundle_rel (M.store sm) (I.sto (I.sh si')) n /\ M.stored (M.store sm) n = Some new /\
     exists key, I.sto (I.sh si') (I.SK n I.KCrt) = Some (I.VCrt (I.Cert (I.ncid (I.sh si)) key idue))) /\
    (M.lock_held (M.jobs sm) n = false /\ I.lks (I.sh si') lk = None) /\
    (exists th', nth_error (I.thr si') t = Some th' /\ I.tpc th' = I.PDone I.ROk) /\
    (* the job is at [Reload] with the cached OLD certificate as [oldCert]: its last step is
       reloadManagedCertificate -- what the synchronous manage does at once *)
    M.jobs sm = M.jobs s0 ++ [M.Job n M.JRenew (Some mc) M.Reload] /\ M.cache sm = M.cache_add mc (M.cache s0) /\
    M.next sm = I.ncid (I.sh si').
Proof.
  intros Hod Hmf NJ Hst Hd Hn Hcfg Hpc Hcur Hcanc Hl Hk Hc Hm Hrel Hnext new s1 sm es.
  pose proof (mm_async_due od idue n s0 mc Hod Hmf Hst Hd NJ) as H1.
  assert (E1 : sm = M.run od idue s1 (mh_renew n 0 true m)) by reflexivity.
  subst s1. rewrite H1 in *. split; [cbn; repeat split|].
  set (s1 := M.State _ _ _ _ _ _ _ _ _) in *.
  assert (Hsplit : M.split_job n 0 (M.jobs s1) = Some (M.jobs s0, M.Job n M.JRenew (Some mc) M.Queued, []))
    by (apply split_job_snoc; [exact NJ|reflexivity]).
  assert (Hfree : M.lock_held (M.jobs s1) n = false) by (apply snoc_free; auto).
  assert (Hst1 : M.stored (M.store s1) n = Some mc) by exact Hst.
  pose proof (renew_job_agree od idue s1 n 0 (Some mc) (M.jobs s0) [] mc si t th lk pk idn reuse chk kk ic vm m
                Hsplit Hfree Hst1 Hn Hcfg Hpc Hcur Hcanc Hl Hk Hc Hm Hrel Hnext) as A.
  cbv zeta in A. rewrite Hd in A.
  change (M.issued s1) with (M.issued s0) in A. change (M.failed s1) with (M.failed s0) in A.
  change (M.next s1) with (M.next s0) in A. change (M.cache s1) with (M.cache_add mc (M.cache s0)) in A.
  rewrite <- E1 in A. fold es in A. fold new in A.
  destruct A as (si' & HR & C1 & (Hb' & (C2a & C2b) & _) & (C3a & C3b & _) & (Hj & Hca & _ & th' & Hn' & Hpc' & _) & C5).
  exists si'. split; [exact HR|]. split; [exact C1|]. split; [auto|]. split; [auto|]. split; [eauto|]. auto.
Qed.

(** * Satisfiability of the remaining hypotheses *)
(** [WF] of the states used in [manage_sync_agree_nontrivial] *)
Example manage_sync_wf_nontrivial : forall fl, WF (fun _ => false) (exm_m fl).
Proof. intros fl. apply (wf_b_sound (fun _ => false) 8). vm_compute. reflexivity. Qed.

(** asynchronous manage: a state without a job for name 4 (another name's job is running); the
    history [Manage 4 true], the renewal job with one failed attempt, its reload: the cache ends
    where the synchronous manage ends *)
Example manage_async_nontrivial :
  no_job_for 4 (M.jobs (exm_m [])) = true /\
  let sm := M.run (fun _ => false) false (exm_m []) (M.Manage 4 true :: mh_renew 4 0 true 1 ++ [M.JobStep 4 0]) in
  M.cache sm = M.cache (M.step (fun _ => false) false (exm_m []) (M.Manage 4 false)) /\
  M.store sm = M.store (M.step (fun _ => false) false (exm_m []) (M.Manage 4 false)) /\
  M.failed sm = [4] /\ M.jobs sm = M.jobs (exm_m []).
Proof. vm_compute. repeat split. Qed.

(** the re-check: first half on [exo_i]; then the three files of name 4 appear (another writer);
    second half *)
Definition exo_i2 (s1 : I.state) : I.state :=
  I.State (I.thr s1)
          (I.Shared (I.sput (I.sput (I.sput (I.sto (I.sh s1)) (I.SK 4 I.KKey) (Some (I.VKey 30))) (I.SK 4 I.KCrt) (Some (I.VCrt (I.Cert 10 30 false))))
                            (I.SK 4 I.KMeta) (Some (I.VMeta 10)))
                    (I.lks (I.sh s1)) 11 (I.nkid (I.sh s1))).
Example obtain_job_recheck_nontrivial :
  exists s1 es1 s3 es3,
    I.run exo_i (labels_of 1 (lbl_oA true)) = Some (s1, es1) /\ I.lks (I.sh s1) 8 = Some 1 /\
    I.run (exo_i2 s1) (labels_of 1 lbl_orecheck) = Some (s3, es3) /\
    map I.tpc (I.thr s3) = [I.PMLd I.Ph0 I.KKey; I.PDone I.ROk] /\ I.lks (I.sh s3) 8 = None /\
    count_iss 4 0 (es1 ++ es3) = 0 /\
    M.stored (M.store (M.run (fun _ => false) false exo_m [M.JobStep 4 0; M.ExtRenew 4 [5]; M.JobStep 4 0])) 4 =
      Some (M.Cert 10 4 [5] false true) /\
    M.stored (M.store exo_m) 4 = None.
Proof.
  eexists. eexists. eexists. eexists. split; [vm_compute; reflexivity|]. split; [vm_compute; reflexivity|].
  split; [vm_compute; reflexivity|]. vm_compute. repeat split.
Qed.
