(** System / S12 (part 6) -- Maintain (C05) and Issuance (C01) on ONE background OBTAIN job: both sides.

    Both model [Config.obtainCert] (config.go:508) called with [interactive = false] from the job
    that [manageOne] submits when nothing is stored (config.go:412-443, [jm.Submit("", obtain)]):

      (M) [Maintain.Model.job_step], job kind [JObtain]:
            Queued  -- precheck: [stored n = Some st] => CacheManagedCertificate, job ends;
                       else take the lock -->
            Locked  -- ONE STEP per attempt: recheck: stored => unlock ("already exists");
                       Issue: error => stay; ok => save, unlock -->
            Reload  -- CacheManagedCertificate --> gone;
      (I) [Issuance.Model], program [PObtain true]:  Exists crt,key,meta (short-circuit)
            [all there => return nil]  [checkStorage x3]  Lock  LockAcquired
            ( Exists crt.. [all there => Unlock]  cert_obtaining  [Load key]  IssueStart
              ( error: cert_failed, retry | IssueEnd  Store key,crt,meta  cert_obtained  Unlock ) )*.

    TRANSLATION: as in MaintainIssuance3.v, plus
      name n (Maintain)  ~  BOTH storage classes: [c_pk = c_vk = n] (the pre-check / key-reuse name
                            Safe(name) and the save name Safe(idna.ToASCII(name)) coincide: ASCII names);
      [stored (store s) n = None]  ~  none of the three files of class n exists (see
                            MaintainIssuance7.v for INCOMPLETE bundles);
      the [Reload] step of the job (CacheManagedCertificate after ObtainCertAsync) is outside
      [obtainCert], hence outside [PObtain]: Maintain only.

    This file reuses [trun], [trun_run], [N], [E], [lbl_A], [ev_A], [sto_A], [lks1], [lks_renew],
    [split_job_replace], [lock_held_mid], [not_failing_after_reset] of MaintainIssuance3.v. *)
From Coq Require Import List Bool Arith Lia.
From CM Require Issuance.Model Maintain.Model.
From CM Require Import Issuance.Base Maintain.Base System.MaintainIssuance3.
Import ListNotations.
Open Scope nat_scope.

#[local] Arguments I.sput : simpl never.
#[local] Arguments I.lput : simpl never.

(** one label: compute the (single, concrete-pc) thread step, using [tac] for the look-ups *)
Ltac one6 tac :=
  eapply trun_cons;
  [unfold I.tstep, I.norm_pc, I.mark; cbn; rewrite ?orb_false_r, ?orb_true_r; tac; cbn;
   rewrite ?orb_false_r, ?orb_true_r; reflexivity|].
Ltac go6 tac := unfold N; repeat (one6 tac); reflexivity.

(** * 1. The Issuance side: an asynchronous obtain request, segment by segment *)
Section ObtainIssuance.
  Variables (t lk n idn : nat) (reuse chk issdue : bool).

  Definition ocfg : I.tcfg := I.TCfg (I.PObtain true) lk n n idn reuse chk false issdue.
  Definition OT (p : I.pc) (lkey : option nat) (lcrt : option I.cert) (nk : nat) (nc sn : option I.cert)
             (rc fl : bool) : I.thread :=
    I.Thread ocfg p I.OpObtain false fl lkey lcrt nk nc sn rc.

  Definition X (j : I.kind) (o : nat) : I.ev := E t (I.OExists (I.SK n j)) o.

  (** ** the bundle is there: the pre-check answers, the request returns nil *)
  Definition lbl_opre : list (I.fault * bool) := [N; N; N].
  Definition ev_exists : list I.ev := [X I.KCrt 0; X I.KKey 0; X I.KMeta 0].

  Lemma oseg_present sto lks ncid nkid lkey lcrt nk nc sn rc fl vc vk vm :
    sto (I.SK n I.KCrt) = Some vc -> sto (I.SK n I.KKey) = Some vk -> sto (I.SK n I.KMeta) = Some vm ->
    trun t (OT (I.PPre I.KCrt) lkey lcrt nk nc sn rc fl) (I.Shared sto lks ncid nkid) lbl_opre =
    Some (OT (I.PDone I.ROk) lkey lcrt nk nc sn rc fl, I.Shared sto lks ncid nkid, ev_exists).
  Proof.
    intros Hc Hk Hm. unfold lbl_opre, ev_exists, X, E, OT, ocfg.
    go6 ltac:(rewrite ?Hc, ?Hk, ?Hm).
  Qed.

  (** ** nothing is there: pre-check (one Exists: short-circuit), [checkStorage], Lock, LockAcquired *)
  Definition lbl_oA : list (I.fault * bool) := N :: lbl_A chk.
  Definition ev_oA : list I.ev := X I.KCrt 1 :: ev_A t lk chk.

  Lemma oseg_A sto lks ncid nkid lkey lcrt nk nc sn rc fl :
    lks lk = None -> sto (I.SK n I.KCrt) = None ->
    trun t (OT (I.PPre I.KCrt) lkey lcrt nk nc sn rc fl) (I.Shared sto lks ncid nkid) lbl_oA =
    Some (OT (I.PRe I.KCrt) lkey lcrt nk nc sn true fl,
          I.Shared (sto_A t chk sto) (I.lput lks lk (Some t)) ncid nkid, ev_oA).
  Proof.
    intros Hl Hc. unfold lbl_oA, ev_oA, lbl_A, ev_A, sto_A, X, E, OT, ocfg. destruct chk; cbn [app].
    - go6 ltac:(rewrite ?Hc, ?sput_eq, ?Hl).
    - go6 ltac:(rewrite ?Hc, ?Hl).
  Qed.

  Definition at_oattempt (p : I.pc) : Prop := p = I.PRe I.KCrt \/ p = I.PWait.

  (** ** the re-check under the lock finds the bundle ("certificate already exists in storage") *)
  Definition lbl_orecheck : list (I.fault * bool) := [(I.FNone, true); N; N; N].
  Definition ev_orecheck : list I.ev := ev_exists ++ [E t (I.OUnlock lk) 0].

  Lemma oseg_recheck sto lks ncid nkid p lkey lcrt nk nc sn fl vc vk vm :
    at_oattempt p -> lks lk = Some t ->
    sto (I.SK n I.KCrt) = Some vc -> sto (I.SK n I.KKey) = Some vk -> sto (I.SK n I.KMeta) = Some vm ->
    trun t (OT p lkey lcrt nk nc sn true fl) (I.Shared sto lks ncid nkid) lbl_orecheck =
    Some (OT (I.PDone I.ROk) lkey lcrt nk nc sn false fl,
          I.Shared sto (I.lput lks lk None) ncid nkid, ev_orecheck).
  Proof.
    intros Hp Hl Hc Hk Hm. unfold lbl_orecheck, ev_orecheck, ev_exists, X, E, OT, ocfg.
    destruct Hp as [-> | ->].
    all: go6 ltac:(rewrite ?Hc, ?Hk, ?Hm, ?Hl, ?Nat.eqb_refl).
  Qed.

  (** ** an INCOMPLETE bundle (any of the three files missing) is "absent" for the pre-check:
      [storageHasCertResources] (config.go:1229) is a short-circuit conjunction of three Exists;
      the request goes on to [checkStorage] / the lock exactly as when nothing is stored *)
  Lemma oseg_pre_incomplete sto lks ncid nkid lkey lcrt nk nc sn rc fl :
    sto (I.SK n I.KCrt) = None \/ sto (I.SK n I.KKey) = None \/ sto (I.SK n I.KMeta) = None ->
    exists fbs es,
      trun t (OT (I.PPre I.KCrt) lkey lcrt nk nc sn rc fl) (I.Shared sto lks ncid nkid) fbs =
      Some (OT (I.after_pre ocfg) lkey lcrt nk nc sn rc fl, I.Shared sto lks ncid nkid, es) /\
      1 <= length es <= 3 /\ (forall e, In e es -> exists j o, e = X j o).
  Proof.
    intros H. unfold X, E, OT.
    destruct (sto (I.SK n I.KCrt)) as [vc|] eqn:Hc.
    2:{ exists [N], [X I.KCrt 1]. split; [|split; [cbn; lia|]].
        - unfold X, E, OT. go6 ltac:(rewrite ?Hc).
        - intros e [<-|[]]. do 2 eexists; reflexivity. }
    destruct (sto (I.SK n I.KKey)) as [vk|] eqn:Hk.
    2:{ exists [N; N], [X I.KCrt 0; X I.KKey 1]. split; [|split; [cbn; lia|]].
        - unfold X, E, OT. go6 ltac:(rewrite ?Hc, ?Hk).
        - intros e [<-|[<-|[]]]; do 2 eexists; reflexivity. }
    destruct (sto (I.SK n I.KMeta)) as [vm|] eqn:Hm.
    2:{ exists [N; N; N], [X I.KCrt 0; X I.KKey 0; X I.KMeta 1]. split; [|split; [cbn; lia|]].
        - unfold X, E, OT. go6 ltac:(rewrite ?Hc, ?Hk, ?Hm).
        - intros e [<-|[<-|[<-|[]]]]; do 2 eexists; reflexivity. }
    destruct H as [H|[H|H]]; discriminate.
  Qed.

  Section Attempt.
    Variables (sto : I.skey -> option I.value) (lks : nat -> option nat).
    Hypothesis Hc : sto (I.SK n I.KCrt) = None.
    Hypothesis Hk : sto (I.SK n I.KKey) = None.

    Definition ev_reuse : list I.ev := if reuse then [E t (I.OLoad (I.SK n I.KKey)) 1] else [].
    Definition lbl_reuse : list (I.fault * bool) := if reuse then [N] else [].

    (** one FAILING attempt: Exists crt (no), cert_obtaining, [Load key (no): generate one],
        Issuer.Issue returns an error, cert_failed; back in doWithRetry.  Storage / lock /
        certificate counter untouched; a key was generated *)
    Definition lbl_ofail : list (I.fault * bool) := [(I.FNone, true); N] ++ lbl_reuse ++ [(I.FErr, false); N].
    Definition ev_ofail : list I.ev :=
      [X I.KCrt 1; E t (I.OEmit 0) 0] ++ ev_reuse ++ [E t (I.OIssS idn) 2; E t (I.OEmit 2) 0].

    Lemma oseg_fail p lkey lcrt nk nc sn fl ncid nkid :
      at_oattempt p ->
      trun t (OT p lkey lcrt nk nc sn true fl) (I.Shared sto (lks1 t lk lks) ncid nkid) lbl_ofail =
      Some (OT I.PWait lkey lcrt nkid nc sn true true,
            I.Shared sto (lks1 t lk lks) ncid (S nkid), ev_ofail).
    Proof.
      intros Hp. unfold lbl_ofail, ev_ofail, lbl_reuse, ev_reuse, X, E, OT, ocfg, lks1.
      destruct Hp as [-> | ->].
      all: destruct reuse; cbn [app]; go6 ltac:(rewrite ?Hc, ?Hk).
    Qed.

    (** the SUCCESSFUL attempt *)
    Definition lbl_ook : list (I.fault * bool) := [(I.FNone, true); N] ++ lbl_reuse ++ [N; N; N; N; N; N; N].
    Definition ev_ook : list I.ev :=
      [X I.KCrt 1; E t (I.OEmit 0) 0] ++ ev_reuse ++
      [E t (I.OIssS idn) 0; E t (I.OIssE idn) 0;
       E t (I.OStore (I.SK n I.KKey)) 0; E t (I.OStore (I.SK n I.KCrt)) 0; E t (I.OStore (I.SK n I.KMeta)) 0;
       E t (I.OEmit 1) 0; E t (I.OUnlock lk) 0].
    Definition onew (ncid nkid : nat) : I.cert := I.Cert ncid nkid issdue.
    Definition sto_ook (ncid nkid : nat) : I.skey -> option I.value :=
      I.sput (I.sput (I.sput sto (I.SK n I.KKey) (Some (I.VKey nkid)))
                     (I.SK n I.KCrt) (Some (I.VCrt (onew ncid nkid))))
             (I.SK n I.KMeta) (Some (I.VMeta ncid)).

    Lemma oseg_ok p lkey lcrt nk nc sn fl ncid nkid :
      at_oattempt p ->
      trun t (OT p lkey lcrt nk nc sn true fl) (I.Shared sto (lks1 t lk lks) ncid nkid) lbl_ook =
      Some (OT (I.PDone I.ROk) lkey lcrt nkid (Some (onew ncid nkid)) sn false fl,
            I.Shared (sto_ook ncid nkid) (I.lput (lks1 t lk lks) lk None) (S ncid) (S nkid), ev_ook).
    Proof.
      intros Hp. unfold lbl_ook, ev_ook, lbl_reuse, ev_reuse, X, E, OT, ocfg, lks1, sto_ook, onew.
      destruct Hp as [-> | ->].
      all: destruct reuse; cbn [app]; go6 ltac:(rewrite ?Hc, ?Hk, ?lput_eq, ?Nat.eqb_refl).
    Qed.

    (** [m] failing attempts in a row (induction on [m]) *)
    Lemma oseg_fails m : forall p lkey lcrt nk nc sn fl ncid nkid,
      at_oattempt p ->
      exists p' nk' fl',
        at_oattempt p' /\
        trun t (OT p lkey lcrt nk nc sn true fl) (I.Shared sto (lks1 t lk lks) ncid nkid) (concat (repeat lbl_ofail m)) =
        Some (OT p' lkey lcrt nk' nc sn true fl',
              I.Shared sto (lks1 t lk lks) ncid (m + nkid), concat (repeat ev_ofail m)).
    Proof.
      induction m as [|m IH]; intros p lkey lcrt nk nc sn fl ncid nkid Hp.
      - exists p, nk, fl. split; [exact Hp|reflexivity].
      - cbn [repeat concat].
        destruct (IH I.PWait lkey lcrt nkid nc sn true ncid (S nkid)) as (p' & nk' & fl' & Hp' & Hrun);
          [right; reflexivity|].
        exists p', nk', fl'. split; [exact Hp'|].
        rewrite Nat.add_succ_r in Hrun.
        eapply trun_app; [apply oseg_fail; assumption|exact Hrun].
    Qed.
  End Attempt.

  (** the schedule of the whole request and the events it must produce *)
  Definition lbl_obtain (present : bool) (m : nat) : list (I.fault * bool) :=
    if present then lbl_opre else lbl_oA ++ concat (repeat lbl_ofail m) ++ lbl_ook.
  Definition ev_obtain (present : bool) (m : nat) : list I.ev :=
    if present then ev_exists else ev_oA ++ concat (repeat ev_ofail m) ++ ev_ook.

  (** THE ISSUANCE SIDE, thread level, nothing stored: from the request's entry, lock free, the
      schedule [lbl_obtain false m] runs to completion; the events are exactly [ev_obtain false m];
      the request returns nil; the final shared state is explicit. *)
  Lemma obtain_thread_run_absent sto lks ncid nkid m lkey lcrt nk nc sn rc fl :
    lks lk = None ->
    sto (I.SK n I.KCrt) = None -> sto (I.SK n I.KKey) = None ->
    exists th',
      trun t (OT (I.PPre I.KCrt) lkey lcrt nk nc sn rc fl) (I.Shared sto lks ncid nkid) (lbl_obtain false m) =
      Some (th', I.Shared (sto_ook (sto_A t chk sto) ncid (m + nkid)) (lks_renew t lk lks) (S ncid) (S (m + nkid)),
            ev_obtain false m) /\
      I.tpc th' = I.PDone I.ROk /\ I.cfg th' = ocfg /\ I.recd th' = false /\ I.seen th' = sn /\
      I.nc th' = Some (onew ncid (m + nkid)).
  Proof.
    intros Hl Hc Hk.
    pose proof (oseg_A sto lks ncid nkid lkey lcrt nk nc sn rc fl Hl Hc) as HA.
    assert (Hc' : sto_A t chk sto (I.SK n I.KCrt) = None) by (rewrite sto_A_SK; exact Hc).
    assert (Hk' : sto_A t chk sto (I.SK n I.KKey) = None) by (rewrite sto_A_SK; exact Hk).
    destruct (oseg_fails (sto_A t chk sto) lks Hc' Hk' m (I.PRe I.KCrt) lkey lcrt nk nc sn fl ncid nkid)
      as (p' & nk' & fl' & Hp' & Hrun); [left; reflexivity|].
    pose proof (oseg_ok (sto_A t chk sto) lks Hc' Hk' p' lkey lcrt nk' nc sn fl' ncid (m + nkid) Hp') as Hok.
    eexists. split.
    - unfold lbl_obtain, ev_obtain, lks_renew.
      eapply trun_app; [exact HA|]. eapply trun_app; [exact Hrun|exact Hok].
    - repeat split.
  Qed.
End ObtainIssuance.

(** * 2. The Maintain side: the same job, event by event *)
Section ObtainMaintain.
  Variables (od : M.name -> bool) (idue : bool).
  Variables (n k : nat) (old : option M.cert) (pre post : list M.job).

  Definition JO (p : M.jpc) : M.job := M.Job n M.JObtain old p.
  Definition mnew (s0 : M.state) : M.cert := M.Cert (M.next s0) n [] idue true.

  (** the Maintain state while the job is [Locked]: [i] failed attempts so far, issuer status [fl] *)
  Definition SO_locked (s0 : M.state) (fl : list M.name) (i : nat) : M.state :=
    M.State (M.store s0) (M.cache s0) (pre ++ JO M.Locked :: post) (M.passes s0) fl
            (M.issued s0) (repeat n i ++ M.failed s0) (M.next s0) false.
  (** after the successful attempt: new bundle stored, lock released ([Reload]) *)
  Definition SO_issued (s0 : M.state) (fl : list M.name) (i : nat) : M.state :=
    M.State ((n, mnew s0) :: M.store s0) (M.cache s0) (pre ++ JO M.Reload :: post)
            (M.passes s0) fl (n :: M.issued s0) (repeat n i ++ M.failed s0) (S (M.next s0)) false.
  (** ... and after the job's last step (CacheManagedCertificate) *)
  Definition SO_cached (s0 : M.state) (fl : list M.name) (i : nat) : M.state :=
    M.State ((n, mnew s0) :: M.store s0) (M.cache_add (mnew s0) (M.cache s0)) (pre ++ post)
            (M.passes s0) fl (n :: M.issued s0) (repeat n i ++ M.failed s0) (S (M.next s0)) false.
  (** the pre-check found the bundle: loaded into the cache at once, job gone *)
  Definition SO_loaded (s0 : M.state) (mc : M.cert) : M.state :=
    M.State (M.store s0) (M.cache_add mc (M.cache s0)) (pre ++ post) (M.passes s0) (M.failing s0)
            (M.issued s0) (M.failed s0) (M.next s0) false.
  (** another instance has stored a bundle (event [ExtRenew n rest]) while the job is at [p] *)
  Definition SO_ext (s0 : M.state) (p : M.jpc) (rest : list M.name) : M.state :=
    M.State ((n, M.Cert (M.next s0) n rest false true) :: M.store s0) (M.cache s0) (pre ++ JO p :: post)
            (M.passes s0) (M.failing s0) (M.issued s0) (M.failed s0) (S (M.next s0)) false.

  Variable s0 : M.state.
  Hypothesis Hsplit : M.split_job n k (M.jobs s0) = Some (pre, JO M.Queued, post).
  Hypothesis Hfree : M.lock_held (M.jobs s0) n = false.

  Lemma osplit_at (p : M.jpc) : M.split_job n k (pre ++ JO p :: post) = Some (pre, JO p, post).
  Proof. eapply split_job_replace; [exact Hsplit|reflexivity]. Qed.

  (** pre-check finds the bundle *)
  Lemma mo_present mc : M.stored (M.store s0) n = Some mc ->
    M.step od idue s0 (M.JobStep n k) = SO_loaded s0 mc.
  Proof.
    intros Hst. unfold M.step, M.job_step. cbn [M.jobs M.with_err]. rewrite Hsplit. cbn [M.jkd M.jpc_ JO].
    unfold M.with_err at 1. cbn [M.store]. rewrite Hst. reflexivity.
  Qed.

  Section Absent.
    Hypothesis Hst : M.stored (M.store s0) n = None.

    Lemma mo_take_lock : M.step od idue s0 (M.JobStep n k) = SO_locked s0 (M.failing s0) 0.
    Proof.
      unfold M.step, M.job_step. cbn [M.jobs M.with_err]. rewrite Hsplit. cbn [M.jkd M.jpc_ JO].
      unfold M.with_err at 1. cbn [M.store]. rewrite Hst, Hfree. reflexivity.
    Qed.

    Lemma mo_fail fl i :
      M.step od idue (SO_locked s0 (n :: fl) i) (M.JobStep n k) = SO_locked s0 (n :: fl) (S i).
    Proof.
      unfold M.step, M.job_step, SO_locked, M.with_err. cbn [M.jobs]. rewrite (osplit_at M.Locked).
      cbn -[M.stored M.is_failing M.issue]. rewrite Hst. unfold M.is_failing, M.with_failed.
      cbn [M.failing existsb M.store M.cache M.jobs M.passes M.issued M.failed M.next M.lasterr].
      rewrite Nat.eqb_refl. reflexivity.
    Qed.

    Lemma mo_fails fl i : forall j,
      M.run od idue (SO_locked s0 (n :: fl) j) (repeat (M.JobStep n k) i) = SO_locked s0 (n :: fl) (i + j).
    Proof.
      induction i as [|i IH]; intros j; [reflexivity|].
      cbn [repeat]. unfold M.run in *. cbn [fold_left]. rewrite (mo_fail fl j), IH. f_equal. lia.
    Qed.

    Lemma mo_set_issuer fl i b :
      M.step od idue (SO_locked s0 fl i) (M.SetIssuer n b) =
      SO_locked s0 (if b then n :: fl else filter (fun m => negb (m =? n)) fl) i.
    Proof. reflexivity. Qed.

    Lemma mo_ok fl i : existsb (Nat.eqb n) fl = false ->
      M.step od idue (SO_locked s0 fl i) (M.JobStep n k) = SO_issued s0 fl i.
    Proof.
      intros Hf. unfold M.step, M.job_step, SO_locked, M.with_err. cbn [M.jobs]. rewrite (osplit_at M.Locked).
      cbn -[M.stored M.is_failing M.issue]. rewrite Hst. unfold M.is_failing. cbn [M.failing]. rewrite Hf.
      reflexivity.
    Qed.

    Lemma mo_reload fl i :
      M.step od idue (SO_issued s0 fl i) (M.JobStep n k) = SO_cached s0 fl i.
    Proof.
      unfold M.step, M.job_step, SO_issued, M.with_err. cbn [M.jobs]. rewrite (osplit_at M.Reload).
      cbn -[M.stored M.cache_add]. rewrite stored_cons_eq. reflexivity.
    Qed.

    (** another instance stores a bundle while the job waits in [Locked] (it cannot: it would need
        the lock -- but an instance with a different lock spelling or a crashed lock can); the
        re-check finds it *)
    Lemma mo_ext_then_found rest :
      M.run od idue (SO_locked s0 (M.failing s0) 0) [M.ExtRenew n rest; M.JobStep n k] = SO_ext s0 M.Reload rest.
    Proof.
      unfold M.run. cbn [fold_left].
      replace (M.step od idue (SO_locked s0 (M.failing s0) 0) (M.ExtRenew n rest)) with (SO_ext s0 M.Locked rest) by reflexivity.
      unfold M.step, M.job_step, SO_ext, M.with_err. cbn [M.jobs]. rewrite (osplit_at M.Locked).
      cbn -[M.stored M.is_failing M.issue]. rewrite stored_cons_eq. reflexivity.
    Qed.
  End Absent.

  (** Maintain's history of the job.  Bundle present: one step.  Absent: lock; the issuer fails
      for the name during [m] attempts; it recovers; the successful attempt. *)
  Definition mh_obtain (present : bool) (m : nat) : list M.event :=
    M.JobStep n k ::
    (if present then []
     else M.SetIssuer n true :: repeat (M.JobStep n k) m ++ [M.SetIssuer n false; M.JobStep n k]).

  Lemma m_obtain_run_absent m : M.stored (M.store s0) n = None ->
    M.run od idue s0 (mh_obtain false m) = SO_issued s0 (fl_end n s0) m.
  Proof.
    intros Hst. unfold mh_obtain, M.run. cbn [fold_left]. rewrite (mo_take_lock Hst).
    rewrite (mo_set_issuer (M.failing s0) 0 true). rewrite fold_left_app.
    pose proof (mo_fails Hst (M.failing s0) m 0) as F. unfold M.run in F. rewrite F. rewrite Nat.add_0_r.
    cbn [fold_left]. rewrite (mo_set_issuer (n :: M.failing s0) m false).
    apply mo_ok; [exact Hst|apply not_failing_after_reset].
  Qed.

  Lemma m_obtain_run_present mc : M.stored (M.store s0) n = Some mc ->
    M.run od idue s0 (mh_obtain true 0) = SO_loaded s0 mc.
  Proof. intros Hst. unfold mh_obtain, M.run. cbn [fold_left]. apply mo_present. exact Hst. Qed.

  (** the lock as Maintain sees it *)
  Lemma opre_post_free : M.lock_held pre n = false /\ M.lock_held post n = false.
  Proof.
    destruct (split_job_spec _ _ _ _ _ _ Hsplit) as [Ej _]. rewrite Ej, lock_held_mid in Hfree.
    apply orb_false_iff in Hfree. destruct Hfree as [H1 H2]. apply orb_false_iff in H1. tauto.
  Qed.
  Lemma mo_locked_holds fl i : M.lock_held (M.jobs (SO_locked s0 fl i)) n = true.
  Proof. cbn [M.jobs SO_locked]. rewrite lock_held_mid. cbn. rewrite Nat.eqb_refl. cbn. rewrite orb_true_r. reflexivity. Qed.
  Lemma mo_lock_profile i : M.stored (M.store s0) n = None ->
    M.lock_held (M.jobs (M.run od idue s0 (M.JobStep n k :: M.SetIssuer n true :: repeat (M.JobStep n k) i))) n = true.
  Proof.
    intros Hst. unfold M.run. cbn [fold_left]. rewrite (mo_take_lock Hst), (mo_set_issuer (M.failing s0) 0 true).
    pose proof (mo_fails Hst (M.failing s0) i 0) as F. unfold M.run in F. rewrite F. apply mo_locked_holds.
  Qed.
  Lemma mo_end_free fl i mc rest :
    M.lock_held (M.jobs (SO_issued s0 fl i)) n = false /\ M.lock_held (M.jobs (SO_loaded s0 mc)) n = false /\
    M.lock_held (M.jobs (SO_ext s0 M.Reload rest)) n = false /\ M.lock_held (M.jobs (SO_cached s0 fl i)) n = false.
  Proof.
    destruct opre_post_free as [H1 H2]. cbn [M.jobs SO_issued SO_loaded SO_ext SO_cached].
    rewrite !lock_held_mid. unfold M.lock_held in *. rewrite existsb_app, H1, H2. cbn.
    rewrite andb_false_r. auto.
  Qed.
End ObtainMaintain.
