(** System / CrashRecoverBundle — the lock discipline of the Bundle model (C06/C07) under EVERY
    fault plan, read off the model's own log.

    Bundle/Faults.v describes what obtain / renew / manage do to the certificate files under a plan
    ([eff7]); it says nothing about the lock ([keeps] ignores [k_locked]).  This file supplies the
    missing half: the shape of the log segment one operation appends, with the lock calls in it.

      new (newest first) =  post ++ mid ++ pre
        pre, post : no lock call (and, at the [quiet_ev] level, no write to a certificate file)
        mid       : []                                          no lock call at all
                  | [Lock -> EInjected]                          the Lock call was failed by the plan
                  | body ++ [Lock ok]            (only if Dead)  died at the Lock call or inside the body
                  | Unlock ok        :: body ++ [Lock ok]        the bracket
                  | Unlock EInjected :: body ++ [Lock ok]        the deferred Unlock was failed by the plan
        body      : no lock call
    together with the value of [k_locked] afterwards (true exactly in the 3rd and 5th case).

    Everything here is about Bundle.Model's definitions; nothing is re-defined. *)
From Coq Require Import List NArith ZArith Bool Lia.
From CM Require Import Bundle.Model Bundle.Proofs Bundle.Faults.
Import ListNotations.
Open Scope N_scope.

(** * vocabulary on log events *)
Definition is_lockop (e : logev) : bool :=
  match e with LOp OLock _ _ | LOp OUnlock _ _ => true | _ => false end.
(** a Store / Delete on a certificate file or a site directory *)
Definition writes_file (e : logev) : bool :=
  match e with
  | LOp OStore (TFile _) _ | LOp ODelete (TFile _) _ | LOp ODelete (TDir _ _) _ => true
  | _ => false
  end.
Definition nolock_ev (e : logev) : bool := negb (is_lockop e).
Definition quiet_ev (e : logev) : bool := negb (is_lockop e) && negb (writes_file e).
Lemma quiet_nolock e : quiet_ev e = true -> nolock_ev e = true.
Proof. unfold quiet_ev. intros H. apply andb_true_iff in H. apply H. Qed.

Definition ev_lock_ok : logev := LOp OLock TLock None.
Definition ev_lock_failed : logev := LOp OLock TLock (Some EInjected).
Definition ev_unlock (e : option err) : logev := LOp OUnlock TLock e.

Definition is_dead {A} (r : res A) : bool := match r with Dead => true | _ => false end.
Definition w_locked (w : world) : bool := k_locked (w_core w).

(** * programs that do not touch the lock: the log grows by events satisfying [P], [k_locked] stays *)
Definition seg {A} (P : logev -> bool) (m : M A) : Prop :=
  forall w, exists new, w_log (snd (m w)) = new ++ w_log w /\ forallb P new = true /\
                        w_locked (snd (m w)) = w_locked w.

Lemma seg_weaken {A} (P Q : logev -> bool) (m : M A) :
  (forall e, P e = true -> Q e = true) -> seg P m -> seg Q m.
Proof.
  intros HPQ Hm w. destruct (Hm w) as (new & E & HF & HL). exists new. split; [exact E|]. split; [|exact HL].
  rewrite forallb_forall in *. auto.
Qed.
Lemma seg_ret {A} P (a : A) : seg P (ret a).
Proof. intros w. exists []. cbn. auto. Qed.
Lemma seg_fail {A} P e : seg P (@fail A e).
Proof. intros w. exists []. cbn. auto. Qed.
Lemma seg_bind {A B} P (m : M A) (f : A -> M B) : seg P m -> (forall a, seg P (f a)) -> seg P (bind m f).
Proof.
  intros Hm Hf w. unfold bind. destruct (Hm w) as (n1 & E1 & F1 & L1).
  destruct (m w) as [[a|e|] w1]; cbn [fst snd] in *; try solve [exists n1; auto].
  destruct (Hf a w1) as (n2 & E2 & F2 & L2). exists (n2 ++ n1).
  rewrite E2, E1, app_assoc. split; [reflexivity|]. split; [|congruence].
  rewrite forallb_app, F1, F2. reflexivity.
Qed.
Lemma seg_catch {A} P (m : M A) : seg P m -> seg P (catch m).
Proof.
  intros Hm w. unfold catch. destruct (Hm w) as (n1 & E1 & F1 & L1).
  destruct (m w) as [[a|e|] w1]; cbn [fst snd] in *; exists n1; auto.
Qed.
Lemma seg_prim {A} pl P k t (onf : res A) eff :
  (forall e, P (LOp k t e) = true) -> (forall c, k_locked (snd (eff c)) = k_locked c) ->
  seg P (prim pl k t onf eff).
Proof.
  intros HP HE w. unfold prim, w_locked. specialize (HE (w_core w)).
  destruct (p_fail pl (w_cnt w)).
  - destruct (crash_at pl (w_cnt w)); cbn [fst snd w_log w_core]; eexists [_]; cbn [app forallb];
      rewrite HP; auto.
  - destruct (eff (w_core w)) as [r c2]. cbn [snd] in HE.
    destruct (crash_at pl (w_cnt w)); cbn [fst snd w_log w_core]; eexists [_]; cbn [app forallb];
      rewrite HP; auto.
Qed.
Lemma seg_local {A} P (f : core -> res A * core * logev) :
  (forall c, P (snd (f c)) = true) -> (forall c, k_locked (snd (fst (f c))) = k_locked c) -> seg P (local f).
Proof.
  intros HP HE w. unfold local, w_locked. specialize (HP (w_core w)). specialize (HE (w_core w)).
  destruct (f (w_core w)) as [[r c] e]. cbn [fst snd w_log w_core] in *. exists [e]. cbn [app forallb].
  rewrite HP. auto.
Qed.

(** ** the read-only programs are quiet *)
Lemma seg_load pl k : seg quiet_ev (load pl k).
Proof. apply seg_prim; [reflexivity|]. intros c. destruct (sget (k_st c) k); reflexivity. Qed.
Lemma seg_exists pl k : seg quiet_ev (exists_ pl k).
Proof. apply seg_prim; reflexivity. Qed.
Lemma seg_load_ocsp pl s : seg quiet_ev (load_ocsp pl s).
Proof. apply seg_prim; [reflexivity|]. intros c. destruct (assoc_ser (k_ocsp c) s); reflexivity. Qed.
Lemma seg_check_storage pl : seg quiet_ev (check_storage pl).
Proof.
  unfold check_storage. apply seg_bind; [apply seg_prim; reflexivity|]. intros _.
  apply seg_bind; [apply seg_catch, seg_prim; reflexivity|]. intros x.
  apply seg_bind; [apply seg_catch, seg_prim; reflexivity|]. intros _.
  destruct x; [apply seg_ret | apply seg_fail].
Qed.
Lemma seg_has_res pl i d : seg quiet_ev (has_res pl i d).
Proof.
  unfold has_res. apply seg_bind; [apply seg_exists|]. intros c.
  destruct (negb c); [apply seg_ret|]. apply seg_bind; [apply seg_exists|]. intros k.
  destruct (negb k); [apply seg_ret | apply seg_exists].
Qed.
Lemma seg_has_any pl is d : seg quiet_ev (has_any pl is d).
Proof.
  induction is as [|i r IH]; cbn; [apply seg_ret|].
  apply seg_bind; [apply seg_has_res|]. intros b. destruct b; [apply seg_ret | exact IH].
Qed.
Lemma seg_load_res pl i d : seg quiet_ev (load_res pl i d).
Proof.
  unfold load_res. apply seg_bind; [apply seg_load|]. intros kv.
  apply seg_bind; [apply seg_load|]. intros cv. apply seg_bind; [apply seg_load|]. intros mv.
  destruct kv, cv, mv; first [apply seg_ret | apply seg_fail].
Qed.
Lemma seg_load_all pl is d : seg quiet_ev (load_all pl is d).
Proof.
  induction is as [|i r IH]; cbn; [apply seg_ret|].
  apply seg_bind; [apply seg_catch, seg_load_res|]. intros [b|e].
  - apply seg_bind; [exact IH|]. intros bs. apply seg_ret.
  - destruct e; first [exact IH | apply seg_fail].
Qed.
Lemma seg_load_any pl cfg d : seg quiet_ev (load_any pl cfg d).
Proof.
  unfold load_any. apply seg_bind; [apply seg_load_all|]. intros bs.
  destruct (newest bs); [apply seg_ret | apply seg_fail].
Qed.
Lemma seg_load_managed pl cfg d : seg quiet_ev (load_managed pl cfg d).
Proof.
  unfold load_managed. apply seg_bind; [apply seg_load_any|]. intros [[[i k] x] m].
  destruct (negb (N.eqb (c_pub x) k)); [apply seg_fail|].
  apply seg_bind; [apply seg_catch, seg_load_ocsp|]. intros o. apply seg_ret.
Qed.
Lemma seg_reuse_key pl is d : seg quiet_ev (reuse_key pl is d).
Proof.
  induction is as [|i r IH]; cbn; [apply seg_ret|].
  apply seg_bind; [apply seg_catch, seg_load|]. intros [[k|x|m]|e]; try apply seg_ret; try apply seg_fail.
  destruct e; first [exact IH | apply seg_fail].
Qed.

(** ** the writing programs make no lock call *)
Lemma seg_store pl k v : seg nolock_ev (store pl k v).
Proof. apply seg_prim; reflexivity. Qed.
Lemma seg_delete pl k : seg nolock_ev (delete pl k).
Proof. apply seg_prim; reflexivity. Qed.
Lemma seg_gen_key : seg nolock_ev gen_key.
Proof. apply seg_local; reflexivity. Qed.
Lemma seg_issue orc i k id : seg nolock_ev (issue orc i k id).
Proof.
  apply seg_local; intros c; destruct (nth i (o_out orc) None) as [[nb v]|]; reflexivity.
Qed.
Lemma seg_try_issuers orc is k id : seg nolock_ev (try_issuers orc is k id).
Proof.
  induction is as [|i r IH]; cbn; [apply seg_fail|].
  apply seg_bind; [apply seg_catch, seg_issue|]. intros [c|e]; [apply seg_ret | exact IH].
Qed.
Lemma seg_save pl i d k x m : seg nolock_ev (save pl i d k x m).
Proof.
  unfold save. apply seg_bind; [apply seg_catch, seg_store|]. intros [_|e]; [|apply seg_fail].
  apply seg_bind; [apply seg_catch, seg_store|]. intros [_|e].
  - apply seg_bind; [apply seg_catch, seg_store|]. intros [_|e]; [apply seg_ret|].
    apply seg_bind; [apply seg_catch, seg_delete|]. intros _.
    apply seg_bind; [apply seg_catch, seg_delete|]. intros _. apply seg_fail.
  - apply seg_bind; [apply seg_catch, seg_delete|]. intros _. apply seg_fail.
Qed.
Lemma seg_move_compromised pl i d : seg nolock_ev (move_compromised pl i d).
Proof.
  unfold move_compromised. apply seg_bind; [eapply seg_weaken; [apply quiet_nolock | apply seg_load]|]. intros v.
  apply seg_bind; [apply seg_catch, seg_store|]. intros [_|e]; [apply seg_delete|].
  apply seg_bind; [apply seg_catch, seg_delete|]. intros _. apply seg_fail.
Qed.
Local Ltac q2n := eapply seg_weaken; [apply quiet_nolock|].
Lemma seg_obtain_body pl cfg sp orc : seg nolock_ev (obtain_body pl cfg sp orc).
Proof.
  unfold obtain_body. apply seg_bind; [q2n; apply seg_has_any|]. intros re.
  destruct re; [apply seg_ret|].
  apply seg_bind; [destruct (reuse cfg); [q2n; apply seg_reuse_key | apply seg_ret]|]. intros kr.
  apply seg_bind; [destruct kr as [[i k]|]; [apply seg_ret | apply seg_gen_key]|]. intros k.
  apply seg_bind; [apply seg_try_issuers|]. intros ic. apply seg_save.
Qed.
Lemma seg_renew_body pl cfg sp orc f : seg nolock_ev (renew_body pl cfg sp orc f).
Proof.
  unfold renew_body. apply seg_bind; [q2n; apply seg_load_any|]. intros [[[j k0] c0] m0].
  destruct (negb (is_due c0) && negb f); [apply seg_ret|].
  apply seg_bind; [destruct (reuse cfg); [apply seg_ret | apply seg_gen_key]|]. intros k.
  apply seg_bind; [apply seg_try_issuers|]. intros ic. apply seg_save.
Qed.

(** * the shape of one lock bracket *)
Section Shape.
  Variable pl : plan.

  (** [wl mid dead locked]: the middle part of the segment, whether the run died, the lock bit after *)
  Inductive wl : list logev -> bool -> bool -> Prop :=
  | wl_none dead : wl [] dead false
  | wl_lockfail dead n : p_fail pl n = true -> wl [ev_lock_failed] dead false
  | wl_dead body : forallb nolock_ev body = true -> wl (body ++ [ev_lock_ok]) true true
  | wl_unlocked body dead : forallb nolock_ev body = true -> wl (ev_unlock None :: body ++ [ev_lock_ok]) dead false
  | wl_unlockfail body dead n : forallb nolock_ev body = true -> p_fail pl n = true ->
      wl (ev_unlock (Some EInjected) :: body ++ [ev_lock_ok]) dead true.

  Lemma wl_alive mid l d : wl mid false l -> wl mid d l.
  Proof. intros H. inversion H; subst; econstructor; eauto. Qed.

  (** [P] is what the events outside the bracket satisfy *)
  Definition hshape (P : logev -> bool) (new : list logev) (dead locked : bool) : Prop :=
    exists post mid pre, new = post ++ mid ++ pre /\ forallb P post = true /\ forallb P pre = true /\
                         wl mid dead locked.
  Definition HS {A} (P : logev -> bool) (m : M A) : Prop :=
    forall w, w_locked w = false ->
      exists new, w_log (snd (m w)) = new ++ w_log w /\
                  hshape P new (is_dead (fst (m w))) (w_locked (snd (m w))).

  Lemma HS_weaken {A} (P Q : logev -> bool) (m : M A) :
    (forall e, P e = true -> Q e = true) -> HS P m -> HS Q m.
  Proof.
    intros HPQ Hm w Hw. destruct (Hm w Hw) as (new & E & post & mid & pre & En & F1 & F2 & HW).
    exists new. split; [exact E|]. exists post, mid, pre.
    split; [exact En|]. split; [|split; [|exact HW]]; rewrite forallb_forall in *; auto.
  Qed.
  Lemma HS_of_seg {A} P (m : M A) : seg P m -> HS P m.
  Proof.
    intros Hm w Hw. destruct (Hm w) as (new & E & F & L). exists new. split; [exact E|].
    exists [], [], new. rewrite L, Hw. repeat split; auto. constructor.
  Qed.
  Lemma HS_pre {A B} P (m : M A) (f : A -> M B) : seg P m -> (forall a, HS P (f a)) -> HS P (bind m f).
  Proof.
    intros Hm Hf w Hw. unfold bind. destruct (Hm w) as (n1 & E1 & F1 & L1).
    destruct (m w) as [[a|e|] w1]; cbn [fst snd] in *.
    - assert (Hw1 : w_locked w1 = false) by congruence.
      destruct (Hf a w1 Hw1) as (n2 & E2 & post & mid & pre & En & G1 & G2 & HW).
      exists (n2 ++ n1). rewrite E2, E1, app_assoc. split; [reflexivity|].
      exists post, mid, (pre ++ n1). subst n2. rewrite <- !app_assoc. split; [reflexivity|].
      rewrite forallb_app, G2, F1. auto.
    - exists n1. split; [exact E1|]. exists [], [], n1. rewrite L1, Hw. repeat split; auto. constructor.
    - exists n1. split; [exact E1|]. exists [], [], n1. rewrite L1, Hw. repeat split; auto. constructor.
  Qed.
  Lemma HS_post {A B} P (m : M A) (f : A -> M B) : HS P m -> (forall a, seg P (f a)) -> HS P (bind m f).
  Proof.
    intros Hm Hf w Hw. unfold bind. destruct (Hm w Hw) as (n1 & E1 & post & mid & pre & En & G1 & G2 & HW).
    destruct (m w) as [[a|e|] w1]; cbn [fst snd is_dead] in *;
      try solve [exists n1; split; [exact E1|]; exists post, mid, pre; auto].
    destruct (Hf a w1) as (n2 & E2 & F2 & L2). exists (n2 ++ n1). rewrite E2, E1, app_assoc.
    split; [reflexivity|]. exists (n2 ++ post), mid, pre. subst n1. rewrite <- !app_assoc.
    split; [reflexivity|]. rewrite forallb_app, F2, G1, L2. repeat split; auto. apply wl_alive, HW.
  Qed.
  Lemma HS_catch {A} P (m : M A) : HS P m -> HS P (catch m).
  Proof.
    intros Hm w Hw. unfold catch. destruct (Hm w Hw) as (n1 & E1 & HH).
    destruct (m w) as [[a|e|] w1]; cbn [fst snd is_dead] in *; exists n1; auto.
  Qed.
  Lemma HS_map_res {A B} P (m : M A) (g : A -> B) : HS P m -> HS P (x <- m ;; ret (g x)).
  Proof. intros Hm. apply HS_post; [exact Hm | intros; apply seg_ret]. Qed.

  (** the bracket itself *)
  Lemma lock_run w : w_locked w = false ->
    lock pl w =
    (if crash_at pl (w_cnt w) then Dead else if p_fail pl (w_cnt w) then Fail EInjected else Ok tt,
     World (if p_fail pl (w_cnt w) then w_core w else set_locked (w_core w) true) (S (w_cnt w))
           ((if p_fail pl (w_cnt w) then ev_lock_failed else ev_lock_ok) :: w_log w)).
  Proof.
    unfold w_locked. intros Hw. unfold lock, prim. rewrite Hw.
    destruct (p_fail pl (w_cnt w)); destruct (crash_at pl (w_cnt w)); reflexivity.
  Qed.
  Lemma unlock_run w :
    unlock pl w =
    (if crash_at pl (w_cnt w) then Dead else if p_fail pl (w_cnt w) then Fail EInjected else Ok tt,
     World (if p_fail pl (w_cnt w) then w_core w else set_locked (w_core w) false) (S (w_cnt w))
           (ev_unlock (if p_fail pl (w_cnt w) then Some EInjected else None) :: w_log w)).
  Proof.
    unfold unlock, prim.
    destruct (p_fail pl (w_cnt w)); destruct (crash_at pl (w_cnt w)); reflexivity.
  Qed.

  (** the deferred Unlock and the return of the body's result *)
  Lemma unlock_tail {A} (x : A + err) w2 nb w :
    w_log w2 = nb ++ ev_lock_ok :: w_log w -> forallb nolock_ev nb = true -> w_locked w2 = true ->
    let m := (_ <- catch (unlock pl) ;; match x with inl a => ret a | inr e => fail e end) in
    exists new, w_log (snd (m w2)) = new ++ w_log w /\
                wl new (is_dead (fst (m w2))) (w_locked (snd (m w2))).
  Proof.
    intros Eb Fb L2 m. unfold m. rewrite bind_run. unfold catch. rewrite unlock_run.
    set (n2 := w_cnt w2). destruct (p_fail pl n2) eqn:EF2.
    - exists (ev_unlock (Some EInjected) :: nb ++ [ev_lock_ok]).
      destruct (crash_at pl n2); [|destruct x]; cbn [fst snd w_log w_core is_dead ret fail];
        (split; [rewrite Eb; cbn; rewrite <- app_assoc; reflexivity|]);
        unfold w_locked in *; cbn [w_core]; rewrite L2; econstructor; eauto.
    - exists (ev_unlock None :: nb ++ [ev_lock_ok]).
      destruct (crash_at pl n2); [|destruct x]; cbn [fst snd w_log w_core is_dead ret fail];
        (split; [rewrite Eb; cbn; rewrite <- app_assoc; reflexivity|]);
        unfold w_locked; cbn [w_core set_locked k_locked]; constructor; auto.
  Qed.

  Lemma HS_with_lock {A} P (body : M A) : seg nolock_ev body -> HS P (with_lock pl body).
  Proof.
    intros HB w Hw. unfold with_lock. rewrite bind_run, (lock_run w Hw).
    set (n := w_cnt w).
    assert (Hmid : forall new d l, wl new d l -> hshape P new d l).
    { intros new d l H. exists [], new, []. rewrite app_nil_r. repeat split; auto. }
    destruct (crash_at pl n) eqn:EC.
    - (* died at the Lock call: taken unless the call was failed *)
      destruct (p_fail pl n) eqn:EF.
      + exists [ev_lock_failed]. cbn [fst snd w_log w_core is_dead]. split; [reflexivity|].
        apply Hmid. unfold w_locked in *. cbn [w_core]. rewrite Hw. econstructor; exact EF.
      + exists [ev_lock_ok]. cbn [fst snd w_log w_core is_dead]. split; [reflexivity|].
        apply Hmid. unfold w_locked. cbn [w_core set_locked k_locked].
        apply (wl_dead []). reflexivity.
    - destruct (p_fail pl n) eqn:EF.
      + exists [ev_lock_failed]. cbn [fst snd w_log w_core is_dead]. split; [reflexivity|].
        apply Hmid. unfold w_locked in *. cbn [w_core]. rewrite Hw. econstructor; exact EF.
      + set (w1 := World (set_locked (w_core w) true) (S n) (ev_lock_ok :: w_log w)).
        rewrite bind_run.
        assert (Hc : catch body w1 = match body w1 with
                                     | (Ok a, w') => (Ok (inl a), w')
                                     | (Fail e, w') => (Ok (inr e), w')
                                     | (Dead, w') => (Dead, w')
                                     end) by reflexivity.
        rewrite Hc. clear Hc. destruct (HB w1) as (nb & Eb & Fb & Lb).
        assert (L1 : w_locked w1 = true) by reflexivity.
        destruct (body w1) as [[a|e|] w2]; cbn [fst snd] in *.
        * destruct (unlock_tail (inl a) w2 nb w Eb Fb ltac:(congruence)) as (new & E & HW).
          exists new. split; [exact E | apply Hmid, HW].
        * destruct (unlock_tail (@inr A _ e) w2 nb w Eb Fb ltac:(congruence)) as (new & E & HW).
          exists new. split; [exact E | apply Hmid, HW].
        * (* died inside the body: no deferred unlock *)
          exists (nb ++ [ev_lock_ok]). cbn [is_dead]. split; [rewrite Eb; cbn; rewrite <- app_assoc; reflexivity|].
          apply Hmid. rewrite Lb, L1. constructor. exact Fb.
  Qed.

  (** ** obtain / renew / manage *)
  Lemma HS_obtain cfg sp orc : HS quiet_ev (obtain pl cfg sp orc).
  Proof.
    unfold obtain. apply HS_pre; [apply seg_has_any|]. intros pre.
    destruct pre; [apply HS_of_seg, seg_ret|].
    apply HS_pre; [apply seg_check_storage|]. intros _.
    apply HS_with_lock, seg_obtain_body.
  Qed.
  Lemma HS_renew cfg sp orc f : HS quiet_ev (renew pl cfg sp orc f).
  Proof.
    unfold renew. apply HS_pre; [apply seg_check_storage|]. intros _.
    apply HS_with_lock, seg_renew_body.
  Qed.
  Lemma HS_then_load {A} P (m : M A) cfg d : (forall e, quiet_ev e = true -> P e = true) ->
    HS P m -> HS P (m ;;; load_managed pl cfg d).
  Proof. intros HP H. apply HS_post; [exact H|]. intros _. eapply seg_weaken; [exact HP | apply seg_load_managed]. Qed.

  (** manage, revocations or not: outside the bracket there is no lock call (but, with a pending
      key-compromise revocation, the quarantine's Store / Delete) *)
  Lemma HS_manage_any cfg sp orc : HS nolock_ev (manage pl cfg sp orc).
  Proof.
    unfold manage. apply HS_pre; [apply seg_catch; q2n; apply seg_load_managed|]. intros [mc|e].
    - destruct (negb (is_expired (m_c mc)) && _).
      + unfold force_renew. apply HS_then_load; [apply quiet_nolock|].
        destruct (m_rev mc) as [[|]|].
        * apply HS_pre; [apply seg_catch, seg_move_compromised|]. intros _.
          eapply HS_weaken; [apply quiet_nolock | apply HS_obtain].
        * eapply HS_weaken; [apply quiet_nolock | apply HS_renew].
        * eapply HS_weaken; [apply quiet_nolock | apply HS_renew].
      + destruct (is_due (m_c mc)); [|apply HS_of_seg, seg_ret].
        apply HS_then_load; [apply quiet_nolock|]. eapply HS_weaken; [apply quiet_nolock | apply HS_renew].
    - destruct e; try (apply HS_of_seg, seg_fail).
      apply HS_then_load; [apply quiet_nolock|]. eapply HS_weaken; [apply quiet_nolock | apply HS_obtain].
  Qed.

  (** without pending revocations: every write to a certificate file is inside the bracket *)
  Lemma manage_bracket cfg sp orc w :
    k_ocsp (w_core w) = [] -> w_locked w = false ->
    exists new, w_log (snd (manage pl cfg sp orc w)) = new ++ w_log w /\
                hshape quiet_ev new (is_dead (fst (manage pl cfg sp orc w))) (w_locked (snd (manage pl cfg sp orc w))).
  Proof.
    intros HO Hw. unfold manage. rewrite bind_run. unfold catch.
    generalize (seg_load_managed pl cfg (s_load sp) w), (ro_load_managed pl cfg (s_load sp) w),
               (load_managed_rev_none pl cfg (s_load sp) w).
    destruct (load_managed pl cfg (s_load sp) w) as [[mc|e|] w1]; cbn [fst snd]; intros (n1 & E1 & F1 & L1) HR HRev.
    - rewrite (HRev mc HO eq_refl). rewrite andb_false_r.
      assert (Hw1 : w_locked w1 = false) by congruence.
      destruct (is_due (m_c mc)).
      + destruct (HS_then_load quiet_ev (renew pl cfg sp orc false) cfg (s_save sp) (fun e H => H) (HS_renew cfg sp orc false) w1 Hw1)
          as (n2 & E2 & post & mid & pre & En & G1 & G2 & HW).
        exists (n2 ++ n1). rewrite E2, E1, app_assoc. split; [reflexivity|].
        exists post, mid, (pre ++ n1). subst n2. rewrite <- !app_assoc. split; [reflexivity|].
        rewrite forallb_app, G2, F1. auto.
      + exists n1. cbn [ret fst snd is_dead]. split; [exact E1|]. exists [], [], n1. rewrite L1, Hw.
        repeat split; auto. constructor.
    - assert (Hw1 : w_locked w1 = false) by congruence.
      destruct e; try (exists n1; cbn [fail fst snd is_dead]; split; [exact E1|]; exists [], [], n1; rewrite L1, Hw;
                       repeat split; auto; constructor).
      destruct (HS_then_load quiet_ev (obtain pl cfg sp orc) cfg (s_load sp) (fun e H => H) (HS_obtain cfg sp orc) w1 Hw1)
        as (n2 & E2 & post & mid & pre & En & G1 & G2 & HW).
      exists (n2 ++ n1). rewrite E2, E1, app_assoc. split; [reflexivity|].
      exists post, mid, (pre ++ n1). subst n2. rewrite <- !app_assoc. split; [reflexivity|].
      rewrite forallb_app, G2, F1. auto.
    - exists n1. cbn [is_dead]. split; [exact E1|]. exists [], [], n1. rewrite L1, Hw.
      repeat split; auto. constructor.
  Qed.

  Lemma HS_run_hop_any cfg sp orc h : is_op7 h = true -> HS nolock_ev (run_hop pl cfg sp orc h).
  Proof.
    intros Hop. destruct h as [|f| |i kc|]; try discriminate; cbn [run_hop].
    - apply HS_post; [eapply HS_weaken; [apply quiet_nolock | apply HS_obtain] | intros; apply seg_ret].
    - apply HS_post; [eapply HS_weaken; [apply quiet_nolock | apply HS_renew] | intros; apply seg_ret].
    - apply HS_post; [apply HS_manage_any | intros; apply seg_ret].
  Qed.

  Lemma run_hop_bracket cfg sp orc h w :
    is_op7 h = true -> k_ocsp (w_core w) = [] -> w_locked w = false ->
    exists new, w_log (snd (run_hop pl cfg sp orc h w)) = new ++ w_log w /\
                hshape quiet_ev new (is_dead (fst (run_hop pl cfg sp orc h w))) (w_locked (snd (run_hop pl cfg sp orc h w))).
  Proof.
    intros Hop HO Hw. destruct h as [|f| |i kc|]; try discriminate; cbn [run_hop].
    - apply (HS_post quiet_ev (obtain pl cfg sp orc)); [apply HS_obtain | intros; apply seg_ret | exact Hw].
    - apply (HS_post quiet_ev (renew pl cfg sp orc f)); [apply HS_renew | intros; apply seg_ret | exact Hw].
    - rewrite bind_run. destruct (manage_bracket cfg sp orc w HO Hw) as (new & E & HH).
      destruct (manage pl cfg sp orc w) as [[mc|e|] w1]; cbn [fst snd is_dead ret] in *; exists new; auto.
  Qed.
End Shape.

(** * consequences for the lock bit *)

(** the lock is held afterwards only if the operation took it ([Lock ok] is in the new segment) and
    either died before its deferred Unlock or had that Unlock failed by the plan *)
Lemma hshape_locked pl P new dead :
  hshape pl P new dead true ->
  In ev_lock_ok new /\
  (dead = true \/ exists n, p_fail pl n = true /\ In (ev_unlock (Some EInjected)) new).
Proof.
  intros (post & mid & pre & -> & _ & _ & HW). inversion HW; subst.
  - split; [apply in_or_app; right; apply in_or_app; left; apply in_or_app; right; left; reflexivity|].
    left; reflexivity.
  - split; [apply in_or_app; right; apply in_or_app; left; right; apply in_or_app; right; left; reflexivity|].
    right. exists n. split; [assumption|]. apply in_or_app; right; apply in_or_app; left; left; reflexivity.
Qed.

(** what a lock bracket in the middle looks like when every event outside satisfies [P] and [P]
    excludes lock calls: the number of lock calls in the whole segment is at most two *)
Definition lock_calls (l : list logev) : list logev := filter is_lockop l.
Lemma lock_calls_app a b : lock_calls (a ++ b) = lock_calls a ++ lock_calls b.
Proof. apply filter_app. Qed.
Lemma lock_calls_none P l : (forall e, P e = true -> nolock_ev e = true) -> forallb P l = true -> lock_calls l = [].
Proof.
  intros HP. induction l as [|e r IH]; cbn; [reflexivity|]. intros H. apply andb_true_iff in H. destruct H as [H1 H2].
  apply HP in H1. unfold nolock_ev in H1. apply negb_true_iff in H1. rewrite H1. auto.
Qed.

(** the projection of the new segment onto lock calls, newest first: one of five words *)
Lemma hshape_lock_calls pl P new dead locked :
  (forall e, P e = true -> nolock_ev e = true) -> hshape pl P new dead locked ->
  (lock_calls new = [] /\ locked = false) \/
  (lock_calls new = [ev_lock_failed] /\ locked = false) \/
  (lock_calls new = [ev_lock_ok] /\ locked = true /\ dead = true) \/
  (lock_calls new = [ev_unlock None; ev_lock_ok] /\ locked = false) \/
  (lock_calls new = [ev_unlock (Some EInjected); ev_lock_ok] /\ locked = true).
Proof.
  intros HP (post & mid & pre & -> & F1 & F2 & HW).
  rewrite !lock_calls_app, (lock_calls_none P post HP F1), (lock_calls_none P pre HP F2), app_nil_r. cbn [app].
  inversion HW; subst; cbn [lock_calls filter is_lockop ev_lock_failed ev_unlock]; auto.
  - right; right; left. rewrite lock_calls_app, (lock_calls_none nolock_ev body (fun e H => H)) by assumption. auto.
  - right; right; right; left. fold (lock_calls (body ++ [ev_lock_ok])).
    rewrite lock_calls_app, (lock_calls_none nolock_ev body (fun e H => H)) by assumption. auto.
  - right; right; right; right. fold (lock_calls (body ++ [ev_lock_ok])).
    rewrite lock_calls_app, (lock_calls_none nolock_ev body (fun e H => H)) by assumption. auto.
Qed.

(** ** item 1 of the composition: the Bundle-level counterpart of C09_locks_released, every plan.
    After a run that did NOT die the lock is free unless the plan failed the deferred Unlock call
    (the class C09 excludes by [unlock_ok_for]); after a run that died the lock is either free or
    held by exactly this operation's own [with_lock] bracket. *)
Theorem bundle_lock_after pl cfg sp orc h w0 :
  is_op7 h = true -> w_locked w0 = false ->
  let r := run_hop pl cfg sp orc h w0 in
  exists new, w_log (snd r) = new ++ w_log w0 /\
    ((lock_calls new = [] /\ w_locked (snd r) = false) \/
     (lock_calls new = [ev_lock_failed] /\ w_locked (snd r) = false) \/
     (lock_calls new = [ev_lock_ok] /\ w_locked (snd r) = true /\ fst r = Dead) \/
     (lock_calls new = [ev_unlock None; ev_lock_ok] /\ w_locked (snd r) = false) \/
     (lock_calls new = [ev_unlock (Some EInjected); ev_lock_ok] /\ w_locked (snd r) = true /\
      exists n, p_fail pl n = true)).
Proof.
  intros Hop Hw r. destruct (HS_run_hop_any pl cfg sp orc h Hop w0 Hw) as (new & E & HH). fold r in E, HH.
  exists new. split; [exact E|].
  destruct (hshape_lock_calls pl nolock_ev new _ _ (fun e H => H) HH) as [H|[H|[(H1 & H2 & H3)|[H|(H1 & H2)]]]]; auto.
  - right; right; left. repeat split; auto. destruct (fst r); try discriminate; reflexivity.
  - right; right; right; right. repeat split; auto.
    rewrite H2 in HH. destruct (hshape_locked _ _ _ _ HH) as (_ & [Hd|(n & Hn & _)]); [|eauto].
    destruct HH as (post & mid & pre & -> & F1 & F2 & HW).
    rewrite !lock_calls_app, (lock_calls_none nolock_ev post (fun e H => H) F1),
      (lock_calls_none nolock_ev pre (fun e H => H) F2), app_nil_r in H1. cbn [app] in H1.
    inversion HW; subst; eauto.
    exfalso. rewrite lock_calls_app, (lock_calls_none nolock_ev body (fun e H => H)) in H1 by assumption. discriminate.
Qed.

Corollary bundle_locks_released pl cfg sp orc h w0 :
  is_op7 h = true -> w_locked w0 = false ->
  fst (run_hop pl cfg sp orc h w0) <> Dead ->
  ~ In (ev_unlock (Some EInjected)) (w_log (snd (run_hop pl cfg sp orc h w0))) ->
  w_locked (snd (run_hop pl cfg sp orc h w0)) = false.
Proof.
  intros Hop Hw HD HU. destruct (HS_run_hop_any pl cfg sp orc h Hop w0 Hw) as (new & E & HH).
  destruct (w_locked (snd (run_hop pl cfg sp orc h w0))) eqn:EL; [exfalso|reflexivity].
  destruct (hshape_locked _ _ _ _ HH) as (_ & [Hd|(n & _ & Hi)]).
  - destruct (fst (run_hop pl cfg sp orc h w0)); try discriminate. apply HD; reflexivity.
  - apply HU. rewrite E. apply in_or_app; left; exact Hi.
Qed.

(** plans that only kill (no failing call): a run that returns leaves no lock *)
Lemma HS_unlocked_crash_only {A} pl P (m : M A) w :
  HS pl P m -> (forall n, p_fail pl n = false) -> w_locked w = false ->
  fst (m w) <> Dead -> w_locked (snd (m w)) = false.
Proof.
  intros Hm HF Hw HD. destruct (Hm w Hw) as (new & E & HH).
  destruct (w_locked (snd (m w))) eqn:EL; [exfalso|reflexivity].
  destruct (hshape_locked _ _ _ _ HH) as (_ & [Hd|(n & Hn & _)]).
  - destruct (fst (m w)); try discriminate. apply HD; reflexivity.
  - rewrite HF in Hn. discriminate.
Qed.
Corollary bundle_locks_released_crash_only pl cfg sp orc h w0 :
  is_op7 h = true -> w_locked w0 = false -> (forall n, p_fail pl n = false) ->
  fst (run_hop pl cfg sp orc h w0) <> Dead ->
  w_locked (snd (run_hop pl cfg sp orc h w0)) = false.
Proof. intros Hop Hw HF HD. apply (HS_unlocked_crash_only pl nolock_ev); auto. apply HS_run_hop_any, Hop. Qed.

(** the fault-free manage of the recovering instance gives the lock back when it returns *)
Corollary manage_no_faults_unlocked cfg sp orc w :
  w_locked w = false -> fst (manage no_faults cfg sp orc w) <> Dead ->
  w_locked (snd (manage no_faults cfg sp orc w)) = false.
Proof. intros Hw HD. apply (HS_unlocked_crash_only no_faults nolock_ev); auto. apply HS_manage_any. Qed.
