(** System / LockEvent — what one thread step of the Issuance LTS does to its lock table,
    read off the step's event: the abstract Locker built into [Issuance.Model.tstep] is
    [LockRefine.lk_step] at the thread's lock key. *)
From Coq Require Import List Bool Arith Lia.
From CM Require Import System.LockRefine.
From CM Require Import Issuance.Model Issuance.Proofs.
Import ListNotations.
Open Scope nat_scope.

(** * What one thread step does to the lock table, by its event

    The abstract Locker inside [Issuance.Model.tstep] is [LockRefine.lk_step] at the thread's
    lock key: the only events that change the lock table are the successful acquisition and
    the successful release. *)
Lemma tstep_lock_event t th s f b th' s' e :
  tstep t th s f b = Some (th', s', e) ->
  e_tid e = t /\
  match e_op e, e_out e with
  | OAcq k, 0 => k = c_lk (cfg th) /\ tpc th = PLockWait /\ lks s k = None /\ lks s' = lput (lks s) k (Some t)
  | OUnlock k, 0 => k = c_lk (cfg th) /\ lks s k = Some t /\ lks s' = lput (lks s) k None
  | OAcq k, _ => k = c_lk (cfg th) /\ lks s' = lks s
  | OLock k, _ => k = c_lk (cfg th) /\ lks s' = lks s
  | _, _ => lks s' = lks s
  end.
Proof.
  intros H. tstep_start H th.
  all: tstep_full H. all: inv_some H. all: cbn [e_tid e_op e_out]; split; [reflexivity|].
  all: cbn [cfg tpc lks with_lks sh]; auto.
  all: try (match goal with E : Nat.eqb _ _ = true |- _ => apply Nat.eqb_eq in E; subst end); auto.
Qed.

Corollary tstep_is_lk_step t th s f b th' s' e :
  tstep t th s f b = Some (th', s', e) ->
  match e_op e, e_out e with
  | OAcq k, 0 => lk_step (lks s k) (LAcq t) = Some (lks s' k) /\ forall j, j <> k -> lks s' j = lks s j
  | OUnlock k, 0 => lk_step (lks s k) (LRel t) = Some (lks s' k) /\ forall j, j <> k -> lks s' j = lks s j
  | _, _ => forall j, lks s' j = lks s j
  end.
Proof.
  intros H. destruct (tstep_lock_event _ _ _ _ _ _ _ _ H) as [_ Hev].
  destruct (e_op e); try (intros j; rewrite Hev; reflexivity);
    try (destruct (e_out e); intros j; destruct Hev as [_ Hev]; rewrite Hev; reflexivity).
  - destruct (e_out e) as [|n].
    + destruct Hev as (_ & _ & Hn & Hl). rewrite Hl, Hn. cbn. rewrite lput_eq. split; [reflexivity|].
      intros j Hj. apply lput_neq. auto.
    + intros j. destruct Hev as [_ Hev]. rewrite Hev. reflexivity.
  - destruct (e_out e) as [|n].
    + destruct Hev as (_ & Hn & Hl). rewrite Hl, Hn. cbn. rewrite Nat.eqb_refl, lput_eq. split; [reflexivity|].
      intros j Hj. apply lput_neq. auto.
    + intros j. rewrite Hev. reflexivity.
Qed.


(** program counters from which the request's Lock call is still ahead *)
Definition prelock (p : pc) : bool :=
  match p with
  | PPre _ | PChkS | PChkL | PChkD _ | PLockCall | PMLd Ph0 _ | PMOcsp Ph0 | PMEmit Ph0 | PQLd false _ => true
  | _ => false
  end.

Lemma tstep_prelock t th s f b th' s' e :
  tstep t th s f b = Some (th', s', e) ->
  (prelock (tpc th') = true -> prelock (tpc th) = true) /\
  match e_op e, e_out e with
  | OLock _, 0 => tpc th = PLockCall /\ tpc th' = PLockWait
  | OAcq _, _ => tpc th = PLockWait
  | OUnlock _, _ => prelock (tpc th) = false
  | _, _ => True
  end.
Proof.
  intros H. tstep_start H th.
  all: tstep_full H. all: inv_some H. all: cbn [e_op e_out tpc prelock]; split; auto; try discriminate; eauto.
Qed.

